(* C01 - dataset write / close / reopen / read: chunk tiling and element round trips (unit level).
   Model: Model/Chunk.v, Model/Elem.v.  Lemmas: Proofs/Chunk*.v, Proofs/Elem.v.
   Non-vacuity examples: Proofs/ChunkExamples.v. *)
From HV Require Import Base.Prelude Model.Chunk Model.Elem
  Proofs.ChunkLists Proofs.ChunkSpec Proofs.ChunkCoords Proofs.ChunkTiling Proofs.Elem Proofs.ChunkExamples.
From HV Require Import Model.ChunkIndex Proofs.ChunkIndex Proofs.ChunkEndToEnd.
From Coq Require Import Permutation.

(* every rank >= 1, every positive extents / chunk extents (larger, equal, non-dividing), every
   element size: the reader's placement of all chunks the writer emits rebuilds the data *)
Theorem C01_chunk_tiling : forall dims cdims esz data,
  shape_ok dims cdims esz -> lenN data = vol dims esz ->
  read_chunked dims cdims esz (write_chunks dims cdims esz data) = Ok data.
Proof. exact chunk_tiling. Qed.
Print Assumptions C01_chunk_tiling.

(* the chunk index may present the chunks in any order *)
Theorem C01_order_irrelevant : forall dims cdims esz data chunks,
  shape_ok dims cdims esz -> lenN data = vol dims esz ->
  Permutation chunks (write_chunks dims cdims esz data) ->
  read_chunked dims cdims esz chunks = read_chunked dims cdims esz (write_chunks dims cdims esz data).
Proof. exact chunk_order_irrelevant. Qed.
Print Assumptions C01_order_irrelevant.

(* the loop over linear chunk indices visits every chunk coordinate exactly once, row-major *)
Theorem C01_chunk_enumeration : forall dims cdims,
  Forall (fun x => 0 < x) dims -> Forall (fun x => 0 < x) cdims ->
  all_chunk_coords dims cdims = coords_of (num_chunks dims cdims).
Proof. exact all_chunk_coords_enum. Qed.
Print Assumptions C01_chunk_enumeration.

(* integers of either signedness, every width: the reader (using the recorded sign bit) recovers
   the written value *)
Theorem C01_int_roundtrip : forall w signed v,
  (0 < w)%nat -> in_range w signed v -> dec_int w signed (enc_int w v) = v.
Proof. exact int_roundtrip. Qed.
Print Assumptions C01_int_roundtrip.

(* in particular unsigned values with the top bit set are not read as negative *)
Theorem C01_unsigned_nonneg : forall w v,
  (0 < w)%nat -> in_range w false v -> (0 <= dec_int w false (enc_int w v))%Z.
Proof. exact unsigned_nonneg. Qed.
Print Assumptions C01_unsigned_nonneg.

Theorem C01_float64_bits : forall bits, bits < 2 ^ 64 -> to_f64_f64 (enc_f64 bits) = bits.
Proof. exact f64_roundtrip. Qed.
Print Assumptions C01_float64_bits.

(* fixed strings: what was written, cut to the size and at the first NUL *)
Theorem C01_string_roundtrip : forall n s, dec_string n (enc_string n s) = until_nul (firstn n s).
Proof. exact string_roundtrip. Qed.
Print Assumptions C01_string_roundtrip.

(* the reader's int -> float64 widening (f64_of_Z, tied to the Go conversion on bit patterns) is exact
   for 0 < |z| < 2^53: sign, significand m = |z| * 2^(52 - log2 |z|) and exponent e = log2 |z| - 52,
   i.e. (-1)^s * m * 2^e = z *)
Theorem C01_widen_exact : forall z, (0 < Z.abs z < 2 ^ 53)%Z ->
  f64_fields (f64_of_Z z)
  = ((z <? 0)%Z, Z.to_N (Z.abs z) * 2 ^ (52 - N.log2 (Z.to_N (Z.abs z))),
     (Z.of_N (N.log2 (Z.to_N (Z.abs z))) - 52)%Z).
Proof. exact f64_of_Z_exact. Qed.
Print Assumptions C01_widen_exact.

(* ---- the chunk index (version 1 B-tree, node type 1) between the chunk writer and the chunk reader:
   Model/ChunkIndex.v, Proofs/ChunkIndex.v ---- *)

(* The theorems below are about the code since /repo 18c9d53 (switch rep = true; tools/props/c01unit.py checks the
   source tree under test for the repaired forms and evaluates the model with the matching switch); the two _refuted
   theorems are about the code before it (rep = false) and document what the repair bought.

   every rank, every number of entries from 1 to MaxChunkBTreeEntries = 65535, every offsets/addresses/sizes that fit
   their fields (index_wf: exactly input well-formedness - non-empty, fields in range, coordinates pairwise
   different, chunk extents positive and of the same rank, node below 2^63): the reader (ParseBTreeV1Node +
   CollectAllChunks on the bytes WriteToFile produced) returns exactly the written entries, each once, in the
   writer's sort order, offsets divided by the chunk extents, filter mask 0; never Panic / out of fuel *)
Theorem C01_index_roundtrip : forall cdims es f eof,
  index_wf cdims es eof = true -> N.of_nat (length es) <= MAX_ENTRIES ->
  exists f',
    write_index true (length cdims) es f eof = Outcome.Ok (f', eof + Bytes.blen (serialize_leaf (length cdims) es), eof) /\
    read_index true f' eof 8 cdims = COk (map (expected_entry cdims) (sort_entries es)).
Proof. exact index_roundtrip. Qed.
Print Assumptions C01_index_roundtrip.

(* more than 65535 entries (ANY such list): WriteToFile refuses, and the state after the call - file bytes and the
   allocator's end of file - is the state before it: nothing allocated, nothing written *)
Theorem C01_index_refused_unchanged : forall dim es f eof,
  MAX_ENTRIES < N.of_nat (length es) ->
  write_index_st true dim es f eof = (f, eof, Outcome.Err).
Proof. exact index_refused_unchanged. Qed.
Print Assumptions C01_index_refused_unchanged.

(* the two together: on well-formed input of every length the pair is total - round trip, or refusal without effect *)
Theorem C01_index_total : forall cdims es f eof,
  index_wf cdims es eof = true ->
  (N.of_nat (length es) <= MAX_ENTRIES /\
   exists f',
     write_index_st true (length cdims) es f eof
       = (f', eof + Bytes.blen (serialize_leaf (length cdims) es), Outcome.Ok eof) /\
     read_index true f' eof 8 cdims = COk (map (expected_entry cdims) (sort_entries es)))
  \/
  (MAX_ENTRIES < N.of_nat (length es) /\ write_index_st true (length cdims) es f eof = (f, eof, Outcome.Err)).
Proof. exact index_total. Qed.
Print Assumptions C01_index_total.

(* a dataset with more than 65535 chunks: writeChunkedData refuses before the first chunk is allocated or written *)
Theorem C01_chunked_write_refused_unchanged : forall dims cdims esz data f eof,
  MAX_ENTRIES < total_chunks (num_chunks dims cdims) ->
  write_chunked_file_st true dims cdims esz data f eof = (f, eof, Outcome.Err).
Proof. exact chunked_write_refused_unchanged. Qed.
Print Assumptions C01_chunked_write_refused_unchanged.

(* ... and the sort is a permutation: every written entry appears exactly once, nothing else appears *)
Theorem C01_index_sort_permutation : forall es, Permutation (sort_entries es) es.
Proof. exact sort_entries_perm. Qed.
Print Assumptions C01_index_sort_permutation.

(* BEFORE 18c9d53 (rep = false), 65535 entries: WriteToFile succeeds, the reader panics (len(Keys) = uint16(65535 + 1) = 0) *)
Theorem C01_index_roundtrip_refuted_65535 : forall cdims es f eof,
  all_pos cdims = true -> Forall (fun e => entry_ok (length cdims) e = true) es ->
  N.of_nat (length es) = 65535 ->
  eof + Bytes.blen (serialize_leaf (length cdims) es) <= MAXINT64 ->
  exists f' eof',
    write_index false (length cdims) es f eof = Outcome.Ok (f', eof', eof) /\
    read_index false f' eof 8 cdims = CPanic.
Proof. exact index_65535_refuted. Qed.
Print Assumptions C01_index_roundtrip_refuted_65535.

(* BEFORE 18c9d53 (rep = false), 65536 entries (any multiple): WriteToFile succeeds, entries used = uint16(65536) = 0,
   the reader returns no chunk and no error *)
Theorem C01_index_roundtrip_refuted_65536 : forall cdims es f eof,
  Forall (fun e => entry_ok (length cdims) e = true) es ->
  es <> [] -> wrap16 (N.of_nat (length es)) = 0 ->
  eof + 24 <= MAXINT64 ->
  exists f' eof',
    write_index false (length cdims) es f eof = Outcome.Ok (f', eof', eof) /\
    read_index false f' eof 8 cdims = COk [] /\ map (expected_entry cdims) (sort_entries es) <> [].
Proof. exact index_count_wraps_refuted. Qed.
Print Assumptions C01_index_roundtrip_refuted_65536.

(* the reader's coordinate lookup (the chunkIndex map of the hyperslab reader; lookup_chunk): when the reader's
   key -> coordinate map (division by the chunk extents) is injective on the written keys, every written entry is
   found under its coordinate with its own address and size, and nothing is found under any other coordinate.
   The injectivity hypothesis is a well-formedness condition on the keys (offsets that are multiples of the chunk
   extents never collide: C01_index_keys_injective below); with colliding keys the Go map keeps the later entry. *)
Theorem C01_index_lookup : forall cdims es f eof,
  index_wf cdims es eof = true -> N.of_nat (length es) <= MAX_ENTRIES ->
  NoDup (map (sc_of cdims) es) ->
  exists f' chunks,
    write_index true (length cdims) es f eof = Outcome.Ok (f', eof + Bytes.blen (serialize_leaf (length cdims) es), eof) /\
    read_index true f' eof 8 cdims = COk chunks /\
    (forall e, In e es -> lookup_chunk (length cdims) chunks (sc_of cdims e) = Some (w_addr e, w_nbytes e)) /\
    (forall c, ~ In c (map (sc_of cdims) es) -> lookup_chunk (length cdims) chunks c = None).
Proof. exact index_lookup. Qed.
Print Assumptions C01_index_lookup.

(* ... and on the keys the dataset writer produces (chunk coordinate times chunk extent) that map is injective:
   different chunk coordinates are never confused *)
Theorem C01_index_keys_injective : forall cdims coords,
  posl cdims -> Forall (fun c => length c = length cdims) coords -> NoDup coords ->
  NoDup (map (fun c => scaled_of_key cdims (chunk_key cdims c)) coords).
Proof. exact grid_keys_injective. Qed.
Print Assumptions C01_index_keys_injective.

(* reader side of the composition, all ranks / grids / element sizes / data: when the index of the file reads back as
   a permutation of the written entries (C01_index_roundtrip), the written keys are the offsets of the grid
   chunks, and the file holds for every entry the padded chunk of its coordinate at the recorded address with the
   recorded size, readChunkedData returns the data (index -> chunk bytes -> placement, C01_chunk_tiling inside) *)
Theorem C01_chunked_read_composition : forall dims cdims esz data,
  shape_ok dims cdims esz -> lenN data = vol dims esz ->
  forall rep f root es,
  vol dims esz <= MAX_CHUNK * 1024 -> esz <= 4294967295 ->
  (exists S, Permutation S es /\ read_index rep f root 8 cdims = COk (map (expected_entry cdims) S)) ->
  Permutation (map w_coord es) (map (chunk_key cdims) (all_chunk_coords dims cdims)) ->
  Forall (entry_stored dims cdims esz data f) es ->
  read_chunked_file rep f root 8 dims cdims esz = COk data.
Proof. exact read_chunked_file_correct. Qed.
Print Assumptions C01_chunked_read_composition.

(* END TO END, every rank / grid / element size / data: writeChunkedData (extract every padded chunk, allocate it at
   the end of file, write it, record it; write the index) followed by readChunkedData (parse the index, read every
   chunk, place it) returns exactly the data.  Hypotheses: the shape and the data length (input well-formedness), and
   the capacity limits of the code, each exactly the bound the code enforces: at most MaxChunkBTreeEntries chunks
   (more: C01_chunked_write_refused_unchanged), one padded chunk at most utils.MaxChunkSize = 2^30 bytes (the reader
   refuses a larger chunk), the data set at most 2^40 bytes (the reader's total limit), and the file ends below 2^63
   (int64 offsets).  Filters: none (filterPipeline == nil / identity). *)
Theorem C01_chunked_end_to_end : forall dims cdims esz data f eof,
  shape_ok dims cdims esz -> lenN data = vol dims esz ->
  total_chunks (num_chunks dims cdims) <= MAX_ENTRIES ->
  vol cdims esz <= MAX_CHUNK -> vol dims esz <= MAX_CHUNK * 1024 ->
  eof + chunked_file_growth dims cdims esz <= MAXINT64 ->
  exists f' eof' root,
    write_chunked_file true dims cdims esz data f eof = Outcome.Ok (f', eof', root) /\
    read_chunked_file true f' root 8 dims cdims esz = COk data.
Proof. exact chunked_end_to_end. Qed.
Print Assumptions C01_chunked_end_to_end.
