(* C03 - the abstract namespace model (Model/GroupNS.v: per group the heap's data segment and the node's (offset, address)
   pairs) against the BYTES on disk (Model/GroupWire.v).  Theorems only; lemmas in Proofs/GroupWireHeap.v, GroupWireSnod.v.

   Abstraction: a heap object is projected to (strings, DataSegmentSize); a file that holds a heap is abstracted by what
   LoadLocalHeap returns (the data segment GroupNS keeps); a node by its entries' (LinkNameOffset, ObjectAddress).  The steps of
   GroupNS commute with it, in memory and - for the two halves of linkToParent - on the file. *)
From HV Require Import Base.Prelude Base.Outcome Base.Bytes Model.RobustAlloc Model.RobustGroup Model.GroupWire
  Proofs.GroupWireHeap Proofs.GroupWireSnod.
From HV Require Model.GroupNS.

(* ================================================================== local heap, in memory *)
Theorem C03_wire_heap_new : forall n, abs_heap (new_local_heap n) = NS.new_local_heap n.
Proof. exact abs_new. Qed.
Print Assumptions C03_wire_heap_new.

Theorem C03_wire_heap_prepare : forall data, abs_heap (prepare_for_modification data) = NS.prepare_for_modification data.
Proof. exact abs_prepare. Qed.
Print Assumptions C03_wire_heap_prepare.

Theorem C03_wire_heap_add_string : forall h s,
  omap (fun p : N * wheap => (fst p, abs_heap (snd p))) (add_string h s) = of_option (NS.add_string (abs_heap h) s).
Proof. exact abs_add_string. Qed.
Print Assumptions C03_wire_heap_add_string.

Theorem C03_wire_heap_write_to : forall h a,
  abs_heap (fst (fst (heap_write_to h a))) = fst (NS.write_to (abs_heap h)) /\
  snd (heap_write_to h a) = snd (NS.write_to (abs_heap h)).
Proof. exact abs_write_to. Qed.
Print Assumptions C03_wire_heap_write_to.

(* the byte-level GetString (also the reader model of C07) is GroupNS's get_string on ALL segments and offsets *)
Theorem C03_wire_get_string : forall (data : list N) off, get_string data off = of_option (NS.get_string data off).
Proof. exact get_string_agrees. Qed.
Print Assumptions C03_wire_get_string.

(* ================================================================== local heap, on the file *)
(* the heap createGroupStructures writes is a heap file with GroupNS's initial segment *)
Theorem C03_wire_new_heap_file : forall n pre suf,
  blen pre + 32 + NS.new_heap_size n <= MaxInt64 ->
  pre ++ heap_image (new_local_heap n) (blen pre) ++ suf = heap_file pre suf 1 (zeros (N.to_nat (NS.new_heap_size n))).
Proof. exact new_heap_image. Qed.
Print Assumptions C03_wire_new_heap_file.

(* the heap half of linkToParent (LoadLocalHeap, PrepareForModification, AddString, WriteTo at the same address) on every file
   that holds a heap with data segment [seg]: loading yields [seg]; the step fails exactly when GroupNS's add_string fails and
   then writes nothing; otherwise it returns GroupNS's offset and the new file holds GroupNS's new segment at the same place,
   same length, everything before and after the heap untouched *)
Theorem C03_wire_link_heap : forall pre suf seg nm,
  blen pre + 32 + blen seg <= MaxInt64 ->
  load_local_heap (heap_file pre suf 1 seg) (blen pre) 8 8 = Ok seg /\
  match NS.add_string (NS.prepare_for_modification seg) nm with
  | None => link_heap (heap_file pre suf 1 seg) (blen pre) nm = Err
  | Some (off, h1) =>
      blen (snd (NS.write_to h1)) = blen seg /\
      link_heap (heap_file pre suf 1 seg) (blen pre) nm = Ok (off, heap_file pre suf 1 (snd (NS.write_to h1)))
  end.
Proof. exact link_heap_commutes. Qed.
Print Assumptions C03_wire_link_heap.

(* ================================================================== symbol table node *)
Theorem C03_wire_snod_new : forall c, abs_snode (new_snode c) = NS.new_snod c.
Proof. exact abs_new_snode. Qed.
Print Assumptions C03_wire_snod_new.

Theorem C03_wire_snod_add_entry : forall s e, stn_num s = llen (stn_entries s) ->
  omap abs_snode (add_entry s e) = of_option (NS.add_entry (abs_snode s) (abs_sym e)).
Proof. exact abs_add_entry. Qed.
Print Assumptions C03_wire_snod_add_entry.

Theorem C03_wire_snod_write_at : forall s m,
  NS.snod_write_at (abs_snode s) (N.of_nat m) = map abs_sym (firstn m (stn_entries s)).
Proof. exact abs_snod_write_at. Qed.
Print Assumptions C03_wire_snod_write_at.

Theorem C03_wire_snod_parse : forall s, snode_ok s = true -> abs_snode s = NS.parse_snod 32 (map abs_sym (stn_entries s)).
Proof. exact abs_parse. Qed.
Print Assumptions C03_wire_snod_parse.

(* the node half of linkToParent (ParseSymbolTableNode, AddEntry, WriteAt(.., 32) at the same address) on every file holding a
   well-formed node of at most 32 entries: fails exactly when GroupNS's add_entry fails (32 entries), otherwise the file holds the
   node with the entry appended, the rest of the file untouched *)
Theorem C03_wire_link_snod : forall s e (pre suf : list N),
  snode_ok s = true -> sym_ok e = true -> (length (stn_entries s) <= 32)%nat -> blen pre + 8 + 40 * 32 <= MaxInt64 ->
  match NS.add_entry (NS.parse_snod 32 (map abs_sym (stn_entries s))) (abs_sym e) with
  | None => link_snod (pre ++ snod_bytes s 32 ++ suf) (blen pre) e = Err /\ length (stn_entries s) = 32%nat
  | Some n1 =>
      exists s1, snode_ok s1 = true /\ stn_entries s1 = stn_entries s ++ [e] /\ abs_snode s1 = n1 /\
        link_snod (pre ++ snod_bytes s 32 ++ suf) (blen pre) e = Ok (pre ++ snod_bytes s1 32 ++ suf)
  end.
Proof. exact link_snod_commutes. Qed.
Print Assumptions C03_wire_link_snod.
