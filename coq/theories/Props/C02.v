From HV Require Import Base.Prelude.
Theorem C02_placeholder : True. Proof. exact I. Qed.
Print Assumptions C02_placeholder.
