(* Property C02: attribute write/delete histories behave like a name -> value map.
   Statements only; the model is Model/Attr.v (transcription of attribute_write.go and the functions it calls,
   one object, handle without cached header), proofs are in Proofs/Attr*.v.

   Reading guide.
     run name_hash P init h = (st, rs)   replay history h (WriteAttribute / DeleteAttribute calls) on a fresh
                                         object; st = storage state of the object in the file, rs = answers
     read_attrs st = Some l              what Attributes() lists after Close and reopen
     run_spec [] h rs                    the map obtained by applying the SUCCESSFUL calls of h in order
     results_ok [] h rs                  the answers are the ones the map semantics demands: DeleteAttribute
                                         succeeds exactly on present names, a value the API cannot encode is
                                         refused, WriteAttribute succeeds or is refused (capacity limits:
                                         C02_write_refusals_dense and _compact)
     NoHashCollision name_hash (names h) no two distinct names used in h have the same lookup3 hash
     st <> Broken                        the fractal heap never overflowed WITHOUT the call being refused; this can
                                         only happen for p_ovf_err P = false, the tree before 5ec600b
                                         (C02_refines_map_volume: closed form, total encoded size of all written
                                         values <= p_hcap P = 65517 bytes).  For the current tree the condition is
                                         void: C02_refines_map_repaired / C02_refines_map_go
   All theorems hold for every parameter setting P with p_hcap P <= 65536 (header limit, compact threshold,
   index and heap capacities are parameters, not constants). *)
From HV Require Import Base.Prelude Model.Attr Model.AttrTie.
From HV Require Import Proofs.AttrBase Proofs.AttrStep Proofs.Attr Proofs.AttrCollision Proofs.AttrRefusal.
From Coq Require Import Permutation.

(* ---- 1. refinement of the map, names unique ---- *)
Theorem C02_refines_map : forall name_hash P, p_hcap P <= 65536 -> forall h st rs,
  NoHashCollision name_hash (names h) ->
  run name_hash P init h = (st, rs) -> st <> Broken ->
  exists l, read_attrs st = Some l /\ NoDup (map aname l) /\
            (forall n, attr_get l n = sp_get (run_spec [] h rs) n) /\
            results_ok [] h rs.
Proof. exact refines_map. Qed.
Print Assumptions C02_refines_map.

(* the same, "as a set": the listed attributes are exactly the bindings of the map *)
Theorem C02_refines_map_set : forall name_hash P, p_hcap P <= 65536 -> forall h st rs,
  NoHashCollision name_hash (names h) ->
  run name_hash P init h = (st, rs) -> st <> Broken ->
  exists l, read_attrs st = Some l /\
            forall n v, In (mkAttr n v) l <-> In (n, v) (bindings (run_spec [] h rs)).
Proof. exact refines_map_set. Qed.
Print Assumptions C02_refines_map_set.

(* side condition in closed form (for p_ovf_err = false) *)
Theorem C02_refines_map_volume : forall name_hash P h st rs,
  p_hcap P <= 65536 ->
  NoHashCollision name_hash (names h) ->
  volume h <= p_hcap P ->
  run name_hash P init h = (st, rs) ->
  exists l, read_attrs st = Some l /\ NoDup (map aname l) /\
            (forall n, attr_get l n = sp_get (run_spec [] h rs) n) /\
            results_ok [] h rs.
Proof. exact refines_map_volume. Qed.
Print Assumptions C02_refines_map_volume.

(* no side condition on the volume when a heap overflow is refused (the tree since 5ec600b) *)
Theorem C02_refines_map_repaired : forall name_hash P, p_ovf_err P = true -> forall h st rs,
  p_hcap P <= 65536 ->
  NoHashCollision name_hash (names h) ->
  run name_hash P init h = (st, rs) ->
  exists l, read_attrs st = Some l /\ NoDup (map aname l) /\
            (forall n, attr_get l n = sp_get (run_spec [] h rs) n) /\
            results_ok [] h rs.
Proof. exact refines_map_repaired. Qed.
Print Assumptions C02_refines_map_repaired.

(* ... in particular for the parameter values of the current source tree (go_params: header limit 255, threshold 8,
   371 index records, 65517 heap bytes, overflow refused since 5ec600b), any size of the object's own header messages *)
Theorem C02_refines_map_go : forall name_hash base h st rs,
  NoHashCollision name_hash (names h) ->
  run name_hash (go_params base) init h = (st, rs) ->
  exists l, read_attrs st = Some l /\ NoDup (map aname l) /\
            (forall n, attr_get l n = sp_get (run_spec [] h rs) n) /\
            results_ok [] h rs.
Proof. exact refines_map_go. Qed.
Print Assumptions C02_refines_map_go.

Theorem C02_names_unique : forall name_hash P, p_hcap P <= 65536 -> forall h st rs l,
  NoHashCollision name_hash (names h) ->
  run name_hash P init h = (st, rs) -> read_attrs st = Some l -> NoDup (map aname l).
Proof. exact names_unique. Qed.
Print Assumptions C02_names_unique.

(* ---- 2. a call that does not return success leaves the object exactly as it was (C16 for attributes);
        in particular the dense delete+insert path cannot lose the old value on an error ---- *)
Theorem C02_err_unchanged : forall name_hash P st o st' r,
  step name_hash P st o = (st', r) -> r <> ROk -> st' = st.
Proof. exact err_unchanged. Qed.
Print Assumptions C02_err_unchanged.

(* ---- 3. when and only when WriteAttribute is refused (reachable states; capacity side conditions) ---- *)
Theorem C02_write_refusals_dense : forall name_hash P, p_hcap P <= 65536 -> forall ix hp l n v st' r,
  Rep name_hash P (Dense ix hp) l -> NoDup (map aname l) ->
  (forall m, In m (map aname l) -> name_hash m = name_hash n -> m = n) ->
  write_attr name_hash P (Dense ix hp) n (Some v) = (st', r) -> r = RErr ->
  dense_refusal P (Dense ix hp) l (mkAttr n v).
Proof. exact write_refusals_dense. Qed.
Print Assumptions C02_write_refusals_dense.

Theorem C02_write_refusals_compact : forall name_hash P attrs n v st' r,
  EncAll attrs -> NoDup (map aname attrs) ->
  NoHashCollision name_hash (n :: map aname attrs) ->
  hdr_size P attrs <= p_limit P -> p_limit P <= p_maxobj P ->
  write_attr name_hash P (Compact attrs) n (Some v) = (st', r) -> r = RErr ->
  compact_refusal P attrs (mkAttr n v).
Proof. exact write_refusals_compact. Qed.
Print Assumptions C02_write_refusals_compact.

(* ---- 4. the compact -> dense transition lists the same attributes plus the new one ---- *)
Theorem C02_transition_preserves : forall name_hash P, p_hcap P <= 65536 -> forall attrs a ix hp,
  transition name_hash P attrs a = (Dense ix hp, ROk) ->
  exists l, read_attrs (Dense ix hp) = Some l /\ Permutation l (attrs ++ [a]).
Proof. exact transition_preserves. Qed.
Print Assumptions C02_transition_preserves.

(* ---- 5. the storage form is irrelevant: two settings of the thresholds (which put the attributes into
        compact / dense storage at different times) that give the same answers list the same map ---- *)
Theorem C02_storage_irrelevant : forall name_hash P1 P2 h st1 st2 rs l1 l2,
  p_hcap P1 <= 65536 -> p_hcap P2 <= 65536 ->
  NoHashCollision name_hash (names h) ->
  run name_hash P1 init h = (st1, rs) -> run name_hash P2 init h = (st2, rs) ->
  read_attrs st1 = Some l1 -> read_attrs st2 = Some l2 ->
  forall n, attr_get l1 n = attr_get l2 n.
Proof. exact storage_irrelevant. Qed.
Print Assumptions C02_storage_irrelevant.

(* ---- 6. without the no-collision hypothesis the statement is false ---- *)
Definition C02_full : Prop := full_statement lk3 (go_params 58).

Theorem C02_full_refuted : ~ C02_full.
Proof. exact full_refuted_lookup3. Qed.
Print Assumptions C02_full_refuted.

(* the witness: two names with equal lookup3 hash ("ayou", "cpxv"; found by the C14 search) *)
Theorem C02_collision_refuted :
  exists a b : bytes, a <> b /\ lk3 a = lk3 b /\
    (let h := hist_overwrite a b in
     let '(st, rs) := run lk3 (go_params 58) init h in
     rs = [ROk; ROk] /\ sp_get (run_spec [] h rs) a = Some big_value /\
     exists l, read_attrs st = Some l /\ attr_get l a = None /\ List.length l = 1%nat) /\
    (let h := hist_delete a b in
     let '(st, rs) := run lk3 (go_params 58) init h in
     rs = [ROk; ROk] /\
     snd (spec_delete (run_spec [] [OWrite a (Some big_value)] [ROk]) b) = RErr /\
     read_attrs st = Some []).
Proof. exact collision_refuted_lookup3. Qed.
Print Assumptions C02_collision_refuted.

(* and for ANY hash function under which two names (here "a", "b") collide *)
Theorem C02_collision_refuted_abstract : forall name_hash : bytes -> N,
  name_hash [97] = name_hash [98] ->
  (let h := hist_overwrite [97] [98] in
   let '(st, rs) := run name_hash (go_params 58) init h in
   rs = [ROk; ROk] /\ sp_get (run_spec [] h rs) [97] = Some big_value /\
   exists l, read_attrs st = Some l /\ attr_get l [97] = None /\ List.length l = 1%nat) /\
  (let h := hist_delete [97] [98] in
   let '(st, rs) := run name_hash (go_params 58) init h in
   rs = [ROk; ROk] /\
   snd (spec_delete (run_spec [] [OWrite [97] (Some big_value)] [ROk]) [98]) = RErr /\
   read_attrs st = Some []).
Proof. exact collision_refuted_abstract. Qed.
Print Assumptions C02_collision_refuted_abstract.
