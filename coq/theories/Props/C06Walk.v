(* C06 - the Coq whole-file specification walker (Spec/Walk.v) as the reference for the reader on reference-library files:
   theorems only; lemmas in Proofs/WalkTol.v and Proofs/Walk.v; satisfiability of the hypotheses: Proofs/RefWalkExamples.v.
   tools/props/c06walk.py compares the tree summary of the STRICT walk with what the Go reader returns. *)
From HV Require Import Base.Prelude Base.Outcome Base.Bytes Spec.Parse Spec.Walk Proofs.Walk Proofs.WalkTol.

(* (1) Monotonicity of tolerance, for ALL byte strings and fuels: what the strict walk accepts, the walk under every tolerance (in
   particular the tolerant walk) accepts with the IDENTICAL result - same extents, same tree summary, same tags.  So "the strict
   walk accepts" is a sound filter for "the file conforms to the specification as encoded in Spec/": no listed deviation of the
   writer is needed to read it, and the answer does not depend on which deviations one is prepared to tolerate. *)
Theorem C06_walk_strict_accepts_any_tolerance : forall tol fuel f r,
  walk wstrict fuel f = Ok r -> walk tol fuel f = Ok r.
Proof. exact walk_strict_any_tolerance. Qed.
Print Assumptions C06_walk_strict_accepts_any_tolerance.

Theorem C06_walk_strict_implies_tolerant_same_summary : forall fuel f r,
  walk wstrict fuel f = Ok r -> exists r', walk wtolerant fuel f = Ok r' /\ wr_tree r' = wr_tree r /\ wr_tags r' = wr_tags r.
Proof. exact walk_strict_tolerant_same_summary. Qed.
Print Assumptions C06_walk_strict_implies_tolerant_same_summary.

(* (2) The summary is a function of the file alone: two accepting runs - the strict one with any fuel, the other with any tolerance
   and any fuel - return the same result.  (That a fixed fuel suffices for every file is NOT proved; the tie runs with
   [default_fuel] and counts "fuel exhausted" as a rejection reason.) *)
Theorem C06_walk_summary_function_of_file : forall tol fuel1 fuel2 f r1 r2,
  walk wstrict fuel1 f = Ok r1 -> walk tol fuel2 f = Ok r2 -> r1 = r2.
Proof. exact walk_result_unique. Qed.
Print Assumptions C06_walk_summary_function_of_file.

(* (3) Specification decoders are monotone in the tolerance in general (t1 below t2): the datatype decoder as the recursive case.
   NOT proved here (partial): that the strict walk returns the EMPTY tag list; the tie checks it on every accepted corpus file
   (walk6_obs carries the number of tags, tools/props/c06walk.py requires 0). *)
Theorem C06_datatype_decoder_tolerance_mono_partial : forall t1 t2 pad bs r, tle t1 t2 ->
  Spec.FormatMsg.spec_dec_datatype t1 pad bs = Ok r -> Spec.FormatMsg.spec_dec_datatype t2 pad bs = Ok r.
Proof. exact datatype_tolerance_mono. Qed.
Print Assumptions C06_datatype_decoder_tolerance_mono_partial.
