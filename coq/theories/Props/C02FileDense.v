(* C02, end to end at byte level, DENSE attribute storage: the READER programs (Dataset.Attributes' api_attributes with the dense
   path p_dense = readBTreeV2HeaderRaw, readBTreeV2LeafRecords, readFractalHeapHeaderRaw, parseHeapID, readHeapObject;
   Dataset.Read's api_read_raw; ReadSuperblock; hdf5.Open's loader p_open: Model/IOProg*.v, each tied to the Go reader and proved
   strict for C17) run on the FILE IMAGE the writer leaves behind for
     CreateForWrite (superblock v2); CreateDataset("/"+name, dtype, dims); Write(data); WriteAttribute(a_1, v_1); ...;
     WriteAttribute(a_n, v_n); Close()
   once the library has moved the attributes to dense storage (Model/FileImageDense.v image_v2_dense: image_v2 whose dataset
   header, rewritten in place over the longer compact header, carries the Attribute Info message, followed by fractal heap header,
   64 KiB direct block, 4 KiB B-tree v2 leaf, B-tree v2 header - assembled from the encoder models of C11 / C14 / C15 and compared
   byte for byte with the library's files on every run: tools/props/c02file.py kind "dense") return the attributes that were
   written, and the data.  Histories of WRITES of pairwise distinct names (no delete / overwrite; for arbitrary histories the
   structure-level composition is Props/C02Compose.v).  Only theorem statements here; proofs in Proofs/FileImageDense*.v. *)
From HV Require Import Base.Prelude Base.Outcome Base.Bytes Model.IOProg Model.IOProgReader Model.IOProgOpen.
From HV Require Import Model.CodecSuper Model.CodecOhdr Model.CodecMsg Model.CodecType Model.CodecLink Model.CodecAttr Model.FileImage
  Model.FileImageAttr Model.FileImageDense.
From HV Require Import Proofs.FileImage Proofs.FileImageData Proofs.FileImageProd Proofs.FileImageDenseRead Proofs.FileImageDense Proofs.FileImageDenseMain.
From Coq Require Import Sorting.Permutation Sorting.Sorted.

(* For ALL link names / basic registry datatypes / shapes / data as in C01_file_roundtrip_contiguous and ALL attribute lists
   (name, datatype message, dataspace extents, value bytes) whose attribute messages are well-formed (wf_attribute, as in
   C02_file_attribute_roundtrip; C02_dense_kinds_wf: every value kind of WriteAttribute the tie covers), such that the header with
   the Attribute Info message fits its chunk (dense_fits: otherwise the transition is refused), the messages fit the usable part
   of the direct block (heap_fits: 65517 bytes) and the records fit the leaf (leaf_fits: 371), every loader fuel >= 3 and header
   fuel >= 5:
     Dataset.Attributes returns exactly the written (name, value bytes) pairs, in the order dense_order = the order of the leaf
       records: a permutation of the written list, ascending in the name hash (C02_file_dense_order: strictly ascending, hence
       independent of the order of the WriteAttribute calls, when the name hashes are pairwise distinct);
     the dataset's own datatype and shape are still decoded from the rewritten header;
     the dataset read still returns exactly the written bytes;
     ReadSuperblock and Open return the same superblock / tree as without attributes.
   No hypothesis on names or hashes is needed for reading the image back; the image IS the library's file when the names and the
   name hashes are pairwise distinct (InsertRecord refuses a present hash: the colliding class is the known finding of C02, see
   C02_full_refuted) and the transition was taken (dense_taken); the witness below satisfies all of these. *)
Theorem C02_file_dense_attributes_roundtrip : forall name class size cbf dims data attrs fuel hfuel,
  link_name_ok name = true -> basic_dtype class size cbf = true -> dims_ok dims = true ->
  blen data = product dims * size -> blen data < 4294967296 ->
  Forall (fun a => wf_attribute (dattr_msg a) = true) attrs ->
  dense_fits class size cbf dims data = true -> heap_fits attrs = true -> leaf_fits attrs = true ->
  (3 <= fuel)%nat -> (4 < hfuel)%nat ->
  let f := image_v2_dense name class size cbf dims data attrs in
  run0 f (api_attributes SB' hfuel (dset_addr data)) = Ok (map listed (dense_order attrs)) /\
  Permutation (dense_order attrs) attrs /\
  StronglySorted N.le (dattr_hashes (dense_order attrs)) /\
  (exists h, run0 f (p_ohdr SB' hfuel (dset_addr data)) = Ok h /\
             (d <- match find_msg 3 (ohp_msgs h) with Some b => dec_datatype b | None => Err end;;
              s <- match find_msg 1 (ohp_msgs h) with Some b => dec_dataspace b | None => Err end;;
              Ok (dt_class d, dt_size d, dt_cbf d, dsp_dims s)) = Ok (class, size, cbf, dims)) /\
  run0 f (api_read_raw SB' hfuel (dset_addr data)) = Ok (RawBytes data) /\
  run0 f p_superblock = Ok SB' /\
  run0 f (p_open true (blen f) fuel hfuel) = Ok (Grp [47] ROOT_ADDR [Dset name (dset_addr data)]).
Proof. exact file_dense_roundtrip_stmt. Qed.
Print Assumptions C02_file_dense_attributes_roundtrip.

(* pairwise distinct name hashes: the listing is strictly ascending in the name hash, and two write orders of the same attributes
   are listed with the same hash sequence *)
Theorem C02_file_dense_order : forall attrs, NoDup (dattr_hashes attrs) ->
  StronglySorted N.lt (dattr_hashes (dense_order attrs)) /\
  forall attrs', Permutation attrs attrs' -> dattr_hashes (dense_order attrs) = dattr_hashes (dense_order attrs').
Proof. exact dense_order_stmt. Qed.
Print Assumptions C02_file_dense_order.

(* every list of attributes of the value kinds of attr_of_kind (int8..uint64, float32/64 scalars; non-empty []int32 []int64
   []float32 []float64; strings without NUL), names non-empty of less than 65535 bytes, satisfies the well-formedness hypothesis *)
Theorem C02_dense_kinds_wf : forall l, forallb kind_ok l = true ->
  Forall (fun a => wf_attribute (dattr_msg a) = true) (map dattr_of_kind l).
Proof. exact dense_kinds_wf. Qed.
Print Assumptions C02_dense_kinds_wf.

(* the transition allocates 146 + 65536 + 4096 + 38 bytes behind the old end of file; later writes allocate nothing *)
Theorem C02_image_dense_length : forall name class size cbf dims data attrs,
  link_name_ok name = true -> basic_dtype class size cbf = true -> dims_ok dims = true ->
  blen data = total_elems dims * size -> blen data < 4294967296 ->
  dense_fits class size cbf dims data = true -> heap_fits attrs = true -> leaf_fits attrs = true ->
  blen (image_v2_dense name class size cbf dims data attrs) = eof_addr data + 146 + 65536 + 4096 + 38.
Proof. exact image_dense_len_stmt. Qed.
Print Assumptions C02_image_dense_length.

(* ------------------------------------------------------------------ stage theorems (generic in the structures' contents) *)

(* readBTreeV2HeaderRaw on the bytes BT2.encode_header writes: root node address and number of records *)
Theorem C02_dense_stage_bt2_header : forall s,
  MB.h_root (MB.header s) < 18446744073709551616 -> MB.h_nroot (MB.header s) < 65536 ->
  dec_bt2hdr SB' (MB.encode_header 8 s) 38 = Ok (MB.h_root (MB.header s), MB.h_nroot (MB.header s)).
Proof. exact dec_bt2hdr_enc. Qed.
Print Assumptions C02_dense_stage_bt2_header.

(* readBTreeV2LeafRecords on the bytes BT2.encode_leaf writes: the 7-byte heap ids of all records, in record order *)
Theorem C02_dense_stage_leaf_records : forall s, Forall PB.rec_wf (MB.leaf_recs s) ->
  let n := N.of_nat (length (MB.leaf_recs s)) in
  dec_bt2leaf n (MB.encode_leaf s) (6 + n * 11 + 4) = Ok (map snd (MB.leaf_recs s)).
Proof. exact dec_bt2leaf_enc. Qed.
Print Assumptions C02_dense_stage_leaf_records.

(* readFractalHeapHeaderRaw on the 144 bytes it reads of FHeap.encode_header: root block address, heap offset size 2, length size 3 *)
Theorem C02_dense_stage_fheap_header : forall h tail,
  MF.h_maxdb h = 65536 -> MF.h_root h < 18446744073709551616 -> blen tail = 2 ->
  dec_fheaphdr SB' (MF.header_body h ++ tail) 144 = Ok (MF.h_root h, 2, 3).
Proof. exact dec_fheaphdr_enc. Qed.
Print Assumptions C02_dense_stage_fheap_header.

(* parseHeapID on the 7 bytes the index keeps of the 8-byte id encodeHeapID builds *)
Theorem C02_dense_stage_heap_id : forall off n, off < 65536 -> n < 16777216 ->
  parse_heap_id (firstn 7 (MF.encode_id 3 off n)) 2 3 = Ok (off, n).
Proof. exact parse_heap_id_enc. Qed.
Print Assumptions C02_dense_stage_heap_id.

(* readHeapObject on a direct block FHeap.encode_dblock wrote anywhere in a file: an object m lying at offset |x| of the block's
   object area is returned exactly (header read tolerating io.EOF, then utils.ReadBytesAt) *)
Theorem C02_dense_stage_heap_object : forall f ba b,
  31 <= MF.db_size b -> blen (MF.db_objs b) <= MF.db_size b - 19 -> MF.db_boff b = 0 ->
  placed f ba (MF.encode_dblock b) -> ba + MF.db_size b <= MAXI64 ->
  forall x m y, MF.db_objs b = x ++ m ++ y -> 0 < blen m ->
  run0 f (p_heap_object SB' ba (blen x) (blen m) 2) = Ok m.
Proof. exact heap_object_read. Qed.
Print Assumptions C02_dense_stage_heap_object.

(* ParseAttributeInfoMessage on the writer's Attribute Info message: the two addresses *)
Theorem C02_dense_stage_attrinfo : forall data, blen data < 4294967296 ->
  IOProgReader.dec_attrinfo SB' (enc_attrinfo SBP (dense_info data)) = Ok (FH_ADDR data, BTH_ADDR data).
Proof. exact ainfo_decoded. Qed.
Print Assumptions C02_dense_stage_attrinfo.

(* the hypotheses are satisfiable, the transition is taken (after four compact attributes: the fifth message does not fit the
   255-byte header chunk), names and name hashes are pairwise distinct: "/d" = uint8 [1,2,3], int32 attributes a0 .. a8 *)
Theorem C02_file_dense_roundtrip_witness :
  link_name_ok [100] = true /\ basic_dtype DT_FIXED 1 0 = true /\ dims_ok [3] = true /\
  blen [1; 2; 3] = product [3] * 1 /\ blen [1; 2; 3] < 4294967296 /\
  Forall (fun a => wf_attribute (dattr_msg a) = true) ex_attrs /\
  dense_fits DT_FIXED 1 0 [3] [1; 2; 3] = true /\ heap_fits ex_attrs = true /\ leaf_fits ex_attrs = true /\
  dense_taken DT_FIXED 1 0 [3] ex_attrs = true /\ n_compact DT_FIXED 1 0 [3] ex_attrs = 4%nat /\
  NoDup (dattr_names ex_attrs) /\ NoDup (dattr_hashes ex_attrs).
Proof. exact file_dense_roundtrip_witness. Qed.
Print Assumptions C02_file_dense_roundtrip_witness.
