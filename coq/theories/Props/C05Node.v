(* C05 - "... the encoding is decodable according to the HDF5 format specification": the writer's NODE / HEAP encoders against the
   specification decoders of Spec/FormatNode.v.  Theorems only; lemmas in Proofs/SpecNode*.v.

   The encoders are the byte-exact transcriptions of the Go code that other properties tie on every run:
     global heap collection   Model/GHeap.v      encode_collection          (tie: C12)
     v2 B-tree header, leaf   Model/BT2.v        encode_header, encode_leaf (tie: C14)
     fractal heap header, direct block  Model/FHeap.v  encode_header, encode_dblock (tie: C15)
     v1 B-tree chunk leaf     Model/ChunkIndex.v serialize_leaf             (tie: C01 unit)
   For each structure, UNIVERSALLY over the well-formed states (the invariants proved for reachable states in
   Proofs/GHeap.v, BT2.v, FHeap.v, ChunkIndex.v): the tolerant specification decoder accepts the encoder's bytes, returns the
   logical content the encoder was given and EXACTLY the deviation tags listed for that structure in KNOWN_FINDINGS.json; the
   strict decoder accepts exactly when that tag set is empty (the machine-checked refutation the findings cite).  A checksum
   tag is present unless CRC-32 and lookup3 coincide on the covered bytes, which no hypothesis can exclude for all inputs: the
   tag sets are stated with that condition, as in Props/C05Spec.v; the _refuted theorems exhibit reachable states where it is
   present.  Where an invariant lemma exists the statement is composed with it: after ANY history the bytes written decode. *)
From HV Require Import Base.Prelude Base.Outcome Base.Bytes Base.Crc32 Spec.Lookup3 Spec.Parse Spec.Format Spec.FormatNode
  Model.ChunkIndex Proofs.ChunkIndex
  Proofs.SpecNodeGHeap Proofs.SpecNodeBT2 Proofs.SpecNodeFHeap Proofs.SpecNodeFHeapId Proofs.SpecNodeBTree1.

(* ================================================================== global heap collection (III.E) *)
(* every well-formed collection builder of at least the minimum collection size, any tolerance: the only deviation is the size
   field of the free-space object, written iff at least 16 bytes are free *)
Theorem C05_node_gcol : forall tol c b,
  PG.wfc c -> 4096 <= MG.c_size c -> MG.encode_collection c = Some b ->
  spec_dec_gcol tol 8 b =
    (tg <- devif (16 <=? MG.c_free c) tol T_gcol_free_size;;
     Ok (MG.c_size c, map spec_obj (MG.c_objs c), tg, [])).
Proof. exact spec_gcol_encoded. Qed.
Print Assumptions C05_node_gcol.

Theorem C05_node_gcol_tolerant : forall c b,
  PG.wfc c -> 4096 <= MG.c_size c -> MG.encode_collection c = Some b ->
  spec_dec_gcol tolerant 8 b = Ok (MG.c_size c, map spec_obj (MG.c_objs c), gcol_tags c, []).
Proof. exact spec_gcol_tolerant. Qed.
Print Assumptions C05_node_gcol_tolerant.

Theorem C05_node_gcol_strict : forall c b,
  PG.wfc c -> 4096 <= MG.c_size c -> MG.encode_collection c = Some b ->
  spec_dec_gcol strict 8 b =
    match gcol_tags c with [] => Ok (MG.c_size c, map spec_obj (MG.c_objs c), [], []) | _ => Err end.
Proof. exact spec_gcol_strict. Qed.
Print Assumptions C05_node_gcol_strict.

(* finding C05-gcol-free-size, universally *)
Theorem C05_gcol_free_size_refuted : forall c b,
  PG.wfc c -> 4096 <= MG.c_size c -> MG.encode_collection c = Some b -> 16 <= MG.c_free c ->
  spec_dec_gcol strict 8 b = Err /\
  spec_dec_gcol tolerant 8 b = Ok (MG.c_size c, map spec_obj (MG.c_objs c), [T_gcol_free_size], []).
Proof. exact gcol_free_size_refuted. Qed.
Print Assumptions C05_gcol_free_size_refuted.

(* after ANY history of WriteToGlobalHeap calls and other allocations, then Flush (shipped parameters 4096 / 4096) *)
Theorem C05_node_gcol_history : forall e0 ops fin ids,
  MG.run_close 4096 4096 e0 ops = Some (fin, ids) -> MG.eof fin < PG.W64 ->
  (forall a b, In (a, b) (MG.disk fin) ->
     exists c, PG.wfc c /\ MG.c_addr c = a /\ MG.encode_collection c = Some b /\
       spec_dec_gcol tolerant 8 b = Ok (MG.c_size c, map spec_obj (MG.c_objs c), gcol_tags c, []) /\
       spec_dec_gcol strict 8 b =
         match gcol_tags c with [] => Ok (MG.c_size c, map spec_obj (MG.c_objs c), [], []) | _ => Err end) /\
  length ids = length (MG.writes ops) /\
  (forall i d, nth_error (MG.writes ops) i = Some d ->
     exists id b sz objs tg,
       nth_error ids i = Some id /\ In (MG.h_addr id, b) (MG.disk fin) /\
       spec_dec_gcol tolerant 8 b = Ok (sz, objs, tg, []) /\
       In {| go_index := MG.h_idx id; go_refcount := 1; go_data := d |} objs).
Proof. exact spec_gcol_history_shipped. Qed.
Print Assumptions C05_node_gcol_history.

(* the hypotheses are satisfiable and both tag sets occur *)
Theorem C05_node_gcol_examples :
  (exists b, MG.encode_collection ex_coll_free = Some b /\ spec_dec_gcol strict 8 b = Err /\
     spec_dec_gcol tolerant 8 b =
       Ok (4096, [{| go_index := 1; go_refcount := 1; go_data := [97; 98; 99] |}], [T_gcol_free_size], [])) /\
  (exists b, MG.encode_collection ex_coll_full = Some b /\
     spec_dec_gcol strict 8 b = Ok (4112, [{| go_index := 1; go_refcount := 1; go_data := MG.zeros 4080 |}], [], [])).
Proof. exact gcol_examples. Qed.
Print Assumptions C05_node_gcol_examples.

(* ================================================================== version 2 B-tree (III.A.2) *)
Theorem C05_node_bt2hdr : forall tol osz s,
  PB.osz_ok osz -> PB.hdr_fits osz (MB.header s) -> hdr_spec_ok (MB.header s) = true ->
  spec_dec_bt2hdr tol osz 8 (MB.encode_header osz s) =
    (tg <- check_sum tol T_btree2_crc32 (MB.hdr_body osz (MB.header s)) (crc32 (MB.hdr_body osz (MB.header s)));;
     Ok (spec_hdr (MB.header s), tg, [])).
Proof. exact spec_bt2hdr. Qed.
Print Assumptions C05_node_bt2hdr.

Theorem C05_node_bt2hdr_tolerant : forall osz s,
  PB.osz_ok osz -> PB.hdr_fits osz (MB.header s) -> hdr_spec_ok (MB.header s) = true ->
  spec_dec_bt2hdr tolerant osz 8 (MB.encode_header osz s) =
    Ok (spec_hdr (MB.header s), bt2_tags (MB.hdr_body osz (MB.header s)), []).
Proof. exact spec_bt2hdr_tolerant. Qed.
Print Assumptions C05_node_bt2hdr_tolerant.

Theorem C05_node_bt2hdr_strict : forall osz s,
  PB.osz_ok osz -> PB.hdr_fits osz (MB.header s) -> hdr_spec_ok (MB.header s) = true ->
  spec_dec_bt2hdr strict osz 8 (MB.encode_header osz s) =
    match bt2_tags (MB.hdr_body osz (MB.header s)) with [] => Ok (spec_hdr (MB.header s), [], []) | _ => Err end.
Proof. exact spec_bt2hdr_strict. Qed.
Print Assumptions C05_node_bt2hdr_strict.

(* [rest]: the unused remainder of the node on disk *)
Theorem C05_node_bt2leaf : forall tol s (rest : list N),
  Forall PB.rec_wf (MB.leaf_recs s) ->
  spec_dec_bt2leaf tol (MB.leaf_type s) (length (MB.leaf_recs s)) 11 (MB.encode_leaf s ++ rest) =
    (tg <- check_sum tol T_btree2_crc32 (MB.leaf_body (MB.leaf_type s) (MB.leaf_recs s))
                     (crc32 (MB.leaf_body (MB.leaf_type s) (MB.leaf_recs s)));;
     Ok (map MB.enc_rec (MB.leaf_recs s), tg)).
Proof. exact spec_bt2leaf. Qed.
Print Assumptions C05_node_bt2leaf.

Theorem C05_node_bt2leaf_tolerant : forall s (rest : list N),
  Forall PB.rec_wf (MB.leaf_recs s) ->
  spec_dec_bt2leaf tolerant (MB.leaf_type s) (length (MB.leaf_recs s)) 11 (MB.encode_leaf s ++ rest) =
    Ok (map MB.enc_rec (MB.leaf_recs s), bt2_tags (MB.leaf_body (MB.leaf_type s) (MB.leaf_recs s))).
Proof. exact spec_bt2leaf_tolerant. Qed.
Print Assumptions C05_node_bt2leaf_tolerant.

Theorem C05_node_bt2leaf_strict : forall s (rest : list N),
  Forall PB.rec_wf (MB.leaf_recs s) ->
  spec_dec_bt2leaf strict (MB.leaf_type s) (length (MB.leaf_recs s)) 11 (MB.encode_leaf s ++ rest) =
    match bt2_tags (MB.leaf_body (MB.leaf_type s) (MB.leaf_recs s)) with
    | [] => Ok (map MB.enc_rec (MB.leaf_recs s), []) | _ => Err end.
Proof. exact spec_bt2leaf_strict. Qed.
Print Assumptions C05_node_bt2leaf_strict.

(* after ANY history of the write API (any rebalancing mode): header (with any root address that fits) and leaf of the state;
   the header always announces type 5 and record size 11 (the fact behind C05-btree2-attr-type-5) *)
Theorem C05_node_bt2_reachable : forall c ops root (rest : list N),
  PB.cfg_ok c -> PB.addr_ok c ops -> root < 256 ^ N.of_nat (MB.c_osz c) ->
  let s := MB.bt (fst (MB.run c ops)) in
  let h := MB.header (MB.with_root s root) in
  spec_dec_bt2hdr tolerant (MB.c_osz c) 8 (MB.encode_header (MB.c_osz c) (MB.with_root s root)) =
    Ok (spec_hdr h, bt2_tags (MB.hdr_body (MB.c_osz c) h), []) /\
  spec_dec_bt2hdr strict (MB.c_osz c) 8 (MB.encode_header (MB.c_osz c) (MB.with_root s root)) =
    match bt2_tags (MB.hdr_body (MB.c_osz c) h) with [] => Ok (spec_hdr h, [], []) | _ => Err end /\
  spec_dec_bt2leaf tolerant 5 (length (MB.leaf_recs s)) 11 (MB.encode_leaf s ++ rest) =
    Ok (map MB.enc_rec (MB.leaf_recs s), bt2_tags (MB.leaf_body 5 (MB.leaf_recs s))) /\
  spec_dec_bt2leaf strict 5 (length (MB.leaf_recs s)) 11 (MB.encode_leaf s ++ rest) =
    match bt2_tags (MB.leaf_body 5 (MB.leaf_recs s)) with [] => Ok (map MB.enc_rec (MB.leaf_recs s), []) | _ => Err end /\
  b2_type (spec_hdr h) = 5 /\ b2_recsize (spec_hdr h) = 11 /\ b2_depth (spec_hdr h) = 0 /\
  b2_root (spec_hdr h) = root /\
  b2_nroot (spec_hdr h) = N.of_nat (length (MB.leaf_recs s)) /\ b2_total (spec_hdr h) = N.of_nat (length (MB.leaf_recs s)).
Proof. exact spec_bt2_reachable. Qed.
Print Assumptions C05_node_bt2_reachable.

(* the bytes on disk: after WriteToFile from any state of the invariant, ReadAt at the header address returns bytes the
   specification decoder accepts, and the root node address / type / record count that header announces lead to a leaf it
   accepts with the state's records *)
Theorem C05_node_bt2_on_disk : forall c w (root_rest : list N),
  PB.cfg_ok c -> PB.winv c w -> hconst (MB.bt w) -> MB.next w < PB.lim c ->
  let w1 := fst (MB.step c w MB.OStore) in
  let s := MB.bt w1 in
  exists hb lb,
    MB.read_at (MB.fil w1) (MB.next w + MB.node_size (MB.bt w)) (MB.hdr_size (MB.c_osz c)) = Some hb /\
    spec_dec_bt2hdr tolerant (MB.c_osz c) 8 hb =
      Ok (spec_hdr (MB.header s), bt2_tags (MB.hdr_body (MB.c_osz c) (MB.header s)), []) /\
    MB.read_at (MB.fil w1) (b2_root (spec_hdr (MB.header s))) (length (MB.encode_leaf s)) = Some lb /\
    spec_dec_bt2leaf tolerant (b2_type (spec_hdr (MB.header s))) (N.to_nat (b2_nroot (spec_hdr (MB.header s)))) 11 lb =
      Ok (map MB.enc_rec (MB.leaf_recs s), bt2_tags (MB.leaf_body 5 (MB.leaf_recs s))).
Proof. exact spec_bt2_on_disk. Qed.
Print Assumptions C05_node_bt2_on_disk.

(* finding C05-btree2-crc32 on a concrete reachable tree (two inserted names) *)
Theorem C05_btree2_crc32_refuted :
  length (MB.leaf_recs ex_bt) = 2%nat /\
  spec_dec_bt2hdr strict 8 8 (MB.encode_header 8 (MB.with_root ex_bt 64)) = Err /\
  snd (fst (match spec_dec_bt2hdr tolerant 8 8 (MB.encode_header 8 (MB.with_root ex_bt 64)) with
            | Ok x => x | _ => (spec_hdr (MB.header ex_bt), [], []) end)) = [T_btree2_crc32] /\
  spec_dec_bt2leaf strict 5 2 11 (MB.encode_leaf ex_bt) = Err /\
  spec_dec_bt2leaf tolerant 5 2 11 (MB.encode_leaf ex_bt) = Ok (map MB.enc_rec (MB.leaf_recs ex_bt), [T_btree2_crc32]).
Proof. exact bt2_crc32_refuted. Qed.
Print Assumptions C05_btree2_crc32_refuted.

(* ================================================================== fractal heap (III.G) *)
Theorem C05_node_fheap_hdr_tolerant : forall h, wf_fheap_hdr h = true ->
  spec_dec_fheap_hdr tolerant 8 8 (MF.encode_header h) = Ok (logical_fheap_hdr h, tags_fheap_hdr h, []).
Proof. exact spec_fheap_hdr_tolerant. Qed.
Print Assumptions C05_node_fheap_hdr_tolerant.

(* the address-0 deviation is unconditional: the strict decoder rejects every header the writer encodes *)
Theorem C05_node_fheap_hdr_strict : forall h, wf_fheap_hdr h = true ->
  spec_dec_fheap_hdr strict 8 8 (MF.encode_header h) = Err.
Proof. exact spec_fheap_hdr_strict. Qed.
Print Assumptions C05_node_fheap_hdr_strict.

Theorem C05_node_fhdb_tolerant : forall b, wf_fhdb b = true ->
  spec_dec_fhdb tolerant 8 (MF.db_hdraddr b) 2 (MF.db_boff b) 0 (MF.encode_dblock b) =
    Ok (15, if crc32 (fhdb_body b) =? 0 then [] else [T_fhdb_trailing_crc32]).
Proof. exact spec_fhdb_tolerant. Qed.
Print Assumptions C05_node_fhdb_tolerant.

Theorem C05_node_fhdb_strict : forall b, wf_fhdb b = true ->
  spec_dec_fhdb strict 8 (MF.db_hdraddr b) 2 (MF.db_boff b) 0 (MF.encode_dblock b) =
    if crc32 (fhdb_body b) =? 0 then Ok (15, []) else Err.
Proof. exact spec_fhdb_strict. Qed.
Print Assumptions C05_node_fhdb_strict.

(* after ANY admissible history (Proofs/FHeap.v) from NewWritableFractalHeap(bs), bs a power of two *)
Theorem C05_node_fheap_hdr_reachable : forall bs hist,
  MF.bs_ok bs = true -> pow2 bs = true -> MF.one_block bs hist = true -> MF.targets_live bs hist = true ->
  let h := MF.heap_of MF.cap_new bs hist in
  spec_dec_fheap_hdr tolerant 8 8 (MF.encode_header h) = Ok (logical_fheap_hdr h, tags_fheap_hdr h, [])
  /\ spec_dec_fheap_hdr strict 8 8 (MF.encode_header h) = Err.
Proof. exact spec_fheap_hdr_reachable. Qed.
Print Assumptions C05_node_fheap_hdr_reachable.

Theorem C05_node_fhdb_reachable : forall bs hist,
  MF.bs_ok bs = true -> pow2 bs = true -> MF.one_block bs hist = true -> MF.targets_live bs hist = true ->
  let b := MF.h_blk (MF.heap_of MF.cap_new bs hist) in
  spec_dec_fhdb tolerant 8 (MF.db_hdraddr b) 2 0 0 (MF.encode_dblock b) =
    Ok (15, if crc32 (fhdb_body b) =? 0 then [] else [T_fhdb_trailing_crc32])
  /\ spec_dec_fhdb strict 8 (MF.db_hdraddr b) 2 0 0 (MF.encode_dblock b) =
       (if crc32 (fhdb_body b) =? 0 then Ok (15, []) else Err).
Proof. exact spec_fhdb_reachable. Qed.
Print Assumptions C05_node_fhdb_reachable.

(* what WriteToFile / WriteAt put on disk for a state of the representation relation (addresses filled in) *)
Theorem C05_node_fheap_hdr_stored : forall bs h fs sp ha ba,
  MF.bs_ok bs = true -> pow2 bs = true -> PF.R bs h fs sp -> lt64 ba = true ->
  let h1 := MF.set_addrs h ha ba in
  spec_dec_fheap_hdr tolerant 8 8 (MF.encode_header h1) = Ok (logical_fheap_hdr h1, tags_fheap_hdr h1, [])
  /\ spec_dec_fheap_hdr strict 8 8 (MF.encode_header h1) = Err.
Proof. exact spec_fheap_hdr_stored. Qed.
Print Assumptions C05_node_fheap_hdr_stored.

Theorem C05_node_fhdb_stored : forall bs h fs sp ha ba,
  MF.bs_ok bs = true -> PF.R bs h fs sp -> lt64 ha = true ->
  let b := MF.h_blk (MF.set_addrs h ha ba) in
  spec_dec_fhdb tolerant 8 ha 2 0 0 (MF.encode_dblock b) =
    Ok (15, if crc32 (fhdb_body b) =? 0 then [] else [T_fhdb_trailing_crc32])
  /\ spec_dec_fhdb strict 8 ha 2 0 0 (MF.encode_dblock b) = if crc32 (fhdb_body b) =? 0 then Ok (15, []) else Err.
Proof. exact spec_fhdb_stored. Qed.
Print Assumptions C05_node_fhdb_stored.

(* findings C05-fheap-hdr-crc32 and C05-fheap-addr-0-not-undef: both tags, and each one alone is fatal *)
Theorem C05_fheap_hdr_refuted :
  wf_fheap_hdr fheap_witness = true /\
  MF.h_root fheap_witness = 2194 /\
  spec_dec_fheap_hdr strict 8 8 (MF.encode_header fheap_witness) = Err /\
  spec_dec_fheap_hdr tolerant 8 8 (MF.encode_header fheap_witness) =
    Ok (logical_fheap_hdr fheap_witness, [T_fheap_hdr_crc32; T_fheap_addr_0_not_undef], []) /\
  spec_dec_fheap_hdr (fun t => match t with T_fheap_hdr_crc32 => false | _ => true end) 8 8
    (MF.encode_header fheap_witness) = Err /\
  spec_dec_fheap_hdr (fun t => match t with T_fheap_addr_0_not_undef => false | _ => true end) 8 8
    (MF.encode_header fheap_witness) = Err.
Proof. exact fheap_hdr_refuted. Qed.
Print Assumptions C05_fheap_hdr_refuted.

(* finding C05-fhdb-trailing-crc32 *)
Theorem C05_fhdb_trailing_crc32_refuted :
  wf_fhdb (MF.h_blk fheap_witness) = true /\
  spec_dec_fhdb strict 8 2048 2 0 0 (MF.encode_dblock (MF.h_blk fheap_witness)) = Err /\
  spec_dec_fhdb tolerant 8 2048 2 0 0 (MF.encode_dblock (MF.h_blk fheap_witness)) = Ok (15, [T_fhdb_trailing_crc32]).
Proof. exact fhdb_refuted. Qed.
Print Assumptions C05_fhdb_trailing_crc32_refuted.

(* finding C05-fheap-offset-excludes-block-prefix.  Universally: what GetObject returns for a heap id with offset [off] are
   the bytes at offset 15 + off of the direct block the writer encodes (the specification's heap address space starts at the
   block's first byte, prefix included) - for every state of the representation relation of Proofs/FHeap.v *)
Theorem C05_fheap_id_offset_excludes_prefix : forall bs h fs sp id data,
  MF.bs_ok bs = true -> PF.R bs h fs sp -> MF.get h id = MF.Ok data ->
  exists off n, MF.parse_id h id = MF.Ok (off, n) /\
    MF.slice (MF.encode_dblock (MF.h_blk h)) (MF.PREFIX + off) n = data.
Proof. exact fheap_get_reads_after_prefix_R. Qed.
Print Assumptions C05_fheap_id_offset_excludes_prefix.

(* witness: an id with offset 0 whose object is at block bytes 15..24; block bytes 0..9 are the prefix *)
Theorem C05_fheap_offset_excludes_block_prefix_refuted :
  exists id,
    snd (MF.insert MF.cap_new (MF.new_heap 64) (MF.obj 1 10) 0) = MF.Ok id /\
    MF.parse_id id_heap id = MF.Ok (0, 10) /\
    MF.get id_heap id = MF.Ok (MF.obj 1 10) /\
    MF.slice (MF.encode_dblock (MF.h_blk id_heap)) 15 10 = MF.obj 1 10 /\
    MF.slice (MF.encode_dblock (MF.h_blk id_heap)) 0 10 = [70; 72; 68; 66; 0; 0; 0; 0; 0; 0] /\
    MF.slice (MF.encode_dblock (MF.h_blk id_heap)) 0 10 <> MF.obj 1 10.
Proof. exact fheap_offset_excludes_block_prefix_refuted. Qed.
Print Assumptions C05_fheap_offset_excludes_block_prefix_refuted.

(* the hypothesis "block size is a power of two" is needed (the library itself passes 64 KiB and 512 KiB) *)
Theorem C05_fheap_hdr_start_not_pow2_refuted :
  MF.bs_ok 100 = true /\ spec_dec_fheap_hdr tolerant 8 8 (MF.encode_header (MF.new_heap 100)) = Err.
Proof. exact fheap_hdr_start_not_pow2_refuted. Qed.
Print Assumptions C05_fheap_hdr_start_not_pow2_refuted.

(* ================================================================== version 1 B-tree, chunk index leaf (III.A.1) *)
(* decoder called with node type 1, 8-byte offsets, the dimensionality the writer's keys use, K = 32 *)
Theorem C05_node_btree1_leaf : forall tol dim es,
  Forall (fun e => entry_ok dim e = true) es -> N.of_nat (length es) < 65536 ->
  spec_dec_btree1 tol 8 8 1 dim 32 (serialize_leaf dim es) =
    (tg <- devif (64 <? N.of_nat (length es)) tol T_btree1_node_over_capacity;;
     Ok ({| b1_type := 1; b1_level := 0; b1_n := N.of_nat (length es); b1_left := U64MAX; b1_right := U64MAX;
            b1_keys := map spec_key_of es ++ [0 :: 0 :: repeat U64MAX dim]; b1_children := map w_addr es |}, tg, [])).
Proof. exact spec_btree1_leaf. Qed.
Print Assumptions C05_node_btree1_leaf.

Theorem C05_node_btree1_leaf_tolerant : forall dim es,
  Forall (fun e => entry_ok dim e = true) es -> N.of_nat (length es) < 65536 ->
  spec_dec_btree1 tolerant 8 8 1 dim 32 (serialize_leaf dim es) =
    Ok (spec_leaf dim es, if 64 <? N.of_nat (length es) then [T_btree1_node_over_capacity] else [], []).
Proof. exact spec_btree1_leaf_tolerant. Qed.
Print Assumptions C05_node_btree1_leaf_tolerant.

(* strict accepts iff the node holds at most 2K = 64 chunks *)
Theorem C05_node_btree1_leaf_strict : forall dim es,
  Forall (fun e => entry_ok dim e = true) es -> N.of_nat (length es) < 65536 ->
  (spec_dec_btree1 strict 8 8 1 dim 32 (serialize_leaf dim es) = Ok (spec_leaf dim es, [], []) <-> N.of_nat (length es) <= 64) /\
  (spec_dec_btree1 strict 8 8 1 dim 32 (serialize_leaf dim es) = Err <-> 64 < N.of_nat (length es)).
Proof. exact spec_btree1_leaf_strict_iff. Qed.
Print Assumptions C05_node_btree1_leaf_strict.

(* after ANY successful write_index (WriteToFile of the chunk index): the file from the returned address on decodes to the
   SORTED entries *)
Theorem C05_node_btree1_written : forall rep dim es f eof f' eof' addr,
  write_index rep dim es f eof = Ok (f', eof', addr) ->
  Forall (fun e => entry_ok dim e = true) es -> N.of_nat (length es) < 65536 ->
  exists suf,
    skipn (N.to_nat addr) f' = serialize_leaf dim (sort_entries es) ++ suf /\
    spec_dec_btree1 tolerant 8 8 1 dim 32 (skipn (N.to_nat addr) f') =
      Ok (spec_leaf dim (sort_entries es),
          if 64 <? N.of_nat (length es) then [T_btree1_node_over_capacity] else [], suf).
Proof. exact spec_btree1_written. Qed.
Print Assumptions C05_node_btree1_written.

Theorem C05_node_btree1_written_strict : forall rep dim es f eof f' eof' addr,
  write_index rep dim es f eof = Ok (f', eof', addr) ->
  Forall (fun e => entry_ok dim e = true) es -> N.of_nat (length es) < 65536 ->
  exists suf,
    skipn (N.to_nat addr) f' = serialize_leaf dim (sort_entries es) ++ suf /\
    spec_dec_btree1 strict 8 8 1 dim 32 (skipn (N.to_nat addr) f') =
      if 64 <? N.of_nat (length es) then Err else Ok (spec_leaf dim (sort_entries es), [], suf).
Proof. exact spec_btree1_written_strict. Qed.
Print Assumptions C05_node_btree1_written_strict.

(* finding C05-btree1-node-over-capacity: 65 chunks in one node of capacity 64 *)
Theorem C05_btree1_over_capacity_refuted :
  forallb (entry_ok 1) (cap_entries 65) = true /\ distinct_coords (cap_entries 65) = true /\
  spec_dec_btree1 strict 8 8 1 1 32 (serialize_leaf 1 (cap_entries 65)) = Err /\
  spec_dec_btree1 tolerant 8 8 1 1 32 (serialize_leaf 1 (cap_entries 65)) =
    Ok (spec_leaf 1 (cap_entries 65), [T_btree1_node_over_capacity], []).
Proof. exact btree1_over_capacity_refuted. Qed.
Print Assumptions C05_btree1_over_capacity_refuted.

Theorem C05_node_btree1_within_capacity :
  spec_dec_btree1 strict 8 8 1 1 32 (serialize_leaf 1 (cap_entries 64)) = Ok (spec_leaf 1 (cap_entries 64), [], []) /\
  spec_dec_btree1 strict 8 8 1 1 32 (serialize_leaf 1 (cap_entries 3)) = Ok (spec_leaf 1 (cap_entries 3), [], []).
Proof. exact btree1_within_capacity_conformant. Qed.
Print Assumptions C05_node_btree1_within_capacity.
