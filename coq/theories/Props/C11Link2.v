(* C11 - every metadata encoder is inverted by its decoder: the SECOND link-message parser,
   internal/structures/linkmessage.go ParseLinkMessage (Model/CodecLink2.v), against core.EncodeLinkMessage
   and against the first parser (Model/CodecLink.v).  Property theorems only. *)
From HV Require Import Base.Prelude Base.Outcome Base.Bytes Model.CodecMsg Proofs.CodecMsg
  Model.CodecLink Proofs.CodecLink Model.CodecLink2 Proofs.CodecLink2.

(* structures.ParseLinkMessage inverts core.EncodeLinkMessage: hard links (offset size 1,2,4,8; the address is
   the LinkValue bytes read in the superblock's byte order), soft links with a non-empty path, every other link
   type with at least the 2-byte length field; all four name-length widths, optional type / creation order /
   character set in any combination, reserved flag bits carried through; names of any length >= 1 *)
Theorem C11_link2_roundtrip : forall os be x, wf_link2 os be x = true ->
  dec_link2 os be (enc_link x) = Ok (proj_link2 os be x).
Proof. exact link2_roundtrip. Qed.
Print Assumptions C11_link2_roundtrip.

(* the two parsers never disagree on a field: for EVERY byte string and offset size on which both succeed, the
   second parser's result is the first parser's result re-expressed (same version, flags, type, creation order,
   character set, name; ObjectAddress = the hard-link value bytes in the superblock's byte order; TargetPath =
   the soft-link value; CreationOrderValid = flag bit 2) *)
Theorem C11_link_parsers_agree : forall os be data x y,
  dec_link os data = Ok x -> dec_link2 os be data = Ok y -> y = link2_of_link be x.
Proof. exact link_parsers_agree. Qed.
Print Assumptions C11_link_parsers_agree.

(* and the second parser accepts everything the first accepts, except: empty name, hard link under an offset
   size other than 1,2,4,8, soft link with an empty path *)
Theorem C11_link2_accepts : forall os be data x,
  dec_link os data = Ok x -> 1 <= blen (lk_name x) ->
  (lk_type x = 0 -> size1248 os) -> (lk_type x = 1 -> 1 <= blen (lk_value x)) ->
  dec_link2 os be data = Ok (link2_of_link be x).
Proof. exact link2_accepts. Qed.
Print Assumptions C11_link2_accepts.

Theorem C11_proj_link2_of_proj : forall os be x, proj_link2 os be x = link2_of_link be (proj_link x).
Proof. exact proj_link2_of_proj. Qed.
Print Assumptions C11_proj_link2_of_proj.

(* every value of the first parser's round-trip theorem is covered here under the three extra requirements *)
Theorem C11_wf_link2_of_wf_link : forall os be x,
  wf_link os x = true -> 1 <= blen (lk_name x) ->
  (lk_type x = 0 -> size1248 os) -> (lk_type x = 1 -> 3 <= blen (lk_value x)) ->
  wf_link2 os be x = true.
Proof. exact wf_link2_of_wf_link. Qed.
Print Assumptions C11_wf_link2_of_wf_link.

(* ---- where the outcomes differ (the accepted sets are incomparable) ---- *)

Theorem C11_link_parsers_same_outcome_refuted :
  ~ (forall os be data, oclass (dec_link os data) = oclass (dec_link2 os be data)).
Proof. exact link_parsers_same_outcome_refuted. Qed.
Print Assumptions C11_link_parsers_same_outcome_refuted.

(* empty link name: accepted by core, refused by structures *)
Theorem C11_link2_empty_name_differs :
  dec_link 8 l2w_empty_name = Ok {| lk_version := 1; lk_flags := 0; lk_type := 0; lk_corder := 0; lk_charset := 0;
                                    lk_name := []; lk_value := [1; 2; 3; 4; 5; 6; 7; 8] |} /\
  dec_link2 8 false l2w_empty_name = Err.
Proof. exact link2_empty_name_differs. Qed.
Print Assumptions C11_link2_empty_name_differs.

(* soft link with an empty path: accepted by core, refused by structures *)
Theorem C11_link2_empty_soft_differs :
  dec_link 8 l2w_empty_soft = Ok {| lk_version := 1; lk_flags := 8; lk_type := 1; lk_corder := 0; lk_charset := 0;
                                    lk_name := [108]; lk_value := [] |} /\
  dec_link2 8 false l2w_empty_soft = Err.
Proof. exact link2_empty_soft_differs. Qed.
Print Assumptions C11_link2_empty_soft_differs.

(* link type other than 0, 1, 64: refused by core, accepted (nothing kept) by structures *)
Theorem C11_link2_other_type_differs :
  dec_link 8 l2w_type5 = Err /\
  dec_link2 8 false l2w_type5 =
    Ok {| l2_version := 1; l2_flags := 8; l2_type := 5; l2_name := [108]; l2_corder := 0; l2_corder_valid := false;
          l2_charset := 0; l2_addr := 0; l2_target := [] |}.
Proof. exact link2_other_type_differs. Qed.
Print Assumptions C11_link2_other_type_differs.

(* external link whose value stops after the first length field: refused by core, accepted by structures *)
Theorem C11_link2_short_external_differs :
  dec_link 8 l2w_short_ext = Err /\
  dec_link2 8 false l2w_short_ext =
    Ok {| l2_version := 1; l2_flags := 8; l2_type := 64; l2_name := [108]; l2_corder := 0; l2_corder_valid := false;
          l2_charset := 0; l2_addr := 0; l2_target := [] |}.
Proof. exact link2_short_external_differs. Qed.
Print Assumptions C11_link2_short_external_differs.

(* hard link under an offset size outside 1,2,4,8: accepted by core, refused by structures *)
Theorem C11_link2_offsize3_differs :
  dec_link 3 l2w_hard = Ok {| lk_version := 1; lk_flags := 0; lk_type := 0; lk_corder := 0; lk_charset := 0;
                              lk_name := [108]; lk_value := [1; 2; 3] |} /\
  dec_link2 3 false l2w_hard = Err.
Proof. exact link2_offsize3_differs. Qed.
Print Assumptions C11_link2_offsize3_differs.

(* a name longer than 1 MiB: core's parser refuses its own encoder's output, structures reads it back
   (C11_link2_roundtrip applies to the same x) *)
Theorem C11_link_long_name_core_err : forall os be x,
  wf_link2 os be x = true -> 1048576 < blen (lk_name x) -> dec_link os (enc_link x) = Err.
Proof. exact link_long_name_core_err. Qed.
Print Assumptions C11_link_long_name_core_err.

(* ---- the hypotheses are satisfiable; a message with creation order AND character set ---- *)

Theorem C11_link2_corder_charset_example :
  dec_link 8 l2w_both = Ok {| lk_version := 1; lk_flags := 28; lk_type := 0; lk_corder := 72623859790382856;
                              lk_charset := 1; lk_name := [108; 109]; lk_value := le 8 4096 |} /\
  dec_link2 8 false l2w_both =
    Ok {| l2_version := 1; l2_flags := 28; l2_type := 0; l2_name := [108; 109]; l2_corder := 72623859790382856;
          l2_corder_valid := true; l2_charset := 1; l2_addr := 4096; l2_target := [] |}.
Proof. exact link2_corder_charset_example. Qed.
Print Assumptions C11_link2_corder_charset_example.

Example C11_wf_link2_satisfiable :
  wf_link2 8 true l2x_hard = true /\ wf_link2 8 false l2x_soft = true /\ wf_link2 4 false l2x_ext = true /\
  l2_addr (proj_link2 8 true l2x_hard) = 4096 /\ l2_target (proj_link2 8 false l2x_soft) = [47; 97].
Proof. exact wf_link2_examples. Qed.
Print Assumptions C11_wf_link2_satisfiable.
