(* C01, end to end at byte level, CHUNKED datasets: the reader program of Dataset.Read (api_read_raw, Model/IOProgReader.v: object
   header, layout message, version 1 chunk B-tree, chunk reads; tied to the Go reader and proved strict for C17) run on the FILE
   IMAGE the writer leaves behind for
       CreateForWrite (superblock v2); CreateDataset("/"+name, dtype, dims, WithChunkDims(cdims)); Write(data); Close()
   (Model/FileImageChunked.v image_v2_chunked, compared byte for byte with the library's files on every run:
   tools/props/c01file.py kind "chunked") returns chunks that, scattered into the zero-initialised array as readChunkedData
   does (assemble_chunks = copyChunkToArray per chunk at key / chunk extents), are exactly the written data.
   Only theorem statements here; proofs in Proofs/ChunkRefine.v, Proofs/FileImageChunked*.v. *)
From HV Require Import Base.Prelude Model.Chunk Base.Outcome Base.Bytes Model.RobustTerm Model.ChunkIndex.
From HV Require Import Model.IOProg Model.IOProgReader Model.CodecSuper Model.CodecOhdr Model.CodecType.
From HV Require Import Model.FileImage Model.FileImageChunked.
From HV Require Import Proofs.FileImage Proofs.FileImageData Proofs.FileImageProd Proofs.FileImageMain Proofs.ChunkRefine
  Proofs.FileImageChunked Proofs.FileImageChunkedRead Proofs.FileImageChunkedMain Proofs.FileImageGenOpen Proofs.FileImageChunkedOpen.
From HV Require Import Model.IOProgOpen.

(* For ALL link names, all basic registry datatypes, all shapes of rank 1..17 (the largest rank whose three messages fit the
   255-byte header chunk) with extents > 0, all chunk extents 1 <= cdims[i] <= dims[i] of the same rank (every grid, partial edge
   chunks included), all data of exactly product(dims)*size bytes (below 4 GiB), chunks of at most 2^30 bytes (the reader
   refuses larger ones), at most 65535 chunks (the single leaf's capacity; more is refused by the writer:
   C01_chunked_write_refused_unchanged), every header fuel >= 4:
     the dataset read returns chunks that assemble to exactly the written bytes;
     the datatype and the shape decoded from the dataset's header (at 2195) are the ones given;
     the file ends at the end-of-file address the superblock records. *)
Theorem C01_file_roundtrip_chunked : forall name class size cbf dims cdims data hfuel,
  link_name_ok name = true -> basic_dtype class size cbf = true -> dims_ok_chunked dims = true -> cdims_ok dims cdims = true ->
  blen data = product dims * size -> blen data < 4294967296 -> product cdims * size <= 1073741824 ->
  total_chunks (num_chunks dims cdims) <= 65535 -> (3 < hfuel)%nat ->
  let f := image_v2_chunked name class size cbf dims cdims data in
  (exists cs, run0 f (api_read_raw SB' hfuel CHDR_ADDR) = Ok (RawChunks cs) /\ assemble_chunks dims cdims size cs = COk data) /\
  (exists h, run0 f (p_ohdr SB' hfuel CHDR_ADDR) = Ok h /\ decoded_type_shape h = Ok (class, size, cbf, dims)) /\
  blen f = c_eof size dims cdims data.
Proof. exact file_roundtrip_chunked_stmt. Qed.
Print Assumptions C01_file_roundtrip_chunked.

(* under the same hypotheses, for every loader fuel >= 3: ReadSuperblock returns the 8/8 little-endian superblock with the root
   header address, and hdf5.Open's loader returns the tree "/" with exactly one child, the dataset `name` at 2195 *)
Theorem C01_file_open_chunked : forall name class size cbf dims cdims data fuel hfuel,
  link_name_ok name = true -> basic_dtype class size cbf = true -> dims_ok_chunked dims = true -> cdims_ok dims cdims = true ->
  blen data = product dims * size -> blen data < 4294967296 -> product cdims * size <= 1073741824 ->
  total_chunks (num_chunks dims cdims) <= 65535 -> (3 <= fuel)%nat -> (3 < hfuel)%nat ->
  let f := image_v2_chunked name class size cbf dims cdims data in
  run0 f p_superblock = Ok SB' /\
  run0 f (p_open true (blen f) fuel hfuel) = Ok (Grp [47] ROOT_ADDR [Dset name CHDR_ADDR]).
Proof. exact file_open_chunked_stmt. Qed.
Print Assumptions C01_file_open_chunked.

(* the key step, for EVERY file shorter than 2^63 bytes (not only images): whenever the function model of the chunked reader
   (Model/ChunkIndex.v read_chunked_file: ParseBTreeV1Node, CollectAllChunks, readChunkedData) succeeds on a file whose root
   node is a leaf, the intact run of the reader PROGRAM's chunked branch succeeds too, and its chunks assemble to the same bytes *)
Theorem C01_chunked_reader_refinement : forall sb, spp_offsize sb = 8 -> forall f root dims cdims esz d fuel,
  blen f <= MAXI64 -> all_pos cdims = true -> (0 < fuel)%nat ->
  (forall nd, parse_node true f root 8 (length cdims) cdims = Ok nd -> n_level nd = 0) ->
  read_chunked_file true f root 8 dims cdims esz = COk d ->
  exists cs, run0 f (chunked_branch sb fuel root cdims (total_elements dims * esz)) = Ok (RawChunks cs) /\
             assemble_chunks dims cdims esz cs = COk d.
Proof. exact chunked_branch_refines. Qed.
Print Assumptions C01_chunked_reader_refinement.

(* what the writer model writeChunkedData (Model/ChunkIndex.v write_chunked_file) appends to a file whose allocator stands at
   its end: the chunks, then the leaf - the part of image_v2_chunked from 2457 on *)
Theorem C01_write_chunked_file_appends : forall dims cdims esz data f f' eof' root,
  blen f + blen (concat (map snd (write_chunks dims cdims esz data))) < 18446744073709551616 ->
  write_chunked_file true dims cdims esz data f (blen f) = Ok (f', eof', root) ->
  let cks := write_chunks dims cdims esz data in
  f' = f ++ concat (map snd cks) ++ serialize_leaf (length dims) (sort_entries (loop_entries cks (blen f))) /\
  root = blen f + blen (concat (map snd cks)).
Proof. exact write_chunked_file_appends. Qed.
Print Assumptions C01_write_chunked_file_appends.

(* the hypotheses are satisfiable *)
Theorem C01_file_roundtrip_chunked_witness :
  link_name_ok [100] = true /\ basic_dtype DT_FIXED 1 0 = true /\ dims_ok_chunked [3] = true /\ cdims_ok [3] [2] = true /\
  blen [1; 2; 3] = product [3] * 1 /\ product [2] * 1 <= 1073741824 /\ total_chunks (num_chunks [3] [2]) <= 65535 /\
  blen (image_v2_chunked [100] DT_FIXED 1 0 [3] [2] [1; 2; 3]) = 2549.
Proof. exact file_roundtrip_chunked_witness. Qed.
Print Assumptions C01_file_roundtrip_chunked_witness.
