From HV Require Import Base.Prelude.
Theorem C03_placeholder : True. Proof. exact I. Qed.
Print Assumptions C03_placeholder.
