(* C03 - Group/link namespace after reopen equals the tree that was built.
   Model: Model/GroupNS.v (writer bookkeeping step, reader read_tree, specification spec_step).
   c : cfg are the thresholds (Go: heap 256 bytes, 32 entries per node, 244 bytes for a soft link);
   every theorem holds for all values.  reach c h = writer state after the history h. *)
From HV Require Import Base.Prelude Model.GroupNS.
From HV Require Import Proofs.GroupNSHeap Proofs.GroupNSInv Proofs.GroupNSRead Proofs.GroupNSLink Proofs.GroupNSWitness.

(* For every admissible history (paths in the specification's syntax; hard-link targets are datasets)
   without soft links and with fewer calls than the reader's nesting limit (1024): every call returns the same ok/err class as the specification (which rejects
   duplicate names, missing or non-group parents, missing targets, and refuses exactly at the capacity
   limits), and the reader's walk of the final state yields exactly the specification's tree. *)
Theorem C03_refines : forall c h, adm c s_empty h = true -> no_soft h = true -> not_too_deep c h = true ->
  map is_ok (snd (run (step c) (init c) h)) = map is_ok (snd (run (spec_step c) s_empty h)) /\
  exists tr, read_tree c (fst (run (step c) (init c) h)) = Some tr /\
             spec_tree (fst (run (spec_step c) s_empty h)) = Some tr.
Proof. exact refines. Qed.
Print Assumptions C03_refines.

(* The same with soft links in the history: the reader shows each soft link object as an empty group. *)
Theorem C03_refines_reader_view : forall c h, adm c s_empty h = true -> not_too_deep c h = true ->
  map is_ok (snd (run (step c) (init c) h)) = map is_ok (snd (run (spec_step c) s_empty h)) /\
  exists tr, read_tree c (fst (run (step c) (init c) h)) = Some tr /\
             spec_tree_as KGroup (fst (run (spec_step c) s_empty h)) = Some tr.
Proof. exact refines_reader_view. Qed.
Print Assumptions C03_refines_reader_view.

(* In every reachable state (any calls whatsoever; names_ok: link names non-empty and NUL-free, or
   linkToParent checks that itself - strict_names) the names the reader decodes in a group are all
   readable and pairwise distinct. *)
Theorem C03_no_dup : forall c h g names, names_ok c h = true -> group_names (reach c h) g = Some names ->
  NoDup names /\ Forall (fun x => x <> None) names.
Proof. exact no_dup_reach. Qed.
Print Assumptions C03_no_dup.

(* A failing call leaves every namespace structure that existed before it exactly as it was (fw.groups,
   every heap segment, every node, every object's kind); for all calls but CreateHardLink also every
   object header. Holds in any state. *)
Theorem C03_err_unchanged : forall c w o w' e, step_body c w o = (w', Err e) -> same_ns (clock w) w w'.
Proof. exact step_err_same_ns. Qed.
Print Assumptions C03_err_unchanged.
Theorem C03_err_unchanged_all : forall c w o w' e, is_hard_link o = false ->
  step_body c w o = (w', Err e) -> same_all (clock w) w w'.
Proof. exact step_err_same_all. Qed.
Print Assumptions C03_err_unchanged_all.

(* Creating a name that already exists in the group it would be linked into is rejected. *)
Theorem C03_reject_dup : forall c h o, names_ok c h = true -> name_exists c (reach c h) o ->
  is_ok (snd (step_body c (reach c h) o)) = false /\
  same_ns (clock (reach c h)) (reach c h) (fst (step_body c (reach c h) o)).
Proof. exact reject_dup_reach. Qed.
Print Assumptions C03_reject_dup.

(* Creating under a parent that is not the root and not a registered group is rejected (any state). *)
Theorem C03_reject_missing_parent : forall c w o, parent_group w (op_parent c o) = None ->
  is_ok (snd (step_body c w o)) = false /\ same_ns (clock w) w (fst (step_body c w o)).
Proof. exact reject_missing_parent_any. Qed.
Print Assumptions C03_reject_missing_parent.

(* At node capacity, or when the name does not fit the heap, the call is rejected and nothing changes
   (the heap and the node are edited in memory only; neither is written). *)
Theorem C03_capacity : forall c h o g names, names_ok c h = true -> heap_name_ok (op_link_name c o) = true ->
  parent_group (reach c h) (op_parent c o) = Some g -> group_names (reach c h) g = Some names ->
  (snod_cap c <= blen names \/ new_heap_size (heap_cap c) < used_bytes names + blen (op_link_name c o) + 1) ->
  is_ok (snd (step_body c (reach c h) o)) = false /\
  same_ns (clock (reach c h)) (reach c h) (fst (step_body c (reach c h) o)).
Proof. exact capacity_reach. Qed.
Print Assumptions C03_capacity.

(* After a successful CreateHardLink both names resolve to the same object header. *)
Theorem C03_hardlink_same_object : forall c h p q w', names_ok c h = true -> heap_name_ok (snd (parse_path p)) = true ->
  step c (reach c h) (HardLink p q) = (w', Ok) ->
  exists t, resolve_object_address w' p = Some t /\ resolve_object_address w' q = Some t.
Proof. exact hardlink_same_object_reach. Qed.
Print Assumptions C03_hardlink_same_object.

(* ---- the exclusions are necessary: one witness each (Proofs/GroupNSWitness.v) ---- *)
(* target_is_data: a hard link to a group; both sides accept every call, the reader lists /h without children *)
Theorem C03_group_hardlink_refuted :
  names_ok go_cfg h_group_hardlink = true /\ all_ok (snd (go h_group_hardlink)) = true /\ all_ok (snd (sp h_group_hardlink)) = true /\
  read_tree go_cfg (fst (go h_group_hardlink)) <> spec_tree (fst (sp h_group_hardlink)) /\
  read_tree go_cfg (fst (go h_group_hardlink)) =
    Some (TNode 0 KGroup [(b "g", TNode 1 KGroup [(b "x", TNode 2 KGroup [])]); (b "h", TNode 1 KGroup [])]).
Proof. exact group_hardlink_refuted. Qed.
Print Assumptions C03_group_hardlink_refuted.
(* target_is_data, sub-case: the target encloses the link: listed without children (and, while the
   reader treated its own-ancestor check as an error - cyc_cfg - the file could not be opened at all) *)
Theorem C03_ancestor_link_refuted :
  all_ok (snd (go h_ancestor_link)) = true /\ all_ok (snd (sp h_ancestor_link)) = true /\
  read_tree cyc_cfg (fst (run (step cyc_cfg) (init cyc_cfg) h_ancestor_link)) = None /\
  read_tree go_cfg (fst (go h_ancestor_link)) =
    Some (TNode 0 KGroup [(b "g", TNode 1 KGroup [(b "h", TNode 2 KGroup [(b "up", TNode 1 KGroup [])])])]).
Proof. exact ancestor_link_refuted. Qed.
Print Assumptions C03_ancestor_link_refuted.
Theorem C03_alias_parent_refuted :
  map is_ok (snd (go h_alias_parent)) = [true; true; false] /\ map is_ok (snd (sp h_alias_parent)) = [true; true; true].
Proof. exact alias_parent_refuted. Qed.
Print Assumptions C03_alias_parent_refuted.
(* no_soft *)
Theorem C03_soft_link_refuted :
  adm go_cfg s_empty h_soft = true /\ all_ok (snd (go h_soft)) = true /\
  read_tree go_cfg (fst (go h_soft)) = Some (TNode 0 KGroup [(b "d", TNode 1 KData []); (b "s", TNode 2 KGroup [])]) /\
  spec_tree (fst (sp h_soft)) = Some (TNode 0 KGroup [(b "d", TNode 1 KData []); (b "s", TNode 2 KSoft [])]).
Proof. exact soft_link_refuted. Qed.
Print Assumptions C03_soft_link_refuted.
(* names_ok / path_ok (gob = the tree before the repairs in notes/fixes; go = the tree as it is) *)
Theorem C03_empty_name_refuted :
  all_ok (snd (gob h_empty_name)) = true /\
  group_names (fst (gob h_empty_name)) 0 = Some [Some (b "x"); Some (b "x")] /\ ~ NoDup [Some (b "x"); Some (b "x")].
Proof. exact empty_name_refuted. Qed.
Print Assumptions C03_empty_name_refuted.
Theorem C03_dataset_root_refuted :
  all_ok (snd (gob h_dataset_root)) = true /\ group_names (fst (gob h_dataset_root)) 0 = Some [Some (b "x"); Some (b "x")].
Proof. exact dataset_root_refuted. Qed.
Print Assumptions C03_dataset_root_refuted.
Theorem C03_nul_name_refuted :
  all_ok (snd (gob h_nul_name)) = true /\ group_names (fst (gob h_nul_name)) 0 = Some [Some (b "a"); Some (b "a")].
Proof. exact nul_name_refuted. Qed.
Print Assumptions C03_nul_name_refuted.
Theorem C03_trailing_slash_refuted :
  snd (gob h_trailing_slash) = [Ok; Err ENoParent; Ok] /\
  read_tree base_cfg (fst (gob h_trailing_slash)) = Some (TNode 0 KGroup [(b "a", TNode 1 KGroup [(b "b", TNode 3 KGroup [])])]).
Proof. exact trailing_slash_refuted. Qed.
Print Assumptions C03_trailing_slash_refuted.
(* C03_err_unchanged_all does not extend to CreateHardLink *)
Theorem C03_hardlink_rollback_refuted :
  let w := fst (gob h_rollback) in let w' := fst (step_body base_cfg w o_rollback) in
  snd (step_body base_cfg w o_rollback) = Err EDup /\
  option_map refcount (alookup 1 (objects w)) = Some 1 /\ option_map refcount (alookup 1 (objects w')) = Some 2 /\
  ~ same_all (clock w) w w'.
Proof. exact hardlink_rollback_refuted. Qed.
Print Assumptions C03_hardlink_rollback_refuted.

(* ---- with the candidate repairs (notes/fixes) the name exclusion disappears ---- *)
Theorem C03_no_dup_repaired : forall c h g names, strict_names c = true -> group_names (reach c h) g = Some names ->
  NoDup names /\ Forall (fun x => x <> None) names.
Proof. exact no_dup_repaired. Qed.
Print Assumptions C03_no_dup_repaired.
Theorem C03_repairs_remove_witnesses :
  snd (gof h_empty_name) = [Err EInvalidPath; Ok] /\ snd (gof h_dataset_root) = [Err EInvalidPath; Ok] /\
  snd (gof h_nul_name) = [Ok; Err EInvalidPath] /\
  snd (gof h_trailing_slash) = [Ok; Ok; Err ENoParent] /\
  (let w := fst (gof h_rollback) in
   option_map refcount (alookup 1 (objects (fst (step_body fixed_cfg w o_rollback)))) = Some 1).
Proof. exact repairs_remove_witnesses. Qed.
Print Assumptions C03_repairs_remove_witnesses.

(* not_too_deep (shown with the limit set to 2) *)
Theorem C03_too_deep_refuted :
  adm shallow_cfg s_empty h_deep = true /\ all_ok (snd (run (step shallow_cfg) (init shallow_cfg) h_deep)) = true /\
  read_tree shallow_cfg (fst (run (step shallow_cfg) (init shallow_cfg) h_deep)) = None /\
  spec_tree (fst (run (spec_step shallow_cfg) s_empty h_deep)) <> None.
Proof. exact too_deep_refuted. Qed.
Print Assumptions C03_too_deep_refuted.
