(* C18 - independent handles and background rebalancing are race-free and stop cleanly.
   Statements only; lemmas in Proofs/Conc.v, Proofs/ConcExamples.v, Proofs/Lifecycle.v.

   PARTIAL by construction (see MANIFEST level_note): Coq carries (1) the soundness of the lockset
   discipline over an abstract interleaving semantics - every interleaving, any number of threads, runs
   of any length - which the check instantiates on every run with the access table extracted from the
   current source (tools/locktable -> `locktable_ok table = true` by vm_compute, then `C18_table_sound`),
   and (2) the start/stop protocols of the two background workers as counter-abstracted transition
   systems (any number of concurrent callers).  The Go memory model, the scheduler, and accesses the
   extractor cannot see are outside; the race detector runs are the search half.
   `fixed = false` is the code as found in the pinned tree, `fixed = true` the code after
   notes/fixes/c18-*.patch. *)
From HV Require Import Base.Prelude Model.Conc Proofs.Conc Proofs.ConcExamples Model.Lifecycle Proofs.Lifecycle.
From HV Require Gen.LockTablePinned Gen.LockTableFixed.

(* --- the discipline ---------------------------------------------------------------------------- *)

(* in every reachable state of every interleaving, a mutex held for writing is held by nobody else *)
Theorem C18_mutual_exclusion : forall P ths s, well_locked P ths -> reachable (init_state ths) s -> mutex_inv s.
Proof. exact mutual_exclusion. Qed.
Print Assumptions C18_mutual_exclusion.

(* a pool whose every access is covered (common lock / confinement to one uniquely labelled thread /
   handed over from parent to child by a spawn / read-only / atomic only) has no reachable state with two
   enabled conflicting accesses *)
Theorem C18_lockset_sound : forall P ths, well_locked P ths -> forall s, reachable (init_state ths) s -> ~ race s.
Proof. exact lockset_sound. Qed.
Print Assumptions C18_lockset_sound.

(* the decidable check on an access table implies the discipline for EVERY pool built from the table's
   sites: any number of threads per role (unless the role is declared single), any order, any repetition *)
Theorem C18_table_well_locked : forall single t ths,
  locktable_ok single t = true -> conforms single t ths -> well_locked (prot_of single t) ths.
Proof. exact table_well_locked. Qed.
Print Assumptions C18_table_well_locked.

Theorem C18_table_sound : forall single t ths,
  locktable_ok single t = true -> conforms single t ths ->
  forall s, reachable (init_state ths) s -> ~ race s.
Proof. exact table_sound. Qed.
Print Assumptions C18_table_sound.

Theorem C18_program_of_well_locked : forall t,
  locktable_ok (fun _ => true) t = true -> well_locked (prot_of (fun _ => true) t) (program_of t).
Proof. exact program_of_well_locked. Qed.
Print Assumptions C18_program_of_well_locked.

(* non-vacuity: a disciplined program that runs to completion, an undisciplined one with a reachable
   race, a table that is rejected and whose canonical program does race *)
Theorem C18_example_good : (forall s, reachable (init_state ex_good) s -> ~ race s) /\
  exists s, run_sched (init_state ex_good) [0;0;0;1;1;1;0;0;2;2;1;2;2;1]%nat = Some s /\
    forallb (fun th => match t_prog th with [] => true | _ => false end) (s_pool s) = true /\ s_panic s = false.
Proof. exact (conj ex_good_race_free ex_good_runs). Qed.
Print Assumptions C18_example_good.

Theorem C18_example_bad : exists s, reachable (init_state ex_bad) s /\ race s.
Proof. exact ex_bad_race_reachable. Qed.
Print Assumptions C18_example_bad.

(* happens-before by spawn: initialise, then `go`: race free; one more parent access after the go
   statement: rejected by the static condition, and a race is reachable *)
Theorem C18_example_spawn_handoff : (forall s, reachable (init_state ex_hb_good) s -> ~ race s) /\
  handoff_ok 7%N 0 1 ex_hb_bad = false /\ exists s, reachable (init_state ex_hb_bad) s /\ race s.
Proof. exact (conj ex_hb_good_race_free (conj ex_hb_bad_rejected ex_hb_bad_races)). Qed.
Print Assumptions C18_example_spawn_handoff.

Theorem C18_example_table_bad : locktable_ok (fun _ => false) ex_table_bad = false /\
  exists s, reachable (init_state (program_of ex_table_bad)) s /\ race s.
Proof. exact (conj ex_table_bad_rejected ex_table_bad_races). Qed.
Print Assumptions C18_example_table_bad.

(* frozen snapshots of the extracted table (the check regenerates it from the source on every run):
   the tree as found is rejected and its canonical program does reach a race on
   lazyState.UnderflowNodes between the background loop and the foreground API (C18_refuted of the design);
   the tree with notes/fixes/c18-1..3 applied passes, hence no pool built from its sites can race *)
Theorem C18_pinned_table_refuted : locktable_ok Gen.LockTablePinned.nobody_single Gen.LockTablePinned.table = false /\
  exists s, reachable (init_state (program_of Gen.LockTablePinned.table)) s /\ race s.
Proof. exact (conj Gen.LockTablePinned.pinned_table_rejected Gen.LockTablePinned.pinned_table_races). Qed.
Print Assumptions C18_pinned_table_refuted.

Theorem C18_fixed_table_race_free : forall ths,
  conforms Gen.LockTableFixed.nobody_single Gen.LockTableFixed.table ths ->
  forall s, reachable (init_state ths) s -> ~ race s.
Proof. exact Gen.LockTableFixed.fixed_table_race_free. Qed.
Print Assumptions C18_fixed_table_race_free.

(* --- IncrementalRebalancer Start / Stop / rebalancingLoop ---------------------------------------- *)

Theorem C18_inc_no_double_close : forall s, ireach true s -> i_panic s = false.
Proof. exact inc_fixed_no_double_close. Qed.
Print Assumptions C18_inc_no_double_close.

Theorem C18_inc_one_worker : forall s, ireach true s -> (i_spawn s + i_workers s <= 1)%nat.
Proof. exact inc_fixed_one_worker. Qed.
Print Assumptions C18_inc_one_worker.

Theorem C18_inc_stop_leaves_no_worker : forall s s',
  ireach true s -> istep true s IReturn = Some s' -> i_workers s' = 0%nat /\ i_spawn s' = 0%nat.
Proof. exact inc_fixed_stop_leaves_no_worker. Qed.
Print Assumptions C18_inc_stop_leaves_no_worker.

(* no reachable state in which a Stop waits and the system cannot move; each move brings the release
   closer.  (That the moves are taken is the scheduler's fairness, which is not modelled.) *)
Theorem C18_inc_stop_progress : forall s,
  ireach true s -> (i_wait s > 0)%nat -> i_stopped_closed s = false ->
  exists l s', i_internal l = true /\ istep true s l = Some s' /\ (i_measure s' < i_measure s)%nat.
Proof. exact inc_fixed_progress. Qed.
Print Assumptions C18_inc_stop_progress.

(* the code as found: two overlapping Stop calls close stopChan twice; Start after Stop closes
   stoppedChan twice; with one Start and one Stop per object it is fine *)
Theorem C18_inc_double_stop_refuted :
  exists s, irun false i_init trace_double_stop = Some s /\ i_panic s = true /\ i_starts s = 1%nat /\ i_stops s = 2%nat.
Proof. exact inc_double_stop_refuted. Qed.
Print Assumptions C18_inc_double_stop_refuted.

Theorem C18_inc_restart_refuted :
  exists s, irun false i_init trace_restart = Some s /\ i_panic s = true /\ i_returned s = 1%nat.
Proof. exact inc_restart_refuted. Qed.
Print Assumptions C18_inc_restart_refuted.

Theorem C18_inc_old_single_use_partial : forall s,
  ireach false s -> (i_starts s <= 1)%nat -> (i_stops s <= 1)%nat -> i_panic s = false.
Proof. exact inc_old_single_use_partial. Qed.
Print Assumptions C18_inc_old_single_use_partial.

(* --- SmartRebalancer Start / Stop / monitorLoop -------------------------------------------------- *)

Theorem C18_smart_one_worker : forall s, mreach true s -> (m_workers s <= 1)%nat /\ m_misuse s = false.
Proof. exact smart_fixed_one_worker. Qed.
Print Assumptions C18_smart_one_worker.

Theorem C18_smart_stop_leaves_no_worker : forall s s',
  mreach true s -> mstep true s MReturn = Some s' -> m_workers s' = 0%nat /\ m_started s' = false.
Proof. exact smart_fixed_stop_leaves_no_worker. Qed.
Print Assumptions C18_smart_stop_leaves_no_worker.

Theorem C18_smart_stop_progress : forall s,
  mreach true s -> (m_wait s > 0)%nat ->
  (exists s', mstep true s MReturn = Some s') \/
  (exists s', mstep true s MExit = Some s' /\ (m_wg s' < m_wg s)%nat).
Proof. exact smart_fixed_progress. Qed.
Print Assumptions C18_smart_stop_progress.

Theorem C18_smart_stop_blocked_refuted :
  exists s, mrun false m_init [MStartCall; MStopCall; MStartCall; MReselect] = Some s /\
    m_wait s = 1%nat /\ m_workers s = 2%nat /\ mstep false s MReturn = None /\ mstep false s MExit = None /\
    mstep false s MReselect = None.
Proof. exact smart_old_stop_blocked_refuted. Qed.
Print Assumptions C18_smart_stop_blocked_refuted.

Theorem C18_smart_waitgroup_misuse_refuted :
  exists s, mrun false m_init [MStartCall; MStopCall; MExit; MStartCall] = Some s /\ m_misuse s = true.
Proof. exact smart_old_waitgroup_misuse_refuted. Qed.
Print Assumptions C18_smart_waitgroup_misuse_refuted.

(* --- tree level: WritableBTreeV2.Enable/Stop/IsEnabled/GetProgress of incremental rebalancing ------ *)
(* System (c) of Model/Lifecycle.v: the field bt.incrementalRebalancer and every IncrementalRebalancer object
   it has pointed to (each one a state of system (a), moving by `istep true` only), any number of concurrent
   callers of the four wrappers.  `current` = the code as it is (golden skeleton "tree"/"patched" of
   tools/c18_protocol_shape.json), `early_detach` = field set to nil before rebalancer.Stop() (seeded C18-b). *)

(* the product property: every object installed in the tree is a reachable state of system (a) *)
Theorem C18_tree_projects_to_inc : forall v s k g,
  treach v s -> nth_error (t_gens s) k = Some g -> ireach true (g_in g).
Proof. exact tree_projects_to_inc. Qed.
Print Assumptions C18_tree_projects_to_inc.

(* a StopIncrementalRebalancing call that read object g and returns: g has no goroutine left, no object
   installed at or before g has a goroutine that may still run a session, and an object that has one was
   installed after this call read the field (index > g) and is the one the field points to *)
Theorem C18_tree_stop_return_means_stopped : forall s g ok s',
  treach current s -> tstep current s (TStopFinish g ok) = Some s' ->
  (exists gs, nth_error (t_gens s') g = Some gs /\ i_stopped_closed (g_in gs) = true /\
              i_workers (g_in gs) = 0%nat /\ i_spawn (g_in gs) = 0%nat) /\
  (forall k gs, nth_error (t_gens s') k = Some gs -> (k <= g)%nat -> i_active (g_in gs) = 0%nat) /\
  (forall k gs, nth_error (t_gens s') k = Some gs -> (i_active (g_in gs) > 0)%nat -> (g < k)%nat /\ t_field s' = Some k).
Proof. exact tree_stop_return_means_stopped. Qed.
Print Assumptions C18_tree_stop_return_means_stopped.

(* a call that returns at once because the field is nil: no object of this tree has a goroutine that may
   still run a session *)
Theorem C18_tree_stop_nil_return_no_active_worker : forall s s',
  treach current s -> tstep current s TStopRead = Some s' -> t_ret_nil s' = S (t_ret_nil s) ->
  forall k gs, nth_error (t_gens s') k = Some gs -> i_active (g_in gs) = 0%nat.
Proof. exact tree_stop_nil_return_no_active_worker. Qed.
Print Assumptions C18_tree_stop_nil_return_no_active_worker.

(* at most one goroutine per tree that has not yet passed `ir.running = false`, and it belongs to the object
   the field points to (goroutines that have only their deferred close(stoppedChan) left are not counted:
   C18_tree_exiting_overlap_example) *)
Theorem C18_tree_at_most_one_active_worker : forall s, treach current s ->
  (forall k g, nth_error (t_gens s) k = Some g -> (i_active (g_in g) <= 1)%nat) /\
  (forall k g, nth_error (t_gens s) k = Some g -> (i_active (g_in g) > 0)%nat -> t_field s = Some k) /\
  (forall k1 g1 k2 g2, nth_error (t_gens s) k1 = Some g1 -> nth_error (t_gens s) k2 = Some g2 ->
     (i_active (g_in g1) > 0)%nat -> (i_active (g_in g2) > 0)%nat -> k1 = k2).
Proof. exact tree_at_most_one_active_worker. Qed.
Print Assumptions C18_tree_at_most_one_active_worker.

Theorem C18_tree_exiting_worker_is_awaited : forall s k g,
  treach current s -> nth_error (t_gens s) k = Some g ->
  (i_exit (g_in g) > 0)%nat -> (i_wait (g_in g) > 0)%nat /\ i_stopped_closed (g_in g) = false.
Proof. exact tree_exiting_worker_is_awaited. Qed.
Print Assumptions C18_tree_exiting_worker_is_awaited.

Theorem C18_tree_no_panic : forall s k g,
  treach current s -> nth_error (t_gens s) k = Some g -> i_panic (g_in g) = false.
Proof. exact tree_no_panic. Qed.
Print Assumptions C18_tree_no_panic.

(* a StopIncrementalRebalancing call is never stuck: it can move itself, or (blocked in <-stoppedChan) a step
   of the system itself is enabled and decreases system (a)'s measure *)
Theorem C18_tree_stop_progress : forall s g gs,
  treach current s -> nth_error (t_gens s) g = Some gs ->
  ((g_pre gs > 0)%nat -> exists s', tstep current s (TStopInner g) = Some s') /\
  ((g_post gs > 0)%nat -> exists s', tstep current s (TStopFinish g true) = Some s') /\
  ((i_wait (g_in gs) > 0)%nat -> i_stopped_closed (g_in gs) = false ->
   exists l s' gs', i_internal l = true /\ tstep current s (TInner g l) = Some s' /\
     nth_error (t_gens s') g = Some gs' /\ (i_measure (g_in gs') < i_measure (g_in gs))%nat).
Proof. exact tree_stop_progress. Qed.
Print Assumptions C18_tree_stop_progress.

(* the seeded variant: the second of two overlapping stop requests returns while the goroutine is in its loop *)
Theorem C18_tree_early_detach_refuted :
  exists s gs, trun early_detach t_init trace_early_detach = Some s /\
    t_stops s = 2%nat /\ t_ret_nil s = 1%nat /\ nth_error (t_gens s) 0 = Some gs /\
    i_loop (g_in gs) = 1%nat /\ i_stop_closed (g_in gs) = false /\ i_stopped_closed (g_in gs) = false /\ g_pre gs = 1%nat.
Proof. exact tree_early_detach_refuted. Qed.
Print Assumptions C18_tree_early_detach_refuted.

Theorem C18_tree_early_detach_two_workers_refuted :
  exists s g0 g1, trun early_detach t_init [TEnable true; TStopRead; TEnable true] = Some s /\
    nth_error (t_gens s) 0 = Some g0 /\ nth_error (t_gens s) 1 = Some g1 /\
    i_active (g_in g0) = 1%nat /\ i_active (g_in g1) = 1%nat.
Proof. exact tree_early_detach_two_workers_refuted. Qed.
Print Assumptions C18_tree_early_detach_two_workers_refuted.

(* non-vacuity for `current`: two overlapping stop requests both wait and both return after the goroutine ended *)
Theorem C18_tree_two_overlapping_stops :
  exists s1 g1 s2 g2,
    trun current t_init trace_two_stops_wait = Some s1 /\ nth_error (t_gens s1) 0 = Some g1 /\
    i_wait (g_in g1) = 2%nat /\ i_loop (g_in g1) = 1%nat /\ t_ret s1 = 0%nat /\ tstep current s1 (TInner 0 IReturn) = None /\
    trun current s1 trace_two_stops_finish = Some s2 /\ nth_error (t_gens s2) 0 = Some g2 /\
    t_ret s2 = 2%nat /\ t_ret_nil s2 = 0%nat /\ t_field s2 = None /\ i_workers (g_in g2) = 0%nat /\ i_stopped_closed (g_in g2) = true.
Proof. exact tree_two_overlapping_stops. Qed.
Print Assumptions C18_tree_two_overlapping_stops.

(* observation: a goroutine past `ir.running = false` can coexist with the goroutine of a newer object *)
Theorem C18_tree_exiting_overlap_example :
  exists s1 a0 a1 s2 b0,
    trun current t_init trace_exiting_overlap = Some s1 /\
    nth_error (t_gens s1) 0 = Some a0 /\ nth_error (t_gens s1) 1 = Some a1 /\
    i_exit (g_in a0) = 1%nat /\ i_wait (g_in a0) = 1%nat /\ i_active (g_in a0) = 0%nat /\ i_active (g_in a1) = 1%nat /\
    trun current s1 trace_exiting_overlap_stop = Some s2 /\ t_ret s2 = 1%nat /\ t_field s2 = None /\
    nth_error (t_gens s2) 0 = Some b0 /\ i_exit (g_in b0) = 1%nat /\ i_wait (g_in b0) = 1%nat.
Proof. exact tree_exiting_overlap_example. Qed.
Print Assumptions C18_tree_exiting_overlap_example.
