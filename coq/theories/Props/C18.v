(* C18 - independent handles and background rebalancing are race-free and stop cleanly.
   Statements only; lemmas in Proofs/Conc.v, Proofs/ConcExamples.v, Proofs/Lifecycle.v.

   PARTIAL by construction (see MANIFEST level_note): Coq carries (1) the soundness of the lockset
   discipline over an abstract interleaving semantics - every interleaving, any number of threads, runs
   of any length - which the check instantiates on every run with the access table extracted from the
   current source (tools/locktable -> `locktable_ok table = true` by vm_compute, then `C18_table_sound`),
   and (2) the start/stop protocols of the two background workers as counter-abstracted transition
   systems (any number of concurrent callers).  The Go memory model, the scheduler, and accesses the
   extractor cannot see are outside; the race detector runs are the search half.
   `fixed = false` is the code as found in the pinned tree, `fixed = true` the code after
   notes/fixes/c18-*.patch. *)
From HV Require Import Base.Prelude Model.Conc Proofs.Conc Proofs.ConcExamples Model.Lifecycle Proofs.Lifecycle.
From HV Require Gen.LockTablePinned Gen.LockTableFixed.

(* --- the discipline ---------------------------------------------------------------------------- *)

(* in every reachable state of every interleaving, a mutex held for writing is held by nobody else *)
Theorem C18_mutual_exclusion : forall P ths s, well_locked P ths -> reachable (init_state ths) s -> mutex_inv s.
Proof. exact mutual_exclusion. Qed.
Print Assumptions C18_mutual_exclusion.

(* a pool whose every access is covered (common lock / confinement to one uniquely labelled thread /
   handed over from parent to child by a spawn / read-only / atomic only) has no reachable state with two
   enabled conflicting accesses *)
Theorem C18_lockset_sound : forall P ths, well_locked P ths -> forall s, reachable (init_state ths) s -> ~ race s.
Proof. exact lockset_sound. Qed.
Print Assumptions C18_lockset_sound.

(* the decidable check on an access table implies the discipline for EVERY pool built from the table's
   sites: any number of threads per role (unless the role is declared single), any order, any repetition *)
Theorem C18_table_well_locked : forall single t ths,
  locktable_ok single t = true -> conforms single t ths -> well_locked (prot_of single t) ths.
Proof. exact table_well_locked. Qed.
Print Assumptions C18_table_well_locked.

Theorem C18_table_sound : forall single t ths,
  locktable_ok single t = true -> conforms single t ths ->
  forall s, reachable (init_state ths) s -> ~ race s.
Proof. exact table_sound. Qed.
Print Assumptions C18_table_sound.

Theorem C18_program_of_well_locked : forall t,
  locktable_ok (fun _ => true) t = true -> well_locked (prot_of (fun _ => true) t) (program_of t).
Proof. exact program_of_well_locked. Qed.
Print Assumptions C18_program_of_well_locked.

(* non-vacuity: a disciplined program that runs to completion, an undisciplined one with a reachable
   race, a table that is rejected and whose canonical program does race *)
Theorem C18_example_good : (forall s, reachable (init_state ex_good) s -> ~ race s) /\
  exists s, run_sched (init_state ex_good) [0;0;0;1;1;1;0;0;2;2;1;2;2;1]%nat = Some s /\
    forallb (fun th => match t_prog th with [] => true | _ => false end) (s_pool s) = true /\ s_panic s = false.
Proof. exact (conj ex_good_race_free ex_good_runs). Qed.
Print Assumptions C18_example_good.

Theorem C18_example_bad : exists s, reachable (init_state ex_bad) s /\ race s.
Proof. exact ex_bad_race_reachable. Qed.
Print Assumptions C18_example_bad.

(* happens-before by spawn: initialise, then `go`: race free; one more parent access after the go
   statement: rejected by the static condition, and a race is reachable *)
Theorem C18_example_spawn_handoff : (forall s, reachable (init_state ex_hb_good) s -> ~ race s) /\
  handoff_ok 7%N 0 1 ex_hb_bad = false /\ exists s, reachable (init_state ex_hb_bad) s /\ race s.
Proof. exact (conj ex_hb_good_race_free (conj ex_hb_bad_rejected ex_hb_bad_races)). Qed.
Print Assumptions C18_example_spawn_handoff.

Theorem C18_example_table_bad : locktable_ok (fun _ => false) ex_table_bad = false /\
  exists s, reachable (init_state (program_of ex_table_bad)) s /\ race s.
Proof. exact (conj ex_table_bad_rejected ex_table_bad_races). Qed.
Print Assumptions C18_example_table_bad.

(* frozen snapshots of the extracted table (the check regenerates it from the source on every run):
   the tree as found is rejected and its canonical program does reach a race on
   lazyState.UnderflowNodes between the background loop and the foreground API (C18_refuted of the design);
   the tree with notes/fixes/c18-1..3 applied passes, hence no pool built from its sites can race *)
Theorem C18_pinned_table_refuted : locktable_ok Gen.LockTablePinned.nobody_single Gen.LockTablePinned.table = false /\
  exists s, reachable (init_state (program_of Gen.LockTablePinned.table)) s /\ race s.
Proof. exact (conj Gen.LockTablePinned.pinned_table_rejected Gen.LockTablePinned.pinned_table_races). Qed.
Print Assumptions C18_pinned_table_refuted.

Theorem C18_fixed_table_race_free : forall ths,
  conforms Gen.LockTableFixed.nobody_single Gen.LockTableFixed.table ths ->
  forall s, reachable (init_state ths) s -> ~ race s.
Proof. exact Gen.LockTableFixed.fixed_table_race_free. Qed.
Print Assumptions C18_fixed_table_race_free.

(* --- IncrementalRebalancer Start / Stop / rebalancingLoop ---------------------------------------- *)

Theorem C18_inc_no_double_close : forall s, ireach true s -> i_panic s = false.
Proof. exact inc_fixed_no_double_close. Qed.
Print Assumptions C18_inc_no_double_close.

Theorem C18_inc_one_worker : forall s, ireach true s -> (i_spawn s + i_workers s <= 1)%nat.
Proof. exact inc_fixed_one_worker. Qed.
Print Assumptions C18_inc_one_worker.

Theorem C18_inc_stop_leaves_no_worker : forall s s',
  ireach true s -> istep true s IReturn = Some s' -> i_workers s' = 0%nat /\ i_spawn s' = 0%nat.
Proof. exact inc_fixed_stop_leaves_no_worker. Qed.
Print Assumptions C18_inc_stop_leaves_no_worker.

(* no reachable state in which a Stop waits and the system cannot move; each move brings the release
   closer.  (That the moves are taken is the scheduler's fairness, which is not modelled.) *)
Theorem C18_inc_stop_progress : forall s,
  ireach true s -> (i_wait s > 0)%nat -> i_stopped_closed s = false ->
  exists l s', i_internal l = true /\ istep true s l = Some s' /\ (i_measure s' < i_measure s)%nat.
Proof. exact inc_fixed_progress. Qed.
Print Assumptions C18_inc_stop_progress.

(* the code as found: two overlapping Stop calls close stopChan twice; Start after Stop closes
   stoppedChan twice; with one Start and one Stop per object it is fine *)
Theorem C18_inc_double_stop_refuted :
  exists s, irun false i_init trace_double_stop = Some s /\ i_panic s = true /\ i_starts s = 1%nat /\ i_stops s = 2%nat.
Proof. exact inc_double_stop_refuted. Qed.
Print Assumptions C18_inc_double_stop_refuted.

Theorem C18_inc_restart_refuted :
  exists s, irun false i_init trace_restart = Some s /\ i_panic s = true /\ i_returned s = 1%nat.
Proof. exact inc_restart_refuted. Qed.
Print Assumptions C18_inc_restart_refuted.

Theorem C18_inc_old_single_use_partial : forall s,
  ireach false s -> (i_starts s <= 1)%nat -> (i_stops s <= 1)%nat -> i_panic s = false.
Proof. exact inc_old_single_use_partial. Qed.
Print Assumptions C18_inc_old_single_use_partial.

(* --- SmartRebalancer Start / Stop / monitorLoop -------------------------------------------------- *)

Theorem C18_smart_one_worker : forall s, mreach true s -> (m_workers s <= 1)%nat /\ m_misuse s = false.
Proof. exact smart_fixed_one_worker. Qed.
Print Assumptions C18_smart_one_worker.

Theorem C18_smart_stop_leaves_no_worker : forall s s',
  mreach true s -> mstep true s MReturn = Some s' -> m_workers s' = 0%nat /\ m_started s' = false.
Proof. exact smart_fixed_stop_leaves_no_worker. Qed.
Print Assumptions C18_smart_stop_leaves_no_worker.

Theorem C18_smart_stop_progress : forall s,
  mreach true s -> (m_wait s > 0)%nat ->
  (exists s', mstep true s MReturn = Some s') \/
  (exists s', mstep true s MExit = Some s' /\ (m_wg s' < m_wg s)%nat).
Proof. exact smart_fixed_progress. Qed.
Print Assumptions C18_smart_stop_progress.

Theorem C18_smart_stop_blocked_refuted :
  exists s, mrun false m_init [MStartCall; MStopCall; MStartCall; MReselect] = Some s /\
    m_wait s = 1%nat /\ m_workers s = 2%nat /\ mstep false s MReturn = None /\ mstep false s MExit = None /\
    mstep false s MReselect = None.
Proof. exact smart_old_stop_blocked_refuted. Qed.
Print Assumptions C18_smart_stop_blocked_refuted.

Theorem C18_smart_waitgroup_misuse_refuted :
  exists s, mrun false m_init [MStartCall; MStopCall; MExit; MStartCall] = Some s /\ m_misuse s = true.
Proof. exact smart_old_waitgroup_misuse_refuted. Qed.
Print Assumptions C18_smart_waitgroup_misuse_refuted.
