(* C02, end to end at byte level: the READER programs (Dataset.Attributes' api_attributes, Dataset.Read's api_read_raw,
   ReadSuperblock p_superblock, hdf5.Open's loader p_open: Model/IOProg*.v, each tied to the Go reader and proved strict for C17)
   run on the FILE IMAGE the writer leaves behind for
     CreateForWrite (superblock v2); CreateDataset("/"+name, dtype, dims); Write(data); WriteAttribute(aname, value); Close()
   (Model/FileImageAttr.v image_v2_attr: image_v2 whose dataset object header, rewritten in place inside its 262-byte reserve,
   additionally carries one compact attribute message of version 3; compared byte for byte with the library's files on every run:
   tools/props/c02file.py) return the attribute that was written, and the data.  Only theorem statements here; proofs in
   Proofs/FileImageAttr*.v. *)
From HV Require Import Base.Prelude Base.Outcome Base.Bytes Model.IOProg Model.IOProgReader Model.IOProgOpen.
From HV Require Import Model.CodecSuper Model.CodecOhdr Model.CodecMsg Model.CodecType Model.CodecAttr Model.FileImage Model.FileImageAttr.
From HV Require Import Proofs.FileImage Proofs.FileImageOhdr Proofs.FileImageData Proofs.FileImageProd Proofs.FileImageMain
  Proofs.FileImageAttrOhdr Proofs.FileImageAttr Proofs.FileImageAttrMain Proofs.FileImageAttrKinds.

(* For ALL link names / basic registry datatypes / shapes / data as in C01_file_roundtrip_contiguous, and ALL attributes
   (name aname, datatype message adt, dataspace extents adims, value bytes adata) whose attribute message is well-formed
   (wf_attribute: non-empty name of less than 65535 bytes, a datatype / dataspace the codec roundtrip theorems of C11 cover,
   a value of at most 64 MiB) and still fits the 255-byte header chunk together with the dataset's three messages (attr_fits:
   otherwise the writer takes the dense path, another file layout), every loader fuel >= 3 and header fuel >= 5:
     Dataset.Attributes returns exactly one attribute: (aname, the value bytes);
     the attribute message in the dataset's header, parsed by the reader's ParseAttributeMessage (dec_attribute), is the name,
       the datatype (as the datatype decoder reports it: proj_datatype), the simple dataspace with the extents adims, and the
       value bytes; the dataset's own datatype and shape are still decoded from the same header;
     the dataset read still returns exactly the written bytes;
     ReadSuperblock and Open return the same superblock / tree as without attribute. *)
Theorem C02_file_attribute_roundtrip : forall name class size cbf dims data aname adt adims adata fuel hfuel,
  link_name_ok name = true -> basic_dtype class size cbf = true -> dims_ok dims = true ->
  blen data = product dims * size -> blen data < 4294967296 ->
  wf_attribute (attr_msg aname adt adims adata) = true ->
  attr_fits class size cbf dims aname adt adims adata = true ->
  (3 <= fuel)%nat -> (4 < hfuel)%nat ->
  let f := image_v2_attr name class size cbf dims data aname adt adims adata in
  run0 f (api_attributes SB' hfuel (dset_addr data)) = Ok [(aname, adata)] /\
  (exists h, run0 f (p_ohdr SB' hfuel (dset_addr data)) = Ok h /\
             decoded_attr h = Ok (attr_as_read aname adt adims adata) /\
             decoded_type_shape h = Ok (class, size, cbf, dims)) /\
  run0 f (api_read_raw SB' hfuel (dset_addr data)) = Ok (RawBytes data) /\
  run0 f p_superblock = Ok SB' /\
  run0 f (p_open true (blen f) fuel hfuel) = Ok (Grp [47] ROOT_ADDR [Dset name (dset_addr data)]).
Proof. exact file_attribute_roundtrip_stmt. Qed.
Print Assumptions C02_file_attribute_roundtrip.

(* every value kind of WriteAttribute modelled by attr_of_kind (int8..uint64, float32/64 scalars; non-empty []int32 []int64
   []float32 []float64; strings without NUL) gives a well-formed attribute message: the hypothesis wf_attribute above holds
   for all of them (names of less than 65535 bytes, values of at most 64 MiB) *)
Theorem C02_attr_kinds_wf : forall aname k raw,
  attr_name_ok aname = true -> blen aname < 65535 -> attr_kind_raw_ok k raw = true -> blen raw < MaxAttributeSize ->
  let '(adt, adims, adata) := attr_of_kind k raw in wf_attribute (attr_msg aname adt adims adata) = true.
Proof. exact attr_kinds_wf. Qed.
Print Assumptions C02_attr_kinds_wf.

(* the object header stage without slack behind the header (the rewritten header may fill its reserve to the last byte):
   for ALL version 2 headers with flags 0, message types < 256 other than continuation, at least two data bytes per message,
   at most 255 message bytes *)
Theorem C02_ohdr_program_roundtrip_noslack : forall sb fuel f a x tail,
  ohdr_ok2 x -> placed f a (enc_ohdr_v2 x ++ tail) -> (length (oh_msgs x) < fuel)%nat -> a + 600 < B63 ->
  run0 f (p_ohdr sb fuel a) = Ok (proj_ohdr_v2 (spp_bigendian sb) x a).
Proof. exact p_ohdr_placed2. Qed.
Print Assumptions C02_ohdr_program_roundtrip_noslack.

(* WriteAttribute allocates nothing: the file ends at the same end-of-file address as without attribute *)
Theorem C02_image_attr_length : forall name class size cbf dims data aname adt adims adata,
  link_name_ok name = true -> basic_dtype class size cbf = true -> dims_ok dims = true ->
  blen data = total_elems dims * size -> blen data < 4294967296 ->
  wf_attribute (attr_msg aname adt adims adata) = true ->
  attr_fits class size cbf dims aname adt adims adata = true ->
  blen (image_v2_attr name class size cbf dims data aname adt adims adata) = eof_addr data.
Proof. exact image_attr_len_stmt. Qed.
Print Assumptions C02_image_attr_length.

(* the hypotheses are satisfiable: "/d" = uint8 [1,2,3] with the attribute a = int32(42) *)
Theorem C02_file_attribute_roundtrip_witness :
  link_name_ok [100] = true /\ basic_dtype DT_FIXED 1 0 = true /\ dims_ok [3] = true /\
  blen [1; 2; 3] = product [3] * 1 /\ blen [1; 2; 3] < 4294967296 /\
  wf_attribute (attr_msg [97] (dtype_msg DT_FIXED 4 8) [1] [42; 0; 0; 0]) = true /\
  attr_fits DT_FIXED 1 0 [3] [97] (dtype_msg DT_FIXED 4 8) [1] [42; 0; 0; 0] = true.
Proof. exact file_attribute_roundtrip_witness. Qed.
Print Assumptions C02_file_attribute_roundtrip_witness.
