(* C05 - "every signature, version, size field and stored checksum is consistent with the bytes it describes, and the encoding is
   decodable according to the HDF5 format specification": the writer's encoders (Model/Codec*.v, byte-exact transcriptions of the Go
   code, tied on every run by C11) against the STRICT specification decoders of Spec/Format*.v.  Theorems only; lemmas in
   Proofs/Spec*.v.  For every encoder: conformant (strict decoder returns the logical value), or - for each deviation listed in
   KNOWN_FINDINGS.json - the strict decoder rejects AND the tolerant decoder accepts reporting exactly that tag. *)
From HV Require Import Base.Prelude Base.Outcome Base.Bytes Base.Crc32 Spec.Lookup3 Spec.Parse Spec.Format Spec.FormatMsg
  Spec.FormatNode Model.CodecSuper Model.CodecMsg Model.CodecType Model.CodecLink Model.CodecAttr Model.CodecFilter
  Model.CodecCompound Model.CodecOhdr
  Proofs.SpecSuper Proofs.SpecMsg Proofs.SpecType Proofs.SpecOhdr Proofs.SpecWitness Proofs.SpecExamples.

(* ---- checksums ---- *)
Theorem C05_spec_checksum_is_lookup3 : forall t covered stored tg,
  check_sum strict t covered stored = Ok tg -> stored = hashlittle covered 0 /\ tg = [].
Proof. exact check_sum_strict. Qed.
Print Assumptions C05_spec_checksum_is_lookup3.

Theorem C05_spec_tolerated_checksum_is_crc32 : forall tol t covered stored,
  check_sum tol t covered stored = Ok [t] -> stored = crc32 covered /\ stored <> hashlittle covered 0.
Proof. exact check_sum_tolerated. Qed.
Print Assumptions C05_spec_tolerated_checksum_is_crc32.

(* the CRC the writer computes (Go hash/crc32, transcribed in CodecSuper) is the CRC-32 of Base/Crc32.v *)
Theorem C05_spec_writer_crc_is_crc32 : forall bs, crc32 bs = wrap32 (crc32_ieee bs).
Proof. exact crc32_ieee_eq. Qed.
Print Assumptions C05_spec_writer_crc_is_crc32.

(* ---- superblock ---- *)
Theorem C05_spec_superblock_v0 : forall tol x, wf_superblock x = true -> sp_version x = 0 ->
  spec_dec_superblock tol (enc_superblock x) = Ok (logical_superblock x, [], []).
Proof. exact spec_superblock_v0. Qed.
Print Assumptions C05_spec_superblock_v0.

Theorem C05_spec_superblock_v2_strict : forall x, wf_superblock x = true -> sp_version x <> 0 ->
  spec_dec_superblock strict (enc_superblock x) =
    if crc32 (superblock_covered x) =? hashlittle (superblock_covered x) 0 then Ok (logical_superblock x, [], []) else Err.
Proof. exact spec_superblock_v2_strict. Qed.
Print Assumptions C05_spec_superblock_v2_strict.

Theorem C05_spec_superblock_v2_tolerant : forall x, wf_superblock x = true -> sp_version x <> 0 ->
  spec_dec_superblock tolerant (enc_superblock x) =
    Ok (logical_superblock x, if crc32 (superblock_covered x) =? hashlittle (superblock_covered x) 0 then [] else [T_sb_crc32], []).
Proof. exact spec_superblock_v2_tolerant. Qed.
Print Assumptions C05_spec_superblock_v2_tolerant.

Theorem C05_sb_crc32_refuted :
  wf_superblock sb_witness = true /\
  spec_dec_superblock strict (enc_superblock sb_witness) = Err /\
  spec_dec_superblock tolerant (enc_superblock sb_witness) = Ok (logical_superblock sb_witness, [T_sb_crc32], []).
Proof. exact sb_crc32_refuted. Qed.
Print Assumptions C05_sb_crc32_refuted.

(* ---- object headers ---- *)
Theorem C05_spec_ohdr_v2 : forall tol x, wf_ohdr_v2 x = true -> oh_flags x < 64 ->
  spec_dec_ohdr2 tol (enc_ohdr_v2 x) = (tg <- dev tol T_ohdr_no_checksum;; Ok (logical_ohdr2 x, tg, [])).
Proof. exact spec_ohdr2. Qed.
Print Assumptions C05_spec_ohdr_v2.

Theorem C05_ohdr_no_checksum_refuted : forall x, wf_ohdr_v2 x = true -> oh_flags x < 64 ->
  spec_dec_ohdr2 strict (enc_ohdr_v2 x) = Err /\
  spec_dec_ohdr2 tolerant (enc_ohdr_v2 x) = Ok (logical_ohdr2 x, [T_ohdr_no_checksum], []).
Proof. exact ohdr_no_checksum_refuted. Qed.
Print Assumptions C05_ohdr_no_checksum_refuted.

Theorem C05_spec_ohdr_v1_root :
  wf_ohdr_v1 ohdr1_root = true /\
  spec_dec_ohdr1 (enc_ohdr_v1 ohdr1_root) =
    Ok ({| o1_nmsgs := 1; o1_refcount := 1; o1_size := 24;
           o1_msgs := [ {| ms_type := 17; ms_flags := 0; ms_corder := None; ms_data := le 8 136 ++ le 8 680 |} ] |}, []).
Proof. exact ohdr1_root_conforms. Qed.
Print Assumptions C05_spec_ohdr_v1_root.

Theorem C05_ohdr_v1_unpadded_size_refuted :
  wf_ohdr_v1 ohdr1_unaligned = true /\ spec_dec_ohdr1 (enc_ohdr_v1 ohdr1_unaligned) = Err.
Proof. exact ohdr1_unpadded_size_refuted. Qed.
Print Assumptions C05_ohdr_v1_unpadded_size_refuted.

(* ---- messages ---- *)
Theorem C05_spec_dataspace : forall x, wf_dataspace x = true -> maxdims_ok x = true ->
  spec_dec_dataspace 8 false (enc_dataspace x) = Ok (logical_dataspace x).
Proof. exact spec_dataspace. Qed.
Print Assumptions C05_spec_dataspace.

Theorem C05_spec_layout : forall v x, wf_layout (sb8 v) x = true -> chunkdims_positive x = true ->
  spec_dec_layout 8 8 false (enc_layout (sb8 v) x) = Ok (logical_layout x).
Proof. exact spec_layout. Qed.
Print Assumptions C05_spec_layout.

Theorem C05_spec_symtab : forall x, wf_symtab x = true ->
  spec_dec_symtab 8 false (enc_symtab 8 x) = Ok (st_btree x, st_heap x).
Proof. exact spec_symtab. Qed.
Print Assumptions C05_spec_symtab.

Theorem C05_spec_attrinfo : forall v x, wf_attrinfo (sb8 v) x = true -> ai_version x = 0 -> ai_flags x < 4 ->
  N.testbit (ai_flags x) 0 = false ->
  spec_dec_attrinfo 8 false (enc_attrinfo (sb8 v) x) = Ok (logical_attrinfo x).
Proof. exact spec_attrinfo. Qed.
Print Assumptions C05_spec_attrinfo.

Theorem C05_spec_linkinfo : forall v x, wf_linkinfo (sb8 v) x = true ->
  spec_dec_linkinfo 8 false (enc_linkinfo (sb8 v) x) = Ok (logical_linkinfo x).
Proof. exact spec_linkinfo. Qed.
Print Assumptions C05_spec_linkinfo.

(* ---- datatypes ---- *)
Theorem C05_fixed_props_malformed : forall tol size cbf, (size = 1 \/ size = 2 \/ size = 4 \/ size = 8) -> cbf < 16 ->
  spec_dec_datatype tol false (enc_datatype (mk_num DT_FIXED size cbf)) =
    (tg <- dev tol T_fixed_props_malformed;; Ok (logical_fixed size cbf, tg)).
Proof. exact spec_fixed. Qed.
Print Assumptions C05_fixed_props_malformed.

Theorem C05_float_props_malformed : forall tol size cbf, (size = 4 \/ size = 8) -> cbf < 2 ->
  spec_dec_datatype tol false (enc_datatype (mk_num DT_FLOAT size cbf)) =
    (tg1 <- dev tol T_float_props_malformed;;
     tg2 <- (if size =? 8 then dev tol T_float64_bias_127 else Ok []);;
     Ok (logical_float size cbf, tg1 ++ tg2)).
Proof. exact spec_float. Qed.
Print Assumptions C05_float_props_malformed.

Theorem C05_numeric_encoder_fields : forall x, (dt_class x =? DT_FIXED) || (dt_class x =? DT_FLOAT) = true ->
  enc_datatype x = enc_datatype (mk_num (dt_class x) (dt_size x) (dt_cbf x)).
Proof. exact enc_numeric_fields. Qed.
Print Assumptions C05_numeric_encoder_fields.

Theorem C05_string_extra_prop_byte : forall tol x, wf_datatype x = true -> dt_class x = DT_STRING ->
  string_bits_ok (dt_cbf x) = true ->
  spec_dec_datatype tol false (enc_datatype x) =
    (tg <- dev tol T_string_extra_prop_byte;;
     Ok (DString 1 (dt_size x) (bits_of (dt_cbf x) 0 4) (bits_of (dt_cbf x) 4 4), tg)).
Proof. exact spec_string. Qed.
Print Assumptions C05_string_extra_prop_byte.

Theorem C05_spec_reference : forall tol x, wf_datatype x = true -> dt_class x = DT_REFERENCE -> dt_cbf x < 2 ->
  spec_dec_datatype tol false (enc_datatype x) = Ok (DReference 1 (dt_size x) (dt_cbf x), []).
Proof. exact spec_reference. Qed.
Print Assumptions C05_spec_reference.

Theorem C05_spec_opaque : forall tol x, wf_datatype x = true -> dt_class x = DT_OPAQUE -> pad8 (blen (dt_props x)) < 256 ->
  spec_dec_datatype tol false (enc_datatype x) =
    Ok (DOpaque 1 (dt_size x) (dt_props x ++ zeros (N.to_nat (pad8 (blen (dt_props x)) - blen (dt_props x)))), []).
Proof. exact spec_opaque. Qed.
Print Assumptions C05_spec_opaque.

Theorem C05_spec_array_vlen_witnesses :
  spec_dec_datatype strict false (enc_array array_example) = Ok (DArray 3 48 [3; 2] (DReference 1 8 0), []) /\
  spec_dec_datatype tolerant false (enc_datatype vlen_str) = Ok (DVlen 1 16 1 0 0 (DString 1 1 0 0), [T_string_extra_prop_byte]).
Proof. exact (conj (proj2 array_v3_conforms) (proj2 (proj2 vlen_string_framing))). Qed.
Print Assumptions C05_spec_array_vlen_witnesses.

(* deviations this development found that KNOWN_FINDINGS.json does not list (notes/c05-known-findings-proposed.json) *)
Theorem C05_compound_v3_layout_refuted :
  encok_compound compound_ok_example = true /\
  spec_dec_datatype strict false (enc_compound compound_ok_example) = Err /\
  tags_of (spec_dec_datatype tolerant false (enc_compound compound_ok_example)) =
    Some (map tag_code [T_compound_v3_layout; T_fixed_props_malformed; T_string_extra_prop_byte]).
Proof. exact compound_v3_layout_refuted. Qed.
Print Assumptions C05_compound_v3_layout_refuted.

Theorem C05_enum_v3_layout_refuted :
  wf_enum enum_example = true /\
  spec_dec_datatype strict false (enc_enum enum_example) = Err /\
  tags_of (spec_dec_datatype tolerant false (enc_enum enum_example)) =
    Some (map tag_code [T_fixed_props_malformed; T_enum_v3_layout]).
Proof. exact enum_v3_layout_refuted. Qed.
Print Assumptions C05_enum_v3_layout_refuted.

(* ---- filter pipeline, links, attributes: witnesses ---- *)
Theorem C05_pipeline_v2_with_v1_layout_refuted :
  wf_pipeline [gzip6] = true /\
  spec_dec_pipeline strict false (enc_pipeline [gzip6]) = Err /\
  spec_dec_pipeline tolerant false (enc_pipeline [gzip6]) =
    Ok ([{| fl_id := 1; fl_flags := 0; fl_name := ascii_bytes "deflate"; fl_cd := [6] |}], [T_pipeline_v2_with_v1_layout]).
Proof. exact pipeline_v2_with_v1_layout_refuted. Qed.
Print Assumptions C05_pipeline_v2_with_v1_layout_refuted.

Theorem C05_extlink_value_layout_refuted :
  wf_link 8 ext_link = true /\
  spec_dec_link strict 8 false (enc_link ext_link) = Err /\
  spec_dec_link tolerant 8 false (enc_link ext_link) =
    Ok ({| ls_flags := 8; ls_corder := None; ls_cset := 0; ls_name := ascii_bytes "e";
           ls_value := LExternal (ascii_bytes "f.h5") (ascii_bytes "/x") |}, [T_extlink_value_layout]).
Proof. exact extlink_value_layout_refuted. Qed.
Print Assumptions C05_extlink_value_layout_refuted.

Theorem C05_spec_attribute_v3_framing :
  wf_attribute attr_int = true /\ wf_attribute attr_ref = true /\
  tags_of (spec_dec_attribute strict 8 false (enc_attribute attr_ref)) = Some [] /\
  spec_dec_attribute strict 8 false (enc_attribute attr_int) = Err /\
  tags_of (spec_dec_attribute tolerant 8 false (enc_attribute attr_int)) = Some [tag_code T_fixed_props_malformed].
Proof. exact attribute_v3_framing. Qed.
Print Assumptions C05_spec_attribute_v3_framing.

(* ---- the reading of the specification is validated on bytes of reference-library files ---- *)
Theorem C05_spec_reference_files :
  hashlittle (firstn 44 ref_sb2) 0 = unle (skipn 44 ref_sb2) /\
  spec_dec_lheap 8 8 (unhex "484541500000000058000000000000000800000000000000c802000000000000")
    = Ok ({| lh_size := 88; lh_free := 8; lh_addr := 712 |}, []) /\
  spec_dec_datatype strict true (unhex "11213f000800000000004000340b0034ff03000000000000")
    = Ok (DFloat 1 8 1 0 2 63 0 64 52 11 0 52 1023, []) /\
  spec_dec_layout 8 8 true (unhex "030203784b00000000000004000000030000000100000000") = Ok (LyChunked 19320 [4; 3; 1]).
Proof. exact (conj ref_superblock_checksum_is_lookup3 (conj ref_lheap (conj ref_float_be ref_layout_chunked))). Qed.
Print Assumptions C05_spec_reference_files.
