(* C12, end to end at byte level for VARIABLE-LENGTH data: the READER programs (hdf5.Open's loader p_open, ReadSuperblock
   p_superblock, Dataset.Read's api_read_raw, ReadGlobalHeapCollection p_gheap: Model/IOProg*.v, each tied to the Go reader and
   proved strict for C17) run on the FILE IMAGE the writer leaves behind for
     CreateForWrite (superblock v2); CreateDataset("/"+name, VLen<base>, dims); Write(elems); Close()
   (Model/FileImageVlen.v image_v2_vlen, assembled from the C11 encoder models and the C12 heap writer model run_close, compared
   byte for byte with the library's files on every run: tools/props/c12file.py) resolve every element to the bytes written.
   Only theorem statements here; proofs in Proofs/FileImageVlen*.v. *)
From HV Require Import Base.Prelude Model.GHeap.
From HV Require Proofs.GHeap.
From HV Require Import Base.Outcome Base.Bytes Model.IOProg Model.IOProgReader Model.IOProgOpen.
From HV Require Import Model.CodecSuper Model.CodecOhdr Model.CodecMsg Model.CodecType Model.FileImage Model.FileImageVlen.
From HV Require Import Proofs.FileImage Proofs.FileImageData Proofs.FileImageProd
  Proofs.FileImageVlenHeap Proofs.FileImageVlen Proofs.FileImageVlenMain.

(* For ALL link names (as in C01_file_roundtrip_contiguous), all 7 base types the writer offers, all shapes of rank 1..23 with
   extents > 0, ALL element lists with product(dims) elements (any lengths including 0 and larger than a collection, any bytes),
   whenever the file is shorter than 2^62 bytes, every loader fuel >= 3 / header fuel >= 4 / object-loop fuel >= |file|/16 + 2:
     Open returns the tree "/" with exactly one child, the dataset `name`;
     ReadSuperblock returns the 8/8 little-endian superblock;
     the dataset read returns the 16-byte references, one per element;
     for every i: ParseGlobalHeapReference of element i, then ReadGlobalHeapCollection (as an I/O program on the image) at its
       address, then the object with its index: exactly elems[i];
     the datatype decoded from the header is variable-length (class 9, size 16, string/sequence indicator) of `base` (class,
       size, signedness of the nested base type message), the shape is dims. *)
Theorem C12_file_roundtrip_vlen : forall name base dims elems fuel hfuel gfuel,
  link_name_ok name = true -> dims_ok_vlen dims = true -> product dims = N.of_nat (length elems) ->
  let f := image_v2_vlen name base dims elems in
  Bytes.blen f < 4611686018427387904 ->
  (3 <= fuel)%nat -> (3 < hfuel)%nat -> (N.to_nat (Bytes.blen f / 16) + 2 <= gfuel)%nat ->
  let da := v_dset_addr elems in let refs := v_refs elems in
  run0 f (p_open true (Bytes.blen f) fuel hfuel) = Ok (Grp [47] ROOT_ADDR [Dset name da]) /\
  run0 f p_superblock = Ok SB' /\
  run0 f (api_read_raw SB' hfuel da) = Ok (RawBytes refs) /\
  Bytes.blen refs = 16 * N.of_nat (length elems) /\
  (forall i d, nth_error elems i = Some d ->
     exists id objs,
       parse_reference (rd refs (16 * N.of_nat i) 16) = GHeap.Ok id /\
       run0 f (p_gheap SB' gfuel (h_addr id)) = Ok objs /\
       find (fun x => fst x =? h_idx id) objs = Some (h_idx id, d)) /\
  (exists h d bd s, run0 f (p_ohdr SB' hfuel da) = Ok h /\
    match find_msg 3 (ohp_msgs h) with Some b => dec_datatype b | None => Err end = Ok d /\
    (dt_class d, dt_size d, dt_cbf d) = (DT_VLEN, 16, vl_bits base) /\
    dec_datatype (dt_props d) = Ok bd /\ (dt_class bd, dt_size bd, dt_cbf bd) = base_cls base /\
    match find_msg 1 (ohp_msgs h) with Some b => dec_dataspace b | None => Err end = Ok s /\ dsp_dims s = dims).
Proof. exact file_roundtrip_vlen_stmt. Qed.
Print Assumptions C12_file_roundtrip_vlen.

(* the library's own resolution path for a variable-length string element (readVariableString of the compound reader and
   Attribute.readVariableLengthString: Model/IOProgReader.v api_vlen_string = reference -> ReadGlobalHeapCollection -> object),
   run on element i of the dataset's raw data on the image, returns elems[i] *)
Theorem C12_file_vlen_string_reader : forall name base dims elems,
  link_name_ok name = true -> dims_ok_vlen dims = true -> product dims = N.of_nat (length elems) ->
  Bytes.blen (image_v2_vlen name base dims elems) < 4611686018427387904 ->
  forall gfuel, (N.to_nat (Bytes.blen (image_v2_vlen name base dims elems) / 16) + 2 <= gfuel)%nat ->
  forall i d, nth_error elems i = Some d ->
  run0 (image_v2_vlen name base dims elems) (api_vlen_string SB' gfuel (rd (v_refs elems) (16 * N.of_nat i) 16)) = Ok d.
Proof. exact elements_vlen_string. Qed.
Print Assumptions C12_file_vlen_string_reader.

(* the file ends where the last collection ends: the end-of-file address Close records in the superblock *)
Theorem C12_file_image_length : forall name base dims elems,
  link_name_ok name = true -> dims_ok_vlen dims = true -> product dims = N.of_nat (length elems) ->
  Bytes.blen (image_v2_vlen name base dims elems) = v_eof elems.
Proof. exact image_vlen_length. Qed.
Print Assumptions C12_file_image_length.

(* with no other allocation in between, the extents the heap writer has written after Close are adjacent: each collection
   starts where the previous one ends, from the end-of-file it started at to the end-of-file it leaves *)
Theorem C12_file_heap_extents_adjacent : forall minsz blk e0 es fin ids,
  run_close minsz blk e0 (map W es) = Some (fin, ids) -> chain e0 (rev (disk fin)) (eof fin).
Proof. exact run_close_chain. Qed.
Print Assumptions C12_file_heap_extents_adjacent.

(* stage lemma: on ANY file in which every extent of the heap writer is placed at its address, ReadGlobalHeapCollection as an
   I/O program returns the objects of the C12 reader model read_collection (the model C12_roundtrip speaks about) *)
Theorem C12_file_gheap_program_is_reader_model : forall f dk, (forall a b, In (a, b) dk -> placed f a b) ->
  forall sb, spp_offsize sb = 8 -> Bytes.blen f <= MAXI64 ->
  forall a rc fuel, read_collection dk a = GHeap.Ok rc -> (N.to_nat (Bytes.blen f / 16) + 2 <= fuel)%nat ->
  run0 f (p_gheap sb fuel a) = Ok (map obj_pair (r_objs rc)).
Proof. exact p_gheap_read_collection. Qed.
Print Assumptions C12_file_gheap_program_is_reader_model.

(* the two transcriptions of the object loop of ReadGlobalHeapCollection (Model/GHeap.v parse_objs on the rest of the buffer,
   Model/IOProgReader.v gcol_objs on buffer and offset) agree on every buffer *)
Theorem C12_file_object_loops_agree : forall k k' (data : bytes) off l, (k <= k')%nat ->
  parse_objs k (skipn (N.to_nat off) data) = GHeap.Ok l -> gcol_objs k' 8 data off = Ok (map obj_pair l).
Proof. exact gcol_parse. Qed.
Print Assumptions C12_file_object_loops_agree.

(* the datatype message in the image's dataset header (C11 encoder model) is the message of the C12 model
   (enc_vlen: C12_vlen_datatype_roundtrip), for every base type *)
Theorem C12_file_vlen_message_is_C12_model : forall b, enc_vlen b = GHeap.Ok (enc_datatype (vlen_dt b)).
Proof. exact vlen_dt_is_enc_vlen. Qed.
Print Assumptions C12_file_vlen_message_is_C12_model.

(* the hypotheses are satisfiable: "/v" = the three strings "hi", "", "x"; the image has 6601 bytes *)
Theorem C12_file_roundtrip_vlen_witness :
  link_name_ok [118] = true /\ dims_ok_vlen [3] = true /\ product [3] = N.of_nat (length [[104; 105]; []; [120]]) /\
  Bytes.blen (image_v2_vlen [118] VString [3] [[104; 105]; []; [120]]) = 6601.
Proof. exact file_roundtrip_vlen_witness. Qed.
Print Assumptions C12_file_roundtrip_vlen_witness.
