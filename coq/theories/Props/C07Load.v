(* C07, the object-tree loader of hdf5.Open (Model/RobustLoad.v): termination and load bounds for EVERY object graph,
   and the variants that lose the bound.  Only statements; proofs in Proofs/RobustLoad.v. *)
From HV Require Import Base.Prelude Base.Outcome Model.RobustTerm Model.RobustLoad Proofs.RobustLoad.

(* (1a) the code as it is (the visitedBTrees mark stays): whatever the graph, 1024 + |U| + 1 units of fuel are never
   exhausted, U = the addresses at which a group B-tree can be read at all (< file size): the recursion
   loadChildren -> loadGroupWithCachedSymbolTable -> loadChildren is as deep as there are distinct B-trees, loadObject adds
   at most maxGroupDepth = 1024 frames *)
Theorem C07_open_terminates :
  forall (g : graph) (count_all : bool) (maxLoads : N) (U : list N),
  (forall b h : N, g_bt g b h <> None -> In b U) ->
  forall root : onode, open g true count_all maxLoads (1025 + length U) root <> LFuel.
Proof. exact open_terminates. Qed.
Print Assumptions C07_open_terminates.

(* the mark is never taken back: on every path the visited set only grows *)
Theorem C07_open_visited_grows :
  forall (g : graph) (count_all : bool) (maxLoads : N) (fuel : nat) (loading : list N) (c : call) (s : lstate),
  holds (fun s' => incl (ls_visited s) (ls_visited s')) (exec g true count_all maxLoads fuel loading c s).
Proof. exact exec_vis. Qed.
Print Assumptions C07_open_visited_grows.

(* loadCount <= maxLoads for every switch setting (maxLoads + 1 in the state that reports the limit) *)
Theorem C07_open_load_count_bounded :
  forall (g : graph) (keep_mark count_all : bool) (maxLoads : N) (fuel : nat) (loading : list N) (c : call) (s : lstate),
  ls_count s <= maxLoads ->
  holds2 (fun s' => ls_count s' <= maxLoads) (fun s' => ls_count s' <= maxLoads + 1)
         (exec g keep_mark count_all maxLoads fuel loading c s).
Proof. exact exec_count. Qed.
Print Assumptions C07_open_load_count_bounded.

(* (1b) the code as it is: objects built and loadObject + loadChildren calls, on every path (value or error), are bounded by
   F * (maxLoads + |U| + 2) + 1, F = the largest number of loads one object header / one B-tree walk triggers.  Against the
   file: maxLoads = size/8 + 1024, |U| <= size, F <= size/40 + 1: the bound is QUADRATIC in the file size ... *)
Theorem C07_open_work_bounded :
  forall (g : graph) (maxLoads : N) (U : list N) (F : N),
  (forall b h : N, g_bt g b h <> None -> In b U) ->
  (forall (a name : N) (cs : list call) (b : N),
     node_calls (g_obj g a name) name = Some (cs, b) -> N.of_nat (length cs) <= F) ->
  (forall (b h : N) (bes : list bentry),
     g_bt g b h = Some bes -> N.of_nat (length (flat_map bentry_calls bes)) <= F) ->
  forall (fuel : nat) (root : onode) (cs : list call) (b : N),
  node_calls root 0 = Some (cs, b) -> N.of_nat (length cs) <= F ->
  holds (fun s => ls_count s <= maxLoads + 1 /\
                  ls_built s <= F * (maxLoads + N.of_nat (length U) + 2) + 1 /\
                  ls_steps s <= F * (maxLoads + N.of_nat (length U) + 2))
        (open g true false maxLoads fuel root).
Proof. exact open_asis_bounded. Qed.
Print Assumptions C07_open_work_bounded.

(* ... and the quadratic bound is attained: n B-trees that share one symbol table node of n entries (a file of about 104 n
   bytes) make Open build n*n + 1 group objects without one counted load, so maxLoads never applies: no bound
   k * size + c on the memory of Open as it is (PROPOSED FINDING C07-cached-group-loads-uncounted;
   repair: notes/fixes/c07-count-every-object.patch) *)
Theorem C07_open_cached_path_quadratic :
  forall (n : nat) (maxLoads : N), (1 <= n)%nat ->
  exists s : lstate,
    open (comb_graph n) true false maxLoads (S n) (OStab 1 8) = LDone s /\
    ls_built s = N.of_nat n * N.of_nat n + 1 /\ ls_count s = 0.
Proof. exact comb_open_quadratic. Qed.
Print Assumptions C07_open_cached_path_quadratic.

(* (1c) with the repair (every object built is counted) the bound is linear in maxLoads, for every graph, on every path,
   with or without the B-tree mark ... *)
Theorem C07_open_repaired_bounded :
  forall (g : graph) (keep_mark : bool) (maxLoads : N) (fuel : nat) (root : onode),
  holds (fun s => ls_count s <= maxLoads + 1 /\ ls_built s <= maxLoads + 2 /\ ls_steps s <= 2 * maxLoads + 3)
        (open g keep_mark true maxLoads fuel root).
Proof. exact open_repaired_bounded. Qed.
Print Assumptions C07_open_repaired_bounded.

(* ... i.e. linear in the file size: objects <= size/8 + 1026, calls <= size/4 + 2051 *)
Theorem C07_open_repaired_file_bound :
  forall (g : graph) (keep_mark : bool) (size : N) (fuel : nat) (root : onode),
  holds (fun s => 8 * ls_built s <= size + 8208 /\ 8 * ls_steps s <= 2 * size + 16408)
        (open g keep_mark true (open_max_loads size) fuel root).
Proof. exact open_repaired_file_bound. Qed.
Print Assumptions C07_open_repaired_file_bound.

(* (2) seeded change C07-c (the mark is deleted when loadChildren returns): n + 1 B-trees with 2 cached entries per level
   cost at least 2^n objects, loadCount stays 0 ... *)
Theorem C07_load_unmarked_exponential :
  forall (n : nat) (maxLoads : N),
  exists s : lstate,
    open (dia_graph (N.of_nat n)) false false maxLoads (S n) (OStab 1 8) = LDone s /\
    2 ^ N.of_nat n <= ls_built s /\ ls_count s = 0.
Proof. exact dia_open_exponential. Qed.
Print Assumptions C07_load_unmarked_exponential.

(* ... so no bound k * size + c exists (size of the graph = n + 1 B-trees + 2n entries) *)
Theorem C07_load_unmarked_no_linear_bound :
  forall k c maxLoads : N,
  exists (n : nat) (s : lstate),
    open (dia_graph (N.of_nat n)) false false maxLoads (S n) (OStab 1 8) = LDone s /\
    k * (3 * N.of_nat n + 1) + c < ls_built s.
Proof. exact dia_no_linear_bound. Qed.
Print Assumptions C07_load_unmarked_no_linear_bound.

(* (3) the price of the mark (known finding C06-group-reached-twice-is-empty): once a group has been loaded through its
   B-tree, every later arrival at that B-tree builds an empty group: one object, no child is loaded *)
Theorem C07_group_reached_twice_is_empty :
  forall (g : graph) (mL : N) (fuel : nat) (loading : list N) (bt h : N) (s s1 : lstate),
  exec g true false mL fuel loading (CCached bt h) s = LDone s1 ->
  forall s2 : lstate, incl (ls_visited s1) (ls_visited s2) ->
  forall (fuel' : nat) (loading' : list N) (h' : N),
  exec g true false mL (S fuel') loading' (CCached bt h') s2 = LDone (s_built 1 (s_step s2)) /\
  exec g true false mL (S fuel') loading' (CChildren bt h') s2 = LDone (s_step s2).
Proof. exact reached_twice_empty. Qed.
Print Assumptions C07_group_reached_twice_is_empty.
