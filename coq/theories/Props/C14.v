From HV Require Import Base.Prelude Model.BT2.
Theorem C14_placeholder : True. Proof. exact I. Qed.
Print Assumptions C14_placeholder.
