(* C14 - B-tree v2 name index is a faithful, persistent map under any history; the key hash equals
   Jenkins lookup3 for every byte string.   Statements only; proofs in Proofs/Lookup3.v, Proofs/BT2.v,
   Proofs/BT2Examples.v.  Model: Model/BT2.v (WritableBTreeV2 as of /repo 6c2e9ef).

   Hypotheses used below (Proofs/BT2.v):
     cfg_ok c   : offset size in {1,2,4,8}; node size N (0 = default 4096) with 10 <= N < 2^32 and
                  (N-10)/11 <= 65535 (the root record count is a uint16)
     addr_ok c ops : the addresses handed out by the allocator during the history fit the offset size
   Histories are lists of OInsert/OUpdate/OSearch/OHas/ODelete, OStoreLoad (WriteToFile + LoadFromFile into
   a new object), ORewrite (WriteAt + LoadFromFile into a new object), OWriteAt (WriteAt in place, the
   history continues on the SAME object: one loaded handle may be written in place any number of times)
   and OStore (WriteToFile, same object); every theorem below that quantifies over `ops` covers all of them.
     has_collision (names_of ops) = false : no two distinct names of the history have the same hash *)
From Coq Require Import Sorted.
From HV Require Import Base.Prelude Base.Crc32 Spec.Lookup3 Model.BT2 Proofs.Lookup3 Proofs.BT2 Proofs.BT2Examples.

(* the Go hash loop (for length-i > 12, words by | and <<, switch with fallthrough) is lookup3 hashlittle
   with initval 0 on every byte string *)
Theorem C14_hash_eq_lookup3 : forall s, Forall (fun x => x < 256) s -> jenkins s = hashlittle s 0.
Proof. exact jenkins_eq_hashlittle. Qed.
Print Assumptions C14_hash_eq_lookup3.

(* after any history, in any mode: records ordered by hash, the four count views agree, capacity respected *)
Theorem C14_sorted_counts : forall c ops, cfg_ok c -> addr_ok c ops ->
  let s := bt (fst (run c ops)) in
  StronglySorted N.le (map fst (recs s))
  /\ h_nroot (header s) = N.of_nat (List.length (recs s))
  /\ h_total (header s) = N.of_nat (List.length (recs s))
  /\ leaf_recs s = recs s
  /\ N.of_nat (List.length (recs s)) <= max_records (ns_of c).
Proof. exact sorted_counts. Qed.
Print Assumptions C14_sorted_counts.

(* every result of every operation (insert/update/search/has/delete/store+load/rewrite+load/write in
   place/store, present and absent names, every mode) equals the result of the specification map, and at the end the record
   list is exactly the image of the live keys with their latest values *)
Theorem C14_refines_map : forall c ops, cfg_ok c -> addr_ok c ops -> has_collision (names_of ops) = false ->
  snd (run c ops) = snd (spec_run c ops)
  /\ (let s := bt (fst (run c ops)) in
      let m := s_map (fst (spec_run c ops)) in
      List.length (recs s) = List.length m
      /\ forall h v, In (h, v) (recs s) <-> exists n, In (n, v) m /\ h = jenkins n).
Proof.
  exact (fun c ops Hc Ha Hn =>
    conj (proj1 (refines_map c ops Hc Ha (has_collision_false _ Hn)))
         (final_content c ops Hc Ha (has_collision_false _ Hn))).
Qed.
Print Assumptions C14_refines_map.

(* the rebalancing mode never influences results, records, header, file bytes or addresses
   (no hypothesis: also with collisions, any node size) *)
Theorem C14_mode_irrelevant : forall m1 m2 osz ns ops,
  let w1 := fst (run (mkCfg m1 osz ns) ops) in
  let w2 := fst (run (mkCfg m2 osz ns) ops) in
  snd (run (mkCfg m1 osz ns) ops) = snd (run (mkCfg m2 osz ns) ops)
  /\ recs (bt w1) = recs (bt w2) /\ leaf_recs (bt w1) = leaf_recs (bt w2) /\ header (bt w1) = header (bt w2)
  /\ node_size (bt w1) = node_size (bt w2) /\ fil w1 = fil w2 /\ next w1 = next w2
  /\ loaded_hdr (bt w1) = loaded_hdr (bt w2) /\ loaded_leaf (bt w1) = loaded_leaf (bt w2).
Proof. exact mode_irrelevant. Qed.
Print Assumptions C14_mode_irrelevant.

(* insert into a full node: error, index / file / allocator unchanged (any state, any mode) *)
Theorem C14_capacity : forall c w n v,
  max_records (node_size (bt w)) <= N.of_nat (List.length (recs (bt w))) ->
  snd (step c w (OInsert n v)) = RErr
  /\ bt (fst (step c w (OInsert n v))) = bt w
  /\ fil (fst (step c w (OInsert n v))) = fil w /\ next (fst (step c w (OInsert n v))) = next w.
Proof. exact capacity_refused. Qed.
Print Assumptions C14_capacity.

(* bytes: LoadFromFile of what WriteToFile / WriteAt wrote (leaf at la, header at ha, into any file)
   returns the same records, counts and header; encoding the loaded index again gives identical bytes *)
Theorem C14_persist : forall osz s f la ha recv,
  osz_ok osz -> st_wf s -> la < 256 ^ N.of_nat osz -> la + node_size s <= ha ->
  exists s',
    load_from osz recv (write_at (write_at f la (encode_leaf s)) ha (encode_header osz (with_root s la))) ha = LOk s'
    /\ recs s' = recs s /\ leaf_recs s' = recs s /\ header s' = header (with_root s la) /\ node_size s' = node_size s
    /\ loaded_hdr s' = ha /\ loaded_leaf s' = la
    /\ encode_leaf s' = encode_leaf s /\ encode_header osz s' = encode_header osz (with_root s la).
Proof. exact persist. Qed.
Print Assumptions C14_persist.

(* ... and its hypothesis st_wf holds at every point of every history *)
Theorem C14_persist_any_point : forall c ops, cfg_ok c -> addr_ok c ops ->
  st_wf (strip_bt (bt (fst (run c ops)))).
Proof. exact reachable_wf. Qed.
Print Assumptions C14_persist_any_point.

(* persistence of in-place rewrites at full strength: after ANY history (any number of WriteAt calls on
   the same loaded handle, interleaved with inserts/updates/deletes/stores), whenever the last operation
   is a successful write (WriteAt on the same object, WriteAt + reload, WriteToFile + reload), LoadFromFile
   of the file at the object's loaded header address returns the in-memory object itself: records, leaf
   view, all header fields (counts, root address), node size, loaded addresses; only the lazy-rebalancing
   state is the receiver's.  So the image on disk equals the index after every write, not only the first. *)
Theorem C14_image_after_every_write : forall c ops o recv, cfg_ok c -> addr_ok c (ops ++ [o]) ->
  is_write o = true -> last (snd (run c (ops ++ [o]))) RErr = ROk ->
  let w := fst (run c (ops ++ [o])) in
  load_from (c_osz c) recv (fil w) (loaded_hdr (bt w)) = LOk (with_lazy (bt w) (lazy recv)).
Proof. exact image_after_write. Qed.
Print Assumptions C14_image_after_every_write.

(* WriteToFile on the same object (no reload) after any history: it succeeds and the image at the header
   address it returns (the last allocation) loads to the same records, counts and header *)
Theorem C14_image_after_store : forall c ops recv, cfg_ok c -> addr_ok c (ops ++ [OStore]) ->
  let w := fst (run c (ops ++ [OStore])) in
  last (snd (run c (ops ++ [OStore]))) RErr = ROk
  /\ exists s', load_from (c_osz c) recv (fil w) (next w - hsz c) = LOk s'
       /\ recs s' = recs (bt w) /\ leaf_recs s' = recs (bt w) /\ header s' = header (bt w)
       /\ node_size s' = node_size (bt w).
Proof. exact image_after_store. Qed.
Print Assumptions C14_image_after_store.

(* the full statement without the collision hypothesis is false: "ayou" and "cpxv" *)
Theorem C14_collision_refuted :
  ~ (forall c ops, cfg_ok c -> addr_ok c ops -> snd (run c ops) = snd (spec_run c ops)).
Proof. exact collision_refuted. Qed.
Print Assumptions C14_collision_refuted.

(* node sizes 1..9 are excluded for a reason: capacity wraps to 390451571, store+load fails *)
Theorem C14_node_size_precondition_needed :
  ~ (forall c ops, osz_ok (c_osz c) -> addr_ok c ops -> has_collision (names_of ops) = false ->
       snd (run c ops) = snd (spec_run c ops)).
Proof. exact node_size_precondition_needed. Qed.
Print Assumptions C14_node_size_precondition_needed.
