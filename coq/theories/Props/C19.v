(* C19 - rebalancing options never change content; the automatic selector obeys its constraints.
   Statements only; lemmas in Proofs/Selector.v and Proofs/RebalanceConfig.v.

   Quantifiers: every strategy (unless the built-in one is named), every constraint setting c, every
   list l of observations (features, workload type, clock reading) - any length, any clock readings
   (also decreasing ones).  p : bool selects the code: false = selector.go as found, true = after
   notes/fixes/selector-zero-time-stability.patch (the stability gate tests hasLastDecision instead
   of !lastDecisionTime.IsZero()).  Everything except the strict stability statement holds for both. *)
From HV Require Import Base.Prelude Model.Selector Proofs.Selector Model.RebalanceConfig Proofs.RebalanceConfig.
From HV Require Import Model.Detector Proofs.Detector.

(* --- part B: the selector --------------------------------------------------------------------- *)

(* the returned mode is "none" or is permitted by IsAllowed (an empty list permits every mode) *)
Theorem C19_allowed : forall p strategy c l r, In r (run p strategy cstate0 c l) ->
  d_mode (r_dec r) = ModeNone \/ is_allowed c (d_mode (r_dec r)) = true.
Proof. exact allowed_holds. Qed.
Print Assumptions C19_allowed.

(* mode in allowed U {none} when the list is not empty *)
Theorem C19_allowed_list : forall p strategy c l r, In r (run p strategy cstate0 c l) ->
  allowed c <> [] -> d_mode (r_dec r) = ModeNone \/ In (d_mode (r_dec r)) (allowed c).
Proof. exact allowed_list_holds. Qed.
Print Assumptions C19_allowed_list.

(* confidence < MinConfidence (Go's float64 <) gives mode none *)
Theorem C19_min_confidence : forall p strategy c l r, In r (run p strategy cstate0 c l) ->
  f64_lt (d_conf (r_dec r)) (min_conf c) = true -> d_mode (r_dec r) = ModeNone.
Proof. exact min_confidence_holds. Qed.
Print Assumptions C19_min_confidence.

(* built-in strategy, MinConfidence not NaN: "not (confidence >= MinConfidence)" gives none *)
Theorem C19_min_confidence_builtin : forall p c l r, f64_is_nan (min_conf c) = false ->
  In r (run p rule_select cstate0 c l) ->
  f64_le (min_conf c) (d_conf (r_dec r)) = false -> d_mode (r_dec r) = ModeNone.
Proof. exact min_confidence_builtin_total. Qed.
Print Assumptions C19_min_confidence_builtin.

(* the reported confidence is the strategy's, bit for bit *)
Theorem C19_confidence_passthrough : forall p strategy c l r, In r (run p strategy cstate0 c l) ->
  d_conf (r_dec r) = s_conf (r_raw r) /\ exists f w, r_raw r = strategy f w.
Proof. exact confidence_passthrough. Qed.
Print Assumptions C19_confidence_passthrough.

(* 0 <= confidence <= 1 for the built-in strategy, for all features *)
Theorem C19_confidence_range : forall p c l r,
  In r (run p rule_select cstate0 c l) -> f64_in_unit (d_conf (r_dec r)) = true.
Proof. exact confidence_range_builtin. Qed.
Print Assumptions C19_confidence_range.

(* ... and for any strategy that itself answers within [0,1] (which excludes NaN) *)
Theorem C19_confidence_range_any_strategy : forall p strategy c l r,
  (forall f w, f64_in_unit (s_conf (strategy f w)) = true) ->
  In r (run p strategy cstate0 c l) -> f64_in_unit (d_conf (r_dec r)) = true.
Proof. exact confidence_range_any. Qed.
Print Assumptions C19_confidence_range_any_strategy.

(* NaN, precisely: a NaN confidence is never stopped by the confidence gate, is reported unchanged
   (so outside [0,1]), and when no stability memory is armed the strategy's allowed mode is returned *)
Theorem C19_nan_confidence_passes : forall p strategy c st f w now,
  f64_is_nan (s_conf (strategy f w)) = true ->
  let d := snd (select_config p strategy st c f w now) in
  d_kind d <> 1%N /\ d_conf d = s_conf (strategy f w) /\ f64_in_unit (d_conf d) = false
  /\ (is_allowed c (s_mode (strategy f w)) = true -> armed p st = false ->
      d_mode d = s_mode (strategy f w)).
Proof. exact nan_confidence_passes. Qed.
Print Assumptions C19_nan_confidence_passes.

(* a NaN MinConfidence (accepted by SafetyConstraints.Validate) switches the confidence gate off *)
Theorem C19_nan_min_confidence_never_gates : forall p strategy c st f w now,
  f64_is_nan (min_conf c) = true -> d_kind (snd (select_config p strategy st c f w now)) <> 1%N.
Proof. exact nan_min_confidence_never_gates. Qed.
Print Assumptions C19_nan_min_confidence_never_gates.

Theorem C19_nan_refuted : forall p, exists strategy c l r,
  In r (run p strategy cstate0 c l) /\ f64_le (min_conf c) (d_conf (r_dec r)) = false
  /\ d_mode (r_dec r) <> ModeNone /\ f64_in_unit (d_conf (r_dec r)) = false.
Proof. exact nan_refuted. Qed.
Print Assumptions C19_nan_refuted.

(* stability, by the supplied clock (which may run backwards), repaired code: a gate-passing
   decision taken less than MinStabilityPeriod after the latest recorded decision returns the mode
   of the previous gate-passing decision.  [stability_ok true] is that statement checked at every
   position of the history (Model/Selector.v). *)
Theorem C19_stability : forall strategy c l, stability_ok true c (run true strategy cstate0 c l) = true.
Proof. exact (stability_holds true). Qed.
Print Assumptions C19_stability.

(* the code as found satisfies it only with the exception "... and the recorded clock reading is
   not the zero instant 0001-01-01T00:00:00Z" *)
Theorem C19_stability_as_found_partial : forall strategy c l,
  stability_ok false c (run false strategy cstate0 c l) = true.
Proof. exact (stability_holds false). Qed.
Print Assumptions C19_stability_as_found_partial.

Theorem C19_stability_as_found_refuted : exists c l,
  clock_mono true zero_instant l = true /\ stability_ok true c (run false rule_select cstate0 c l) = false.
Proof. exact zero_instant_refuted. Qed.
Print Assumptions C19_stability_as_found_refuted.

(* the same, spelled out for one more call after an arbitrary history *)
Theorem C19_stability_next : forall p strategy c l f w now T m,
  let t := run p strategy cstate0 c l in
  let r := row_of p strategy c (run_state p strategy cstate0 c l) (f, w, now) in
  run p strategy cstate0 c (l ++ [(f, w, now)]) = t ++ [r] /\
  (passes c r = true ->
   g_rec_time (ghost_of c t) = Some T -> g_pass_mode (ghost_of c t) = Some m ->
   p = true \/ T <> zero_instant -> (sat_sub now T < min_stab c)%Z ->
   d_mode (r_dec r) = m).
Proof. exact stability_next. Qed.
Print Assumptions C19_stability_next.

(* with a clock that never decreases (as found: and never reads the zero instant): two changes of
   mode among gate-passing decisions are at least MinStabilityPeriod apart (no flapping) *)
Theorem C19_dwell : forall p strategy c l prev, clock_mono p prev l = true ->
  dwell_ok c (run p strategy cstate0 c l) = true.
Proof. exact dwell_holds. Qed.
Print Assumptions C19_dwell.

(* the invariant that carries it: lastMode is the mode returned by the latest gate-passing decision
   and is an allowed mode; lastDecisionTime is the clock reading of the latest recorded decision *)
Theorem C19_memory_invariant : forall p strategy c l,
  let st := run_state p strategy cstate0 c l in
  let g := ghost_of c (run p strategy cstate0 c l) in
  (g_rec_time g = None /\ g_pass_mode g = None /\ st = cstate0) \/
  (g_rec_time g = Some (last_time st) /\ g_pass_mode g = Some (last_mode st)
   /\ has_last st = true /\ is_allowed c (last_mode st) = true).
Proof. exact memory_invariant. Qed.
Print Assumptions C19_memory_invariant.

(* the literal pairwise reading (ANY two consecutive gate-passing decisions less than the period
   apart agree) does not hold, before or after the repair: a held decision does not restart the
   period (the mode had been kept for 31 s >= 30 s when it changed; see C19_dwell) *)
Theorem C19_stability_pairwise_refuted : forall p, exists c l,
  clock_mono p 0%Z l = true /\ pairwise_ok c None (run p rule_select cstate0 c l) = false.
Proof. exact pairwise_refuted. Qed.
Print Assumptions C19_stability_pairwise_refuted.

(* --- part A: the configuration selects a delete entry point, nothing visible depends on it ------ *)
(* for every name hash, node capacity, history of inserts/deletes and every per-operation choice of
   (rebalance flag, lazy state, lazy triggers): per-operation results, records and header counters
   equal those of the default configuration *)
Theorem C19_config_irrelevant : forall hash max_records cfs ops,
  visible (run_hist hash max_records cfs 0 ops btree0)
  = visible (run_hist hash max_records (fun _ => default_config) 0 ops btree0).
Proof. exact config_irrelevant. Qed.
Print Assumptions C19_config_irrelevant.

(* --- part B, observation side: SmartRebalancer.Evaluate = detector + selector ------------------ *)
(* the decisions of any session (operations recorded and evaluations requested at arbitrary clock
   readings, any window / minimum sample size / ring capacity) are the selector's decisions on the
   list of extracted observations: all theorems above about [run p rule_select] apply to them *)
Theorem C19_evaluate_is_selector_run : forall p c window min_samples capacity steps evs st,
  map e_dec (run_session p c window min_samples capacity evs st steps)
  = map r_dec (run p rule_select st c (session_obs window min_samples capacity evs steps)).
Proof. exact session_is_run. Qed.
Print Assumptions C19_evaluate_is_selector_run.
