(* C19 - rebalancing options never change content; the automatic selector obeys its constraints.
   Statements only; lemmas in Proofs/Selector.v and Proofs/RebalanceConfig.v.
   Quantifiers: every strategy (unless the built-in one is named), every constraint setting c, every
   list l of observations (features, workload type, clock reading) - any length, any clock. *)
From HV Require Import Base.Prelude Model.Selector Proofs.Selector Model.RebalanceConfig Proofs.RebalanceConfig.

(* --- part B: the selector --------------------------------------------------------------------- *)

(* the returned mode is "none" or is permitted by IsAllowed (an empty list permits every mode) *)
Theorem C19_allowed : forall strategy c l r, In r (run strategy cstate0 c l) ->
  d_mode (r_dec r) = ModeNone \/ is_allowed c (d_mode (r_dec r)) = true.
Proof. exact allowed_holds. Qed.
Print Assumptions C19_allowed.

(* mode in allowed U {none} when the list is not empty *)
Theorem C19_allowed_list : forall strategy c l r, In r (run strategy cstate0 c l) ->
  allowed c <> [] -> d_mode (r_dec r) = ModeNone \/ In (d_mode (r_dec r)) (allowed c).
Proof. exact allowed_list_holds. Qed.
Print Assumptions C19_allowed_list.

(* confidence < MinConfidence (Go's float64 <) gives mode none *)
Theorem C19_min_confidence : forall strategy c l r, In r (run strategy cstate0 c l) ->
  f64_lt (d_conf (r_dec r)) (min_conf c) = true -> d_mode (r_dec r) = ModeNone.
Proof. exact min_confidence_holds. Qed.
Print Assumptions C19_min_confidence.

(* built-in strategy, MinConfidence not NaN: "not (confidence >= MinConfidence)" gives none *)
Theorem C19_min_confidence_builtin : forall c l r, f64_is_nan (min_conf c) = false ->
  In r (run rule_select cstate0 c l) ->
  f64_le (min_conf c) (d_conf (r_dec r)) = false -> d_mode (r_dec r) = ModeNone.
Proof. exact min_confidence_builtin_total. Qed.
Print Assumptions C19_min_confidence_builtin.

(* the reported confidence is the strategy's, bit for bit *)
Theorem C19_confidence_passthrough : forall strategy c l r, In r (run strategy cstate0 c l) ->
  d_conf (r_dec r) = s_conf (r_raw r) /\ exists f w, r_raw r = strategy f w.
Proof. exact confidence_passthrough. Qed.
Print Assumptions C19_confidence_passthrough.

(* 0 <= confidence <= 1 for the built-in strategy, for all features *)
Theorem C19_confidence_range : forall c l r,
  In r (run rule_select cstate0 c l) -> f64_in_unit (d_conf (r_dec r)) = true.
Proof. exact confidence_range_builtin. Qed.
Print Assumptions C19_confidence_range.

(* ... and for any strategy that itself answers within [0,1] (which excludes NaN) *)
Theorem C19_confidence_range_any_strategy : forall strategy c l r,
  (forall f w, f64_in_unit (s_conf (strategy f w)) = true) ->
  In r (run strategy cstate0 c l) -> f64_in_unit (d_conf (r_dec r)) = true.
Proof. exact confidence_range_any. Qed.
Print Assumptions C19_confidence_range_any_strategy.

(* NaN, precisely: a NaN confidence is never stopped by the confidence gate, is reported unchanged
   (so outside [0,1]), and on a fresh selector the strategy's allowed mode is returned *)
Theorem C19_nan_confidence_passes : forall strategy c st f w now,
  f64_is_nan (s_conf (strategy f w)) = true ->
  let d := snd (select_config strategy st c f w now) in
  d_kind d <> 1%N /\ d_conf d = s_conf (strategy f w) /\ f64_in_unit (d_conf d) = false
  /\ (is_allowed c (s_mode (strategy f w)) = true -> is_zero_time (last_time st) = true ->
      d_mode d = s_mode (strategy f w)).
Proof. exact nan_confidence_passes. Qed.
Print Assumptions C19_nan_confidence_passes.

Theorem C19_nan_refuted : exists strategy c l r,
  In r (run strategy cstate0 c l) /\ f64_le (min_conf c) (d_conf (r_dec r)) = false
  /\ d_mode (r_dec r) <> ModeNone /\ f64_in_unit (d_conf (r_dec r)) = false.
Proof. exact nan_refuted. Qed.
Print Assumptions C19_nan_refuted.

(* stability, by the supplied clock (which may run backwards): a gate-passing decision taken less
   than MinStabilityPeriod after the latest recorded decision (clock reading T, not the zero
   instant) returns the mode of the previous gate-passing decision.  [stability_ok] is that
   statement checked at every position of the history (Model/Selector.v). *)
Theorem C19_stability : forall strategy c l, stability_ok c (run strategy cstate0 c l) = true.
Proof. exact stability_holds. Qed.
Print Assumptions C19_stability.

(* the same, spelled out for one more call after an arbitrary history *)
Theorem C19_stability_next : forall strategy c l f w now T m,
  let t := run strategy cstate0 c l in
  let r := row_of strategy c (run_state strategy cstate0 c l) (f, w, now) in
  run strategy cstate0 c (l ++ [(f, w, now)]) = t ++ [r] /\
  (passes c r = true ->
   g_rec_time (ghost_of c t) = Some T -> g_pass_mode (ghost_of c t) = Some m ->
   T <> zero_instant -> (sat_sub now T < min_stab c)%Z ->
   d_mode (r_dec r) = m).
Proof. exact stability_next. Qed.
Print Assumptions C19_stability_next.

(* with a clock that never decreases and never reads the zero instant: two changes of mode among
   gate-passing decisions are at least MinStabilityPeriod apart (no flapping) *)
Theorem C19_dwell : forall strategy c l prev, clock_mono prev l = true ->
  dwell_ok c (run strategy cstate0 c l) = true.
Proof. exact dwell_holds. Qed.
Print Assumptions C19_dwell.

(* the invariant that carries it: lastMode is the mode returned by the latest gate-passing decision
   and is an allowed mode; lastDecisionTime is the clock reading of the latest recorded decision *)
Theorem C19_memory_invariant : forall strategy c l,
  let st := run_state strategy cstate0 c l in
  let g := ghost_of c (run strategy cstate0 c l) in
  (g_rec_time g = None /\ g_pass_mode g = None /\ st = cstate0) \/
  (g_rec_time g = Some (last_time st) /\ g_pass_mode g = Some (last_mode st) /\ is_allowed c (last_mode st) = true).
Proof. exact memory_invariant. Qed.
Print Assumptions C19_memory_invariant.

(* the literal pairwise reading (ANY two consecutive gate-passing decisions less than the period
   apart agree) does not hold: a held decision does not restart the period *)
Theorem C19_stability_pairwise_refuted : exists c l,
  clock_mono 0%Z l = true /\ pairwise_ok c None (run rule_select cstate0 c l) = false.
Proof. exact pairwise_refuted. Qed.
Print Assumptions C19_stability_pairwise_refuted.

(* without the exception for the zero instant stability fails: time.Time{} doubles as "no decision yet" *)
Theorem C19_stability_zero_instant_refuted : exists c l, stability_strict c (run rule_select cstate0 c l) = false.
Proof. exact zero_instant_refuted. Qed.
Print Assumptions C19_stability_zero_instant_refuted.

(* --- part A: the configuration selects a delete entry point, nothing visible depends on it ------ *)
(* for every name hash, node capacity, history of inserts/deletes and every per-operation choice of
   (rebalance flag, lazy state, lazy triggers): per-operation results, records and header counters
   equal those of the default configuration *)
Theorem C19_config_irrelevant : forall hash max_records cfs ops,
  visible (run_hist hash max_records cfs 0 ops btree0)
  = visible (run_hist hash max_records (fun _ => default_config) 0 ops btree0).
Proof. exact config_irrelevant. Qed.
Print Assumptions C19_config_irrelevant.
