(* C11 — object headers at arbitrary file addresses (gap revealed by the seeded change C11-e).
   The Go reader parseV1Header / parseV1MessagesInBlock reads at absolute addresses but steps from message to
   message relative to the start of the message block, exactly as ObjectHeaderWriter.writeToV1 pads; the model
   dec_ohdr sbBE file addr carries the address.  The correspondence obligation of the tie is therefore
   "core.ReadObjectHeader(image, a) = dec_ohdr image a for EVERY a, aligned or not": tools/props/c11.py places
   version 1 and version 2 headers at every residue modulo 8 (kinds ohdr_v1 / ohdr_v2, OHDR_ADDRS). *)
From HV Require Import Base.Prelude Base.Outcome Base.Bytes Model.CodecOhdr Model.CodecOhdrAddr
  Proofs.CodecOhdr Proofs.CodecOhdrAddr.

(* the round trip of a version 1 header holds at every address addr = blen pre: no hypothesis on addr mod 8 *)
Theorem C11_ohdr_v1_roundtrip_any_address : forall addr x (pre suf : list N),
  blen pre = addr ->
  wf_ohdr_v1 x = true ->
  addr + size_ohdr_v1 x + 16 < 9223372036854775808 ->
  dec_ohdr false (pre ++ enc_ohdr_v1 x ++ suf) addr = Ok (proj_ohdr_v1 x addr).
Proof. exact ohdr_v1_roundtrip_any_address. Qed.
Print Assumptions C11_ohdr_v1_roundtrip_any_address.

(* ... and what comes back is the encoded message list (types and data, in order), the reference count and
   the version: the file offsets are the only part of the result that mentions the address *)
Theorem C11_ohdr_v1_roundtrip_messages : forall addr x (pre suf : list N),
  blen pre = addr ->
  wf_ohdr_v1 x = true ->
  addr + size_ohdr_v1 x + 16 < 9223372036854775808 ->
  exists o, dec_ohdr false (pre ++ enc_ohdr_v1 x ++ suf) addr = Ok o /\
            map unplace (ohp_msgs o) = oh_msgs x /\ ohp_refcount o = oh_refcount x /\ ohp_version o = 1.
Proof. exact ohdr_v1_roundtrip_messages. Qed.
Print Assumptions C11_ohdr_v1_roundtrip_messages.

(* decoding an encoded header at address blen pre = decoding it at address 0, message offsets moved *)
Theorem C11_ohdr_v1_address_independent : forall x (pre suf : list N),
  wf_ohdr_v1 x = true ->
  blen pre + size_ohdr_v1 x + 16 < 9223372036854775808 ->
  dec_ohdr false (pre ++ enc_ohdr_v1 x ++ suf) (blen pre)
  = omap (shift_ohdr (blen pre)) (dec_ohdr false (enc_ohdr_v1 x ++ suf) 0).
Proof. exact ohdr_v1_address_independent. Qed.
Print Assumptions C11_ohdr_v1_address_independent.

Theorem C11_ohdr_v2_address_independent : forall x (pre suf : list N) sbBE,
  wf_ohdr_v2 x = true -> 1 <= blen suf ->
  blen pre + size_ohdr_v2 x + 8 < 9223372036854775808 ->
  dec_ohdr sbBE (pre ++ enc_ohdr_v2 x ++ suf) (blen pre)
  = omap (shift_ohdr (blen pre)) (dec_ohdr sbBE (enc_ohdr_v2 x ++ suf) 0).
Proof. exact ohdr_v2_address_independent. Qed.
Print Assumptions C11_ohdr_v2_address_independent.

(* the hypotheses are satisfiable at an unaligned address: a three-message dataset header (12, 24 and 18
   bytes of data) at address 99; the second and third message sit at 139 and 171 (not multiples of 8) *)
Theorem C11_ohdr_v1_unaligned_example :
  (wf_ohdr_v1 ohdr_v1_dataset = true /\ (99 mod 8 =? 0) = false /\
   99 + size_ohdr_v1 ohdr_v1_dataset + 16 < 9223372036854775808) /\
  dec_ohdr false (repeat 255 99 ++ enc_ohdr_v1 ohdr_v1_dataset ++ repeat 255 9) 99
  = Ok (proj_ohdr_v1 ohdr_v1_dataset 99) /\
  map hmp_offset (ohp_msgs (proj_ohdr_v1 ohdr_v1_dataset 99)) = [115; 139; 171].
Proof. exact (conj ohdr_v1_dataset_wf ohdr_v1_dataset_at_99). Qed.
Print Assumptions C11_ohdr_v1_unaligned_example.

(* A reader that looks for the next message at the next ABSOLUTE multiple of 8 (seeded change C11-e; not
   /repo's reader) does not invert the writer: at each of these addresses it returns Ok with a message list that is not the
   encoded one (the first message only; at address 2 the first message and two that were never written), where the transcription of /repo's reader returns the header. *)
Theorem C11_ohdr_v1_absolute_alignment_refuted :
  forall k, In k [1; 2; 3; 4; 5; 6; 7; 99; 4097; 4099; 4103] ->
  exists o, parse_v1_abs (repeat 255 (N.to_nat k) ++ enc_ohdr_v1 ohdr_v1_dataset ++ repeat 0 64) k 0 false = Ok o /\
            map unplace (ohp_msgs o) <> oh_msgs ohdr_v1_dataset /\
            parse_v1 (repeat 255 (N.to_nat k) ++ enc_ohdr_v1 ohdr_v1_dataset ++ repeat 0 64) k 0 false
            = Ok (proj_ohdr_v1 ohdr_v1_dataset k).
Proof. exact ohdr_v1_abs_refuted. Qed.
Print Assumptions C11_ohdr_v1_absolute_alignment_refuted.

(* ... and is indistinguishable from it at aligned addresses (which is all the tie used to generate) *)
Theorem C11_ohdr_v1_absolute_alignment_agrees_aligned :
  forall k, In k [0; 8; 96; 4096] ->
  parse_v1_abs (repeat 255 (N.to_nat k) ++ enc_ohdr_v1 ohdr_v1_dataset ++ repeat 0 64) k 0 false
  = Ok (proj_ohdr_v1 ohdr_v1_dataset k).
Proof. exact ohdr_v1_abs_agrees_aligned. Qed.
Print Assumptions C11_ohdr_v1_absolute_alignment_agrees_aligned.
