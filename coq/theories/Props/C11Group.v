(* C11 - "every metadata encoder is inverted by its decoder": the three structures of a symbol-table GROUP at byte level
   (Model/GroupWire.v: local heap, symbol table node, group B-tree node; tie tools/props/c03wire.py).  Theorems only; lemmas in
   Proofs/GroupWireHeap.v, GroupWireSnod.v, GroupWireBTree.v.

   Form of every round trip: for EVERY well-formed value, EVERY address and EVERY file that holds the writer's bytes at that
   address ([pre] before, [suf] after; only addr + size <= MaxInt64 is required, the io.ReaderAt offset type), the reader returns
   the value.  Sizes are the ones Model/Store.v allocates (32 + segment, 8 + 2K*40, 24 + (2K+1)*8 + 2K*8). *)
From HV Require Import Base.Prelude Base.Outcome Base.Bytes Model.RobustAlloc Model.RobustGroup Model.GroupWire
  Proofs.GroupWireHeap Proofs.GroupWireSnod Proofs.GroupWireBTree.

(* ================================================================== local heap *)
(* LocalHeap.WriteTo emits LocalHeap.Size() = 32 + DataSegmentSize bytes *)
Theorem C11_lheap_size : forall h a, blen (hw_strings h) <= hw_dss h -> blen (heap_image h a) = heap_size h.
Proof. exact heap_image_size. Qed.
Print Assumptions C11_lheap_size.

(* LoadLocalHeap (WriteTo h) = the data segment: the strings padded with zeros to DataSegmentSize *)
Theorem C11_lheap_roundtrip : forall h pre suf,
  blen (hw_strings h) <= hw_dss h -> blen pre + 32 + hw_dss h <= MaxInt64 ->
  load_local_heap (pre ++ heap_image h (blen pre) ++ suf) (blen pre) 8 8 = Ok (padded h).
Proof. exact load_heap_image. Qed.
Print Assumptions C11_lheap_roundtrip.

(* GetString returns every name at the offset AddString returned for it: names of ANY bytes without NUL (the empty name too) *)
Theorem C11_lheap_get_strings : forall ns (rest : list N),
  Forall (fun n => nonul n = true) ns -> map (get_string (enc_names ns ++ rest)) (name_offs 0 ns) = map Ok ns.
Proof. exact get_strings_enc. Qed.
Print Assumptions C11_lheap_get_strings.

Theorem C11_lheap_get_string_at : forall (pre nm suf : list N),
  nonul nm = true -> get_string (pre ++ nm ++ 0 :: suf) (blen pre) = Ok nm.
Proof. exact get_string_at. Qed.
Print Assumptions C11_lheap_get_string_at.

(* AddString: the offset is the old length, the buffer grows by the name and its terminator, the heap still fits *)
Theorem C11_lheap_add_string : forall h s off h1, add_string h s = Ok (off, h1) ->
  off = blen (hw_strings h) /\ hw_strings h1 = hw_strings h ++ s ++ [0] /\ hw_dss h1 = hw_dss h /\ hw_free h1 = hw_free h /\
  blen (hw_strings h1) <= hw_dss h1.
Proof. exact add_string_fits. Qed.
Print Assumptions C11_lheap_add_string.

(* the allocation-aware model of C07 (Model/RobustAlloc.v local_heap_load) is this reader followed by len() *)
Theorem C11_lheap_reader_is_c07_reader : forall file addr O L, addr <= MaxInt64 ->
  fst (local_heap_load file addr O L) = omap blen (load_local_heap file addr O L).
Proof. exact local_heap_load_agrees. Qed.
Print Assumptions C11_lheap_reader_is_c07_reader.

Theorem C11_lheap_example :
  load_local_heap (zeros 96 ++ heap_image ex_heap 96 ++ [7; 7]) 96 8 8 = Ok ([100; 115; 0; 103; 0] ++ zeros 11) /\
  get_string ([100; 115; 0; 103; 0] ++ zeros 11) 3 = Ok [103] /\
  link_heap (zeros 96 ++ heap_image ex_heap 96 ++ [7; 7]) 96 [120] =
    Ok (5, zeros 96 ++ heap_image {| hw_strings := [100; 115; 0; 103; 0; 120; 0]; hw_dss := 16; hw_free := 1; hw_daddr := 0 |} 96 ++ [7; 7]).
Proof. exact ex_heap_roundtrip. Qed.
Print Assumptions C11_lheap_example.

(* ================================================================== symbol table node *)
(* WriteAt never panics when NumSymbols = len(Entries) and emits the closed form: header, the first maxEntries entries, zero
   slots *)
Theorem C11_snod_write_closed : forall s m, stn_num s = llen (stn_entries s) ->
  snod_write_at s 8 (N.of_nat m) = Ok (snod_bytes s m).
Proof. exact snod_write_at_ok. Qed.
Print Assumptions C11_snod_write_closed.

(* length = 8 + maxEntries * 40, for every node (whatever its fields) *)
Theorem C11_snod_size : forall s m b, snod_write_at s 8 m = Ok b -> blen b = 8 + m * sym_size 8.
Proof. exact snod_write_at_size. Qed.
Print Assumptions C11_snod_size.

(* ParseSymbolTableNode (WriteAt s) = s: version, count, every field of every entry, capacity; any count up to maxEntries *)
Theorem C11_snod_roundtrip : forall s m (pre suf : list N),
  snode_ok s = true -> (length (stn_entries s) <= m)%nat -> blen pre + 8 + 40 * N.of_nat m <= MaxInt64 ->
  parse_snod (pre ++ snod_bytes s m ++ suf) (blen pre) 8 = Ok s.
Proof. exact parse_snod_bytes. Qed.
Print Assumptions C11_snod_roundtrip.

Theorem C11_snod_example :
  snode_ok ex_snode = true /\ snod_write_at ex_snode 8 32 = Ok (snod_bytes ex_snode 32) /\
  parse_snod (zeros 50 ++ snod_bytes ex_snode 32 ++ [9]) 50 8 = Ok ex_snode.
Proof. exact ex_snode_roundtrip. Qed.
Print Assumptions C11_snod_example.

(* ================================================================== group B-tree node *)
(* BTreeNodeV1.WriteAt for a node of at most 2k (key, child) pairs: closed form and size 24 + (2k+1)*8 + 2k*8 *)
Theorem C11_gbtree_write_closed : forall b kcs k,
  pairs_of b kcs -> (length kcs <= 2 * k)%nat -> bt_write_at b 8 (N.of_nat k) = bt_bytes b kcs (2 * k).
Proof. exact bt_write_at_closed. Qed.
Print Assumptions C11_gbtree_write_closed.

Theorem C11_gbtree_size : forall b kcs k,
  pairs_of b kcs -> (length kcs <= 2 * k)%nat ->
  blen (bt_write_at b 8 (N.of_nat k)) = 24 + (2 * N.of_nat k + 1) * 8 + 2 * N.of_nat k * 8.
Proof. exact bt_write_at_size. Qed.
Print Assumptions C11_gbtree_size.

(* the child-pointer pass of ReadGroupBTreeEntries returns the children that are neither 0 nor undefined, in order *)
Theorem C11_gbtree_children_roundtrip : forall b kcs k2 (pre suf : list N),
  bt_group_ok b kcs -> (length kcs <= k2)%nat -> N.of_nat k2 < 32768 -> blen pre + blen (bt_bytes b kcs k2) <= MaxInt64 ->
  fst (gnode_read (pre ++ bt_bytes b kcs k2 ++ suf) (blen pre) 8) = Ok (filter live (map snd kcs)).
Proof. exact gnode_read_bytes. Qed.
Print Assumptions C11_gbtree_children_roundtrip.

(* the node createGroupStructures writes *)
Theorem C11_gbtree_writer_node : forall a, a < 18446744073709551616 ->
  exists b, add_key (new_btnode 0 GROUP_K) 0 a = Ok b /\ bt_group_ok b [(0, a)] /\
            bt_write_at b 8 GROUP_K = bt_bytes b [(0, a)] 32.
Proof. exact writer_node. Qed.
Print Assumptions C11_gbtree_writer_node.

(* ReadGroupBTreeEntries on ANY file holding the writer's B-tree node and a well-formed symbol table node at its child address
   returns that node's entries: the entry budget of /repo 336a458 never refuses what the writer wrote *)
Theorem C11_group_read_written : forall f b s m (pre1 suf1 pre2 suf2 : list N),
  bt_group_ok b [(0, blen pre2)] -> live (blen pre2) = true ->
  f = pre1 ++ bt_bytes b [(0, blen pre2)] 32 ++ suf1 -> blen pre1 + 544 <= MaxInt64 ->
  f = pre2 ++ snod_bytes s m ++ suf2 -> snode_ok s = true -> (length (stn_entries s) <= m)%nat ->
  blen pre2 + 8 + 40 * N.of_nat m <= MaxInt64 ->
  read_group_btree_entries f (blen pre1) 8 = Ok (map bentry_of (stn_entries s)).
Proof. exact read_group_btree_written. Qed.
Print Assumptions C11_group_read_written.

Theorem C11_group_example :
  blen ex_group_file = 64 + 1288 + 544 /\
  read_group_btree_entries ex_group_file (64 + 1288) 8 = Ok (map bentry_of (stn_entries ex_snode)).
Proof. exact ex_group_read. Qed.
Print Assumptions C11_group_example.
