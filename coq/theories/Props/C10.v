From HV Require Import Base.Prelude.
Theorem C10_placeholder : True. Proof. exact I. Qed.
Print Assumptions C10_placeholder.
