(* C10 - reopening preserves everything not modified (store-model part).
   reach bp ba sb h: state after CreateForWrite (superblock version sb) and history h; bp, ba: the error-path
   patches e5d916a (link pre-check) / 8199862 (attribute-info check) present or not (theorems hold for all four). *)
From HV Require Import Base.Prelude Model.Store Proofs.Store Proofs.StoreOps Proofs.StoreInv Proofs.StoreProps.
Local Open Scope N_scope.

(* close + OpenForWrite: all extents stay valid and disjoint, the new allocator starts at or above every one of
   them, so nothing allocated afterwards intersects an existing extent *)
Theorem C10_reopen_preserves : forall bp ba sb h,
  let s := reach bp ba sb h in let s1 := fst (step s OpReopen) in
  ovf (st s1) = false ->
  (NoOverlap (exts (st s1)) /\ Forall (fun e => ext_end e <= next (al (st s1))) (exts (st s1))) /\
  incl (exts (st s)) (exts (st s1)) /\
  forall o k n e s2, alloc_ext (st s1) o k n = Some (e, s2) -> ovf s2 = false ->
    forall e', In e' (exts (st s)) -> edisj e e'.
Proof. exact C10_reopen_preserves_l. Qed.
Print Assumptions C10_reopen_preserves.

(* without the extension of the file in Close the reserved tail of the last header is allocated again *)
Theorem C10_refuted_without_extend :
  let s := run (init cfg_no_extend 2) hist_noext in let o := OpMkGroup 0 1 false in
  ~ NoOverlap (exts (st (fst (step s o)))) /\
  exists e' w, In e' (exts (st s)) /\ targets s o (owner e') (kind_of e') = false /\
               In w (wlog (st (fst (step s o)))) /\ ~ (fst w + snd w <= start e' \/ ext_end e' <= fst w).
Proof. exact C10_refuted_without_extend_l. Qed.
Print Assumptions C10_refuted_without_extend.

(* a session all of whose calls issue no store command writes nothing and leaves size, allocator and extents as they were *)
Theorem C10_noop_session : forall bp ba sb h0 h,
  let s := reach bp ba sb h0 in
  closed s = true -> ovf (st s) = false ->
  all_quiet s (OpReopen :: h ++ [OpClose]) ->
  let s' := run s (OpReopen :: h ++ [OpClose]) in
  fsize (st s') = fsize (st s) /\ exts (st s') = exts (st s) /\
  next (al (st s')) = next (al (st s)) /\ run_writes s (OpReopen :: h ++ [OpClose]) = [].
Proof. exact C10_noop_session_l. Qed.
Print Assumptions C10_noop_session.

(* calls that are quiet: everything that fails, except creations, new attributes, hard links, chunked writes *)
Theorem C10_failed_call_is_quiet : forall bp ba sb h o,
  let s := reach bp ba sb h in
  is_session_op o = false -> op_fails s o -> may_leave_bytes bp ba o = false -> quiet_step s o.
Proof. exact C10_failed_call_is_quiet_l. Qed.
Print Assumptions C10_failed_call_is_quiet.

(* without fix e5d916a, link pre-check the byte-identity clause does not extend to sessions with a
   failing creation: the file grows *)
Theorem C10_noop_refuted_failed_creation :
  let s := reach false false 2 hist_sess1 in let sess := [OpReopen; OpMkGroup 0 1 false; OpClose] in
  closed s = true /\ snd (step (fst (step s OpReopen)) (OpMkGroup 0 1 false)) = false /\
  fsize (st s) < fsize (st (run s sess)) /\ objs (run s sess) = objs s.
Proof. exact C10_noop_refuted_failed_creation_l. Qed.
Print Assumptions C10_noop_refuted_failed_creation.

(* with the pre-check the same kind of session is quiet (hence byte-identical by C10_noop_session) *)
Theorem C10_failed_creation_quiet_with_precheck :
  let s := reach true true 2 hist_sess1 in
  all_quiet s (OpReopen :: [OpMkGroup 0 1 false; OpMkContig 0 1 false 12 1 8; OpHardLink 0 1 false 1] ++ [OpClose]).
Proof. exact C10_failed_creation_quiet_with_precheck_l. Qed.
Print Assumptions C10_failed_creation_quiet_with_precheck.
