(* C05 - "... the encoding is decodable according to the HDF5 format specification": the GROUP structures the writer emits
   (Model/GroupWire.v) against the specification decoders of Spec/FormatNode.v and the group clauses of the walker Spec/Walk.v.
   Theorems only; lemmas in Proofs/GroupWireSpec.v.  These are the theorems the KNOWN_FINDINGS.json entries
     C05-heap-name-offset-0  ->  C05_heap_name_offset_0_refuted, C05_group_snod_strict
     C05-snod-over-capacity  ->  C05_snod_over_capacity_refuted, C05_group_snod_strict
     C05-snod-unsorted       ->  C05_snod_names_in_creation_order
     C05-btree1-group-keys   ->  C05_btree1_group_keys_refuted (with C11_gbtree_writer_node: the keys are (0, 0))
   should cite. *)
From HV Require Import Base.Prelude Base.Outcome Base.Bytes Model.RobustAlloc Model.RobustGroup
  Spec.Parse Spec.Format Spec.FormatNode Spec.Walk
  Model.GroupWire Proofs.GroupWireHeap Proofs.GroupWireSnod Proofs.GroupWireBTree Proofs.GroupWireSpec.

(* ================================================================== local heap (III.D) *)
(* every heap header WriteTo emits decodes under the (strict: it has no tolerance) specification decoder to the segment size, the
   free-list head and the address right behind the header; the remaining bytes are the data segment *)
Theorem C05_group_lheap : forall h a,
  hw_dss h < 18446744073709551616 -> hw_free h < 18446744073709551616 ->
  spec_dec_lheap 8 8 (heap_image h a) =
    Ok ({| lh_size := hw_dss h; lh_free := hw_free h; lh_addr := wrap64 (a + 32) |}, padded h).
Proof. exact spec_lheap_image. Qed.
Print Assumptions C05_group_lheap.

(* free-list head 1 (every heap of this writer): the free list is well-formed whatever the segment holds *)
Theorem C05_group_lheap_free_list : forall fuel seg, lheap_free_ok fuel 8 seg 1 = true.
Proof. exact spec_lheap_free_ok. Qed.
Print Assumptions C05_group_lheap_free_list.

(* ================================================================== symbol table node (III.B) *)
Theorem C05_group_snod : forall tol leafK s m (r : list N),
  snode_ok s = true -> Forall (fun e => sym_plain e = true) (stn_entries s) -> (length (stn_entries s) <= m)%nat ->
  spec_dec_snod tol 8 leafK (snod_bytes s m ++ r) =
    (tg1 <- devif (2 * leafK <? stn_num s) tol T_snod_over_capacity;;
     tg2 <- devif (has_off0 s) tol T_heap_name_offset_0;;
     Ok (map spec_sym (stn_entries s), tg1 ++ tg2, zeros (40 * (m - length (stn_entries s))) ++ r)).
Proof. exact spec_snod_bytes. Qed.
Print Assumptions C05_group_snod.

(* tolerant: accepted with the logical content and exactly the listed tags *)
Theorem C05_group_snod_tolerant : forall leafK s m (r : list N),
  snode_ok s = true -> Forall (fun e => sym_plain e = true) (stn_entries s) -> (length (stn_entries s) <= m)%nat ->
  spec_dec_snod tolerant 8 leafK (snod_bytes s m ++ r) =
    Ok (map spec_sym (stn_entries s), snod_tags leafK s, zeros (40 * (m - length (stn_entries s))) ++ r).
Proof. exact spec_snod_tolerant. Qed.
Print Assumptions C05_group_snod_tolerant.

(* strict accepts iff the tag set is empty *)
Theorem C05_group_snod_strict : forall leafK s m (r : list N),
  snode_ok s = true -> Forall (fun e => sym_plain e = true) (stn_entries s) -> (length (stn_entries s) <= m)%nat ->
  spec_dec_snod strict 8 leafK (snod_bytes s m ++ r) =
    match snod_tags leafK s with
    | [] => Ok (map spec_sym (stn_entries s), [], zeros (40 * (m - length (stn_entries s))) ++ r)
    | _ => Err
    end.
Proof. exact spec_snod_strict. Qed.
Print Assumptions C05_group_snod_strict.

(* finding C05-heap-name-offset-0: every node whose first entry names heap offset 0 (the first AddString of a heap returns 0:
   C11_lheap_add_string on an empty buffer) is rejected by strict and carries the tag *)
Theorem C05_heap_name_offset_0_refuted : forall leafK s m e es (r : list N),
  snode_ok s = true -> Forall (fun e => sym_plain e = true) (stn_entries s) -> (length (stn_entries s) <= m)%nat ->
  stn_entries s = e :: es -> sy_name e = 0 ->
  spec_dec_snod strict 8 leafK (snod_bytes s m ++ r) = Err /\ In T_heap_name_offset_0 (snod_tags leafK s).
Proof. exact snod_heap_name_offset_0. Qed.
Print Assumptions C05_heap_name_offset_0_refuted.

(* finding C05-snod-over-capacity: group leaf K = 4 in the files written; the tag is present iff more than 8 links *)
Theorem C05_snod_over_capacity_refuted : forall s m (r : list N),
  snode_ok s = true -> Forall (fun e => sym_plain e = true) (stn_entries s) -> (length (stn_entries s) <= m)%nat ->
  (spec_dec_snod strict 8 4 (snod_bytes s m ++ r) = Err <-> (8 < stn_num s \/ has_off0 s = true)) /\
  (In T_snod_over_capacity (snod_tags 4 s) <-> 8 < stn_num s).
Proof. exact snod_over_capacity. Qed.
Print Assumptions C05_snod_over_capacity_refuted.

(* finding C05-snod-unsorted: the names the walker reads through the offsets AddString returned are the names in CREATION order,
   so its clause `increasing names` fails exactly for groups not created in increasing name order *)
Theorem C05_snod_names_in_creation_order : forall (ns : list bytes) (pre rest : list N),
  Forall (fun n => nonul n = true) ns ->
  omapM (heap_str (pre ++ enc_names ns ++ rest)) (name_offs (blen pre) ns) = Ok ns.
Proof. exact heap_strs_gen. Qed.
Print Assumptions C05_snod_names_in_creation_order.

Theorem C05_group_snod_example :
  snode_ok ex_snode = true /\ Forall (fun e => sym_plain e = true) (stn_entries ex_snode) /\
  spec_dec_snod strict 8 4 (snod_bytes ex_snode 32) = Err /\
  spec_dec_snod tolerant 8 4 (snod_bytes ex_snode 32) =
    Ok (map spec_sym (stn_entries ex_snode), [T_heap_name_offset_0], zeros 1200).
Proof. exact ex_snod_spec. Qed.
Print Assumptions C05_group_snod_example.

(* ================================================================== group B-tree node (III.A.1, node type 0, K = 16) *)
(* every node of at most 32 pairs: accepted under ANY tolerance with no deviation; keys, the key after the last child (0),
   children; what remains are the unused slots *)
Theorem C05_group_btree : forall tol b kcs (r : list N),
  bt_group_ok b kcs -> Forall (fun kc => fst kc < 18446744073709551616) kcs -> (length kcs <= 32)%nat ->
  spec_dec_btree1 tol 8 8 0 0 16 (bt_bytes b kcs 32 ++ r) =
    Ok (spec_group_node b kcs, [], zeros (16 * (32 - length kcs)) ++ r).
Proof. exact spec_group_btree. Qed.
Print Assumptions C05_group_btree.

(* finding C05-btree1-group-keys: with both keys naming the same heap string (the writer's keys are (0, 0) and are never updated)
   the walker's clause "key i < name <= key i+1" is false for EVERY non-empty child *)
Theorem C05_btree1_group_keys_refuted : forall lo (ents : list gentry),
  ents <> [] -> forallb (fun e => bytes_ltb lo (ge_name e) && bytes_leb (ge_name e) lo) ents = false.
Proof. exact group_keys_clause_fails. Qed.
Print Assumptions C05_btree1_group_keys_refuted.
