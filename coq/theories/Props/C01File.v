(* C01, end to end at byte level: the READER programs (hdf5.Open's loader p_open, ReadSuperblock p_superblock, Dataset.Read's
   api_read_raw: Model/IOProg*.v, each tied to the Go reader and proved strict for C17) run on the FILE IMAGE the writer
   leaves behind for  CreateForWrite (superblock v2); CreateDataset("/"+name, dtype, dims); Write(data); Close()
   (Model/FileImage.v image_v2, compared byte for byte with the library's files on every run: tools/props/c01file.py)
   return what was written.  Only theorem statements here; proofs in Proofs/FileImage*.v. *)
From HV Require Import Base.Prelude Base.Outcome Base.Bytes Model.IOProg Model.IOProgReader Model.IOProgOpen.
From HV Require Import Model.CodecSuper Model.CodecOhdr Model.CodecType Model.FileImage.
From HV Require Import Proofs.FileImage Proofs.FileImageOhdr Proofs.FileImageData Proofs.FileImageGroup Proofs.FileImageOpen
  Proofs.FileImageProd Proofs.FileImageMain.

(* For ALL link names (non-empty, no NUL, no '/', at most 255 bytes: what fits the 256-byte name heap of a new root group),
   all basic registry datatypes (int8..uint64, float32, float64), all shapes of rank 1..24 (the largest rank whose header
   fits the 255-byte object header chunk) with extents > 0, all data of exactly product(dims)*size bytes, less than 4 GiB,
   and every loader fuel >= 3 / header fuel >= 4:
     Open returns the tree "/" with exactly one child, the dataset `name`;
     ReadSuperblock returns the 8/8 little-endian superblock with the root header address;
     the dataset read returns exactly the written bytes;
     the datatype (class, size, signedness bit field) and the shape decoded from the dataset's header are the ones given. *)
Theorem C01_file_roundtrip_contiguous : forall name class size cbf dims data fuel hfuel,
  link_name_ok name = true -> basic_dtype class size cbf = true -> dims_ok dims = true ->
  blen data = product dims * size -> blen data < 4294967296 -> (3 <= fuel)%nat -> (3 < hfuel)%nat ->
  let f := image_v2 name class size cbf dims data in
  run0 f (p_open true (blen f) fuel hfuel) = Ok (Grp [47] ROOT_ADDR [Dset name (dset_addr data)]) /\
  run0 f p_superblock = Ok SB' /\
  run0 f (api_read_raw SB' hfuel (dset_addr data)) = Ok (RawBytes data) /\
  exists h, run0 f (p_ohdr SB' hfuel (dset_addr data)) = Ok h /\ decoded_type_shape h = Ok (class, size, cbf, dims).
Proof. exact file_roundtrip_stmt. Qed.
Print Assumptions C01_file_roundtrip_contiguous.

(* the key abstraction: an intact ReadAt inside a block placed in the file returns that block's slice; every block of a
   file assembled by place_all sits at the sum of the lengths before it *)
Theorem C01_read_at_placed : forall A f a b off len (k : bytes -> prog A),
  placed f a b -> off + len <= blen b -> run0 f (ReadAt (a + off) len k) = run0 f (k (rd b off len)).
Proof. exact run0_read_placed. Qed.
Print Assumptions C01_read_at_placed.

Theorem C01_place_all_placed : forall blocks i b, nth_error blocks i = Some b ->
  placed (place_all blocks) (block_addr blocks i) b.
Proof. exact place_all_placed. Qed.
Print Assumptions C01_place_all_placed.

(* object header stage for ALL version 2 headers the writer can produce (flags 0, message types < 256 other than
   continuation, non-empty data, at most 255 message bytes) placed anywhere below 2^63 with two bytes behind them *)
Theorem C01_ohdr_program_roundtrip : forall sb fuel f a x tail,
  ohdr_ok x -> placed f a (enc_ohdr_v2 x ++ tail) -> 2 <= blen tail -> (length (oh_msgs x) < fuel)%nat -> a + 600 < B63 ->
  run0 f (p_ohdr sb fuel a) = Ok (proj_ohdr_v2 (spp_bigendian sb) x a).
Proof. exact p_ohdr_placed. Qed.
Print Assumptions C01_ohdr_program_roundtrip.

(* the file ends at the end-of-file address the superblock records *)
Theorem C01_image_length : forall name class size cbf dims data,
  link_name_ok name = true -> basic_dtype class size cbf = true -> dims_ok dims = true ->
  blen data = total_elems dims * size -> blen data < 4294967296 ->
  blen (image_v2 name class size cbf dims data) = eof_addr data.
Proof. exact image_len. Qed.
Print Assumptions C01_image_length.

(* calculateTotalElements is the product when nothing wraps *)
Theorem C01_total_elems_product : forall dims, dims_ok dims = true -> product dims < 18446744073709551616 ->
  total_elems dims = product dims.
Proof. exact total_elems_product. Qed.
Print Assumptions C01_total_elems_product.

(* the hypotheses are satisfiable (the image for these inputs is the library-written file ex2 of Proofs/IOProgExamples.v) *)
Theorem C01_file_roundtrip_witness :
  link_name_ok [100] = true /\ basic_dtype DT_FIXED 1 0 = true /\ dims_ok [3] = true /\
  blen [1; 2; 3] = product [3] * 1 /\ blen [1; 2; 3] < 4294967296.
Proof. exact file_roundtrip_witness. Qed.
Print Assumptions C01_file_roundtrip_witness.
