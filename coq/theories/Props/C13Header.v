(* C13, object-header level - "every Resize within the declared maximum dimensions succeeds and one beyond them is
   rejected; after reopen the dataset has the last requested shape": DatasetWriter.Resize as a rewrite of the stored
   object header.
   Model: Model/Resize.v (transcription of dataset_write.go Resize over the object header / dataspace codecs of
   Model/CodecOhdr.v, Model/CodecMsg.v).  Lemmas: Proofs/ResizeBase.v, Proofs/Resize.v, Proofs/ResizeThms.v
   (examples: ex_stored, ex_run - rank 3, an unlimited maximum, requests at max, max + 1, zero, other rank).
   Invariant [stored file addr flags before after dims maxd pre suf]: the file holds at addr a version 2 object header
   as the library's writer produces it - any messages [before] (no dataspace among them), the dataspace message of
   extents dims / maxima maxd, any messages [after] (layout, filter pipeline, attributes, reference count ...) -
   with bytes pre in front and suf behind; the file goes on behind the header or the last message has two bytes of
   data (room: the reader fetches 6 bytes per message header), so the header may be the very end of the file, as it
   is for a dataset created last in a session (ex_stored: a header image produced by the library, suf = []).
   [handle_ok h]: the handle of a resizable dataset as CreateDataset
   builds it.  Both are preserved by every call (C13H_resize_decodes, C13H_resizes_last_accepted). *)
From HV Require Import Base.Prelude Base.Outcome Base.Bytes Model.CodecMsg Model.CodecOhdr Model.Resize.
From HV Require Import Model.ResizeTie Proofs.ResizeBase Proofs.Resize Proofs.ResizeThms Proofs.ResizeTie.

(* (1) the call succeeds iff the request has the rank of the dataset, no zero extent, and every extent is within
   the declared maximum (Unlimited accepts every uint64) *)
Theorem C13H_resize_accepts_iff : forall be h file addr flags before after pre suf new,
  stored file addr flags before after (rh_dims h) (rh_maxdims h) pre suf ->
  handle_ok h = true -> u64_ok new = true ->
  (snd (resize be h file addr new) = ROk <-> resize_ok (rh_dims h) (rh_maxdims h) new = true).
Proof. exact resize_accepts_iff. Qed.
Print Assumptions C13H_resize_accepts_iff.

(* ... and, whatever the handle and the file are (no hypothesis), a call that succeeds was within the maximum *)
Theorem C13H_resize_accept_sound : forall be h file addr new h' file',
  resize be h file addr new = (h', file', ROk) ->
  resize_ok (rh_dims h) (rh_maxdims h) new = true /\ rh_dims h' = new /\ rh_maxdims h' = rh_maxdims h.
Proof. exact resize_accept_sound. Qed.
Print Assumptions C13H_resize_accept_sound.

(* (2) the rewrite is local: file = A ++ (extents of the dataspace message) ++ B before and after with the same A, B;
   the file keeps its length and every byte outside those 8 * rank bytes (other messages: datatype, layout,
   attributes, links; everything else in the file) is unchanged *)
Theorem C13H_resize_same_length : forall be h file addr flags before after pre suf new h' file',
  stored file addr flags before after (rh_dims h) (rh_maxdims h) pre suf ->
  handle_ok h = true -> u64_ok new = true ->
  resize be h file addr new = (h', file', ROk) ->
  exists A B,
    file = A ++ enc_dims8 (rh_dims h) ++ B /\ file' = A ++ enc_dims8 new ++ B /\
    blen A = addr + 19 + chunk_size_v2 before /\
    length (enc_dims8 new) = length (enc_dims8 (rh_dims h)) /\
    length file' = length file /\
    forall i, (i < length A \/ length A + length (enc_dims8 new) <= i)%nat -> nth_error file' i = nth_error file i.
Proof. exact resize_same_length. Qed.
Print Assumptions C13H_resize_same_length.

(* (3) decoding the rewritten header yields the same message list with the dataspace message replaced by the one
   of the new extents and the unchanged maxima; the invariants hold again *)
Theorem C13H_resize_decodes : forall be h file addr flags before after pre suf new h' file',
  stored file addr flags before after (rh_dims h) (rh_maxdims h) pre suf ->
  handle_ok h = true -> u64_ok new = true ->
  resize be h file addr new = (h', file', ROk) ->
  dec_ohdr be file addr = Ok (proj_ohdr_v2 be (hdr_of flags before (rh_dims h) (rh_maxdims h) after) addr) /\
  dec_ohdr be file' addr = Ok (proj_ohdr_v2 be (hdr_of flags before new (rh_maxdims h) after) addr) /\
  stored_shape be file' addr = Ok (new, Some (rh_maxdims h)) /\
  rh_dims h' = new /\ rh_maxdims h' = rh_maxdims h /\
  stored file' addr flags before after (rh_dims h') (rh_maxdims h') pre suf /\ handle_ok h' = true.
Proof. exact resize_decodes. Qed.
Print Assumptions C13H_resize_decodes.

(* (4) no hypothesis: a call that does not succeed writes nothing and leaves the shape fields of the handle alone *)
Theorem C13H_resize_refused_unchanged : forall be h file addr new h' file' r,
  resize be h file addr new = (h', file', r) -> r <> ROk -> file' = file /\ same_shape h' h.
Proof. exact resize_refused_unchanged. Qed.
Print Assumptions C13H_resize_refused_unchanged.

(* ... for a handle as CreateDataset builds it the refusal comes before the file is read: nothing changes at all *)
Theorem C13H_resize_rejected : forall be h file addr new,
  handle_ok h = true -> resize_ok (rh_dims h) (rh_maxdims h) new = false ->
  resize be h file addr new = (h, file, RErr).
Proof. exact resize_rejected. Qed.
Print Assumptions C13H_resize_rejected.

(* (5) any list of requests: per-call results as specified, the file keeps its length, and what a reader decodes
   from the header is the last accepted shape with the declared maxima *)
Theorem C13H_resizes_last_accepted : forall be h file addr flags before after pre suf news,
  stored file addr flags before after (rh_dims h) (rh_maxdims h) pre suf ->
  handle_ok h = true -> Forall (fun new => u64_ok new = true) news ->
  exists h' file',
    resizes be h file addr news = (h', file', expected_results (rh_dims h) (rh_maxdims h) news) /\
    rh_dims h' = last_accepted (rh_dims h) (rh_maxdims h) news /\ rh_maxdims h' = rh_maxdims h /\
    stored_shape be file' addr = Ok (last_accepted (rh_dims h) (rh_maxdims h) news, Some (rh_maxdims h)) /\
    length file' = length file /\
    stored file' addr flags before after (rh_dims h') (rh_maxdims h') pre suf /\ handle_ok h' = true.
Proof. exact resizes_last_accepted. Qed.
Print Assumptions C13H_resizes_last_accepted.

(* the hypotheses are decidable on a concrete image: the unit tie (tools/props/c13unit.py) evaluates stored_ok and
   handle_ok on every header image the implementation has in front of a Resize call; stored_ok is sound *)
Theorem C13H_stored_ok_sound : forall img dims maxd, stored_ok img dims maxd = true ->
  exists flags before after suf, stored img 0 flags before after dims maxd [] suf.
Proof. exact stored_ok_sound. Qed.
Print Assumptions C13H_stored_ok_sound.
