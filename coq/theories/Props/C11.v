(* C11 - every metadata encoder is inverted by its decoder.  Property theorems only.
   Determinism of encoding is definitional: every enc_X is a Gallina function. *)
From HV Require Import Base.Prelude Base.Outcome Base.Bytes Model.CodecMsg Proofs.CodecMsg.

Theorem C11_dataspace_roundtrip : forall x, wf_dataspace x = true ->
  dec_dataspace (enc_dataspace x) = Ok (proj_dataspace x).
Proof. exact dataspace_roundtrip. Qed.
Print Assumptions C11_dataspace_roundtrip.

Theorem C11_dataspace_len : forall x, blen (enc_dataspace x) = size_dataspace x.
Proof. exact dataspace_blen. Qed.
Print Assumptions C11_dataspace_len.

Theorem C11_dataspace_not_ambiguous : forall x, wf_dataspace x = true ->
  ambiguous_dataspace_len (blen (ds_dims x)) (negb (length (ds_maxdims x) =? 0)%nat) (blen (enc_dataspace x)) = false.
Proof. exact dataspace_not_ambiguous. Qed.
Print Assumptions C11_dataspace_not_ambiguous.

Theorem C11_layout_roundtrip : forall sb x, wf_layout sb x = true ->
  dec_layout sb (enc_layout sb x) = Ok (proj_layout sb x).
Proof. exact layout_roundtrip. Qed.
Print Assumptions C11_layout_roundtrip.

Theorem C11_layout_len : forall sb x, wf_layout sb x = true -> blen (enc_layout sb x) = size_layout sb x.
Proof. exact layout_blen. Qed.
Print Assumptions C11_layout_len.
