(* C11 - every metadata encoder is inverted by its decoder.  Property theorems only.
   Determinism of encoding is definitional: every enc_X is a Gallina function. *)
From HV Require Import Base.Prelude Base.Outcome Base.Bytes Model.CodecMsg Proofs.CodecMsg
  Model.CodecType Proofs.CodecType Model.CodecAttr Proofs.CodecAttr
  Model.CodecSuper Proofs.CodecSuper Model.CodecOhdr Proofs.CodecOhdr
  Model.CodecLink Proofs.CodecLink Model.CodecCompound Proofs.CodecCompound
  Model.CodecCompoundTree Proofs.CodecCompoundTree2 Proofs.CodecCompoundTree3.

Theorem C11_dataspace_roundtrip : forall x, wf_dataspace x = true ->
  dec_dataspace (enc_dataspace x) = Ok (proj_dataspace x).
Proof. exact dataspace_roundtrip. Qed.
Print Assumptions C11_dataspace_roundtrip.

Theorem C11_dataspace_len : forall x, blen (enc_dataspace x) = size_dataspace x.
Proof. exact dataspace_blen. Qed.
Print Assumptions C11_dataspace_len.

Theorem C11_dataspace_not_ambiguous : forall x, wf_dataspace x = true ->
  ambiguous_dataspace_len (blen (ds_dims x)) (negb (length (ds_maxdims x) =? 0)%nat) (blen (enc_dataspace x)) = false.
Proof. exact dataspace_not_ambiguous. Qed.
Print Assumptions C11_dataspace_not_ambiguous.

Theorem C11_layout_roundtrip : forall sb x, wf_layout sb x = true ->
  dec_layout sb (enc_layout sb x) = Ok (proj_layout sb x).
Proof. exact layout_roundtrip. Qed.
Print Assumptions C11_layout_roundtrip.

Theorem C11_layout_len : forall sb x, wf_layout sb x = true -> blen (enc_layout sb x) = size_layout sb x.
Proof. exact layout_blen. Qed.
Print Assumptions C11_layout_len.

(* datatype message, classes fixed-point, float, string, reference, opaque, compound (properties given
   as bytes).  proj_datatype spells out what the decoder returns: version 1 and the generated property
   bytes for numeric types; one property byte 0 for strings; the zero-padded tag and its padded length
   as class bit field for opaque; the value itself for compound. *)
Theorem C11_datatype_roundtrip : forall x, wf_datatype x = true ->
  dec_datatype (enc_datatype x) = Ok (proj_datatype x).
Proof. exact datatype_roundtrip. Qed.
Print Assumptions C11_datatype_roundtrip.

Theorem C11_datatype_len : forall x, wf_datatype x = true -> blen (enc_datatype x) = size_datatype x.
Proof. exact datatype_blen. Qed.
Print Assumptions C11_datatype_len.

(* variable-length datatypes (header layout written since /repo 71914eb; version comes back as 1) *)
Theorem C11_vlen_roundtrip : forall x, wf_vlen x = true ->
  dec_datatype (enc_datatype x) = Ok (proj_vlen x).
Proof. exact vlen_roundtrip. Qed.
Print Assumptions C11_vlen_roundtrip.

(* D10, the defect this check found on the earlier tree: with the old header layout (class and version
   nibbles swapped, type flags at bytes 8-11) the decoder does not return the encoded class / flags / base type *)
Theorem C11_vlen_refuted :
  exists x, dt_class x = DT_VLEN /\ encok_datatype x = true /\
            match dec_datatype (enc_datatype_gen false x) with
            | Ok y => transported x y = false
            | _ => True
            end.
Proof. exact vlen_refuted. Qed.
Print Assumptions C11_vlen_refuted.

(* attribute message, version 3 (little-endian size fields, as the writer produces them) *)
Theorem C11_attribute_roundtrip : forall x, wf_attribute x = true ->
  dec_attribute false (enc_attribute x) = Ok (proj_attribute x).
Proof. exact attribute_roundtrip. Qed.
Print Assumptions C11_attribute_roundtrip.

(* ... for both variants of the version 2 padding switch of the reader (Model/CodecAttr.v attribute_v2_unpadded: the code
   before / after notes/fixes/c06-attribute-v2-padding.patch; dec_attribute is the repaired variant) *)
Theorem C11_attribute_roundtrip_both_variants : forall rep x, wf_attribute x = true ->
  dec_attribute_gen rep false (enc_attribute x) = Ok (proj_attribute x).
Proof. exact attribute_roundtrip_gen. Qed.
Print Assumptions C11_attribute_roundtrip_both_variants.

Theorem C11_attribute_len : forall x, wf_attribute x = true -> blen (enc_attribute x) = size_attribute x.
Proof. exact attribute_blen. Qed.
Print Assumptions C11_attribute_len.

(* superblock versions 0, 2, 3 (8-byte offsets/lengths: the only sizes the writers accept).
   proj_superblock: v0 base address comes back 0; v2/v3 SuperExtension 0 comes back UNDEF; the end-of-file
   address and (v2/v3) the checksum are written but never read. *)
Theorem C11_superblock_roundtrip : forall x, wf_superblock x = true ->
  dec_superblock (enc_superblock x) = Ok (proj_superblock x).
Proof. exact superblock_roundtrip. Qed.
Print Assumptions C11_superblock_roundtrip.

(* ... for both variants of the superblock sizes switch of the reader (Model/CodecSuper.v superblock_sizes_repaired: the code
   before / after notes/fixes/c06-superblock-sizes.patch; dec_superblock is the repaired variant) *)
Theorem C11_superblock_roundtrip_both_variants : forall rep x, wf_superblock x = true ->
  dec_superblock_gen rep (enc_superblock x) = Ok (proj_superblock x).
Proof. exact superblock_roundtrip_gen. Qed.
Print Assumptions C11_superblock_roundtrip_both_variants.

Theorem C11_superblock_len : forall x, blen (enc_superblock x) = size_superblock x.
Proof. exact superblock_blen. Qed.
Print Assumptions C11_superblock_len.

(* object header version 2 inside a file image: prefix, message list, sizes.  The reader stops at
   chunk end - 4 (it expects a checksum the writer does not write) and fetches 6 bytes per message header,
   so at least one byte must follow the header in the file (C11_ohdr_v2_eof_quirk); messages with
   empty data are skipped by the reader and are excluded by wf_ohdr_v2. *)
Theorem C11_ohdr_v2_roundtrip : forall x (pre suf : list N) sbBE,
  wf_ohdr_v2 x = true -> 1 <= blen suf ->
  blen pre + size_ohdr_v2 x + 8 < 9223372036854775808 ->
  dec_ohdr sbBE (pre ++ enc_ohdr_v2 x ++ suf) (blen pre) = Ok (proj_ohdr_v2 sbBE x (blen pre)).
Proof. exact ohdr_v2_roundtrip. Qed.
Print Assumptions C11_ohdr_v2_roundtrip.

Theorem C11_ohdr_v2_len : forall x, blen (enc_ohdr_v2 x) = size_ohdr_v2 x.
Proof. exact ohdr_v2_blen. Qed.
Print Assumptions C11_ohdr_v2_len.

Theorem C11_ohdr_v2_eof_quirk :
  exists x, wf_ohdr_v2 x = true /\ dec_ohdr false (enc_ohdr_v2 x) 0 = Err.
Proof. exact ohdr_v2_eof_quirk. Qed.
Print Assumptions C11_ohdr_v2_eof_quirk.

(* object header version 1 (size field = message bytes, as written since /repo bd70d6d) *)
Theorem C11_ohdr_v1_roundtrip : forall x (pre suf : list N),
  wf_ohdr_v1 x = true ->
  blen pre + size_ohdr_v1 x + 16 < 9223372036854775808 ->
  dec_ohdr false (pre ++ enc_ohdr_v1 x ++ suf) (blen pre) = Ok (proj_ohdr_v1 x (blen pre)).
Proof. exact ohdr_v1_roundtrip. Qed.
Print Assumptions C11_ohdr_v1_roundtrip.

Theorem C11_ohdr_v1_len : forall x, blen (enc_ohdr_v1 x) = size_ohdr_v1 x.
Proof. exact (ohdr_v1_blen true). Qed.
Print Assumptions C11_ohdr_v1_len.

(* the defect this check found on the earlier tree: with the size field 16 + 8*n messages are lost *)
Theorem C11_ohdr_v1_refuted :
  exists x, oh_version x = 1 /\
    dec_ohdr false (enc_ohdr_v1_gen false x ++ [0]) 0 <> Ok (proj_ohdr_v1 x 0).
Proof. exact ohdr_v1_refuted. Qed.
Print Assumptions C11_ohdr_v1_refuted.

(* link message (hard / soft / external; every combination of the optional fields and name-length widths).
   proj_link: for a soft link the decoder returns the path without the 2-byte length that the encoder
   expects inside LinkValue (C11_link_soft_reencode_refuted: re-encoding a parsed soft link gives other bytes) *)
Theorem C11_link_roundtrip : forall os x, wf_link os x = true ->
  dec_link os (enc_link x) = Ok (proj_link x).
Proof. exact link_roundtrip. Qed.
Print Assumptions C11_link_roundtrip.

Theorem C11_link_len : forall x, lk_version x = 1 -> blen (enc_link x) = size_link x.
Proof. exact link_blen. Qed.
Print Assumptions C11_link_len.

Theorem C11_link_soft_reencode_refuted :
  wf_link 8 soft_link_witness = true /\
  match dec_link 8 (enc_link soft_link_witness) with
  | Ok y => bytes_eqb (enc_link y) (enc_link soft_link_witness) = false /\
            bytes_eqb (lk_value y) (lk_value soft_link_witness) = false
  | _ => False
  end.
Proof. exact link_soft_reencode_refuted. Qed.
Print Assumptions C11_link_soft_reencode_refuted.

(* link-info message: exact identity *)
Theorem C11_linkinfo_roundtrip : forall sb x, wf_linkinfo sb x = true ->
  dec_linkinfo sb (enc_linkinfo sb x) = Ok x.
Proof. exact linkinfo_roundtrip. Qed.
Print Assumptions C11_linkinfo_roundtrip.

Theorem C11_linkinfo_len : forall sb x, wf_linkinfo sb x = true -> blen (enc_linkinfo sb x) = size_linkinfo sb x.
Proof. exact linkinfo_blen. Qed.
Print Assumptions C11_linkinfo_len.

(* attribute-info message: exact identity for little-endian superblocks; for big-endian ones the encoder
   honours the byte order and the decoder (readAddress) does not *)
Theorem C11_attrinfo_roundtrip : forall sb x, wf_attrinfo sb x = true ->
  dec_attrinfo sb (enc_attrinfo sb x) = Ok x.
Proof. exact attrinfo_roundtrip. Qed.
Print Assumptions C11_attrinfo_roundtrip.

Theorem C11_attrinfo_len : forall sb x, wf_attrinfo sb x = true -> blen (enc_attrinfo sb x) = size_attrinfo sb x.
Proof. exact attrinfo_blen. Qed.
Print Assumptions C11_attrinfo_len.

Theorem C11_attrinfo_be_refuted :
  exists sb x, sb_bigendian sb = true /\ sb_ok sb = true /\
    dec_attrinfo sb (enc_attrinfo sb x) <> Ok x.
Proof. exact attrinfo_be_refuted. Qed.
Print Assumptions C11_attrinfo_be_refuted.

(* symbol-table message (8-byte offsets, little-endian: what the writer supports) *)
Theorem C11_symtab_roundtrip : forall x, wf_symtab x = true -> dec_symtab false (enc_symtab 8 x) = Ok x.
Proof. exact symtab_roundtrip. Qed.
Print Assumptions C11_symtab_roundtrip.

Theorem C11_symtab_len : forall x, blen (enc_symtab 8 x) = 16.
Proof. exact symtab_blen. Qed.
Print Assumptions C11_symtab_len.

(* array and enum datatype messages: the library's only decoder is ParseDatatypeMessage, which returns the
   properties raw; the round trip is "header fields + the exact property bytes the encoder laid out" *)
Theorem C11_array_roundtrip : forall x, wf_array x = true -> dec_datatype (enc_array x) = Ok (proj_array x).
Proof. exact array_roundtrip. Qed.
Print Assumptions C11_array_roundtrip.

Theorem C11_enum_roundtrip : forall x, wf_enum x = true -> dec_datatype (enc_enum x) = Ok (proj_enum x).
Proof. exact enum_roundtrip. Qed.
Print Assumptions C11_enum_roundtrip.

(* compound member lists: a member of a class whose extent the decoder cannot determine (string, reference,
   opaque, array, enum, variable-length) that is not the last member makes the list unparsable *)
Theorem C11_compound_member_extent_refuted :
  encok_compound compound_witness = true /\ dec_compound (enc_compound compound_witness) = Err.
Proof. exact compound_member_extent_refuted. Qed.
Print Assumptions C11_compound_member_extent_refuted.

(* ---- compound datatypes given as a LIST of members, members that are compounds themselves (a tree) ----
   Encoders: EncodeCompoundDatatypeV1 / V3 (cp_version selects; version 3 always writes 4-byte member
   offsets, whatever the compound size: that is what the Go code does).  A nested compound member is the
   DatatypeMessage of its own encoding (flat).  wf_ctype: at every level 1..65535 (v1) / 1..2^32-1 (v3)
   members, non-empty names without NUL (any length: the version-1 padding to the next multiple of 8 is
   part of the theorem), 32-bit offsets and sizes, header fields of member types in range, the four classes
   with a fixed property length (fixed-point, float, bitfield, time) carrying exactly that many property
   bytes, and every member but the LAST one self-delimiting (sd): fixed-point / float / bitfield / time, or a
   version-3 compound of self-delimiting members.  What sd excludes is the known finding
   C11-compound-member-extent (string, reference, opaque, array, enum, variable-length before the last
   member: C11_compound_member_extent_refuted) and its two consequences for nested compounds
   (C11_compound_v1_member_refuted, C11_compound_greedy_tail_refuted). *)
Theorem C11_compound_roundtrip : forall v s fs, wf_ctype (CComp v s fs) = true ->
  dec_compound (enc_compound (to_compound v s fs)) = Ok (proj_compound v s fs).
Proof. exact compound_tree_roundtrip. Qed.
Print Assumptions C11_compound_roundtrip.

Theorem C11_compound_encoder_accepts : forall v s fs, wf_ctype (CComp v s fs) = true ->
  encok_compound (to_compound v s fs) = true.
Proof. exact wf_ctype_encok. Qed.
Print Assumptions C11_compound_encoder_accepts.

(* nested compounds: ParseDatatypeMessage, then ParseCompoundType on the message and again on every member of
   class compound (what the dataset reader does) gives the whole tree back *)
Theorem C11_compound_nested_roundtrip : forall v s fs, wf_ctype (CComp v s fs) = true ->
  dec_compound_tree (enc_compound (to_compound v s fs)) = Ok (CComp v s fs).
Proof. exact compound_tree_deep_roundtrip'. Qed.
Print Assumptions C11_compound_nested_roundtrip.

(* a self-delimiting member type is parsed back exactly whatever bytes follow it (this is what lets it stand
   before other members) *)
Theorem C11_compound_member_self_delimiting : forall t fuel rest, sd t = true -> (depth t < fuel)%nat ->
  dec_dt fuel (member_hdr (flat t) ++ rest) = Ok (flat t).
Proof. exact sd_dec. Qed.
Print Assumptions C11_compound_member_self_delimiting.

(* hypotheses are satisfiable: 4 members with a nested compound in the middle and a string last (both
   versions; the 9-byte name exercises the version-1 padding), and a 3-level tree *)
Theorem C11_compound_examples_wf :
  wf_ctype (tree_example 3) = true /\ wf_ctype (tree_example 1) = true /\ wf_ctype deep_example = true.
Proof. exact tree_examples_wf. Qed.
Print Assumptions C11_compound_examples_wf.

(* same cause as C11_compound_member_extent_refuted: a version-1 compound member / a version-3 compound
   member ending in a string, followed by another member *)
Theorem C11_compound_v1_member_refuted :
  match v1_member_witness with
  | CComp v s fs => encok_compound (to_compound v s fs) = true /\ dec_compound (enc_compound (to_compound v s fs)) = Err
  | _ => False
  end.
Proof. exact compound_v1_member_refuted. Qed.
Print Assumptions C11_compound_v1_member_refuted.

Theorem C11_compound_greedy_tail_refuted :
  match greedy_tail_witness with
  | CComp v s fs => encok_compound (to_compound v s fs) = true /\ dec_compound (enc_compound (to_compound v s fs)) = Err
  | _ => False
  end.
Proof. exact compound_greedy_tail_refuted. Qed.
Print Assumptions C11_compound_greedy_tail_refuted.
