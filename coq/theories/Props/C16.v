(* C16 - a failing write call changes nothing (store-model part): what a failing call can have written.
   bp, ba: the error-path patches e5d916a (link pre-check) / 8199862 (attribute-info check) present or not;
   may_leave_bytes bp ba o = the calls whose failure can leave bytes behind in that configuration. *)
From HV Require Import Base.Prelude Model.Store Proofs.Store Proofs.StoreOps Proofs.StoreInv Proofs.StoreProps.
Local Open Scope N_scope.

(* on every error path the bytes written lie in extents allocated by the failing call itself (orphans, not
   reachable from any object), or - failed hard link only - inside the target's own object header *)
Theorem C16_failed_call_frame : forall bp ba sb h o,
  let s := reach bp ba sb h in let s' := fst (step s o) in
  is_session_op o = false -> op_fails s o -> ovf (st s') = false ->
  forall w, In w (wlog (st s')) ->
  exists e, In e (exts (st s')) /\ start e <= fst w /\ fst w + snd w <= ext_end e /\
            (fail_targets o (owner e) (kind_of e) = true \/ next (al (st s)) <= start e).
Proof. exact C16_failed_call_frame_l. Qed.
Print Assumptions C16_failed_call_frame.

(* all other failing calls neither allocate nor write *)
Theorem C16_failed_call_quiet : forall bp ba sb h o,
  let s := reach bp ba sb h in
  is_session_op o = false -> op_fails s o -> may_leave_bytes bp ba o = false ->
  st (fst (step s o)) = clear_log (st s) /\ objs (fst (step s o)) = objs s.
Proof. exact C16_failed_call_quiet_l. Qed.
Print Assumptions C16_failed_call_quiet.

(* a failed call leaves the writer's bookkeeping unchanged (hard links excepted, see below) *)
Theorem C16_failed_call_bookkeeping : forall bp ba sb h o,
  let s := reach bp ba sb h in
  is_session_op o = false -> op_fails s o -> (forall p nl dup t, o <> OpHardLink p nl dup t) ->
  objs (fst (step s o)) = objs s.
Proof. exact C16_failed_call_bookkeeping_l. Qed.
Print Assumptions C16_failed_call_bookkeeping.

(* the exception (without fix e5d916a, link pre-check): a hard link failing in linkToParent leaves
   its reference-count message in the target header *)
Theorem C16_hardlink_residue :
  let s := reach false false 2 hist_hl in let o := OpHardLink 0 1 true 1 in
  snd (step s o) = false /\
  option_map o_msgs (get_obj (objs s) 1) = Some [(M_DATATYPE, 12); (M_DATASPACE, 16); (M_LAYOUT, 18)] /\
  option_map o_msgs (get_obj (objs (fst (step s o))) 1)
    = Some [(M_DATATYPE, 12); (M_DATASPACE, 16); (M_LAYOUT, 18); (M_REFCOUNT, 4)] /\
  wlog (st (fst (step s o))) = [(2203, 73); (2203, 73)].
Proof. exact C16_hardlink_residue_l. Qed.
Print Assumptions C16_hardlink_residue.

(* a header with no room for the attribute info message: orphans without the early check, quiet with it *)
Theorem C16_transition_orphans :
  let o := OpAttrSet 1 None 42 true in
  (let s := reach false false 2 hist_r10 in
   snd (step s o) = false /\ List.length (exts (st (fst (step s o)))) = (List.length (exts (st s)) + 5)%nat /\
   fsize (st s) + 65536 < fsize (st (fst (step s o))) /\ objs (fst (step s o)) = objs s) /\
  (let s := reach true true 2 hist_r10 in
   snd (step s o) = false /\ st (fst (step s o)) = clear_log (st s) /\ objs (fst (step s o)) = objs s).
Proof. exact C16_transition_orphans_l. Qed.
Print Assumptions C16_transition_orphans.

(* with both patches only these failing calls can leave bytes: a contiguous creation whose header does not
   fit (data block allocated first), a chunked write meeting an empty chunk (fixed-size or variable-length
   elements), and CreateDenseGroup (no link pre-check on that path) *)
Theorem C16_patched_failing_calls : forall o,
  may_leave_bytes true true o = true ->
  (exists p nl dup ldt rank dsize, o = OpMkContig p nl dup ldt rank dsize) \/ (exists x sizes, o = OpWrite x sizes) \/
  (exists x lens sizes, o = OpWriteVL x lens sizes) \/ (exists p nl dup n fit, o = OpMkDense p nl dup n fit).
Proof. exact C16_patched_failing_calls_l. Qed.
Print Assumptions C16_patched_failing_calls.
