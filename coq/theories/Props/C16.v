(* C16 - a failing write call changes nothing (store-model part): what a failing call can have written. *)
From HV Require Import Base.Prelude Model.Store Proofs.Store Proofs.StoreOps Proofs.StoreInv Proofs.StoreProps.
Local Open Scope N_scope.

(* on every error path the bytes written lie in extents allocated by the failing call itself (orphans, not
   reachable from any object), or - failed hard link only - inside the target's own object header *)
Theorem C16_failed_call_frame : forall sb h o,
  let s := reach sb h in let s' := fst (step s o) in
  is_session_op o = false -> op_fails s o -> ovf (st s') = false ->
  forall w, In w (wlog (st s')) ->
  exists e, In e (exts (st s')) /\ start e <= fst w /\ fst w + snd w <= ext_end e /\
            (fail_targets o (owner e) (kind_of e) = true \/ next (al (st s)) <= start e).
Proof. exact C16_failed_call_frame_l. Qed.
Print Assumptions C16_failed_call_frame.

(* all other failing calls neither allocate nor write *)
Theorem C16_failed_call_quiet : forall sb h o,
  let s := reach sb h in
  is_session_op o = false -> op_fails s o -> may_leave_bytes o = false ->
  st (fst (step s o)) = clear_log (st s) /\ objs (fst (step s o)) = objs s.
Proof. exact C16_failed_call_quiet_l. Qed.
Print Assumptions C16_failed_call_quiet.

(* a failed call leaves the writer's bookkeeping unchanged (hard links excepted, see below) *)
Theorem C16_failed_call_bookkeeping : forall sb h o,
  let s := reach sb h in
  is_session_op o = false -> op_fails s o -> (forall p nl dup t, o <> OpHardLink p nl dup t) ->
  objs (fst (step s o)) = objs s.
Proof. exact C16_failed_call_bookkeeping_l. Qed.
Print Assumptions C16_failed_call_bookkeeping.

(* the exception: a hard link failing in linkToParent leaves its reference-count message in the target header *)
Theorem C16_hardlink_residue :
  let s := reach 2 hist_hl in let o := OpHardLink 0 1 true 1 in
  snd (step s o) = false /\
  option_map o_msgs (get_obj (objs s) 1) = Some [(M_DATATYPE, 12); (M_DATASPACE, 16); (M_LAYOUT, 18)] /\
  option_map o_msgs (get_obj (objs (fst (step s o))) 1)
    = Some [(M_DATATYPE, 12); (M_DATASPACE, 16); (M_LAYOUT, 18); (M_REFCOUNT, 4)] /\
  wlog (st (fst (step s o))) = [(2203, 73); (2203, 73)].
Proof. exact C16_hardlink_residue_l. Qed.
Print Assumptions C16_hardlink_residue.
