From HV Require Import Base.Prelude.
Theorem C16_placeholder : True. Proof. exact I. Qed.
Print Assumptions C16_placeholder.
