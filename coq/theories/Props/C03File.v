(* C03, end to end at byte level for the NAMESPACE - what is proved so far.
   Model/TreeImage.v: tree_image h = the byte image of  CreateForWrite; <h>; Close  for histories h of CreateGroup /
   CreateDataset(+Write) / CreateHardLink calls, as a fold of a byte-level step function over the file (allocate = append; a
   creation appends its blocks and rewrites the parent's heap segment and symbol table node in place through
   GroupWire.link_heap / link_snod; a hard link also rewrites the target's header with the RefCount message), with the ok/err
   answer of every call.  Compared with the library BYTE FOR BYTE on every run, whole file and every answer
   (tools/props/c03file.py: generated histories up to 40 creations, depth 5, names filling the 256-byte heap, groups filled to 32
   entries, duplicate / missing-parent / missing-target / capacity refusals in between).

   Proved here (all closed):
     - the WRITER's in-place step on the file (C03_file_link_...): on every file that holds a group's heap and node anywhere, with
       arbitrary other bytes around and between them, linkToParent's two rewrites fail exactly when the abstract namespace model
       (Model/GroupNS.v add_string / add_entry, i.e. Props/C03.v) fails, otherwise the file holds the abstract model's new segment
       and the node with the entry appended at the same places and every other placed block of the file is still in place;
     - the READER's stages for groups placed anywhere (C03_file_local_heap_placed, C03_file_snod_placed): LoadLocalHeap's and
       ParseSymbolTableNode's I/O programs return the segment and the n <= 32 entries of any placed heap / well-formed node;
     - evaluated instances: the one-dataset history is the image of Props/C01File.v; on a nested history with refused calls and
       hard links hdf5.Open's loader program (p_open) run on tree_image returns exactly the tree built.

   NOT proved (the theorem  forall h, run0 (tree_image h) (p_open ..) = Ok (spec tree of h)  is not stated):
     (1) the B-tree node stage and the object header stages for symbolic addresses (the generalisations of
         Proofs/FileImageGroup.v btree_stage and Proofs/FileImageOpen.v object_stage / modern_stage; the header decoder for any
         placed version 2 header is C01_ohdr_program_roundtrip), and the loop of loadChildren over n entries with the loader state
         (visited B-trees, objects being loaded, load counter against fileSize/8+1024);
     (2) the invariant "the image is the concatenation of blocks that encode the abstract state" over whole histories: the
         append steps and the bookkeeping that the parent's blocks found through fw.groups are the ones placed (C03_file_link_...
         is the in-place half of each step);
     (3) the induction over the loader's fuel / tree depth and the composition with Props/C03.v C03_refines through the map
         call index -> file address. *)
From HV Require Import Base.Prelude Base.Outcome Base.Bytes Model.IOProg Model.IOProgReader Model.IOProgOpen.
From HV Require Import Model.RobustAlloc Model.RobustGroup Model.CodecType Model.GroupWire Model.FileImage Model.TreeImage.
From HV Require Import Proofs.GroupWireHeap Proofs.GroupWireSnod Proofs.FileImage Proofs.FileImageData.
From HV Require Import Proofs.TreeImageLink Proofs.TreeImageRead Proofs.TreeImageExamples.
From HV Require Model.GroupNS.

(* once prepareLink has accepted the call, the model's linkToParent is the heap rewrite followed by the node rewrite *)
Theorem C03_file_link_is_two_rewrites : forall st parent nm child ha sa,
  prepare_link st parent nm child = Ok (ha, sa) ->
  link_to_parent st parent nm child = link_both (t_file st) ha sa nm child.
Proof. exact link_to_parent_eq. Qed.
Print Assumptions C03_file_link_is_two_rewrites.

(* group_file pre mid suf seg s = pre ++ heap header ++ seg ++ mid ++ node s ++ suf  for ARBITRARY pre, mid, suf: the composed
   rewrite fails exactly when the abstract model's add_string fails (nothing written) or its add_entry fails (32 entries),
   otherwise the result is the same file with the abstract model's new segment (same length) and the node with the new entry *)
Theorem C03_file_link_commutes : forall (pre mid suf seg : list N) s nm child,
  snode_ok s = true -> (length (stn_entries s) <= 32)%nat -> child < 18446744073709551616 ->
  blen pre + 32 + blen seg + blen mid + 8 + 40 * 32 <= MaxInt64 ->
  let sa := blen pre + 32 + blen seg + blen mid in
  match NS.add_string (NS.prepare_for_modification seg) nm with
  | None => link_both (group_file pre mid suf seg s) (blen pre) sa nm child = Err
  | Some (off, h1) =>
      let seg' := snd (NS.write_to h1) in
      blen seg' = blen seg /\
      match NS.add_entry (NS.parse_snod 32 (map abs_sym (stn_entries s))) {| NS.e_off := off; NS.e_obj := child |} with
      | None => link_both (group_file pre mid suf seg s) (blen pre) sa nm child = Err /\ length (stn_entries s) = 32%nat
      | Some n1 =>
          exists s1, snode_ok s1 = true /\ stn_entries s1 = stn_entries s ++ [new_sym off child] /\ abs_snode s1 = n1 /\
            link_both (group_file pre mid suf seg s) (blen pre) sa nm child = Ok (group_file pre mid suf seg' s1)
      end
  end.
Proof. exact link_both_commutes. Qed.
Print Assumptions C03_file_link_commutes.

(* every block placed before the heap, between heap and node, or behind the node is in place before and after the rewrite *)
Theorem C03_file_link_rest_untouched : forall (pre mid suf seg seg' : list N) s s1 a b,
  blen seg' = blen seg ->
  (placed pre a b -> placed (group_file pre mid suf seg' s1) a b) /\
  (placed mid a b -> placed (group_file pre mid suf seg s) (blen pre + 32 + blen seg + a) b /\
                     placed (group_file pre mid suf seg' s1) (blen pre + 32 + blen seg + a) b) /\
  (placed suf a b -> placed (group_file pre mid suf seg s) (blen pre + 32 + blen seg + blen mid + 1288 + a) b /\
                     placed (group_file pre mid suf seg' s1) (blen pre + 32 + blen seg + blen mid + 1288 + a) b).
Proof. exact group_file_others_kept. Qed.
Print Assumptions C03_file_link_rest_untouched.

(* reader: a local heap placed anywhere *)
Theorem C03_file_local_heap_placed : forall f a (seg : list N),
  placed f a (heap_header (blen seg) 1 (a + 32)) -> placed f (a + 32) seg ->
  0 < blen seg -> a + 32 + blen seg <= MAXI64 ->
  run0 f (p_local_heap SB' a) = Ok seg.
Proof. exact local_heap_placed. Qed.
Print Assumptions C03_file_local_heap_placed.

(* reader: a symbol table node of any n <= 32 entries placed anywhere *)
Theorem C03_file_snod_placed : forall f a s,
  placed f a (snod_bytes s 32) -> snode_ok s = true -> (length (stn_entries s) <= 32)%nat ->
  Forall (fun e => sy_cache e = 0) (stn_entries s) ->
  run0 f (p_snod SB' a) = Ok (map stentry_of (stn_entries s)).
Proof. exact snod_placed. Qed.
Print Assumptions C03_file_snod_placed.

(* the one-dataset history is the image of Props/C01File.v *)
Theorem C03_file_one_dataset_is_image_v2 :
  tree_oks [TDataset [47; 100] 4 [3] [1; 2; 3]] = [true] /\
  tree_image [TDataset [47; 100] 4 [3] [1; 2; 3]] = image_v2 [100] DT_FIXED 1 0 [3] [1; 2; 3].
Proof. exact one_dataset_is_image_v2. Qed.
Print Assumptions C03_file_one_dataset_is_image_v2.

(* an evaluated instance of the end-to-end statement: /g, /g/d, /g/d again (refused), /x -> /g/d, /g/h, /g/h/y -> /x,
   /q/r (refused), /z -> /nothing (refused): Open on the image returns the tree built; the three names of the dataset share
   its address *)
Theorem C03_file_tree_example :
  forallb op_args_ok ex_hist = true /\
  tree_oks ex_hist = [true; true; false; true; true; true; false; false] /\
  blen (tree_image ex_hist) = 7224 /\
  run0 (tree_image ex_hist) (p_open true (blen (tree_image ex_hist)) 12 8) =
    Ok (Grp [47] 2168 [Grp [103] 4315 [Dset [100] 4580; Grp [104] 6962 [Dset [121] 4580]]; Dset [120] 4580]).
Proof. exact tree_example. Qed.
Print Assumptions C03_file_tree_example.

(* the hypotheses of C03_file_link_commutes / _is_two_rewrites are satisfiable: the root group of a fresh file *)
Theorem C03_file_link_witness :
  init_file = group_file (firstn 48 init_file) [] (skipn 1624 init_file) (zeros 256) (new_snode 32) /\
  snode_ok (new_snode 32) = true /\
  prepare_link t_init [] [100] 2195 = Ok (48, 336) /\
  link_to_parent t_init [] [100] 2195 = link_both init_file 48 336 [100] 2195.
Proof. exact link_example. Qed.
Print Assumptions C03_file_link_witness.
