(* C03, end to end at byte level for the NAMESPACE - what is proved so far.
   Model/TreeImage.v: tree_image h = the byte image of  CreateForWrite; <h>; Close  for histories h of CreateGroup /
   CreateDataset(+Write) / CreateHardLink calls, as a fold of a byte-level step function over the file (allocate = append; a
   creation appends its blocks and rewrites the parent's heap segment and symbol table node in place through
   GroupWire.link_heap / link_snod; a hard link also rewrites the target's header with the RefCount message), with the ok/err
   answer of every call.  Compared with the library BYTE FOR BYTE on every run, whole file and every answer
   (tools/props/c03file.py: generated histories up to 40 creations, depth 5, names filling the 256-byte heap, groups filled to 32
   entries, duplicate / missing-parent / missing-target / capacity refusals in between).

   Proved here (all closed):
     - the WRITER's in-place step on the file (C03_file_link_...): on every file that holds a group's heap and node anywhere, with
       arbitrary other bytes around and between them, linkToParent's two rewrites fail exactly when the abstract namespace model
       (Model/GroupNS.v add_string / add_entry, i.e. Props/C03.v) fails, otherwise the file holds the abstract model's new segment
       and the node with the entry appended at the same places and every other placed block of the file is still in place;
     - the READER's stages for groups placed anywhere (C03_file_local_heap_placed, C03_file_snod_placed): LoadLocalHeap's and
       ParseSymbolTableNode's I/O programs return the segment and the n <= 32 entries of any placed heap / well-formed node;
     - evaluated instances: the one-dataset history is the image of Props/C01File.v; on a nested history with refused calls and
       hard links hdf5.Open's loader program (p_open) run on tree_image returns exactly the tree built.

   Second round (all closed, universal):
     - READER, depth 1 (C03_file_open_depth1): for EVERY closed file (superblock + anything) in which a root group's four blocks
       (heap, node with n <= 32 entries, B-tree node, header) are placed and every entry's object address holds a placed
       version 2 header of a dataset (any header without attribute messages that determineObjectType calls a dataset) or of an
       empty symbol-table group with its own placed blocks, hdf5.Open's program returns the root with exactly those n children
       in entry order, names from the heap, kinds from the headers.  Its parts hold at symbolic addresses and are exported
       (C03_file_superblock_any, C03_file_with_header_placed, C03_file_group_btree_placed, C03_file_children_placed,
       C03_file_modern_placed, C03_file_object_child, C03_file_children_loop_depth1 with the loader state threaded: visited
       B-trees, loading set, load counter against the budget).
     - WRITER, whole steps (C03_file_placed_init, C03_file_alloc_group_appends, C03_file_alloc_dataset_appends,
       C03_file_append_keeps_placed, C03_file_link_on_image, C03_file_step_group_preserves_placed,
       C03_file_step_dataset_preserves_placed): Placed st = the file is the superblock followed by the items created so far
       (group = heap | node | B-tree | header block, dataset = data | header block), every group's segment and node well-formed,
       the root and every fw.groups entry name a group item.  CreateForWrite establishes it; CreateGroup and CreateDataset
       preserve it in every branch, refused calls included.

   Third round (all closed, universal):
     - C03_file_tree_depth1_partial: for EVERY flat history h (Model/TreeFlat.v flat_hist: each call either leaves the writer's
       state exactly as it was - any refusal: duplicate, missing parent, missing target, capacity, malformed path, any hard
       link that is refused - or is a CreateGroup / CreateDataset with the root as parent, covered arguments, file below 2^62)
       with at least one successful creation, hdf5.Open's program on tree_image h returns the root with exactly
       flat_nodes h: one child per SUCCESSFUL call, in call order, named by the link name the call parsed, a group or a dataset
       as the call said, at the header address the allocator gave it.  It composes
         C03_file_flat_init / C03_file_flat_group_step / C03_file_flat_dataset_step / C03_file_flat_run  (the CONTENT invariant
         FlatInv - root segment and node agree with a name list by Proofs/GroupNSHeap.v gwf, every item is an empty group as
         written or a dataset with a header the reader accepts, entry i = (offset of name i, header address of an item), child
         B-trees distinct - is established by CreateForWrite and preserved by every flat step; C03_file_link_root is
         linkToParent into the root: C03_file_link_commutes + GroupNS's heap_link) with
         C03_file_flat_open  (an instance of C03_file_open_depth1; C03_file_tree_depth1_example shows all hypotheses are
         satisfiable on a history with three refused calls).
     - C03_file_tree_empty: the file without any creation, evaluated.
     - Model/TreeFlat.v C03_file_tree_full : Prop is the statement for arbitrary depth (NOT proved).

   Fourth round (closed, universal): C03_file_tree_depth1.  For EVERY history h whose calls are CreateGroup / CreateDataset with a
   path "/" name in the specification's syntax (Model/TreeFlat.v d1_op: one component, non-empty, no NUL, no '/'; dataset
   arguments covered) - accepted or REFUSED (duplicate name, heap full, node full) - with the file below 2^62 and at least one
   successful creation:
     (1) tree_oks h = the specification's per-call answers (map is_ok of Model/GroupNS.v spec_step under go_cfg);
     (2) the specification's tree exists, spec_tree = Some tr, and for an address map addr (pinned by
         node_of_tree addr "/" tr = Grp "/" 2168 (flat_nodes t_init h): the root at 2168, every child at the header address the
         model's allocator gave the creating call)
         run0 (tree_image h) (p_open ..) = Ok (node_of_tree addr "/" tr).
   Its parts: C03_file_prepare_root_decision (checkLinkable on the bytes of a root whose segment/node agree with a name list
   answers Ok exactly by d1_accept: name not in the list, used + len + 1 <= 256, fewer than 32 entries), C03_file_link_root_total
   (then linkToParent succeeds: the allocated-but-unlinked branch is unreachable), C03_file_group_answer / _dataset_answer,
   C03_file_spec_create (the specification accepts by the same d1_accept and appends the child), C03_file_spec_tree_of,
   C03_file_d1_run (joint induction: FlatInv and the specification's state SpecInv advance together).
   NOT in the class (so still open for depth 1): calls the specification refuses for other reasons than duplicate / capacity
   (missing parent, missing hard-link target, malformed path) in between - the model side has them as
   C03_file_..._refused_unchanged, what is missing is "specification refuses => prepare_link / resolve_addr fail", which needs the
   key set of fw.groups in the invariant; and successful hard links.

   What separates C03_file_tree_depth1_partial from "the specification tree of h":
     (i)   which calls succeed is tree_oks h - the decision of the byte-level model (compared with the library on every run), not
           yet proved equal to the specification's decision (first conjunct of Props/C03.v C03_refines).  Under FlatInv the
           model's three refusals are already characterised: duplicate iff the name is in the name list (dup_check_iff), heap
           full iff 256 < used + len + 1 (heap_link), node full iff 32 entries (C03_file_link_commutes): exactly s_link's rule;
           missing is the bookkeeping that the invariant's name list is the key list of the specification's root.
     (ii)  successful hard links are outside flat histories: FlatInv has no step lemma for the header rewrite with the RefCount
           message (it needs the pure decoder's round trip on the dataset header and that the rewritten header still satisfies
           dset_hdr_ok); C03_file_open_depth1 itself already accepts several entries with one dataset address.
     (iii) the children's addresses are stated through the model's allocator (end of file at the call), not through an
           independent address assignment.
     (iv)  depth > 1 (see below) and the hypothesis 2197 <= file length (the root header lemma wants two bytes behind the header).

   NOT proved:
     (1) C03_file_tree_full.  Missing lemmas: (a) a children loop whose children are arbitrary trees: generalise
         C03_file_children_loop_depth1 by induction on the loader fuel, with C03_file_object_child's state equations (visited
         B-trees grow by the subtree's B-trees, loading restored, counter + size of the subtree) as induction hypothesis;
         C03_file_modern_placed / C03_file_children_placed are already generic in the recursive call; (b) FlatInv for
         arbitrary parents: the invariant of the root (gwf + entries) for EVERY group item, indexed through fw.groups
         (C03_file_step_..._preserves_placed has the layout half); (c) the hard-link step of (ii); (d) the simulation
         FlatInv ~ Model/GroupNS.v state (call index <-> header address) that imports C03_refines.
     (2) Placed for CreateHardLink's successful branch (layout level): needs the clause "every entry's object address is the
         header address of an item".
   *)
From HV Require Import Base.Prelude Base.Outcome Base.Bytes Model.IOProg Model.IOProgReader Model.IOProgOpen.
From HV Require Import Model.RobustAlloc Model.RobustGroup Model.CodecType Model.GroupWire Model.FileImage Model.TreeImage.
From HV Require Import Proofs.GroupWireHeap Proofs.GroupWireSnod Proofs.FileImage Proofs.FileImageData.
From HV Require Import Proofs.FileImageOhdr Model.CodecOhdr Model.CodecSuper.
From HV Require Import Proofs.TreeImageLink Proofs.TreeImageRead Proofs.TreeImageExamples Proofs.TreeImageHdr Proofs.TreeImageOpen
  Proofs.TreeImagePlaced Proofs.TreeImageStep Proofs.TreeImageFlat Proofs.TreeImageFlatStep Proofs.TreeImageFlatRead Proofs.TreeImageFlatMain Proofs.TreeImageDecide Proofs.TreeImageSpecSide Proofs.TreeImageD1.
From HV Require Import Model.TreeFlat.
From HV Require Proofs.GroupNSHeap.
From HV Require Model.GroupNS.

(* once prepareLink has accepted the call, the model's linkToParent is the heap rewrite followed by the node rewrite *)
Theorem C03_file_link_is_two_rewrites : forall st parent nm child ha sa,
  prepare_link st parent nm child = Ok (ha, sa) ->
  link_to_parent st parent nm child = link_both (t_file st) ha sa nm child.
Proof. exact link_to_parent_eq. Qed.
Print Assumptions C03_file_link_is_two_rewrites.

(* group_file pre mid suf seg s = pre ++ heap header ++ seg ++ mid ++ node s ++ suf  for ARBITRARY pre, mid, suf: the composed
   rewrite fails exactly when the abstract model's add_string fails (nothing written) or its add_entry fails (32 entries),
   otherwise the result is the same file with the abstract model's new segment (same length) and the node with the new entry *)
Theorem C03_file_link_commutes : forall (pre mid suf seg : list N) s nm child,
  snode_ok s = true -> (length (stn_entries s) <= 32)%nat -> child < 18446744073709551616 ->
  blen pre + 32 + blen seg + blen mid + 8 + 40 * 32 <= MaxInt64 ->
  let sa := blen pre + 32 + blen seg + blen mid in
  match NS.add_string (NS.prepare_for_modification seg) nm with
  | None => link_both (group_file pre mid suf seg s) (blen pre) sa nm child = Err
  | Some (off, h1) =>
      let seg' := snd (NS.write_to h1) in
      blen seg' = blen seg /\
      match NS.add_entry (NS.parse_snod 32 (map abs_sym (stn_entries s))) {| NS.e_off := off; NS.e_obj := child |} with
      | None => link_both (group_file pre mid suf seg s) (blen pre) sa nm child = Err /\ length (stn_entries s) = 32%nat
      | Some n1 =>
          exists s1, snode_ok s1 = true /\ stn_entries s1 = stn_entries s ++ [new_sym off child] /\ abs_snode s1 = n1 /\
            link_both (group_file pre mid suf seg s) (blen pre) sa nm child = Ok (group_file pre mid suf seg' s1)
      end
  end.
Proof. exact link_both_commutes. Qed.
Print Assumptions C03_file_link_commutes.

(* every block placed before the heap, between heap and node, or behind the node is in place before and after the rewrite *)
Theorem C03_file_link_rest_untouched : forall (pre mid suf seg seg' : list N) s s1 a b,
  blen seg' = blen seg ->
  (placed pre a b -> placed (group_file pre mid suf seg' s1) a b) /\
  (placed mid a b -> placed (group_file pre mid suf seg s) (blen pre + 32 + blen seg + a) b /\
                     placed (group_file pre mid suf seg' s1) (blen pre + 32 + blen seg + a) b) /\
  (placed suf a b -> placed (group_file pre mid suf seg s) (blen pre + 32 + blen seg + blen mid + 1288 + a) b /\
                     placed (group_file pre mid suf seg' s1) (blen pre + 32 + blen seg + blen mid + 1288 + a) b).
Proof. exact group_file_others_kept. Qed.
Print Assumptions C03_file_link_rest_untouched.

(* reader: a local heap placed anywhere *)
Theorem C03_file_local_heap_placed : forall f a (seg : list N),
  placed f a (heap_header (blen seg) 1 (a + 32)) -> placed f (a + 32) seg ->
  0 < blen seg -> a + 32 + blen seg <= MAXI64 ->
  run0 f (p_local_heap SB' a) = Ok seg.
Proof. exact local_heap_placed. Qed.
Print Assumptions C03_file_local_heap_placed.

(* reader: a symbol table node of any n <= 32 entries placed anywhere *)
Theorem C03_file_snod_placed : forall f a s,
  placed f a (snod_bytes s 32) -> snode_ok s = true -> (length (stn_entries s) <= 32)%nat ->
  Forall (fun e => sy_cache e = 0) (stn_entries s) ->
  run0 f (p_snod SB' a) = Ok (map stentry_of (stn_entries s)).
Proof. exact snod_placed. Qed.
Print Assumptions C03_file_snod_placed.

(* the one-dataset history is the image of Props/C01File.v *)
Theorem C03_file_one_dataset_is_image_v2 :
  tree_oks [TDataset [47; 100] 4 [3] [1; 2; 3]] = [true] /\
  tree_image [TDataset [47; 100] 4 [3] [1; 2; 3]] = image_v2 [100] DT_FIXED 1 0 [3] [1; 2; 3].
Proof. exact one_dataset_is_image_v2. Qed.
Print Assumptions C03_file_one_dataset_is_image_v2.

(* an evaluated instance of the end-to-end statement: /g, /g/d, /g/d again (refused), /x -> /g/d, /g/h, /g/h/y -> /x,
   /q/r (refused), /z -> /nothing (refused): Open on the image returns the tree built; the three names of the dataset share
   its address *)
Theorem C03_file_tree_example :
  forallb op_args_ok ex_hist = true /\
  tree_oks ex_hist = [true; true; false; true; true; true; false; false] /\
  blen (tree_image ex_hist) = 7224 /\
  run0 (tree_image ex_hist) (p_open true (blen (tree_image ex_hist)) 12 8) =
    Ok (Grp [47] 2168 [Grp [103] 4315 [Dset [100] 4580; Grp [104] 6962 [Dset [121] 4580]]; Dset [120] 4580]).
Proof. exact tree_example. Qed.
Print Assumptions C03_file_tree_example.

(* the hypotheses of C03_file_link_commutes / _is_two_rewrites are satisfiable: the root group of a fresh file *)
Theorem C03_file_link_witness :
  init_file = group_file (firstn 48 init_file) [] (skipn 1624 init_file) (zeros 256) (new_snode 32) /\
  snode_ok (new_snode 32) = true /\
  prepare_link t_init [] [100] 2195 = Ok (48, 336) /\
  link_to_parent t_init [] [100] 2195 = link_both init_file 48 336 [100] 2195.
Proof. exact link_example. Qed.
Print Assumptions C03_file_link_witness.

(* ================================================================== second round: reader at symbolic addresses *)
Theorem C03_file_superblock_any : forall e (R : list N), e < 18446744073709551616 -> 80 <= blen R ->
  run0 (enc_superblock (sb_eof e) ++ R) p_superblock = Ok SB'.
Proof. exact superblock_any. Qed.
Print Assumptions C03_file_superblock_any.

Theorem C03_file_with_header_placed : forall f hfuel A a x (k : ohdr' -> prog A), HdrAt f hfuel a x -> no_attr (oh_msgs x) = true ->
  run0 f (with_header SB' hfuel a k) = run0 f (k (proj_ohdr_v2 false x a)).
Proof. exact with_header_placed. Qed.
Print Assumptions C03_file_with_header_placed.

Theorem C03_file_group_btree_placed : forall f ba sa s,
  placed f ba (bt_block sa) -> sa < 9223372036854775808 -> sa <> 0 ->
  placed f sa (snod_bytes s 32) -> snode_ok s = true -> (length (stn_entries s) <= 32)%nat ->
  Forall (fun e => sy_cache e = 0) (stn_entries s) ->
  run0 f (p_group_btree SB' ba) = Ok (map stentry_of (stn_entries s)).
Proof. exact group_btree_placed. Qed.
Print Assumptions C03_file_group_btree_placed.

Theorem C03_file_children_placed : forall f hfuel rec a seg s st, GroupAt f hfuel a seg s -> mem (a + 1576) (vbt st) = false ->
  run0 f (p_children true SB' rec (a + 1576) a st) =
  run0 f (children_loop true SB' rec seg (map stentry_of (stn_entries s)) (with_vbt st (a + 1576))).
Proof. exact children_placed. Qed.
Print Assumptions C03_file_children_placed.

Theorem C03_file_modern_placed : forall f hfuel rec a seg s st, GroupAt f hfuel a seg s -> mem (a + 1576) (vbt st) = false ->
  run0 f (p_modern true SB' hfuel rec (a + 2120) st) =
  match run0 f (children_loop true SB' rec seg (map stentry_of (stn_entries s)) (with_vbt st (a + 1576))) with
  | Ok x => Ok (Grp [] (a + 2120) (fst x), snd x) | Err => Err | Panic => Panic end.
Proof. exact modern_placed. Qed.
Print Assumptions C03_file_modern_placed.

(* loadObject on a child that is a dataset or an empty group, any loader state that admits it *)
Theorem C03_file_object_child : forall f B hfuel n a nm c st, ChildAt f hfuel a c ->
  mem a (loading st) = false -> lenN' (loading st) < 1024 -> cnt st + 1 <= B ->
  Forall (fun b => mem b (vbt st) = false) (child_bt a c) ->
  run0 f (p_object true SB' B hfuel (p_load true SB' B hfuel (S (S n))) a nm st) = Ok (child_node nm a c, child_st st a c).
Proof. exact object_child. Qed.
Print Assumptions C03_file_object_child.

(* the loop of loadChildren over n entries, loader state threaded *)
Theorem C03_file_children_loop_depth1 : forall f B hfuel n (seg : list N) es cs st,
  Forall2 (fun e nc => heap_string seg (sy_name e) = Ok (fst nc) /\ ChildAt f hfuel (sy_obj e) (snd nc)) es cs ->
  Forall (fun e => mem (sy_obj e) (loading st) = false) es -> lenN' (loading st) < 1024 ->
  cnt st + N.of_nat (length es) <= B ->
  NoDup (loop_bts es cs) -> Forall (fun b => mem b (vbt st) = false) (loop_bts es cs) ->
  run0 f (children_loop true SB' (p_load true SB' B hfuel (S (S (S n)))) seg (map stentry_of es) st)
  = Ok (loop_nodes es cs, loop_st st es cs).
Proof. exact children_loop_depth1. Qed.
Print Assumptions C03_file_children_loop_depth1.

(* hdf5.Open on any closed file whose root group has n <= 32 children, each a dataset or an empty group *)
Theorem C03_file_open_depth1 : forall e (R : list N) hfuel n seg s cs,
  let f := enc_superblock (sb_eof e) ++ R in
  e < 18446744073709551616 -> 80 <= blen R ->
  GroupAt f hfuel 48 seg s ->
  Forall2 (fun e nc => heap_string seg (sy_name e) = Ok (fst nc) /\ ChildAt f hfuel (sy_obj e) (snd nc)) (stn_entries s) cs ->
  NoDup (1624 :: loop_bts (stn_entries s) cs) ->
  run0 f (p_open true (blen f) (S (S (S (S (S n))))) hfuel) = Ok (Grp [47] 2168 (loop_nodes (stn_entries s) cs)).
Proof. exact open_depth1. Qed.
Print Assumptions C03_file_open_depth1.

(* ================================================================== second round: the writer's whole steps *)
Theorem C03_file_placed_init : Placed t_init.
Proof. exact placed_init. Qed.
Print Assumptions C03_file_placed_init.

Theorem C03_file_alloc_group_appends : forall lay, Forall item_ok lay -> 48 + lsize lay + 3000 < LIM ->
  let ha := 48 + lsize lay in
  alloc_group (image lay) = (image (lay ++ [new_group_item ha]), ha, ha + 288, ha + 1576, ha + 2120).
Proof. exact alloc_group_image. Qed.
Print Assumptions C03_file_alloc_group_appends.

Theorem C03_file_alloc_dataset_appends : forall lay code dims data, Forall item_ok lay ->
  let da := 48 + lsize lay in
  alloc_dataset (image lay) code dims data = (image (lay ++ [new_dset_item code dims data da]), da + blen data).
Proof. exact alloc_dataset_image. Qed.
Print Assumptions C03_file_alloc_dataset_appends.

Theorem C03_file_append_keeps_placed : forall lay it a b, placed (image lay) a b -> placed (image (lay ++ [it])) a b.
Proof. exact append_keeps_placed. Qed.
Print Assumptions C03_file_append_keeps_placed.

Theorem C03_file_item_placed : forall l1 it l2, Forall item_ok l1 ->
  placed (image (l1 ++ it :: l2)) (48 + lsize l1) (item_bytes (48 + lsize l1) it).
Proof. exact item_placed. Qed.
Print Assumptions C03_file_item_placed.

(* linkToParent's two rewrites on the image: one group item gets a new segment and node, everything else is the same list *)
Theorem C03_file_link_on_image : forall l1 seg s hb l2 nm child f2,
  Forall item_ok (l1 ++ IGroup seg s hb :: l2) -> 48 + lsize (l1 ++ IGroup seg s hb :: l2) < LIM -> child < 18446744073709551616 ->
  link_both (image (l1 ++ IGroup seg s hb :: l2)) (48 + lsize l1) (48 + lsize l1 + 288) nm child = Ok f2 ->
  exists seg' s1, item_ok (IGroup seg' s1 hb) /\ f2 = image (l1 ++ IGroup seg' s1 hb :: l2).
Proof. exact link_image. Qed.
Print Assumptions C03_file_link_on_image.

Theorem C03_file_step_group_preserves_placed : forall st p, Placed st -> blen (t_file st) + 3000 < LIM ->
  Placed (fst (t_step st (TGroup p))).
Proof. exact step_group_preserves. Qed.
Print Assumptions C03_file_step_group_preserves_placed.

Theorem C03_file_step_dataset_preserves_placed : forall st p code dims data, Placed st ->
  blen (fst (alloc_dataset (t_file st) code dims data)) < LIM -> Placed (fst (t_step st (TDataset p code dims data))).
Proof. exact step_dataset_preserves. Qed.
Print Assumptions C03_file_step_dataset_preserves_placed.

Theorem C03_file_close_image : forall lay, Forall item_ok lay ->
  t_close (image lay) = enc_superblock (sb_eof (48 + lsize lay)) ++ layout 48 lay.
Proof. exact close_image. Qed.
Print Assumptions C03_file_close_image.

(* ================================================================== third round: depth-1 histories *)
Theorem C03_file_flat_init : FlatInv t_init [].
Proof. exact flat_init. Qed.
Print Assumptions C03_file_flat_init.

(* linkToParent into the root of a flat image: the root's segment and node stay well-formed for the name list + the new name *)
Theorem C03_file_link_root : forall st seg s rest ns parent nm oa f2,
  t_file st = image (flat_lay seg s rest) -> blen seg = 256 -> snode_ok s = true -> (length (stn_entries s) <= 32)%nat ->
  GH.gwf seg (map abs_sym (stn_entries s)) ns -> oa < 18446744073709551616 ->
  NS.is_root_parent parent = true ->
  link_to_parent st parent nm oa = Ok f2 ->
  exists seg' s1 off, f2 = image (flat_lay seg' s1 rest) /\ blen seg' = 256 /\ snode_ok s1 = true /\
    stn_entries s1 = stn_entries s ++ [new_sym off oa] /\ (length (stn_entries s1) <= 32)%nat /\
    GH.gwf seg' (map abs_sym (stn_entries s1)) (ns ++ [nm]).
Proof. exact link_root. Qed.
Print Assumptions C03_file_link_root.

Theorem C03_file_flat_group_step : forall st nodes p, FlatInv st nodes ->
  NS.is_root_parent (fst (NS.parse_path (NS.trim_suffix_slash p))) = true -> blen (t_file st) + 3000 < LIM ->
  FlatInv (fst (t_create_group st p))
    (if snd (t_create_group st p)
     then nodes ++ [Grp (snd (NS.parse_path (NS.trim_suffix_slash p))) (blen (t_file st) + 2120) []] else nodes).
Proof. exact flat_group_step. Qed.
Print Assumptions C03_file_flat_group_step.

Theorem C03_file_flat_dataset_step : forall st nodes p code dims data, FlatInv st nodes ->
  NS.is_root_parent (fst (NS.parse_path p)) = true -> op_args_ok (TDataset p code dims data) = true ->
  blen (t_file st) + blen data + 3000 < LIM ->
  FlatInv (fst (t_create_dataset st p code dims data))
    (if snd (t_create_dataset st p code dims data)
     then nodes ++ [Dset (snd (NS.parse_path p)) (blen (t_file st) + blen data)] else nodes).
Proof. exact flat_dataset_step. Qed.
Print Assumptions C03_file_flat_dataset_step.

Theorem C03_file_flat_run : forall h st nodes, FlatInv st nodes -> flat_hist st h ->
  FlatInv (fst (t_run st h)) (nodes ++ flat_nodes st h).
Proof. exact flat_run. Qed.
Print Assumptions C03_file_flat_run.

Theorem C03_file_flat_open : forall hfuel, (4 < hfuel)%nat -> forall st nodes n,
  FlatInv st nodes -> 2197 <= blen (t_file st) -> blen (t_file st) + 4000 < LIM ->
  let f := t_close (t_file st) in
  run0 f (p_open true (blen f) (S (S (S (S (S n))))) hfuel) = Ok (Grp [47] 2168 nodes).
Proof. exact flat_open. Qed.
Print Assumptions C03_file_flat_open.

Theorem C03_file_tree_depth1_partial : forall h n hfuel, (4 < hfuel)%nat -> flat_hist t_init h ->
  2197 <= blen (t_file (fst (tree_run h))) -> blen (t_file (fst (tree_run h))) + 4000 < FLAT_LIM ->
  run0 (tree_image h) (p_open true (blen (tree_image h)) (S (S (S (S (S n))))) hfuel) = Ok (Grp [47] 2168 (flat_nodes t_init h)).
Proof. exact tree_depth1_partial. Qed.
Print Assumptions C03_file_tree_depth1_partial.

Theorem C03_file_tree_empty : run0 (tree_image []) (p_open true (blen (tree_image [])) 5 5) = Ok (Grp [47] 2168 []).
Proof. exact tree_empty. Qed.
Print Assumptions C03_file_tree_empty.

(* the hypotheses of C03_file_tree_depth1_partial (hence of C03_file_open_depth1, which it instantiates) are satisfiable:
   /g, /d, /d again (refused), /g/x/y (refused), hard link /l -> /n (refused) *)
Theorem C03_file_tree_depth1_example :
  flat_hist t_init flat_ex /\ 2197 <= blen (t_file (fst (tree_run flat_ex))) /\
  blen (t_file (fst (tree_run flat_ex))) + 4000 < FLAT_LIM /\
  tree_oks flat_ex = [true; true; false; false; false] /\
  flat_nodes t_init flat_ex = [Grp [103] 4315 []; Dset [100] 4580].
Proof. exact flat_ex_ok. Qed.
Print Assumptions C03_file_tree_depth1_example.

(* refused calls leave the state (file and fw.groups) exactly as it was: these discharge the first alternative of flat_step *)
Theorem C03_file_group_refused_unchanged : forall st p,
  (forall x, prepare_link st (fst (NS.parse_path (NS.trim_suffix_slash p))) (snd (NS.parse_path (NS.trim_suffix_slash p))) 0 <> Ok x) ->
  t_step st (TGroup p) = (st, false).
Proof. exact group_refused_unchanged. Qed.
Print Assumptions C03_file_group_refused_unchanged.

Theorem C03_file_dataset_refused_unchanged : forall st p code dims data,
  (forall x, prepare_link st (fst (NS.parse_path p)) (snd (NS.parse_path p)) 0 <> Ok x) ->
  t_step st (TDataset p code dims data) = (st, false).
Proof. exact dataset_refused_unchanged. Qed.
Print Assumptions C03_file_dataset_refused_unchanged.

Theorem C03_file_hardlink_refused_unchanged : forall st p q,
  (forall t, resolve_addr st q <> Ok t) \/
  (forall x, prepare_link st (fst (NS.parse_path p)) (snd (NS.parse_path p)) 0 <> Ok x) ->
  t_step st (THardLink p q) = (st, false).
Proof. exact hardlink_refused_unchanged. Qed.
Print Assumptions C03_file_hardlink_refused_unchanged.

(* ================================================================== fourth round: against the specification *)
(* checkLinkable on the bytes of the root: Ok exactly by the specification's rule on the name list *)
Theorem C03_file_prepare_root_decision : forall st (seg : list N) s rest (ns : list bytes),
  t_file st = image (flat_lay seg s rest) -> blen seg = 256 -> snode_ok s = true -> (length (stn_entries s) <= 32)%nat ->
  GH.gwf seg (map abs_sym (stn_entries s)) ns -> forall parent, NS.is_root_parent parent = true -> forall nm child,
  prepare_link st parent nm child = if NS.heap_name_ok nm && d1_accept ns nm then Ok (48, 336) else Err.
Proof. exact prepare_root_eq. Qed.
Print Assumptions C03_file_prepare_root_decision.

Theorem C03_file_link_root_total : forall st (seg : list N) s rest (ns : list bytes),
  t_file st = image (flat_lay seg s rest) -> blen seg = 256 -> snode_ok s = true -> (length (stn_entries s) <= 32)%nat ->
  GH.gwf seg (map abs_sym (stn_entries s)) ns -> forall parent, NS.is_root_parent parent = true -> forall nm oa,
  NS.heap_name_ok nm = true -> d1_accept ns nm = true -> oa < 18446744073709551616 ->
  exists f2, link_to_parent st parent nm oa = Ok f2.
Proof. exact link_root_ok. Qed.
Print Assumptions C03_file_link_root_total.

Theorem C03_file_group_answer : forall st nodes p n, FlatInv st nodes -> NS.split_path p = Some [n] ->
  blen (t_file st) + 3000 < LIM -> snd (t_create_group st p) = d1_accept (map node_name nodes) n.
Proof. exact group_answer. Qed.
Print Assumptions C03_file_group_answer.

Theorem C03_file_dataset_answer : forall st nodes p n code dims data, FlatInv st nodes -> NS.split_path p = Some [n] ->
  blen (t_file st) + blen data + 3000 < LIM -> snd (t_create_dataset st p code dims data) = d1_accept (map node_name nodes) n.
Proof. exact dataset_answer. Qed.
Print Assumptions C03_file_dataset_answer.

(* the specification on a root-level creation: accepted exactly by d1_accept on the names it holds, then the child is appended *)
Theorem C03_file_spec_create : forall t L p n (g : bool) a, SpecInv t L -> NS.split_path p = Some [n] ->
  let acc := d1_accept (map en_name L) n in
  let r := NS.s_create NS.go_cfg t p (if g then NS.SG [] else NS.SD) in
  NS.is_ok (snd r) = acc /\
  SpecInv (fst r) (if acc then L ++ [{| en_name := n; en_id := NS.s_clock t; en_grp := g; en_addr := a |}] else L).
Proof. exact spec_create. Qed.
Print Assumptions C03_file_spec_create.

Theorem C03_file_spec_tree_of : forall t L, SpecInv t L ->
  NS.spec_tree t = Some (NS.TNode 0 NS.KGroup (map (fun e => (en_name e, ent_tree e)) L)).
Proof. exact spec_tree_of. Qed.
Print Assumptions C03_file_spec_tree_of.

Theorem C03_file_d1_run : forall h st t L, FlatInv st (map ent_node L) -> SpecInv t L -> forallb d1_op h = true -> bounded st h ->
  exists L', FlatInv (fst (t_run st h)) (map ent_node L') /\
    SpecInv (fst (NS.run (NS.spec_step NS.go_cfg) t (map ns_op h))) L' /\
    snd (t_run st h) = map NS.is_ok (snd (NS.run (NS.spec_step NS.go_cfg) t (map ns_op h))) /\
    map ent_node L' = map ent_node L ++ flat_nodes st h /\ flat_hist st h.
Proof. exact d1_run. Qed.
Print Assumptions C03_file_d1_run.

Theorem C03_file_tree_depth1 : forall h n hfuel, (4 < hfuel)%nat -> forallb d1_op h = true -> bounded t_init h ->
  2197 <= blen (t_file (fst (tree_run h))) -> blen (t_file (fst (tree_run h))) + 4000 < FLAT_LIM ->
  let sp := NS.run (NS.spec_step NS.go_cfg) NS.s_empty (map ns_op h) in
  tree_oks h = map NS.is_ok (snd sp) /\
  exists tr addr, NS.spec_tree (fst sp) = Some tr /\
    node_of_tree addr [47] tr = Grp [47] 2168 (flat_nodes t_init h) /\
    run0 (tree_image h) (p_open true (blen (tree_image h)) (S (S (S (S (S n))))) hfuel) = Ok (node_of_tree addr [47] tr).
Proof. exact tree_depth1. Qed.
Print Assumptions C03_file_tree_depth1.

(* its hypotheses are satisfiable, on a history with two calls that library and specification both refuse *)
Theorem C03_file_tree_depth1_witness :
  forallb d1_op d1_ex = true /\ bounded t_init d1_ex /\ 2197 <= blen (t_file (fst (tree_run d1_ex))) /\
  blen (t_file (fst (tree_run d1_ex))) + 4000 < FLAT_LIM /\
  tree_oks d1_ex = [true; true; false; false] /\
  map NS.is_ok (snd (NS.run (NS.spec_step NS.go_cfg) NS.s_empty (map ns_op d1_ex))) = [true; true; false; false] /\
  NS.spec_tree (fst (NS.run (NS.spec_step NS.go_cfg) NS.s_empty (map ns_op d1_ex)))
    = Some (NS.TNode 0 NS.KGroup [([103], NS.TNode 1 NS.KGroup []); ([100], NS.TNode 2 NS.KData [])]).
Proof. exact d1_ex_ok. Qed.
Print Assumptions C03_file_tree_depth1_witness.
