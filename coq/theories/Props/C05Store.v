(* C05 (extent part) - in every reachable state all extents are pairwise disjoint, end at or below the
   allocator's end of file, and after Close at or below the physical file size. *)
From HV Require Import Base.Prelude Model.Store Proofs.Store Proofs.StoreOps Proofs.StoreInv Proofs.StoreProps.
Local Open Scope N_scope.

Theorem C05_extents_disjoint_inbounds : forall bp ba sb h,
  let s := reach bp ba sb h in
  ovf (st s) = false ->
  NoOverlap (exts (st s)) /\
  Forall (fun e => ext_end e <= next (al (st s))) (exts (st s)) /\
  (closed s = true -> Forall (fun e => ext_end e <= fsize (st s)) (exts (st s))).
Proof. exact C05_extents_disjoint_inbounds_l. Qed.
Print Assumptions C05_extents_disjoint_inbounds.

(* the allocator is append-only: a new block starts at the old end of file and is disjoint from everything *)
Theorem C05_allocate_fresh : forall s o k n e s', ext_ok s -> alloc_ext s o k n = Some (e, s') -> ovf s' = false ->
  start e = next (al s) /\ next (al s') = next (al s) + n /\ Forall (fun e' => edisj e e') (exts s).
Proof. exact C05_allocate_fresh_l. Qed.
Print Assumptions C05_allocate_fresh.

(* the lazy flush of a global heap collection (roll-over inside a later variable-length write, Close) and every other
   write that starts inside a collection's extent ends inside it: the buffer has the size createNewHeap allocated *)
Theorem C05_gcol_flush_within_extent : forall bp ba sb h o w,
  let s := reach bp ba sb h in let s' := fst (step s o) in
  ovf (st s') = false -> In w (wlog (st s')) ->
  forall e, In e (exts (st s')) -> is_gcol (kind_of e) = true -> start e <= fst w -> fst w < ext_end e ->
  fst w + snd w <= ext_end e.
Proof. exact C05_gcol_flush_within_extent_l. Qed.
Print Assumptions C05_gcol_flush_within_extent.
