(* C05 (extent part) - in every reachable state all extents are pairwise disjoint, end at or below the
   allocator's end of file, and after Close at or below the physical file size. *)
From HV Require Import Base.Prelude Model.Store Proofs.Store Proofs.StoreOps Proofs.StoreInv Proofs.StoreProps.
Local Open Scope N_scope.

Theorem C05_extents_disjoint_inbounds : forall bp ba sb h,
  let s := reach bp ba sb h in
  ovf (st s) = false ->
  NoOverlap (exts (st s)) /\
  Forall (fun e => ext_end e <= next (al (st s))) (exts (st s)) /\
  (closed s = true -> Forall (fun e => ext_end e <= fsize (st s)) (exts (st s))).
Proof. exact C05_extents_disjoint_inbounds_l. Qed.
Print Assumptions C05_extents_disjoint_inbounds.

(* the allocator is append-only: a new block starts at the old end of file and is disjoint from everything *)
Theorem C05_allocate_fresh : forall s o k n e s', ext_ok s -> alloc_ext s o k n = Some (e, s') -> ovf s' = false ->
  start e = next (al s) /\ next (al s') = next (al s) + n /\ Forall (fun e' => edisj e e') (exts s).
Proof. exact C05_allocate_fresh_l. Qed.
Print Assumptions C05_allocate_fresh.
