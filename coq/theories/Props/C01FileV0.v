(* C01, end to end at byte level, SUPERBLOCK VERSION 0: the READER programs (hdf5.Open's loader p_open, ReadSuperblock p_superblock,
   Dataset.Read's api_read_raw: Model/IOProg*.v, each tied to the Go reader and proved strict for C17) run on the FILE IMAGE the
   writer leaves behind for
     CreateForWrite(f, CreateTruncate, WithSuperblockVersion(0)); CreateDataset("/"+name, dtype, dims); Write(data); Close()
   (Model/FileImageV0.v image_v0, compared byte for byte with the library's files on every run: tools/props/c01filev0.py)
   return what was written.  Only theorem statements here; proofs in Proofs/FileImageV0*.v. *)
From HV Require Import Base.Prelude Base.Outcome Base.Bytes Model.IOProg Model.IOProgReader Model.IOProgOpen.
From HV Require Import Model.CodecSuper Model.CodecOhdr Model.CodecType Model.FileImage Model.FileImageV0.
From HV Require Import Proofs.FileImage Proofs.FileImageProd Proofs.FileImageMain
  Proofs.FileImageV0 Proofs.FileImageV0Group Proofs.FileImageV0Open Proofs.FileImageV0Main.

(* For ALL link names (non-empty, no NUL, no '/', at most 255 bytes), all basic registry datatypes (int8..uint64, float32,
   float64), all shapes of rank 1..24 with extents > 0, all data of exactly product(dims)*size bytes, less than 4 GiB, and every
   loader fuel >= 3 / header fuel >= 4, on the version 0 file:
     Open returns the tree "/" (root object header at 96) with exactly one child, the dataset `name`;
     ReadSuperblock returns the version 0, 8/8 little-endian superblock whose root symbol table entry names the root header 96
     and caches the B-tree 136 and the heap 1480;
     the dataset read returns exactly the written bytes;
     the datatype (class, size, signedness bit field) and the shape decoded from the dataset's header are the ones given. *)
Theorem C01_file_roundtrip_contiguous_v0 : forall name class size cbf dims data fuel hfuel,
  link_name_ok name = true -> basic_dtype class size cbf = true -> dims_ok dims = true ->
  blen data = product dims * size -> blen data < 4294967296 -> (3 <= fuel)%nat -> (3 < hfuel)%nat ->
  let f := image_v0 name class size cbf dims data in
  run0 f (p_open true (blen f) fuel hfuel) = Ok (Grp [47] ROOT0_ADDR [Dset name (dset_addr0 data)]) /\
  run0 f p_superblock = Ok SB0' /\
  run0 f (api_read_raw SB0' hfuel (dset_addr0 data)) = Ok (RawBytes data) /\
  exists h, run0 f (p_ohdr SB0' hfuel (dset_addr0 data)) = Ok h /\ decoded_type_shape h = Ok (class, size, cbf, dims).
Proof. exact file_roundtrip0_stmt. Qed.
Print Assumptions C01_file_roundtrip_contiguous_v0.

(* the file ends at the end-of-file address the superblock records: 1768 + |data| + 262 *)
Theorem C01_image_length_v0 : forall name class size cbf dims data,
  link_name_ok name = true -> basic_dtype class size cbf = true -> dims_ok dims = true ->
  blen data = product dims * size -> blen data < 4294967296 ->
  blen (image_v0 name class size cbf dims data) = eof_addr0 data.
Proof. exact image0_length_stmt. Qed.
Print Assumptions C01_image_length_v0.

(* the superblock the reader returns is what the reader's projection makes of the superblock Close wrote *)
Theorem C01_superblock_v0_projection : forall data, SB0' = proj_superblock (final_sb0 data).
Proof. exact sb0_is_projection. Qed.
Print Assumptions C01_superblock_v0_projection.

(* the root object header of a version 0 file is a VERSION 1 header: the reader program on any file that holds its 40 bytes at 96
   returns the one symbol table message (B-tree 136, heap 1480) *)
Theorem C01_root_header_v0 : forall f,
  placed f 96 (root0_prefix ++ root0_mhdr ++ root0_mdata) -> forall fuel, run0 f (p_ohdr SB0' (S (S fuel)) 96) = Ok root0_hdr.
Proof. exact root0_header_gen. Qed.
Print Assumptions C01_root_header_v0.

(* the hypotheses are satisfiable; the image for these inputs has the 2033 bytes of the file the library writes *)
Theorem C01_file_roundtrip_v0_witness :
  link_name_ok [100] = true /\ basic_dtype DT_FIXED 1 0 = true /\ dims_ok [3] = true /\
  blen [1; 2; 3] = product [3] * 1 /\ blen [1; 2; 3] < 4294967296 /\
  blen (image_v0 [100] DT_FIXED 1 0 [3] [1; 2; 3]) = 2033.
Proof. exact file_roundtrip0_witness. Qed.
Print Assumptions C01_file_roundtrip_v0_witness.
