(* C05 - the whole-file specification walker (Spec/Walk.v): theorems only; lemmas in Proofs/Walk.v.
   [walk tol fuel f] follows every structure reachable from the superblock of the file [f] and returns the visited
   extents (start, end, kind), a summary of the tree and the deviations it tolerated; tools/props/c05walk.py compares it
   with the independent Python walker on the bytes of files written by the library. *)
From HV Require Import Base.Prelude Base.Outcome Base.Bytes Spec.Parse Spec.Walk Model.Wellformed Proofs.Walk.

(* (1) For ALL byte strings, tolerances and fuels: every extent a successful walk returns is non-empty and ends inside
   the file - extents enter the result only through the checked [add_ext]. *)
Theorem C05_walk_extents_in_file : forall tol fuel f r, walk tol fuel f = Ok r ->
  Forall (fun x : xext => fst (fst x) < snd (fst x) /\ snd (fst x) <= blen f) (wr_extents r).
Proof. exact walk_extents_in_file. Qed.
Print Assumptions C05_walk_extents_in_file.

(* (2a) The walker rejects, it never panics: for all inputs the answer is Ok or Err. *)
Theorem C05_walk_never_panics : forall tol fuel f, walk tol fuel f <> Panic.
Proof. exact walk_never_panics. Qed.
Print Assumptions C05_walk_never_panics.

(* (2b) Fuel monotonicity: more fuel never changes an accepted answer (extents, tree, tags all identical).  The stronger
   "fuel >= an explicit function of the file length always suffices on acyclic files" is NOT proved; the tie runs with
   [default_fuel] and a file that needed more would show up as an acceptance disagreement with the Python walker. *)
Theorem C05_walk_fuel_mono : forall tol fuel fuel' f r, (fuel <= fuel')%nat ->
  walk tol fuel f = Ok r -> walk tol fuel' f = Ok r.
Proof. exact walk_fuel_mono. Qed.
Print Assumptions C05_walk_fuel_mono.

Theorem C05_walk_ok_fuel_mono : forall fuel fuel' f, (fuel <= fuel')%nat -> walk_ok fuel f = true -> walk_ok fuel' f = true.
Proof. exact walk_ok_fuel_mono. Qed.
Print Assumptions C05_walk_ok_fuel_mono.

(* (3) The boolean the tie evaluates: when [walk_ok] holds the tolerant walk accepted the file and ALL visited extents are
   non-empty, inside the file, at or below the end-of-file address recorded in the superblock, and pairwise disjoint
   (composition with C05_extents_ok_sound). *)
Theorem C05_walk_accepts_disjoint : forall fuel f, walk_ok fuel f = true ->
  exists r, walk wtolerant fuel f = Ok r /\
    Forall (fun e => fst e < snd e /\ snd e <= blen f /\ snd e <= wr_eof r) (plain (wr_extents r)) /\
    ForallOrdPairs disjoint (plain (wr_extents r)).
Proof. exact walk_ok_sound. Qed.
Print Assumptions C05_walk_accepts_disjoint.
