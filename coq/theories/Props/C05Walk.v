(* C05 - the whole-file specification walker (Spec/Walk.v): theorems only; lemmas in Proofs/Walk.v.
   [walk tol fuel f] follows every structure reachable from the superblock of the file [f] and returns the visited
   extents (start, end, kind), a summary of the tree and the deviations it tolerated; tools/props/c05walk.py compares it
   with the independent Python walker on the bytes of files written by the library. *)
From HV Require Import Base.Prelude Base.Outcome Base.Bytes Spec.Parse Spec.FormatMsg Spec.Walk Model.Wellformed Model.RefWalkTie
  Model.DenseLinkMsg Proofs.Walk Proofs.WalkDenseExamples Proofs.DenseLinkMsg.

(* (1) For ALL byte strings, tolerances and fuels: every extent a successful walk returns is non-empty and ends inside
   the file - extents enter the result only through the checked [add_ext]. *)
Theorem C05_walk_extents_in_file : forall tol fuel f r, walk tol fuel f = Ok r ->
  Forall (fun x : xext => fst (fst x) < snd (fst x) /\ snd (fst x) <= blen f) (wr_extents r).
Proof. exact walk_extents_in_file. Qed.
Print Assumptions C05_walk_extents_in_file.

(* (2a) The walker rejects, it never panics: for all inputs the answer is Ok or Err. *)
Theorem C05_walk_never_panics : forall tol fuel f, walk tol fuel f <> Panic.
Proof. exact walk_never_panics. Qed.
Print Assumptions C05_walk_never_panics.

(* (2b) Fuel monotonicity: more fuel never changes an accepted answer (extents, tree, tags all identical).  The stronger
   "fuel >= an explicit function of the file length always suffices on acyclic files" is NOT proved; the tie runs with
   [default_fuel] and a file that needed more would show up as an acceptance disagreement with the Python walker. *)
Theorem C05_walk_fuel_mono : forall tol fuel fuel' f r, (fuel <= fuel')%nat ->
  walk tol fuel f = Ok r -> walk tol fuel' f = Ok r.
Proof. exact walk_fuel_mono. Qed.
Print Assumptions C05_walk_fuel_mono.

Theorem C05_walk_ok_fuel_mono : forall fuel fuel' f, (fuel <= fuel')%nat -> walk_ok fuel f = true -> walk_ok fuel' f = true.
Proof. exact walk_ok_fuel_mono. Qed.
Print Assumptions C05_walk_ok_fuel_mono.

(* (3) The boolean the tie evaluates: when [walk_ok] holds the tolerant walk accepted the file and ALL visited extents are
   non-empty, inside the file, at or below the end-of-file address recorded in the superblock, and pairwise disjoint
   (composition with C05_extents_ok_sound). *)
Theorem C05_walk_accepts_disjoint : forall fuel f, walk_ok fuel f = true ->
  exists r, walk wtolerant fuel f = Ok r /\
    Forall (fun e => fst e < snd e /\ snd e <= blen f /\ snd e <= wr_eof r) (plain (wr_extents r)) /\
    ForallOrdPairs disjoint (plain (wr_extents r)).
Proof. exact walk_ok_sound. Qed.
Print Assumptions C05_walk_accepts_disjoint.

(* (3') what Model/WalkJudgeTie.v evaluates for the files the Coq walker judges alone (one walk instead of two): given the result of the
   tolerant walk, [walk_ok] is [extents_ok] of its extents. *)
Theorem C05_walk_ok_of_result : forall fuel f r, walk wtolerant fuel f = Ok r ->
  walk_ok fuel f = extents_ok (blen f) (wr_eof r) (plain (wr_extents r)).
Proof. exact walk_ok_of_result. Qed.
Print Assumptions C05_walk_ok_of_result.

(* (4) New-style groups as the writer stores them (CreateDenseGroup / CreateGroupWithLinks with more than 8 links), on the complete
   bytes of the witness file [dense_witness] (Proofs/WalkDenseExamples.v: sb = 2; mkds /a; mkdense /dg {x -> /a, yy -> /a}).
   The tolerant walk accepts the file, the extents are well-formed, and the dense group lists exactly its two links, both leading to
   the object header of /a (address 2199): the links ARE stored and an independent decoder finds them - once it tolerates the four
   deviations below.  (The library's own reader does not list them: findings C03-dense-group-links-not-read / C06-dense-links-not-read.) *)
Theorem C05_dense_group_witness_decodes :
  match walk wtolerant default_fuel dense_witness with
  | Ok r => extents_ok (blen dense_witness) (wr_eof r) (plain (wr_extents r)) = true /\
            summary_of r = [(unhex "2f6467", [(0, unhex "7979"); (0, unhex "78")], [2199; 2199]);
                            (unhex "2f61", [], []);
                            (unhex "2f", [(0, unhex "61"); (0, unhex "6467")], [2199; 531029])] /\
            nodup N.eq_dec (map wtag_code (wr_tags r)) = [114; 111; 112; 108; 113; 13; 12; 10; 11; 19; 3; 105; 17; 2; 1]
  | _ => False
  end.
Proof. exact dense_witness_tolerant. Qed.
Print Assumptions C05_dense_group_witness_decodes.

(* The four deviations of internal/writer/densegroup_writer.go.  Each statement: the walk that tolerates EVERY deviation but this one
   rejects the witness with this deviation as the reason (reason code 200 + tag code), i.e. the file does not conform to the
   specification on this point and on nothing the other listed deviations do not cover. *)
(* a group's object header carries a (scalar, version 1) dataspace message *)
Theorem C05_group_dataspace_msg_refuted : walk_code (tol_all_but 111) default_fuel dense_witness = 311.
Proof. exact dense_witness_needs_group_dataspace_msg. Qed.
Print Assumptions C05_group_dataspace_msg_refuted.
(* the link messages in the heap are: version | link type | flags | character set | minimal-width name length | name | address -
   read per specification (version | flags | ... ) the byte 0 is the flags byte and the byte 4 the length of the name *)
Theorem C05_dense_link_private_layout_refuted : walk_code (tol_all_but 112) default_fuel dense_witness = 312.
Proof. exact dense_witness_needs_link_private_layout. Qed.
Print Assumptions C05_dense_link_private_layout_refuted.
(* the heap's IDs are 8 bytes long (heap header), the name index records (type 5: hash (4) | ID (7)) hold their first 7 bytes *)
Theorem C05_btree2_link_id_truncated_refuted : walk_code (tol_all_but 113) default_fuel dense_witness = 313.
Proof. exact dense_witness_needs_link_id_truncated. Qed.
Print Assumptions C05_btree2_link_id_truncated_refuted.
(* /a has three hard links (one in the root group, two in /dg) and reference count 1 *)
Theorem C05_refcount_ignores_dense_links_refuted : walk_code (tol_all_but 114) default_fuel dense_witness = 314.
Proof. exact dense_witness_needs_refcount_ignores_dense_links. Qed.
Print Assumptions C05_refcount_ignores_dense_links_refuted.

(* (5) The densely stored link message, UNIVERSALLY over link names of 1 .. 255 bytes and target addresses (size of offsets 8):
   [enc_dense_link] is the transcription of internal/writer/densegroup_writer.go createLinkMessage (Model/DenseLinkMsg.v; tied to the
   library on every run by tools/props/c05.py dense_link_tie: the model's bytes occur in the written file for every link the Coq walker
   resolves).
   (a) Read per specification (IV.A.2.g: version | flags | ... | length of name | name | address) the message is never the link that
       was stored: the decoder rejects it, except for names of exactly 2 bytes, where it returns the 4-byte name 00 02 n0 n1. *)
Theorem C05_dense_link_spec_misread : forall tol name addr, 0 < blen name -> blen name < 256 ->
  match spec_dec_link tol 8 false (enc_dense_link name addr 8) with
  | Ok (l, _) => blen name = 2 /\ ls_name l = 0 :: 2 :: name
  | _ => True
  end.
Proof. exact spec_dec_enc. Qed.
Print Assumptions C05_dense_link_spec_misread.

Theorem C05_dense_link_spec_never_the_stored_link : forall tol name addr l tg, 0 < blen name -> blen name < 256 ->
  spec_dec_link tol 8 false (enc_dense_link name addr 8) = Ok (l, tg) -> ls_name l <> name.
Proof. exact spec_never_the_stored_link. Qed.
Print Assumptions C05_dense_link_spec_never_the_stored_link.

(* (b) The walker's decoder of the private layout (what the deviation X_dense_link_private_layout tolerates) inverts the writer: the
       link IS recoverable, name and target, by a decoder that knows the layout. *)
Theorem C05_dense_link_private_decoder_inverts_writer : forall c name addr,
  cO c = 8%nat -> 0 < blen name -> blen name < 256 -> addr < 256 ^ 8 ->
  dec_link_private c (enc_dense_link name addr 8) =
    Ok {| ls_flags := 0; ls_corder := None; ls_cset := 0; ls_name := name; ls_value := LHard addr |}.
Proof. exact dec_private_enc. Qed.
Print Assumptions C05_dense_link_private_decoder_inverts_writer.
(* the hypotheses are satisfiable: Proofs/DenseLinkMsg.v dense_link_example (the link "x" -> 2199 of the witness file) *)
