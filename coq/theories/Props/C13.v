From HV Require Import Base.Prelude.
Theorem C13_placeholder : True. Proof. exact I. Qed.
Print Assumptions C13_placeholder.
