(* C13 - resize keeps retained data, zero-fills new space (unit level: what the reader returns for
   chunks written under the old extents when the dataspace says new extents).
   Model: Model/Chunk.v.  Lemmas: Proofs/ChunkTiling.v, Proofs/ChunkResizes.v.  Examples: Proofs/ChunkExamples.v,
   Proofs/ChunkResizes.v (read_after_resizes_example, chain_not_covered). *)
From HV Require Import Base.Prelude Model.Chunk
  Proofs.ChunkLists Proofs.ChunkSpec Proofs.ChunkCoords Proofs.ChunkTiling Proofs.ChunkExamples Proofs.ChunkResizes.

(* the specification function behaves as the property text says *)
Theorem C13_resize_spec_laws : forall esz,
  (forall d x, lenN x = vol d esz -> resize_arr d d esz x = x) /\
  (forall old new data ix, length new = length old -> lenN data = vol old esz ->
     in_extent new ix = true ->
     get_elem new esz (resize_arr old new esz data) ix
     = if in_extent old ix then get_elem old esz data ix else zerosN esz).
Proof. exact (fun esz => conj (resize_arr_id esz) (get_resize_arr esz)). Qed.
Print Assumptions C13_resize_spec_laws.

(* one resize after a full write, any mix of growing and shrinking dimensions *)
Theorem C13_read_after_resize : forall old new cdims esz data,
  shape_ok old cdims esz -> length new = length old -> lenN data = vol old esz ->
  read_after_resize old new cdims esz data = Ok (resize_arr old new esz data).
Proof. exact read_after_resize_correct. Qed.
Print Assumptions C13_read_after_resize.

(* ANY number of resizes after a full write, no write in between (every rank, every mix of growing and shrinking):
   the chunk index still describes the written extents `old`; what the library returns under the final extents is the
   specified array (resize_arr folded over the requested extents) whenever no extent of the chain is, in some
   dimension, below both the written and the final extent (chain_covers).  The excluded class is exactly
   KNOWN_FINDINGS C13-shrink-then-grow. *)
Theorem C13_read_after_resizes : forall esz old exts cdims data,
  shape_ok old cdims esz -> Forall (fun e => length e = length old) exts ->
  chain_covers old exts -> lenN data = vol old esz ->
  read_after_resize old (last exts old) cdims esz data = Ok (snd (resize_chain old exts esz data)).
Proof. exact read_after_resizes_correct. Qed.
Print Assumptions C13_read_after_resizes.

(* ... and the hypothesis is tight: for EVERY chain of positive extents outside it there is data on which the
   library's answer differs from the specification (all bytes 1: the library shows stale ones where zeros belong) *)
Theorem C13_read_after_resizes_tight : forall esz old exts cdims,
  shape_ok old cdims esz -> Forall (fun e => length e = length old) exts ->
  Forall (Forall (fun x => 0 < x)) exts ->
  ~ chain_covers old exts ->
  exists data, lenN data = vol old esz /\
    read_after_resize old (last exts old) cdims esz data <> Ok (snd (resize_chain old exts esz data)).
Proof. exact read_after_resizes_tight. Qed.
Print Assumptions C13_read_after_resizes_tight.

(* resizes and full writes in any order (accepted or refused: a Resize of another rank and a Write of another length
   change nothing on either side): after any history `pre`, a full write at the then current extents w followed by a
   covered chain of resizes reads back as specified - a full write resets the history, nothing before it matters *)
Theorem C13_read_after_ops : forall esz pre d exts cdims (st : lib_state) sp,
  snd st = fst sp ->
  let w := fst (run_spec esz sp pre) in
  shape_ok w cdims esz -> lenN d = vol w esz ->
  Forall (fun e => length e = length w) exts -> chain_covers w exts ->
  lib_read cdims esz (run_lib esz st (pre ++ RWrite d :: map RResize exts))
  = Ok (snd (run_spec esz sp (pre ++ RWrite d :: map RResize exts))).
Proof. exact read_after_ops_correct. Qed.
Print Assumptions C13_read_after_ops.

(* shrink then grow exposes the data that was cut off: dims [8], chunk [4], data 1..8,
   resize to [3], resize to [7] *)
Theorem C13_shrink_grow_refuted :
  exists old mid new cdims esz data,
    shape_ok old cdims esz /\ length mid = length old /\ length new = length old /\
    lenN data = vol old esz /\
    read_after_resize old new cdims esz data = Ok [1; 2; 3; 4; 5; 6; 7] /\
    resize_twice_spec old mid new esz data = [1; 2; 3; 0; 0; 0; 0].
Proof. exact shrink_grow_refuted. Qed.
Print Assumptions C13_shrink_grow_refuted.
