(* C13 - resize keeps retained data, zero-fills new space (unit level: what the reader returns for
   chunks written under the old extents when the dataspace says new extents).
   Model: Model/Chunk.v.  Lemmas: Proofs/ChunkTiling.v.  Examples: Proofs/ChunkExamples.v. *)
From HV Require Import Base.Prelude Model.Chunk
  Proofs.ChunkLists Proofs.ChunkSpec Proofs.ChunkCoords Proofs.ChunkTiling Proofs.ChunkExamples.

(* the specification function behaves as the property text says *)
Theorem C13_resize_spec_laws : forall esz,
  (forall d x, lenN x = vol d esz -> resize_arr d d esz x = x) /\
  (forall old new data ix, length new = length old -> lenN data = vol old esz ->
     in_extent new ix = true ->
     get_elem new esz (resize_arr old new esz data) ix
     = if in_extent old ix then get_elem old esz data ix else zerosN esz).
Proof. exact (fun esz => conj (resize_arr_id esz) (get_resize_arr esz)). Qed.
Print Assumptions C13_resize_spec_laws.

(* one resize after a full write, any mix of growing and shrinking dimensions *)
Theorem C13_read_after_resize : forall old new cdims esz data,
  shape_ok old cdims esz -> length new = length old -> lenN data = vol old esz ->
  read_after_resize old new cdims esz data = Ok (resize_arr old new esz data).
Proof. exact read_after_resize_correct. Qed.
Print Assumptions C13_read_after_resize.

(* two resizes without a write in between are right when no intermediate extent is below both *)
Theorem C13_read_after_two_resizes_partial : forall old mid new cdims esz data,
  shape_ok old cdims esz -> mid_covers old mid new -> lenN data = vol old esz ->
  read_after_resize old new cdims esz data = Ok (resize_twice_spec old mid new esz data).
Proof. exact read_after_two_resizes. Qed.
Print Assumptions C13_read_after_two_resizes_partial.

(* shrink then grow exposes the data that was cut off: dims [8], chunk [4], data 1..8,
   resize to [3], resize to [7] *)
Theorem C13_shrink_grow_refuted :
  exists old mid new cdims esz data,
    shape_ok old cdims esz /\ length mid = length old /\ length new = length old /\
    lenN data = vol old esz /\
    read_after_resize old new cdims esz data = Ok [1; 2; 3; 4; 5; 6; 7] /\
    resize_twice_spec old mid new esz data = [1; 2; 3; 0; 0; 0; 0].
Proof. exact shrink_grow_refuted. Qed.
Print Assumptions C13_shrink_grow_refuted.
