(* Property C19 part A on the COMPOSED attribute-storage model (statements only; lemmas in Proofs/AttrComposeCfg.v).

   "Whatever rebalancing configuration a file is written with (none, immediate, lazy with any threshold, incremental,
   smart, toggled at any time), the content visible after reopen equals that of the same history under the default
   configuration."

   Model/AttrComposeCfg.v is Model/AttrCompose.v (attribute dispatch of attribute_write.go on the byte-level B-tree v2
   index Model/BT2.v and the byte-level fractal heap Model/FHeap.v; both structures are loaded from bytes and written
   back on every call) with the FileWriter's configuration as a parameter of EVERY call.

   Reading guide.
     fwcfg                      what a FileWriter stores: BTreeRebalancing flag (WithBTreeRebalancing, Disable/Enable-
                                Rebalancing at run time), lazy configuration (threshold, wall-clock oracle), incremental
                                given, smart given
     wire : fwcfg -> BT2.mode   the mode set up (EnableLazyRebalancing ...) on the index object a call has just loaded;
                                wire_go = the code as it is (lazy / incremental / smart options are stored and read
                                nowhere: mode off or immediate, by the flag); wire_all = lazy options applied to the
                                loaded tree.  Every theorem is for EVERY wire.
     cfs : list fwcfg           one configuration per call of the history ("toggled at any time")
     c_run_cfg P enc pick wire cfs cinit h    replay of history h; result (final state = the bytes, answers)
     c_run_cfg ... wire_go [] cinit h         the same history, code as it is, default configuration at every call
     c_run_ev ... cf cinit l    a session in which run-time configuration calls (DisableRebalancing, EnableRebalancing,
                                EnableLazyRebalancing, DisableLazyRebalancing, ForceBatchRebalance, Enable/Stop-
                                IncrementalRebalancing, RebalanceAllBTrees, RebalanceAttributeBTree) occur between the
                                attribute calls; ops_of l = the attribute calls of l
     c_read_msgs / c_read_attrs what Attributes() finds after reopen (messages / parsed)
     P, enc, pick               header parameters, attribute message encoder, Go map iteration order: arbitrary, no
                                hypothesis (the map corollaries take C02's hypotheses)
   Not in the model: a cache of loaded trees across calls (there is none in /repo; seeded change C19-c adds one and is
   caught by the tie), the object header bytes, background goroutines (C18). *)
From HV Require Import Base.Prelude Model.Attr Model.AttrCompose Model.AttrComposeCfg.
From HV Require Import Proofs.AttrComposeCfg Proofs.AttrCompose Proofs.Attr.
From HV Require Model.BT2 Model.FHeap.

(* one call, from ANY state: the configuration of the call does not matter *)
Theorem C19_compose_step_config_irrelevant : forall P enc pick wire cf st o,
  c_step_cfg P enc pick wire cf st o = c_step_cfg P enc pick wire fw_default st o.
Proof. exact compose_step_config_irrelevant. Qed.
Print Assumptions C19_compose_step_config_irrelevant.

(* EVERY history, EVERY per-call configuration list, EVERY wiring, from every state: final state (every byte of both
   regions) and all answers equal those of the default configuration *)
Theorem C19_compose_config_irrelevant : forall P enc pick wire cfs st h,
  c_run_cfg P enc pick wire cfs st h = c_run_cfg P enc pick wire_go [] st h.
Proof. exact compose_config_irrelevant. Qed.
Print Assumptions C19_compose_config_irrelevant.

(* hence answers and the listing after reopen *)
Theorem C19_compose_config_irrelevant_read : forall P enc dec pick wire cfs h,
  let a := c_run_cfg P enc pick wire cfs cinit h in
  let b := c_run_cfg P enc pick wire_go [] cinit h in
  snd a = snd b /\ c_read_msgs enc (fst a) = c_read_msgs enc (fst b) /\ c_read_attrs dec (fst a) = c_read_attrs dec (fst b).
Proof. exact compose_config_irrelevant_read. Qed.
Print Assumptions C19_compose_config_irrelevant_read.

(* run-time configuration calls anywhere in the session *)
Theorem C19_compose_toggles_irrelevant : forall P enc pick wire cf l,
  c_run_ev P enc pick wire cf cinit l = c_run_cfg P enc pick wire_go [] cinit (ops_of l).
Proof. exact compose_toggles_irrelevant. Qed.
Print Assumptions C19_compose_toggles_irrelevant.

(* the parametrised model under the code as it is IS the composed model of Props/C02Compose.v *)
Theorem C19_compose_as_built : forall P enc pick delay cf st o,
  c_step_cfg P enc pick wire_go cf st o = c_step P enc (fw_rebalance cf) delay pick st o.
Proof. exact compose_cfg_as_built. Qed.
Print Assumptions C19_compose_as_built.

(* ... whose own two configuration parameters (flag, wall clock) are irrelevant for every history *)
Theorem C19_compose_flag_irrelevant : forall P enc pick rb d rb' d' st h,
  c_run P enc rb d pick st h = c_run P enc rb' d' pick st h.
Proof. exact compose_flag_irrelevant. Qed.
Print Assumptions C19_compose_flag_irrelevant.

(* with C02_compose_simulation: under every configuration the composed model answers and lists like the abstract one *)
Theorem C19_compose_config_simulation : forall P enc pick wire cfs, params_match P ->
  (forall a sz, encode_attr a = EncOk sz -> FHeap.len (enc a) = sz) ->
  forall h cst rs, c_run_cfg P enc pick wire cfs cinit h = (cst, rs) ->
  rs = snd (run BT2.jenkins P init h) /\
  c_read_msgs enc cst = option_map (map enc) (read_attrs (fst (run BT2.jenkins P init h))).
Proof. exact compose_config_simulation. Qed.
Print Assumptions C19_compose_config_simulation.

(* with C02_compose_refines_map: under every configuration the listing after reopen is the map the history denotes
   (hypotheses are C02's: parameter equations - C02_compose_params_go -, encoder length - C02_compose_encoder_exists -,
   no lookup3 collision among the names used) *)
Theorem C19_compose_config_refines_map : forall P enc pick wire cfs, params_match P ->
  (forall a sz, encode_attr a = EncOk sz -> FHeap.len (enc a) = sz) ->
  forall h cst rs, NoHashCollision BT2.jenkins (names h) ->
  c_run_cfg P enc pick wire cfs cinit h = (cst, rs) ->
  exists l, c_read_msgs enc cst = Some (map enc l) /\ NoDup (map aname l) /\
            (forall n, attr_get l n = sp_get (run_spec [] h rs) n) /\ results_ok [] h rs.
Proof. exact compose_config_refines_map. Qed.
Print Assumptions C19_compose_config_refines_map.

Theorem C19_compose_toggles_refines_map : forall P enc pick wire cf, params_match P ->
  (forall a sz, encode_attr a = EncOk sz -> FHeap.len (enc a) = sz) ->
  forall l cst rs, NoHashCollision BT2.jenkins (names (ops_of l)) ->
  c_run_ev P enc pick wire cf cinit l = (cst, rs) ->
  exists al, c_read_msgs enc cst = Some (map enc al) /\ NoDup (map aname al) /\
            (forall n, attr_get al n = sp_get (run_spec [] (ops_of l) rs) n) /\ results_ok [] (ops_of l) rs.
Proof. exact compose_toggles_refines_map. Qed.
Print Assumptions C19_compose_toggles_refines_map.

(* not vacuous: under a lazy wiring the lazy entry point is taken on the loaded object and leaves a lazy state behind
   (Some ...) where the code as it is has none - with the same records *)
Theorem C19_compose_lazy_entry_reached :
  let cf := mkFw false (Some (mkLazyCfg 50 false)) false false in
  BT2.is_lazy_enabled (BT2.setup_mode (wire_all cf) ex_bt) = true /\
  BT2.lazy (fst (dense_delete_switch (wire_all cf) (fw_rebalance cf) ex_bt [97])) = Some (BT2.mkLazy 50 0 1 0) /\
  BT2.lazy (fst (dense_delete_switch (wire_go cf) (fw_rebalance cf) ex_bt [97])) = None /\
  BT2.recs (fst (dense_delete_switch (wire_all cf) (fw_rebalance cf) ex_bt [97]))
  = BT2.recs (fst (dense_delete_switch (wire_go cf) (fw_rebalance cf) ex_bt [97])) /\
  List.length (BT2.recs (fst (dense_delete_switch (wire_all cf) (fw_rebalance cf) ex_bt [97]))) = 1%nat.
Proof. exact ex_lazy_entry_taken. Qed.
Print Assumptions C19_compose_lazy_entry_reached.
