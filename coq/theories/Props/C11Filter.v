(* C11 - every metadata encoder is inverted by its decoder: the filter pipeline message.
   Property theorems only.  The C08 transcription (Model/Filters.v) is only Required: its outcome type and
   parse_filters carry the same short names as the C11 ones. *)
From HV Require Import Base.Prelude Base.Outcome Base.Bytes Model.CodecFilter Proofs.CodecFilter Proofs.CodecFilterC08.
From HV Require Model.Filters Proofs.FiltersPipeline.

(* ParseFilterPipelineMessage (EncodePipelineMessage fs) = fs, for every list of 1..255 filters with 16-bit
   ids and flags, NUL-free names of 0..65528 bytes and 0..65535 32-bit client values: the version-2 message
   with six zero bytes is read in the version-1 layout, without client-data padding; an empty name has no
   name field; an empty client-data list comes back as nil. *)
Theorem C11_filterpipe_roundtrip : forall fs, wf_pipeline fs = true ->
  dec_pipeline (enc_pipeline fs) = Ok (proj_pipeline fs).
Proof. exact pipeline_roundtrip. Qed.
Print Assumptions C11_filterpipe_roundtrip.

(* size = 8 + sum over the filters of 8 + name padded to a multiple of 8 + 4 per client value *)
Theorem C11_filterpipe_len : forall fs, wf_pipeline fs = true -> blen (enc_pipeline fs) = size_pipeline fs.
Proof. exact pipeline_blen. Qed.
Print Assumptions C11_filterpipe_len.

(* the writer's uint16 padding ((nameLen + 7) / 8) * 8 is the reader's int padding for every name length the
   theorem covers ... *)
Theorem C11_filterpipe_name_padding : forall n, n <= 65528 ->
  padded_name_w n = (if n mod 8 =? 0 then n else n + (8 - n mod 8)).
Proof. exact padded_name_w_reader. Qed.
Print Assumptions C11_filterpipe_name_padding.

(* ... and for no longer 16-bit length: the uint16 sum wraps to 0 while the reader expects 65536 bytes *)
Theorem C11_filterpipe_name_padding_tight : forall n, 65528 < n < 65536 ->
  padded_name_w n = 0 /\ reader_pad n = 65536.
Proof. exact padded_name_w_wraps. Qed.
Print Assumptions C11_filterpipe_name_padding_tight.

(* ... witnessed through the whole message: a 65529-byte name is written with its length and none of its
   bytes (the Go encoder returns exactly these 16 bytes), and the reader refuses the message *)
Theorem C11_filterpipe_name_65529_not_inverted :
  blen (wf_name long_name_filter) = 65529 /\
  wf_pipeline [long_name_filter] = false /\
  enc_pipeline [long_name_filter] = [2; 1; 0; 0; 0; 0; 0; 0; 1; 0; 249; 255; 0; 0; 0; 0] /\
  dec_pipeline (enc_pipeline [long_name_filter]) = Err.
Proof. exact pipeline_name_65529_not_inverted. Qed.
Print Assumptions C11_filterpipe_name_65529_not_inverted.

(* the hypotheses are satisfiable: names of 0, 7, 8, 9 bytes, no and three client values, 3 and 4 filters *)
Theorem C11_filterpipe_wf_example : wf_pipeline ex_filters = true /\ wf_pipeline (firstn 3 ex_filters) = true.
Proof. exact ex_filters_wf. Qed.
Print Assumptions C11_filterpipe_wf_example.

(* the C08 transcription of EncodePipelineMessage (over filter descriptors) and the C11 one produce the same
   refusal and the same bytes for every descriptor list with names of at most 65528 bytes (name_fits);
   every C08 well-formed descriptor (desc_wf: names below 65000 bytes) is of that kind *)
Theorem C11_filterpipe_same_bytes_as_C08 : forall ds : list Filters.fdesc, Forall name_fits ds ->
  Filters.encode_msg ds =
  if encok_pipeline (map to_wfilter ds) then Filters.Ok (enc_pipeline (map to_wfilter ds)) else Filters.Err.
Proof. exact enc_pipeline_same_as_c08. Qed.
Print Assumptions C11_filterpipe_same_bytes_as_C08.

Theorem C11_filterpipe_same_bytes_as_C08_wf : forall ds : list Filters.fdesc, Forall FiltersPipeline.desc_wf ds ->
  Filters.encode_msg ds =
  if encok_pipeline (map to_wfilter ds) then Filters.Ok (enc_pipeline (map to_wfilter ds)) else Filters.Err.
Proof. exact enc_pipeline_same_as_c08_wf. Qed.
Print Assumptions C11_filterpipe_same_bytes_as_C08_wf.

(* C08's general message round trip, restated (statement of Proofs.FiltersPipeline.msg_roundtrip_wf) *)
Theorem C11_filterpipe_roundtrip_c08 : forall ds : list Filters.fdesc,
  Forall FiltersPipeline.desc_wf ds -> (0 < length ds < 256)%nat ->
  Filters.bind (Filters.encode_msg ds) Filters.parse_msg = Filters.Ok (2, N.of_nat (length ds), ds).
Proof. exact FiltersPipeline.msg_roundtrip_wf. Qed.
Print Assumptions C11_filterpipe_roundtrip_c08.
