(* C06 - reader output on reference-library files equals the reference library's report.
   The property itself is decided exhaustively on the bundled corpus by tools/props/c06.py (Go reader vs h5dump
   DDL, every object).  What is proved here is the value-decoding core that comparison relies on
   (Model/RefDecode.v): dec_int / dec_string are the inverse of the format's encoding, respect the type's range and
   byte order, and the three string paddings remove padding only.  The tie evaluates the same functions on the raw
   element bytes of corpus datasets/attributes and requires them to equal both the DDL value and the Go value. *)
From HV Require Import Base.Prelude Model.RefDecode Proofs.RefDecode.

(* reading a big-endian element is reading its byte-reversal as little-endian *)
Theorem C06_int_be_le : forall (s : bool) (n : N) (bs : bytes),
  dec_int BE s n (rev bs) = dec_int LE s n bs.
Proof. exact int_be_le. Qed.
Print Assumptions C06_int_be_le.

(* the decoded value lies in the range of the type (signed two's complement or unsigned, n bytes) *)
Theorem C06_int_range : forall (o : order) (s : bool) (n : N) (bs : bytes),
  byte_ok bs = true -> length bs = N.to_nat n -> 0 < n ->
  (int_lo s n <= dec_int o s n bs <= int_hi s n)%Z.
Proof. exact int_range. Qed.
Print Assumptions C06_int_range.

(* dec_int inverts the format's encoding on every value of the type ... *)
Theorem C06_int_roundtrip : forall (o : order) (s : bool) (n : N) (v : Z),
  0 < n -> (int_lo s n <= v <= int_hi s n)%Z ->
  dec_int o s n (enc_int o s n v) = v.
Proof. exact int_roundtrip. Qed.
Print Assumptions C06_int_roundtrip.

(* ... and the encoding inverts dec_int on every well-formed element: the model is a bijection, so a value the
   reference library printed determines the element bytes and vice versa *)
Theorem C06_int_enc_dec : forall (o : order) (s : bool) (n : N) (bs : bytes),
  byte_ok bs = true -> length bs = N.to_nat n -> 0 < n ->
  enc_int o s n (dec_int o s n bs) = bs.
Proof. exact int_enc_dec. Qed.
Print Assumptions C06_int_enc_dec.

(* strings: decoding a padded field gives back the string, for each of the three paddings *)
Theorem C06_string_pad : forall (p : strpad) (size : N) (s : bytes),
  representable p size s = true -> dec_string p size (enc_string p size s) = s.
Proof. exact string_roundtrip. Qed.
Print Assumptions C06_string_pad.

(* null-terminated: the result has no NUL, is a prefix of the field, and stops at a NUL or at the field's end *)
Theorem C06_string_pad_nullterm : forall (size : N) (bs : bytes),
  no_byte 0 (dec_string NullTerm size bs) = true /\
  exists r, firstn_N (N.to_nat size) bs = dec_string NullTerm size bs ++ r /\ (r = [] \/ exists r', r = 0 :: r').
Proof. exact string_nullterm. Qed.
Print Assumptions C06_string_pad_nullterm.

(* null-padded / space-padded: only trailing padding is removed and none is left *)
Theorem C06_string_pad_nullpad : forall (size : N) (bs : bytes), exists k,
  firstn_N (N.to_nat size) bs = dec_string NullPad size bs ++ repeat 0 k /\
  last_not 0 (dec_string NullPad size bs) = true.
Proof. exact string_nullpad. Qed.
Print Assumptions C06_string_pad_nullpad.

Theorem C06_string_pad_spacepad : forall (size : N) (bs : bytes), exists k,
  firstn_N (N.to_nat size) bs = dec_string SpacePad size bs ++ repeat 32 k /\
  last_not 32 (dec_string SpacePad size bs) = true.
Proof. exact string_spacepad. Qed.
Print Assumptions C06_string_pad_spacepad.

(* ---- known findings shown on the model of the code as it is (attribute.go ReadValue at the pinned commit) ---- *)

(* the full statement for 32/64-bit integer attributes (Model.RefDecode.attr_int_full): reader o s n bs = dec_int o s n bs
   for every well-formed element.  The pinned reader refutes it; so does the reader repaired for byte order. *)
Theorem C06_attr_int_full_refuted : ~ attr_int_full go_attr_int_pinned.
Proof. exact attr_pinned_full_refuted. Qed.
Print Assumptions C06_attr_int_full_refuted.

Theorem C06_attr_int_full_after_fix_refuted : ~ attr_int_full go_attr_int_fixed.
Proof. exact attr_fixed_full_refuted. Qed.
Print Assumptions C06_attr_int_full_after_fix_refuted.

(* it holds for little-endian signed attributes ... *)
Theorem C06_attr_int_partial : forall n bs, go_attr_int_pinned LE true n bs = dec_int LE true n bs.
Proof. exact attr_pinned_ok_le_signed. Qed.
Print Assumptions C06_attr_int_partial.

(* ... and fails for big-endian ones (KNOWN-FINDING C06-attr-byte-order-ignored; repaired by
   notes/fixes/c06-attribute-byte-order.patch) ... *)
Theorem C06_attr_byte_order_refuted :
  exists bs, byte_ok bs = true /\ length bs = 4%nat /\ go_attr_int_pinned BE true 4 bs <> dec_int BE true 4 bs.
Proof. exact attr_pinned_byte_order_refuted. Qed.
Print Assumptions C06_attr_byte_order_refuted.

(* ... and for unsigned ones, before and after that repair (KNOWN-FINDING C06-attr-unsigned-as-signed: the
   existing tests pin int32/int64 results for datatypes whose sign bit is clear) *)
Theorem C06_attr_unsigned_refuted :
  exists bs, byte_ok bs = true /\ length bs = 4%nat /\
    go_attr_int_pinned LE false 4 bs <> dec_int LE false 4 bs /\ go_attr_int_fixed LE false 4 bs <> dec_int LE false 4 bs.
Proof. exact attr_unsigned_refuted. Qed.
Print Assumptions C06_attr_unsigned_refuted.
