(* C06 at message level, for ALL byte strings: the reader's parsers against the format specification.

   Files written by the reference HDF5 library conform to the HDF5 File Format Specification, so "what the reader
   returns without error equals what the reference library reports; unsupported features are errors, never other
   values" becomes, per message type:

       for every byte string bs and every size-of-offsets / size-of-lengths:
       if the STRICT specification decoder (Spec/FormatMsg.v, Spec/Format.v; written from the specification) accepts bs
       with logical value s, then the reader model (Model/Codec*.v dec_X; each tied to the Go Parse* function on every
       run of C11 / C07, malformed inputs included) returns Err, or Ok v with v agreeing with s on every field the
       reader returns - and never Panic                                  ([err_or (agree s) (dec_X bs)]).

   Three repairs found by these theorems are in notes/fixes (c06-superblock-sizes, c06-attribute-v2-padding,
   c06-pipeline-v2-filter-name).  The three models carry a boolean switch (dec_superblock_gen, dec_attribute_gen,
   dec_pipeline_gen: false = the code before the repair, true = the repaired code = dec_superblock / dec_attribute /
   dec_pipeline); the ties read from the source tree under test which variant it implements.  The positive theorems are
   stated for the repaired variant (or for both), the old behaviour stays stated as [_refuted] for the variant [false].

   Where that statement is FALSE for the faithful reader model there is a [_refuted] theorem with the witness bytes
   (a conformant message the reader decodes, without error, to a different value), and the positive theorem carries
   the hypothesis that names the excluded class. *)
From HV Require Import Base.Prelude Base.Outcome Base.Bytes Spec.Parse Spec.Format Spec.FormatMsg
  Model.CodecMsg Model.CodecType Model.CodecLink Model.CodecAttr Model.CodecSuper Model.CodecFilter
  Proofs.ReaderSpecBase Proofs.ReaderSpecDataspace Proofs.ReaderSpecLayout Proofs.ReaderSpecLink Proofs.ReaderSpecSuper Proofs.ReaderSpecAttr Proofs.ReaderSpecType Proofs.ReaderSpecAttrFrame Proofs.ReaderSpecSuperOk Proofs.ReaderSpecInfo Proofs.ReaderSpecTypeAll Proofs.ReaderSpecSuperRepaired Proofs.ReaderSpecPipeline.

(* ------------------------------------------------------------------ dataspace (versions 1 and 2; scalar, simple, null;
   maximum extents).  The reader is not told the size of lengths: it infers 8- or 4-byte extents from the message length.
   Proved correct for sizes 4 and 8, including version 1 object headers where the message is zero-padded to a multiple of
   8 bytes (pad_ok). *)
Theorem C06_reader_dataspace : forall (lsz : nat) (pad_ok : bool) (bs : bytes) (s : dataspace_spec),
  lsz = 4%nat \/ lsz = 8%nat ->
  spec_dec_dataspace lsz pad_ok bs = Ok s ->
  simple_rank0 s = false ->
  err_or (ds_agree s) (dec_dataspace bs).
Proof. exact dataspace_reader_spec. Qed.
Print Assumptions C06_reader_dataspace.

(* size of lengths 2: two 2-byte extents (3, 5) are read as one 4-byte extent 327683 and a second extent 0 *)
Theorem C06_reader_dataspace_lsz2_refuted :
  spec_dec_dataspace 2 true dataspace_lsz2_witness =
    Ok {| dss_version := 1; dss_type := 1; dss_dims := [3; 5]; dss_maxdims := None |} /\
  dec_dataspace dataspace_lsz2_witness =
    Ok {| dsp_version := 1; dsp_type := 1; dsp_dims := [327683; 0]; dsp_maxdims := None |}.
Proof. exact dataspace_lsz2_refuted. Qed.
Print Assumptions C06_reader_dataspace_lsz2_refuted.

(* version 2 "simple" with rank 0 (the excluded class simple_rank0; never written by the reference library, which turns
   rank 0 into a scalar dataspace): reported as scalar *)
Theorem C06_reader_dataspace_simple_rank0_refuted :
  spec_dec_dataspace 8 false [2; 0; 0; 1] =
    Ok {| dss_version := 2; dss_type := 1; dss_dims := []; dss_maxdims := None |} /\
  dec_dataspace [2; 0; 0; 1] =
    Ok {| dsp_version := 2; dsp_type := 0; dsp_dims := [1]; dsp_maxdims := None |}.
Proof. exact dataspace_simple_rank0_refuted. Qed.
Print Assumptions C06_reader_dataspace_simple_rank0_refuted.

(* ------------------------------------------------------------------ data layout version 3: compact (size, data),
   contiguous (address, size), chunked (B-tree address, chunk dimensions incl. the element size), for every valid
   size of offsets / lengths and superblock version < 4 *)
Theorem C06_reader_layout : forall (osz lsz : nat) (sbver : N) (pad_ok : bool) (bs : bytes) (L : layout_spec),
  size_ok (N.of_nat osz) = true -> size_ok (N.of_nat lsz) = true -> sbver < 4 ->
  spec_dec_layout osz lsz pad_ok bs = Ok L ->
  err_or (ly_agree L) (dec_layout (sb_of sbver osz lsz) bs).
Proof. exact layout_reader_spec. Qed.
Print Assumptions C06_reader_layout.

(* ------------------------------------------------------------------ datatype, classes 0 (fixed point), 1 (floating point),
   3 (string): for every message of bytes (< 256) with that class nibble which the strict specification decoder accepts, the
   reader returns Ok (never an error, never a panic) with the same class, version and size, and the class bit field from
   which byte order, padding bits, sign / mantissa normalisation / sign location / string padding / character set are read
   (dt_agree).  The property bytes (bit offset, precision, exponent and mantissa layout, bias) are handed back raw. *)
Theorem C06_reader_datatype_fixed_float_string : forall (pad_ok : bool) (bs : bytes) (t : dtype) (tg : list tag),
  bytes_ok bs = true ->
  dt_class_nibble bs = 0 \/ dt_class_nibble bs = 1 \/ dt_class_nibble bs = 3 ->
  spec_dec_datatype strict pad_ok bs = Ok (t, tg) ->
  exists v, dec_datatype bs = Ok v /\ dt_agree t v.
Proof. exact datatype_reader_spec. Qed.
Print Assumptions C06_reader_datatype_fixed_float_string.

(* ------------------------------------------------------------------ symbol table message: the reader always takes two
   8-byte addresses; right for 8-byte offsets, an error (message shorter than 16 bytes) for smaller ones *)
Theorem C06_reader_symtab : forall (osz : nat) (pad_ok : bool) (bs : bytes) (s : N * N),
  size_ok (N.of_nat osz) = true ->
  spec_dec_symtab osz pad_ok bs = Ok s ->
  err_or (st_agree s) (dec_symtab false bs).
Proof. exact symtab_reader_spec. Qed.
Print Assumptions C06_reader_symtab.

(* ------------------------------------------------------------------ link message: flags, optional link type / creation
   order / character set, name-length width 1/2/4/8, name; hard link address, soft link target; for every size of
   offsets *)
Theorem C06_reader_link : forall (osz : nat) (pad_ok : bool) (bs : bytes) (l : link_spec) (tg : list tag),
  spec_dec_link strict osz pad_ok bs = Ok (l, tg) ->
  err_or (lk_agree l) (dec_link (N.of_nat osz) bs).
Proof. exact link_reader_spec. Qed.
Print Assumptions C06_reader_link.

(* ------------------------------------------------------------------ superblock: REFUTED unless both sizes are 8.
   Version 2/3: the reader takes byte 9 (size of offsets) as a flags byte, byte 10 (size of lengths) as the size of
   offsets and sets the size of lengths to 8.  Version 0: root group addresses are read at the fixed file positions 64,
   80, 88, which is where they are for 8-byte offsets only.  Each witness is accepted by the strict specification decoder
   (lookup3 checksum included) and decoded by the reader WITHOUT error to other values
   (views: version, size of offsets, size of lengths, base address, root group address). *)
Theorem C06_reader_superblock_v2_sizes_refuted :
  spec_view sb2_witness_8_4 = Ok (2, 8, 4, 0, 48) /\
  reader_view sb2_witness_8_4 = Ok (2, 4, 8, 0, 4294967295).
Proof. exact superblock_v2_sizes_refuted. Qed.
Print Assumptions C06_reader_superblock_v2_sizes_refuted.

Theorem C06_reader_superblock_v2_lensize_refuted :
  spec_view sb2_witness_4_4 = Ok (3, 4, 4, 0, 48) /\
  reader_view sb2_witness_4_4 = Ok (3, 4, 8, 0, 48).
Proof. exact superblock_v2_lensize_refuted. Qed.
Print Assumptions C06_reader_superblock_v2_lensize_refuted.

Theorem C06_reader_superblock_v0_offsets_refuted :
  spec_view sb0_witness_4 = Ok (0, 4, 4, 0, 96) /\
  reader_view sb0_witness_4 = Ok (0, 4, 4, 0, 0).
Proof. exact superblock_v0_offsets_refuted. Qed.
Print Assumptions C06_reader_superblock_v0_offsets_refuted.

(* ------------------------------------------------------------------ attribute message: REFUTED for version 2.
   The reader pads name / datatype / dataspace to multiples of 8 in versions 1 AND 2; the specification pads in version 1
   only.  The witness (attribute "a", 1-byte integer, dataspace [16], 16 data bytes) is accepted by the strict
   specification decoder; the reader returns without error another datatype, a scalar dataspace and 6 data bytes. *)
Theorem C06_reader_attribute_v2_padding_refuted :
  spec_dec_attribute strict 4 false attr_v2_witness =
    Ok ({| as_version := 2; as_cset := 0; as_name := [97]; as_dtype := DFixed 1 1 0 0 0 false 0 8;
           as_space := {| dss_version := 2; dss_type := 1; dss_dims := [16]; dss_maxdims := None |};
           as_data := [7; 7; 2; 0; 0; 0; 0; 0; 0; 0; 1; 2; 3; 4; 5; 6] |}, []) /\
  dec_attribute_gen false false attr_v2_witness =
    Ok {| atp_name := [97];
          atp_dt := {| dt_class := 0; dt_version := 0; dt_size := 16908296; dt_cbf := 0; dt_props := [0; 1; 16; 0] |};
          atp_ds := {| dsp_version := 2; dsp_type := 0; dsp_dims := [1]; dsp_maxdims := None |};
          atp_data := Some [1; 2; 3; 4; 5; 6] |}.
Proof. exact attribute_v2_padding_refuted. Qed.
Print Assumptions C06_reader_attribute_v2_padding_refuted.

(* ------------------------------------------------------------------ attribute message versions 1 and 3: framing.
   version | reserved | name size | datatype size | dataspace size | [v3: character set] | name | datatype | dataspace |
   data; name / datatype / dataspace padded to multiples of 8 bytes in version 1 (the reader's uint16 (s+7)&^7 is proved
   equal to the specification's rounding for messages shorter than 65536 bytes = the object header's 16-bit message size).
   at_agree: same name; dataspace agrees (ds_agree); datatype agrees (dt_agree) when of class 0 / 1 / 3; the data the reader
   hands back (the rest of the message, so including up to 7 bytes of object header padding) starts with the
   specification's data bytes. *)
Theorem C06_reader_attribute_v1 : forall (rep : bool) (lsz : nat) (pad_ok : bool) (bs : bytes) (a : attribute_spec) (tg : list tag),
  bytes_ok bs = true -> blen bs < 65536 ->
  lsz = 4%nat \/ lsz = 8%nat ->
  spec_dec_attribute strict lsz pad_ok bs = Ok (a, tg) ->
  index bs 0 = Ok 1 ->
  simple_rank0 (as_space a) = false ->
  err_or (at_agree a) (dec_attribute_gen rep false bs).
Proof. exact attribute_v1_reader_spec. Qed.
Print Assumptions C06_reader_attribute_v1.

Theorem C06_reader_attribute_v3 : forall (rep : bool) (lsz : nat) (pad_ok : bool) (bs : bytes) (a : attribute_spec) (tg : list tag),
  bytes_ok bs = true -> blen bs < 65536 ->
  lsz = 4%nat \/ lsz = 8%nat ->
  spec_dec_attribute strict lsz pad_ok bs = Ok (a, tg) ->
  index bs 0 = Ok 3 ->
  simple_rank0 (as_space a) = false ->
  err_or (at_agree a) (dec_attribute_gen rep false bs).
Proof. exact attribute_v3_reader_spec. Qed.
Print Assumptions C06_reader_attribute_v3.

(* ------------------------------------------------------------------ superblock with size of offsets = size of lengths = 8,
   for the UNREPAIRED reader (dec_superblock_gen false): the class the refutations above leave.  For every file image the strict specification decoder accepts (signature, version,
   reserved bytes, K values, flags, addresses, root symbol table entry / lookup3 checksum) the reader returns an error or the
   same version, sizes, little-endian byte order and root group address; versions 2/3: base address and superblock extension
   address; version 0: the cached B-tree / local heap addresses when the root entry's cache type is 1 (sb_agree).
   Version 1 superblocks are an error for the reader. *)
Theorem C06_reader_superblock_v2_v3 : forall (bs : bytes) (s : superblock_spec) (tg : list tag) (r : bytes),
  spec_dec_superblock strict bs = Ok (s, tg, r) ->
  sbs_version s = 2 \/ sbs_version s = 3 -> sbs_O s = 8 -> sbs_L s = 8 ->
  err_or (sb_agree s) (dec_superblock_gen false bs).
Proof. exact superblock_v23_reader_spec. Qed.
Print Assumptions C06_reader_superblock_v2_v3.

Theorem C06_reader_superblock_v0 : forall (bs : bytes) (s : superblock_spec) (tg : list tag) (r : bytes),
  spec_dec_superblock strict bs = Ok (s, tg, r) ->
  sbs_version s = 0 -> sbs_O s = 8 -> sbs_L s = 8 ->
  err_or (sb_agree s) (dec_superblock_gen false bs).
Proof. exact superblock_v0_reader_spec. Qed.
Print Assumptions C06_reader_superblock_v0.

(* version 0: the base address is reported as 0 whatever the superblock says (outside sb_agree for version 0) *)
Theorem C06_reader_superblock_v0_base_refuted :
  spec_view (sb0_base 512) = Ok (0, 8, 8, 512, 96) /\ reader_view (sb0_base 512) = Ok (0, 8, 8, 0, 96).
Proof. exact superblock_v0_base_refuted. Qed.
Print Assumptions C06_reader_superblock_v0_base_refuted.

(* ------------------------------------------------------------------ datatype, all eleven classes (nested descriptions
   included): class, version and size of whatever the reader returns are the specification's; never a panic *)
Theorem C06_reader_datatype_header : forall (pad_ok : bool) (bs : bytes) (t : dtype) (tg : list tag),
  bytes_ok bs = true ->
  spec_dec_datatype strict pad_ok bs = Ok (t, tg) ->
  err_or (dt_header_agree t) (dec_datatype bs).
Proof. exact datatype_header_reader_spec. Qed.
Print Assumptions C06_reader_datatype_header.

(* ------------------------------------------------------------------ link info message: flags, maximum creation index,
   fractal heap / name B-tree / creation order B-tree addresses, for every valid size of offsets *)
Theorem C06_reader_linkinfo : forall (osz : nat) (sbver lsz : N) (pad_ok : bool) (bs : bytes) (s : linkinfo_spec),
  size_ok (N.of_nat osz) = true ->
  spec_dec_linkinfo osz pad_ok bs = Ok s ->
  err_or (li_agree s)
         (dec_linkinfo {| sb_version := sbver; sb_offsize := N.of_nat osz; sb_lensize := lsz; sb_bigendian := false |} bs).
Proof. exact linkinfo_reader_spec. Qed.
Print Assumptions C06_reader_linkinfo.

(* ------------------------------------------------------------------ attribute info message of exactly the specified size
   (version 2 object headers do not pad).  With flag bit 0 (creation order tracked) the reader skips four bytes for the
   2-byte maximum creation index and so finds the message too short: an error, not another value. *)
Theorem C06_reader_attrinfo : forall (osz : nat) (sbver lsz : N) (bs : bytes) (s : attrinfo_spec),
  size_ok (N.of_nat osz) = true ->
  spec_dec_attrinfo osz false bs = Ok s ->
  err_or (ai_agree s)
         (dec_attrinfo {| sb_version := sbver; sb_offsize := N.of_nat osz; sb_lensize := lsz; sb_bigendian := false |} bs).
Proof. exact attrinfo_reader_spec. Qed.
Print Assumptions C06_reader_attrinfo.

(* ... followed by zero padding (only possible in a version 1 object header, where the reference library never puts this
   message) the same misreading gives other addresses *)
Theorem C06_reader_attrinfo_padded_refuted :
  spec_dec_attrinfo 8 true attrinfo_padded_witness =
    Ok {| ais_flags := 1; ais_maxcidx := Some 5; ais_heap := 1000; ais_btname := 2000; ais_btorder := None |} /\
  dec_attrinfo {| sb_version := 2; sb_offsize := 8; sb_lensize := 8; sb_bigendian := false |} attrinfo_padded_witness =
    Ok {| ai_version := 0; ai_flags := 1; ai_heap := 562949953421312000; ai_btname := 0; ai_maxcidx := 5; ai_btorder := 0 |}.
Proof. exact attrinfo_padded_refuted. Qed.
Print Assumptions C06_reader_attrinfo_padded_refuted.

(* ------------------------------------------------------------------ attribute message version 2 for the REPAIRED reader
   (dec_attribute_gen true = dec_attribute: the code with notes/fixes/c06-attribute-v2-padding.patch): the statement refuted
   above for the variant [false] holds once version 2 is no longer padded. *)
Theorem C06_reader_attribute_is_repaired_variant : forall (bigendian : bool) (data : bytes),
  dec_attribute bigendian data = dec_attribute_gen true bigendian data.
Proof. reflexivity. Qed.
Print Assumptions C06_reader_attribute_is_repaired_variant.

Theorem C06_reader_attribute_v2_repaired : forall (lsz : nat) (pad_ok : bool) (bs : bytes) (a : attribute_spec) (tg : list tag),
  bytes_ok bs = true -> blen bs < 65536 ->
  lsz = 4%nat \/ lsz = 8%nat ->
  spec_dec_attribute strict lsz pad_ok bs = Ok (a, tg) ->
  index bs 0 = Ok 2 ->
  simple_rank0 (as_space a) = false ->
  err_or (at_agree a) (dec_attribute false bs).
Proof. exact attribute_v2_repaired_reader_spec. Qed.
Print Assumptions C06_reader_attribute_v2_repaired.

(* ------------------------------------------------------------------ superblock for the REPAIRED reader
   (dec_superblock_gen true = dec_superblock: the code with notes/fixes/c06-superblock-sizes.patch): for EVERY size of
   offsets / lengths the format allows - no hypothesis on the sizes any more. *)
Theorem C06_reader_superblock_is_repaired_variant : forall (file : bytes),
  dec_superblock file = dec_superblock_gen true file.
Proof. reflexivity. Qed.
Print Assumptions C06_reader_superblock_is_repaired_variant.

Theorem C06_reader_superblock_v2_v3_repaired : forall (bs : bytes) (s : superblock_spec) (tg : list tag) (r : bytes),
  spec_dec_superblock strict bs = Ok (s, tg, r) ->
  sbs_version s = 2 \/ sbs_version s = 3 ->
  err_or (sb_agree s) (dec_superblock bs).
Proof. exact superblock_v23_repaired_reader_spec. Qed.
Print Assumptions C06_reader_superblock_v2_v3_repaired.

Theorem C06_reader_superblock_v0_repaired : forall (bs : bytes) (s : superblock_spec) (tg : list tag) (r : bytes),
  spec_dec_superblock strict bs = Ok (s, tg, r) ->
  sbs_version s = 0 ->
  err_or (sb_agree s) (dec_superblock bs).
Proof. exact superblock_v0_repaired_reader_spec. Qed.
Print Assumptions C06_reader_superblock_v0_repaired.

(* the three refutation witnesses under the repaired reader
   (views: version, size of offsets, size of lengths, base, root, cached B-tree, cached heap) *)
Theorem C06_reader_superblock_repaired_witnesses :
  repaired_view sb2_witness_8_4 = Ok (2, 8, 4, 0, 48, 0, 0) /\
  repaired_view sb2_witness_4_4 = Ok (3, 4, 4, 0, 48, 0, 0) /\
  repaired_view sb0_witness_4 = Ok (0, 4, 4, 0, 96, 136, 680).
Proof. exact superblock_repaired_witnesses. Qed.
Print Assumptions C06_reader_superblock_repaired_witnesses.

(* ------------------------------------------------------------------ filter pipeline message version 2: REFUTED for
   user-defined filters (identifier >= 256).  A genuine version 2 message gives such a filter a name-length field and a
   name; the reader reads neither (outside the version 1 layout), so it returns the name length as the flags, drops the
   client data and continues behind the wrong field.  Witness: filter 32000 "lzf" with client data [5].
   With notes/fixes/c06-pipeline-v2-filter-name.patch (dec_pipeline_gen true = dec_pipeline) the witness is decoded as the specification says. *)
Theorem C06_reader_pipeline_v2_userfilter_refuted :
  spec_dec_pipeline strict false pipeline_v2_userfilter_witness =
    Ok ([{| fl_id := 32000; fl_flags := 0; fl_name := [108; 122; 102; 0]; fl_cd := [5] |}], []) /\
  dec_pipeline_gen false pipeline_v2_userfilter_witness =
    Ok {| pl_version := 2; pl_nfilters := 1;
          pl_filters := [{| rf_id := 32000; rf_namelen := 0; rf_flags := 4; rf_ncd := 0; rf_name := []; rf_cd := None |}] |}.
Proof. exact pipeline_v2_userfilter_refuted. Qed.
Print Assumptions C06_reader_pipeline_v2_userfilter_refuted.

Theorem C06_reader_pipeline_is_repaired_variant : forall (data : bytes), dec_pipeline data = dec_pipeline_gen true data.
Proof. reflexivity. Qed.
Print Assumptions C06_reader_pipeline_is_repaired_variant.

Theorem C06_reader_pipeline_v2_userfilter_repaired :
  dec_pipeline pipeline_v2_userfilter_witness =
    Ok {| pl_version := 2; pl_nfilters := 1;
          pl_filters := [{| rf_id := 32000; rf_namelen := 4; rf_flags := 0; rf_ncd := 1; rf_name := [108; 122; 102];
                            rf_cd := Some [5] |}] |}.
Proof. exact pipeline_v2_userfilter_repaired. Qed.
Print Assumptions C06_reader_pipeline_v2_userfilter_repaired.
