(* Property C02, composition with the detailed B-tree v2 (C14) and fractal heap (C15) models.
   Statements only.  Model/AttrCompose.v is the attribute dispatch of Model/Attr.v running on the DETAILED models
   Model/BT2.v and Model/FHeap.v (configuration of the attribute code: 4096-byte node, 65536-byte direct block,
   capacity rule cap_new, 8-byte offsets, delete modes off/immediate); the dense state consists of the BYTES both
   structures were written to, and every call loads them and writes them back in place.

   Reading guide.
     abs_idx s                 the records of B-tree s as the abstract index of Model/Attr.v
     ISim s ix                 the records of s are the canonical images of ix (implies abs_idx s = ix)
     HSim enc h fs hp          FHeap's representation relation R between the concrete heap h and the reference
                               state computed from the ABSTRACT heap hp (a concrete heap does not record which
                               ranges are live, so there is no abstraction FUNCTION on heaps)
     id_live hp id a           the abstract id (offset, length) addresses object a of hp with its length
     params_match P            p_idxcap P = max_records 4096 (= 371), p_hcap P = cap_new 65536 (= 65517),
                               p_maxobj P = 65536, p_ovf_err P = true
     enc                       the attribute message encoder; only len (enc a) = msg_size a is assumed (byte level: C11)
     c_run ... cinit h         replay of history h on the composed model; c_read_msgs = the attribute messages the
                               reader finds (dense: B-tree records in order, heap objects through core's reader)
   No hypothesis on the name hash in the simulation theorems (they hold with or without collisions). *)
From HV Require Import Base.Prelude Model.Attr Model.AttrCompose.
From HV Require Import Proofs.AttrComposeIdx Proofs.AttrComposeHeap Proofs.AttrComposeBt Proofs.AttrCompose Proofs.Attr.
From HV Require Model.BT2 Model.FHeap Proofs.FHeap.

(* ---- 0. the parameter equations hold for the current source tree ---- *)
Theorem C02_compose_params_go : forall base, params_match (go_params base).
Proof. exact params_match_go. Qed.
Print Assumptions C02_compose_params_go.

(* ---- 1. index: BT2 operations simulate the abstract index operations; abs_idx commutes ---- *)
Theorem C02_compose_idx_abs : forall s ix, ISim s ix -> abs_idx s = ix.
Proof. exact ISim_abs. Qed.
Print Assumptions C02_compose_idx_abs.

Theorem C02_compose_idx_search : forall s ix n, ISim s ix ->
  BT2.search_record s n = option_map id8 (idx_search (BT2.jenkins n) ix).
Proof. exact search_sim. Qed.
Print Assumptions C02_compose_idx_search.

Theorem C02_compose_idx_insert : forall P s ix n id, ISim s ix -> id_ok id ->
  p_idxcap P = BT2.max_records (BT2.node_size s) ->
  match idx_insert P (BT2.jenkins n, id) ix with
  | Some ix' => exists s', BT2.insert_record s n (unle (id8 id)) = (s', true) /\ ISim s' ix' /\
                           BT2.recs s' = BT2.insert_sorted (BT2.recs s) (BT2.jenkins n, id7 id)
  | None => BT2.insert_record s n (unle (id8 id)) = (s, false)
  end.
Proof. exact insert_sim. Qed.
Print Assumptions C02_compose_idx_insert.

Theorem C02_compose_idx_update : forall s ix n id, ISim s ix -> id_ok id ->
  match idx_update (BT2.jenkins n) id ix with
  | Some ix' => exists s', BT2.update_record s n (unle (id8 id)) = (s', true) /\ ISim s' ix' /\
                           List.length (BT2.recs s') = List.length (BT2.recs s)
  | None => BT2.update_record s n (unle (id8 id)) = (s, false)
  end.
Proof. exact update_sim. Qed.
Print Assumptions C02_compose_idx_update.

Theorem C02_compose_idx_delete : forall s ix n, ISim s ix ->
  match idx_delete (BT2.jenkins n) ix with
  | Some ix' => exists s', BT2.delete_with_rebalancing s n = (s', true) /\ ISim s' ix'
  | None => BT2.delete_with_rebalancing s n = (s, false)
  end.
Proof. exact AttrComposeIdx.delete_sim. Qed.
Print Assumptions C02_compose_idx_delete.

(* the index survives WriteAt + LoadFromFile into a fresh object (from C14's load_after_store) *)
Theorem C02_compose_idx_persist : forall bf bn ba s, WInv bf bn s -> BT2.loaded_hdr s = ba -> ba <> 0 ->
  exists f', BT2.write_in_place OSZ (BT2.mkW s bf bn) = Some (BT2.mkW (BT2.with_root s (BT2.loaded_leaf s)) f' bn) /\
    exists s', BT2.load_from OSZ (BT2.new_bt NODE) f' ba = BT2.LOk s' /\ BT2.recs s' = BT2.recs s /\
               WInv f' bn s' /\ BT2.loaded_hdr s' = ba.
Proof. exact bt_store. Qed.
Print Assumptions C02_compose_idx_persist.

(* ---- 2. heap: FHeap operations simulate the abstract heap operations ---- *)
Theorem C02_compose_heap_insert_ok : forall enc,
  (forall a sz, encode_attr a = EncOk sz -> FHeap.len (enc a) = sz) ->
  forall P, params_match P -> forall h fs hp a sz hp' id pk,
  HSim enc h fs hp -> encode_attr a = EncOk sz -> heap_insert P hp a = HOk hp' id ->
  exists h', FHeap.insert FHeap.cap_new h (enc a) pk = (h', FHeap.Ok (id8 id)) /\ HSim enc h' fs hp' /\ id_ok id /\
             id = (hfree hp, sz) /\ hobjs hp' = hobjs hp ++ [(hfree hp, a)] /\ hfree hp' = hfree hp + sz.
Proof. exact insert_sim_ok. Qed.
Print Assumptions C02_compose_heap_insert_ok.

Theorem C02_compose_heap_insert_err : forall enc,
  (forall a sz, encode_attr a = EncOk sz -> FHeap.len (enc a) = sz) ->
  forall P, params_match P -> forall h hp a sz pk, encode_attr a = EncOk sz ->
  heap_insert P hp a = HErr -> FHeap.insert FHeap.cap_new h (enc a) pk = (h, FHeap.Err).
Proof. exact insert_sim_err. Qed.
Print Assumptions C02_compose_heap_insert_err.

(* heap full: the in-memory heap goes to an indirect root, and such a heap is refused by WriteToFile / WriteAt *)
Theorem C02_compose_heap_insert_full : forall enc,
  (forall a sz, encode_attr a = EncOk sz -> FHeap.len (enc a) = sz) ->
  forall P h fs hp a sz pk, params_match P -> HSim enc h fs hp -> encode_attr a = EncOk sz ->
  heap_insert P hp a = HFull ->
  FHeap.h_ind (fst (FHeap.insert FHeap.cap_new h (enc a) pk)) <> None.
Proof. exact insert_sim_full. Qed.
Print Assumptions C02_compose_heap_insert_full.

Theorem C02_compose_heap_full_refused : forall h fs, FHeap.h_ind h <> None -> FHeap.store h fs = FHeap.Err.
Proof. exact store_ind. Qed.
Print Assumptions C02_compose_heap_full_refused.

Theorem C02_compose_heap_get : forall enc h fs hp id a, HSim enc h fs hp -> id_live hp id a ->
  FHeap.get h (id8 id) = FHeap.Ok (enc a).
Proof. exact get_sim. Qed.
Print Assumptions C02_compose_heap_get.

Theorem C02_compose_heap_overwrite : forall enc,
  (forall a sz, encode_attr a = EncOk sz -> FHeap.len (enc a) = sz) ->
  forall h fs hp id old a sz hp', HSim enc h fs hp -> id_live hp id old ->
  encode_attr a = EncOk sz -> sz = snd id -> heap_overwrite hp id a = Some hp' ->
  exists h', FHeap.overwrite h (id8 id) (enc a) = (h', FHeap.Ok tt) /\ HSim enc h' fs hp'.
Proof. exact overwrite_sim. Qed.
Print Assumptions C02_compose_heap_overwrite.

Theorem C02_compose_heap_delete : forall enc h fs hp id old hp', HSim enc h fs hp -> id_live hp id old ->
  heap_delete hp id = Some hp' ->
  exists h', FHeap.delete h (id8 id) = (h', FHeap.Ok tt) /\ HSim enc h' fs hp'.
Proof. exact AttrComposeHeap.delete_sim. Qed.
Print Assumptions C02_compose_heap_delete.

(* write-out + load (between two calls): relation kept, and core's reader finds every live object in the bytes *)
Theorem C02_compose_heap_persist : forall enc h fs hp, HSim enc h fs hp ->
  exists fs', FHeap.store h fs = FHeap.Ok (FHeap.set_addrs h 2048 2194, fs', 2048) /\
              FHeap.load BLOCK (FHeap.f_bytes fs') 2048 = FHeap.Ok (FHeap.reloaded BLOCK h) /\
              HSim enc (FHeap.reloaded BLOCK h) fs' hp /\
              forall id a, id_live hp id a -> FHeap.core_read (FHeap.f_bytes fs') 2048 (id7 id) = FHeap.Ok (enc a).
Proof. exact store_load_sim. Qed.
Print Assumptions C02_compose_heap_persist.

(* ---- 3. the composed theorem: every history, same answers and same listing as the abstract model ---- *)
Theorem C02_compose_simulation : forall P enc rebalance delay pick, params_match P ->
  (forall a sz, encode_attr a = EncOk sz -> FHeap.len (enc a) = sz) ->
  forall h cst rs, c_run P enc rebalance delay pick cinit h = (cst, rs) ->
  rs = snd (run BT2.jenkins P init h) /\
  c_read_msgs enc cst = option_map (map enc) (read_attrs (fst (run BT2.jenkins P init h))).
Proof. exact compose_simulation. Qed.
Print Assumptions C02_compose_simulation.

(* the same with ParseAttributeMessage applied by the reader, under the round trip of the message codec (the
   statement of C11; no witness for that hypothesis is given here: the primary theorem is the message-level one) *)
Theorem C02_compose_simulation_parsed : forall P enc dec rebalance delay pick, params_match P ->
  (forall a sz, encode_attr a = EncOk sz -> FHeap.len (enc a) = sz) ->
  (forall a sz, encode_attr a = EncOk sz -> dec (enc a) = Some a) ->
  forall h cst rs, c_run P enc rebalance delay pick cinit h = (cst, rs) ->
  rs = snd (run BT2.jenkins P init h) /\ c_read_attrs dec cst = read_attrs (fst (run BT2.jenkins P init h)).
Proof. exact compose_simulation_parsed. Qed.
Print Assumptions C02_compose_simulation_parsed.

(* ---- 4. C02_refines_map for the composed model ---- *)
Theorem C02_compose_refines_map : forall P enc rebalance delay pick, params_match P ->
  (forall a sz, encode_attr a = EncOk sz -> FHeap.len (enc a) = sz) ->
  forall h cst rs, NoHashCollision BT2.jenkins (names h) ->
  c_run P enc rebalance delay pick cinit h = (cst, rs) ->
  exists l, c_read_msgs enc cst = Some (map enc l) /\ NoDup (map aname l) /\
            (forall n, attr_get l n = sp_get (run_spec [] h rs) n) /\ results_ok [] h rs.
Proof. exact compose_refines_map. Qed.
Print Assumptions C02_compose_refines_map.

Theorem C02_compose_refines_map_go : forall base enc rebalance delay pick,
  (forall a sz, encode_attr a = EncOk sz -> FHeap.len (enc a) = sz) ->
  forall h cst rs, NoHashCollision BT2.jenkins (names h) ->
  c_run (go_params base) enc rebalance delay pick cinit h = (cst, rs) ->
  exists l, c_read_msgs enc cst = Some (map enc l) /\ NoDup (map aname l) /\
            (forall n, attr_get l n = sp_get (run_spec [] h rs) n) /\ results_ok [] h rs.
Proof. exact compose_refines_map_go. Qed.
Print Assumptions C02_compose_refines_map_go.

(* ---- 5. the hypothesis on the encoder is satisfiable ---- *)
Theorem C02_compose_encoder_exists :
  forall a sz, encode_attr a = EncOk sz -> FHeap.len (enc_zeros a) = sz.
Proof. exact enc_zeros_len. Qed.
Print Assumptions C02_compose_encoder_exists.
