(* C17 - truncated files and failing I/O produce errors, never different answers.
   Only statements proved elsewhere (Proofs/IOProg*.v), restated by name.

   run0 f p                      result of reader program p on the intact file image f with working I/O
   run (firstn n f) fl c p       result on the file cut to its first n bytes, under the fault oracle fl
                                 (fl i = what the i-th I/O call suffers: nothing, EIO, a short read)
   strict p                      p tolerates a short read only where the count is checked against every decoded byte
                                 and drops an error only where that cannot change the answer (Model/IOProg.v) *)
From HV Require Import Base.Prelude Base.Outcome Base.Bytes Model.IOProg Proofs.IOProg.

(* ---- generic: every program of the strict fragment, every file, every cut, every fault pattern ---- *)

Theorem C17_strict_refines : forall A (p : prog A), strict p ->
  forall (f : bytes) (n : nat) (fl : oracle) (c : nat),
    run0 f p = Panic \/ fst (run (firstn n f) fl c p) = run0 f p \/ fst (run (firstn n f) fl c p) = Err.
Proof. exact strict_refines. Qed.
Print Assumptions C17_strict_refines.

Theorem C17_trunc_monotone : forall A (p : prog A), strict p -> forall f n, (n <= length f)%nat ->
  run0 f p <> Panic -> run0 (firstn n f) p = run0 f p \/ run0 (firstn n f) p = Err.
Proof. exact trunc_monotone. Qed.
Print Assumptions C17_trunc_monotone.

Theorem C17_fault_monotone : forall A (p : prog A), strict p -> forall f k ft,
  run0 f p <> Panic ->
  fst (run f (fault_at k ft) 0 p) = run0 f p \/ fst (run f (fault_at k ft) 0 p) = Err.
Proof. exact fault_monotone. Qed.
Print Assumptions C17_fault_monotone.

Theorem C17_no_panic : forall A (p : prog A), strict p -> forall f n fl c,
  run0 f p <> Panic -> fst (run (firstn n f) fl c p) <> Panic.
Proof. exact no_panic. Qed.
Print Assumptions C17_no_panic.

Theorem C17_strict_bind : forall A (p : prog A), strict p -> forall B (g : A -> prog B),
  (forall a, strict (g a)) -> strict (bind p g).
Proof. exact strict_bind. Qed.
Print Assumptions C17_strict_bind.

(* ---- the side conditions are necessary: the pre-fix shapes give a different answer ---- *)

Theorem C17_short_read_unchecked_refuted :
  exists f n, (n <= length f)%nat /\ run0 f short_unchecked <> Panic /\
              run0 (firstn n f) short_unchecked <> run0 f short_unchecked /\
              run0 (firstn n f) short_unchecked <> Err.
Proof. exact trunc_short_refuted. Qed.
Print Assumptions C17_short_read_unchecked_refuted.

Theorem C17_swallowed_member_refuted_trunc :
  exists f n, (n <= length f)%nat /\ run0 f listing_skipping = Ok [1; 2] /\
              run0 (firstn n f) listing_skipping = Ok [1].
Proof. exact trunc_swallow_refuted. Qed.
Print Assumptions C17_swallowed_member_refuted_trunc.

Theorem C17_swallowed_member_refuted_fault :
  exists f k, run0 f listing_skipping = Ok [1; 2] /\
              fst (run f (fault_at k FailIO) 0 listing_skipping) = Ok [2].
Proof. exact fault_swallow_refuted. Qed.
Print Assumptions C17_swallowed_member_refuted_fault.

(* ---- writer side: no dropped error => a failing WriteAt/Sync/Truncate/Close makes the call return an error ---- *)

Theorem C17_write_fault_err : forall A (p : wprog A), wstrict p ->
  forall f fl torn c,
    (exists i, (c <= i)%nat /\ (i < snd (wrun f noflt torn c p))%nat /\ fl i = true) ->
    fst (fst (wrun f fl torn c p)) = Err.
Proof. exact w_fault_err. Qed.
Print Assumptions C17_write_fault_err.

(* what the file holds afterwards: the calls before the failing one applied, the failing write torn, nothing after *)
Theorem C17_write_fault_file : forall A (p : wprog A), wstrict p ->
  forall f fl torn c j,
    (forall i, (c <= i)%nat -> (i < c + j)%nat -> fl i = false) -> fl (c + j)%nat = true ->
    (c + j < snd (wrun f noflt torn c p))%nat ->
    snd (fst (wrun f fl torn c p)) = wfile_upto f p j (torn (c + j)%nat).
Proof. exact w_fault_file. Qed.
Print Assumptions C17_write_fault_file.

Theorem C17_write_dropped_error_refuted :
  exists fl, fl 0%nat = true /\ fst (fst (wrun [] fl (fun _ => 0%nat) 0 w_dropping)) = Ok tt.
Proof. exact w_swallow_refuted. Qed.
Print Assumptions C17_write_dropped_error_refuted.
