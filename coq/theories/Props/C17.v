(* C17 - truncated files and failing I/O produce errors, never different answers.
   Only statements proved elsewhere (Proofs/IOProg*.v), restated by name.

   run0 f p                      result of reader program p on the intact file image f with working I/O
   run (firstn n f) fl c p       result on the file cut to its first n bytes, under the fault oracle fl
                                 (fl i = what the i-th I/O call suffers: nothing, EIO, a short read)
   strict p                      p tolerates a short read only where the count is checked against every decoded byte
                                 and drops an error only where that cannot change the answer (Model/IOProg.v) *)
From HV Require Import Base.Prelude Base.Outcome Base.Bytes Model.IOProg Proofs.IOProg.
From HV Require Import Model.CodecSuper Model.CodecOhdr Model.IOProgReader Proofs.IOProgReader Model.IOProgOpen Proofs.IOProgOpen Proofs.IOProgSub.
From HV Require Import Proofs.IOProgExamples.
From HV Require Import Model.IOProgSlice Proofs.IOProgSlice Proofs.IOProgSliceExamples.

(* ---- generic: every program of the strict fragment, every file, every cut, every fault pattern ---- *)

Theorem C17_strict_refines : forall A (p : prog A), strict p ->
  forall (f : bytes) (n : nat) (fl : oracle) (c : nat),
    run0 f p = Panic \/ fst (run (firstn n f) fl c p) = run0 f p \/ fst (run (firstn n f) fl c p) = Err.
Proof. exact strict_refines. Qed.
Print Assumptions C17_strict_refines.

Theorem C17_trunc_monotone : forall A (p : prog A), strict p -> forall f n, (n <= length f)%nat ->
  run0 f p <> Panic -> run0 (firstn n f) p = run0 f p \/ run0 (firstn n f) p = Err.
Proof. exact trunc_monotone. Qed.
Print Assumptions C17_trunc_monotone.

Theorem C17_fault_monotone : forall A (p : prog A), strict p -> forall f k ft,
  run0 f p <> Panic ->
  fst (run f (fault_at k ft) 0 p) = run0 f p \/ fst (run f (fault_at k ft) 0 p) = Err.
Proof. exact fault_monotone. Qed.
Print Assumptions C17_fault_monotone.

Theorem C17_no_panic : forall A (p : prog A), strict p -> forall f n fl c,
  run0 f p <> Panic -> fst (run (firstn n f) fl c p) <> Panic.
Proof. exact no_panic. Qed.
Print Assumptions C17_no_panic.

Theorem C17_strict_bind : forall A (p : prog A), strict p -> forall B (g : A -> prog B),
  (forall a, strict (g a)) -> strict (bind p g).
Proof. exact strict_bind. Qed.
Print Assumptions C17_strict_bind.

(* ---- the transcribed entry points of the CURRENT reader (Model/IOProgReader.v, Model/IOProgOpen.v) ----
   [sb] ranges over superblocks whose length size passed ReadSuperblock's validation (superblock.go:131), which every
   superblock returned by ReadSuperblock satisfies (C17_superblock_sizes_valid). *)

Theorem C17_superblock_strict : strict p_superblock.
Proof. exact p_superblock_strict. Qed.
Print Assumptions C17_superblock_strict.

Theorem C17_superblock_sizes_valid : forall buf n sb, dec_sb_buf buf n = Ok sb -> valid_size (spp_lensize sb) = true.
Proof. exact dec_sb_buf_valid. Qed.
Print Assumptions C17_superblock_sizes_valid.

(* ReadObjectHeader, header part (versions 1 and 2 with their continuation blocks / chunks) *)
Theorem C17_object_header_strict : forall sb fuel addr, strict (p_ohdr sb fuel addr).
Proof. exact p_ohdr_strict. Qed.
Print Assumptions C17_object_header_strict.

(* Dataset.Attributes / Group.Attributes: compact and dense storage, AttributesErr returned *)
Theorem C17_attributes_strict : forall sb, valid_size (spp_lensize sb) = true ->
  forall fuel addr, strict (api_attributes sb fuel addr).
Proof. exact api_attributes_strict. Qed.
Print Assumptions C17_attributes_strict.

(* Dataset.Read / ReadStrings / ReadCompound: header, then compact / contiguous / chunked raw data *)
Theorem C17_read_strict : forall sb, valid_size (spp_lensize sb) = true ->
  forall fuel addr, strict (api_read_raw sb fuel addr).
Proof. exact api_read_raw_strict. Qed.
Print Assumptions C17_read_strict.

Theorem C17_read_trunc : forall sb, valid_size (spp_lensize sb) = true -> forall fuel addr f n, (n <= length f)%nat ->
  run0 f (api_read_raw sb fuel addr) <> Panic ->
  run0 (firstn n f) (api_read_raw sb fuel addr) = run0 f (api_read_raw sb fuel addr) \/
  run0 (firstn n f) (api_read_raw sb fuel addr) = Err.
Proof. exact api_read_raw_trunc. Qed.
Print Assumptions C17_read_trunc.

Theorem C17_read_fault : forall sb, valid_size (spp_lensize sb) = true -> forall fuel addr f k ft,
  run0 f (api_read_raw sb fuel addr) <> Panic ->
  fst (run f (fault_at k ft) 0 (api_read_raw sb fuel addr)) = run0 f (api_read_raw sb fuel addr) \/
  fst (run f (fault_at k ft) 0 (api_read_raw sb fuel addr)) = Err.
Proof. exact api_read_raw_fault. Qed.
Print Assumptions C17_read_fault.

Theorem C17_attributes_trunc : forall sb, valid_size (spp_lensize sb) = true -> forall fuel addr f n, (n <= length f)%nat ->
  run0 f (api_attributes sb fuel addr) <> Panic ->
  run0 (firstn n f) (api_attributes sb fuel addr) = run0 f (api_attributes sb fuel addr) \/
  run0 (firstn n f) (api_attributes sb fuel addr) = Err.
Proof. exact api_attributes_trunc. Qed.
Print Assumptions C17_attributes_trunc.

Theorem C17_attributes_fault : forall sb, valid_size (spp_lensize sb) = true -> forall fuel addr f k ft,
  run0 f (api_attributes sb fuel addr) <> Panic ->
  fst (run f (fault_at k ft) 0 (api_attributes sb fuel addr)) = run0 f (api_attributes sb fuel addr) \/
  fst (run f (fault_at k ft) 0 (api_attributes sb fuel addr)) = Err.
Proof. exact api_attributes_fault. Qed.
Print Assumptions C17_attributes_fault.

(* ReadObjectHeader as a value: header part strict, attribute part strict-or-marker (AttributesErr) *)
Theorem C17_read_object_header_run : forall sb fuel addr f fl c,
  run f fl c (p_read_object_header sb fuel addr) =
  match run f fl c (p_ohdr sb fuel addr) with
  | (Ok h, c') => match run f fl c' (p_attrs sb (ohp_msgs h)) with
                  | (Ok a, c'') => (Ok (h, Some a), c'')
                  | (Err, c'') => (Ok (h, None), c'')
                  | (Panic, c'') => (Panic, c'')
                  end
  | (Err, c') => (Err, c')
  | (Panic, c') => (Panic, c')
  end.
Proof. exact p_read_object_header_run. Qed.
Print Assumptions C17_read_object_header_run.

(* global heap collection, local heap, symbol table node, group B-tree *)
Theorem C17_global_heap_strict : forall sb fuel addr, strict (p_gheap sb fuel addr).
Proof. exact p_gheap_strict. Qed.
Print Assumptions C17_global_heap_strict.
(* variable-length strings of attributes / compound members: reference -> collection -> object *)
Theorem C17_vlen_string_strict : forall sb fuel ref, strict (api_vlen_string sb fuel ref).
Proof. exact api_vlen_string_strict. Qed.
Print Assumptions C17_vlen_string_strict.
Theorem C17_local_heap_strict : forall sb addr, strict (p_local_heap sb addr).
Proof. exact p_local_heap_strict. Qed.
Print Assumptions C17_local_heap_strict.
Theorem C17_symbol_table_node_strict : forall sb addr, strict (p_snod sb addr).
Proof. exact p_snod_strict. Qed.
Print Assumptions C17_symbol_table_node_strict.
Theorem C17_group_btree_strict : forall sb addr, strict (p_group_btree sb addr).
Proof. exact p_group_btree_strict. Qed.
Print Assumptions C17_group_btree_strict.

(* ---- the remaining read entry points (Model/IOProgSlice.v): hyperslabs, chunk iterator, values behind global heap
   references.  C17_<entry>_damage: on the file cut to its first n bytes (any n), under ANY pattern of failing and short
   I/O calls (fl; in particular fault_at k ft: exactly the k-th call), the call returns the intact answer or an error,
   and does not panic -- unless the intact call itself panics. ---- *)

Theorem C17_read_slice_strict : forall sb, valid_size (spp_lensize sb) = true ->
  forall fuel addr st cn, strict (api_read_slice sb fuel addr st cn).
Proof. exact api_read_slice_strict. Qed.
Print Assumptions C17_read_slice_strict.
Theorem C17_read_hyperslab_strict : forall sb, valid_size (spp_lensize sb) = true ->
  forall fuel addr s, strict (api_read_hyperslab sb fuel addr s).
Proof. exact api_read_hyperslab_strict. Qed.
Print Assumptions C17_read_hyperslab_strict.
Theorem C17_chunk_iterator_strict : forall sb, valid_size (spp_lensize sb) = true ->
  forall fuel addr, strict (api_chunk_iterator sb fuel addr).
Proof. exact api_chunk_iterator_strict. Qed.
Print Assumptions C17_chunk_iterator_strict.
Theorem C17_chunk_iterate_strict : forall sb, valid_size (spp_lensize sb) = true ->
  forall fuel addr, strict (api_chunk_iterate sb fuel addr).
Proof. exact api_chunk_iterate_strict. Qed.
Print Assumptions C17_chunk_iterate_strict.
Theorem C17_read_strings_strict : forall sb, valid_size (spp_lensize sb) = true ->
  forall fuel addr, strict (api_read_strings sb fuel addr).
Proof. exact api_read_strings_strict. Qed.
Print Assumptions C17_read_strings_strict.
Theorem C17_read_compound_strict : forall sb, valid_size (spp_lensize sb) = true ->
  forall fuel addr ctype walk, strict (api_read_compound sb fuel addr ctype walk).
Proof. exact api_read_compound_strict. Qed.
Print Assumptions C17_read_compound_strict.
Theorem C17_read_attribute_strict : forall sb, valid_size (spp_lensize sb) = true ->
  forall fuel addr walk, strict (api_read_attribute sb fuel addr walk).
Proof. exact api_read_attribute_strict. Qed.
Print Assumptions C17_read_attribute_strict.

(* Dataset.ReadSlice(start, count): contiguous single read / row run / per-element reads, chunked: B-tree descent + the chunks the selection touches *)
Theorem C17_read_slice_damage : forall sb, valid_size (spp_lensize sb) = true -> forall fuel addr st cn,
  let p := api_read_slice sb fuel addr st cn in
  forall (f : bytes) (n : nat) (fl : oracle) (c : nat),
    run0 f p <> Panic ->
    (fst (run (firstn n f) fl c p) = run0 f p \/ fst (run (firstn n f) fl c p) = Err) /\
    fst (run (firstn n f) fl c p) <> Panic.
Proof. exact read_slice_damage. Qed.
Print Assumptions C17_read_slice_damage.
(* Dataset.ReadHyperslab(selection) with stride and block *)
Theorem C17_read_hyperslab_damage : forall sb, valid_size (spp_lensize sb) = true -> forall fuel addr s,
  let p := api_read_hyperslab sb fuel addr s in
  forall (f : bytes) (n : nat) (fl : oracle) (c : nat),
    run0 f p <> Panic ->
    (fst (run (firstn n f) fl c p) = run0 f p \/ fst (run (firstn n f) fl c p) = Err) /\
    fst (run (firstn n f) fl c p) <> Panic.
Proof. exact read_hyperslab_damage. Qed.
Print Assumptions C17_read_hyperslab_damage.
(* Dataset.ChunkIterator(): the chunk coordinates collected from the chunk B-tree *)
Theorem C17_chunk_iterator_damage : forall sb, valid_size (spp_lensize sb) = true -> forall fuel addr,
  let p := api_chunk_iterator sb fuel addr in
  forall (f : bytes) (n : nat) (fl : oracle) (c : nat),
    run0 f p <> Panic ->
    (fst (run (firstn n f) fl c p) = run0 f p \/ fst (run (firstn n f) fl c p) = Err) /\
    fst (run (firstn n f) fl c p) <> Panic.
Proof. exact chunk_iterator_damage. Qed.
Print Assumptions C17_chunk_iterator_damage.
(* ChunkIterator.Chunk() of one chunk *)
Theorem C17_chunk_damage : forall sb, valid_size (spp_lensize sb) = true -> forall fuel addr cd dims coord,
  let p := api_chunk sb fuel addr cd dims coord in
  forall (f : bytes) (n : nat) (fl : oracle) (c : nat),
    run0 f p <> Panic ->
    (fst (run (firstn n f) fl c p) = run0 f p \/ fst (run (firstn n f) fl c p) = Err) /\
    fst (run (firstn n f) fl c p) <> Panic.
Proof. exact chunk_damage. Qed.
Print Assumptions C17_chunk_damage.
(* for it.Next() { it.Chunk() }: the iterator and every chunk in turn *)
Theorem C17_chunk_iterate_damage : forall sb, valid_size (spp_lensize sb) = true -> forall fuel addr,
  let p := api_chunk_iterate sb fuel addr in
  forall (f : bytes) (n : nat) (fl : oracle) (c : nat),
    run0 f p <> Panic ->
    (fst (run (firstn n f) fl c p) = run0 f p \/ fst (run (firstn n f) fl c p) = Err) /\
    fst (run (firstn n f) fl c p) <> Panic.
Proof. exact chunk_iterate_damage. Qed.
Print Assumptions C17_chunk_iterate_damage.
(* Dataset.ReadCompound: the raw data, then every variable-length member through the global heap (for every walk over the bytes read) *)
Theorem C17_read_compound_damage : forall sb, valid_size (spp_lensize sb) = true -> forall fuel addr ctype walk,
  let p := api_read_compound sb fuel addr ctype walk in
  forall (f : bytes) (n : nat) (fl : oracle) (c : nat),
    run0 f p <> Panic ->
    (fst (run (firstn n f) fl c p) = run0 f p \/ fst (run (firstn n f) fl c p) = Err) /\
    fst (run (firstn n f) fl c p) <> Panic.
Proof. exact read_compound_damage. Qed.
Print Assumptions C17_read_compound_damage.
(* Dataset.ReadStrings: the datatype check, then the layout dispatch of Read *)
Theorem C17_read_strings_damage : forall sb, valid_size (spp_lensize sb) = true -> forall fuel addr,
  let p := api_read_strings sb fuel addr in
  forall (f : bytes) (n : nat) (fl : oracle) (c : nat),
    run0 f p <> Panic ->
    (fst (run (firstn n f) fl c p) = run0 f p \/ fst (run (firstn n f) fl c p) = Err) /\
    fst (run (firstn n f) fl c p) <> Panic.
Proof. exact read_strings_damage. Qed.
Print Assumptions C17_read_strings_damage.
(* Dataset.ReadAttribute(name): Attributes(), then ReadValue with variable-length strings through the global heap *)
Theorem C17_read_attribute_damage : forall sb, valid_size (spp_lensize sb) = true -> forall fuel addr walk,
  let p := api_read_attribute sb fuel addr walk in
  forall (f : bytes) (n : nat) (fl : oracle) (c : nat),
    run0 f p <> Panic ->
    (fst (run (firstn n f) fl c p) = run0 f p \/ fst (run (firstn n f) fl c p) = Err) /\
    fst (run (firstn n f) fl c p) <> Panic.
Proof. exact read_attribute_damage. Qed.
Print Assumptions C17_read_attribute_damage.
(* Dataset.Read (api_read_raw), in the same form *)
Theorem C17_read_damage : forall sb, valid_size (spp_lensize sb) = true -> forall fuel addr,
  let p := api_read_raw sb fuel addr in
  forall (f : bytes) (n : nat) (fl : oracle) (c : nat),
    run0 f p <> Panic ->
    (fst (run (firstn n f) fl c p) = run0 f p \/ fst (run (firstn n f) fl c p) = Err) /\
    fst (run (firstn n f) fl c p) <> Panic.
Proof. exact read_raw_damage. Qed.
Print Assumptions C17_read_damage.
(* Dataset.Attributes / Group.Attributes, in the same form *)
Theorem C17_attributes_damage : forall sb, valid_size (spp_lensize sb) = true -> forall fuel addr,
  let p := api_attributes sb fuel addr in
  forall (f : bytes) (n : nat) (fl : oracle) (c : nat),
    run0 f p <> Panic ->
    (fst (run (firstn n f) fl c p) = run0 f p \/ fst (run (firstn n f) fl c p) = Err) /\
    fst (run (firstn n f) fl c p) <> Panic.
Proof. exact attributes_damage. Qed.
Print Assumptions C17_attributes_damage.

(* non-vacuity on a library-written file with a chunked dataset (Proofs/IOProgSliceExamples.v) *)
Theorem C17_example_slice_sizes : valid_size (spp_lensize (sb_of ex3)) = true.
Proof. exact ex3_sizes. Qed.
Print Assumptions C17_example_slice_sizes.
Theorem C17_example_slice_every_fault :
  forallb (fun k => match fst (run ex3 (fault_at k FailIO) 0 (api_read_slice (sb_of ex3) 64 2195 [1; 1] [3; 2])),
                          fst (run ex3 (fault_at k (ShortRead 0)) 0 (api_read_slice (sb_of ex3) 64 2195 [1; 1] [3; 2])) with
                    | Err, Err => true | _, _ => false end) (seq 0 21) = true.
Proof. exact ex3_slice_faults. Qed.
Print Assumptions C17_example_slice_every_fault.
Theorem C17_example_slice_cut : run0 (firstn 2576 ex3) (api_read_slice (sb_of ex3) 64 2195 [1; 1] [3; 2]) = Err.
Proof. exact ex3_slice_cut. Qed.
Print Assumptions C17_example_slice_cut.
Theorem C17_example_chunk_iterator :
  run0 ex3 (api_chunk_iterator (sb_of ex3) 64 2195) =
  Ok ([[0; 0]; [0; 1]; [0; 2]; [1; 0]; [1; 1]; [1; 2]; [2; 0]; [2; 1]; [2; 2]], [3; 2], [7; 5]).
Proof. exact ex3_chunk_iterator. Qed.
Print Assumptions C17_example_chunk_iterator.

(* hdf5.Open with readSignature returning its read error (/repo since 216d529, notes/fixes/c17-read-signature-error.patch):
   open_on f fl c = Open run on the file image f WITH THAT FILE'S SIZE (file.go:86 Stat: the load budget and the root
   address check depend on it) under fault oracle fl *)
Theorem C17_open_strict : forall fsize fuel hfuel, strict (p_open true fsize fuel hfuel).
Proof. exact p_open_strict. Qed.
Print Assumptions C17_open_strict.

Theorem C17_open_trunc : forall fuel hfuel (f : bytes) (n : nat),
  open_on f nofault 0 fuel hfuel <> Panic ->
  open_on (firstn n f) nofault 0 fuel hfuel = open_on f nofault 0 fuel hfuel \/
  open_on (firstn n f) nofault 0 fuel hfuel = Err.
Proof. exact open_trunc. Qed.
Print Assumptions C17_open_trunc.

Theorem C17_open_fault : forall fuel hfuel (f : bytes) k ft,
  open_on f nofault 0 fuel hfuel <> Panic ->
  open_on f (fault_at k ft) 0 fuel hfuel = open_on f nofault 0 fuel hfuel \/
  open_on f (fault_at k ft) 0 fuel hfuel = Err.
Proof. exact open_fault. Qed.
Print Assumptions C17_open_fault.

Theorem C17_open_no_panic : forall fuel hfuel (f : bytes) n fl c,
  open_on f nofault 0 fuel hfuel <> Panic -> open_on (firstn n f) fl c fuel hfuel <> Panic.
Proof. exact open_no_panic. Qed.
Print Assumptions C17_open_no_panic.

(* readSignature as it was in /repo before 216d529 (a failed read gives ""): outside the fragment.
   sig_dispatch is the shape of group.go:447-484; witness on the Go code: corpus/C17/unnamed-snod-container.h5,
   pread64 #17 failing: Open succeeds with a different tree. *)
Theorem C17_read_signature_dropped_error_refuted :
  exists f k, run0 f (sig_dispatch 0) = Ok 1 /\ fst (run f (fault_at k FailIO) 0 (sig_dispatch 0)) = Ok 2.
Proof. exact loadchildren_sig_refuted. Qed.
Print Assumptions C17_read_signature_dropped_error_refuted.

(* ---- non-vacuity on real files written by the library (Proofs/IOProgExamples.v) ---- *)
Theorem C17_example_open : open_on ex2 nofault 0 64 64 = Ok (Grp [47] 2168 [Dset [100] 2198]).
Proof. exact ex2_open. Qed.
Print Assumptions C17_example_open.
Theorem C17_example_open_cut : open_on (firstn 2190 ex2) nofault 0 64 64 = Err.
Proof. exact ex2_open_cut. Qed.
Print Assumptions C17_example_open_cut.
Theorem C17_example_open_every_fault :
  calls0 ex2 (p_open true (blen ex2) 64 64) = 25%nat /\
  forallb (fun k => match open_on ex2 (fault_at k FailIO) 0 64 64 with Err => true | _ => false end) (seq 0 25) = true.
Proof. exact ex2_open_faults. Qed.
Print Assumptions C17_example_open_every_fault.
Theorem C17_example_read : run0 ex2 (api_read_raw (sb_of ex2) 64 2198) = Ok (RawBytes [1; 2; 3]).
Proof. exact ex2_read. Qed.
Print Assumptions C17_example_read.
Theorem C17_example_read_cut : run0 (firstn 2197 ex2) (api_read_raw (sb_of ex2) 64 2198) = Err.
Proof. exact ex2_read_cut. Qed.
Print Assumptions C17_example_read_cut.

(* ---- the side conditions are necessary: the pre-fix shapes give a different answer ---- *)

Theorem C17_short_read_unchecked_refuted :
  exists f n, (n <= length f)%nat /\ run0 f short_unchecked <> Panic /\
              run0 (firstn n f) short_unchecked <> run0 f short_unchecked /\
              run0 (firstn n f) short_unchecked <> Err.
Proof. exact trunc_short_refuted. Qed.
Print Assumptions C17_short_read_unchecked_refuted.

Theorem C17_swallowed_member_refuted_trunc :
  exists f n, (n <= length f)%nat /\ run0 f listing_skipping = Ok [1; 2] /\
              run0 (firstn n f) listing_skipping = Ok [1].
Proof. exact trunc_swallow_refuted. Qed.
Print Assumptions C17_swallowed_member_refuted_trunc.

Theorem C17_swallowed_member_refuted_fault :
  exists f k, run0 f listing_skipping = Ok [1; 2] /\
              fst (run f (fault_at k FailIO) 0 listing_skipping) = Ok [2].
Proof. exact fault_swallow_refuted. Qed.
Print Assumptions C17_swallowed_member_refuted_fault.

(* ---- writer side: no dropped error => a failing WriteAt/Sync/Truncate/Close makes the call return an error ---- *)

Theorem C17_write_fault_err : forall A (p : wprog A), wstrict p ->
  forall f fl torn c,
    (exists i, (c <= i)%nat /\ (i < snd (wrun f noflt torn c p))%nat /\ fl i = true) ->
    fst (fst (wrun f fl torn c p)) = Err.
Proof. exact w_fault_err. Qed.
Print Assumptions C17_write_fault_err.

(* what the file holds afterwards: the calls before the failing one applied, the failing write torn, nothing after *)
Theorem C17_write_fault_file : forall A (p : wprog A), wstrict p ->
  forall f fl torn c j,
    (forall i, (c <= i)%nat -> (i < c + j)%nat -> fl i = false) -> fl (c + j)%nat = true ->
    (c + j < snd (wrun f noflt torn c p))%nat ->
    snd (fst (wrun f fl torn c p)) = wfile_upto f p j (torn (c + j)%nat).
Proof. exact w_fault_file. Qed.
Print Assumptions C17_write_fault_file.

Theorem C17_write_dropped_error_refuted :
  exists fl, fl 0%nat = true /\ fst (fst (wrun [] fl (fun _ => 0%nat) 0 w_dropping)) = Ok tt.
Proof. exact w_swallow_refuted. Qed.
Print Assumptions C17_write_dropped_error_refuted.
