(* C07 - no input file can crash, hang or exhaust the reader.  Property theorems only.
   Three families, all for EVERY input (no length bound; induction / case analysis, no enumeration):
     no_panic      the byte-level decoder models (Model/Codec*.v, checked slicing = Go's index/slice panics) never Panic;
     alloc_bounded every allocation request of the size computations (Model/RobustAlloc.v) is <= k * |file| + c, k and c explicit;
     terminates    the address-following traversals (Model/RobustTerm.v) never exhaust an explicitly given fuel, for every
                   file graph, including cyclic and self-referential ones; step counts / recursion depths are bounded.
   Where the faithful model of the current code refutes a clause, the refutation is a theorem with a witness. *)
From HV Require Import Base.Prelude Base.Outcome Base.Bytes.
From HV Require Import Model.CodecSuper Model.CodecMsg Model.CodecOhdr Model.CodecType Model.CodecCompound
  Model.CodecFilter Model.CodecAttr Model.CodecLink Model.RobustAlloc Model.RobustTerm.
From HV Require Import Proofs.RobustNoPanic Proofs.RobustAlloc Proofs.RobustTerm.

(* ------------------------------------------------------------------ no panic, all byte strings *)
Theorem C07_superblock_no_panic : forall file, dec_superblock file <> Panic.
Proof. exact dec_superblock_no_panic. Qed.
Print Assumptions C07_superblock_no_panic.

(* both variants of the C06 repair switch of this parser (false = the code before the repair, true = dec_superblock) *)
Theorem C07_superblock_no_panic_both_variants : forall rep file, dec_superblock_gen rep file <> Panic.
Proof. exact dec_superblock_gen_np. Qed.
Print Assumptions C07_superblock_no_panic_both_variants.

Theorem C07_dataspace_no_panic : forall data, dec_dataspace data <> Panic.
Proof. exact dec_dataspace_no_panic. Qed.
Print Assumptions C07_dataspace_no_panic.

Theorem C07_layout_no_panic : forall sb data, dec_layout sb data <> Panic.
Proof. exact dec_layout_no_panic. Qed.
Print Assumptions C07_layout_no_panic.

Theorem C07_datatype_no_panic : forall fuel data, dec_dt fuel data <> Panic.
Proof. exact dec_dt_no_panic. Qed.
Print Assumptions C07_datatype_no_panic.

Theorem C07_compound_no_panic : forall data, dec_compound data <> Panic.
Proof. exact dec_compound_no_panic. Qed.
Print Assumptions C07_compound_no_panic.

Theorem C07_pipeline_no_panic : forall data, dec_pipeline data <> Panic.
Proof. exact dec_pipeline_no_panic. Qed.
Print Assumptions C07_pipeline_no_panic.

(* both variants of the C06 repair switch of this parser (false = the code before the repair, true = dec_pipeline) *)
Theorem C07_pipeline_no_panic_both_variants : forall rep data, dec_pipeline_gen rep data <> Panic.
Proof. exact dec_pipeline_gen_np. Qed.
Print Assumptions C07_pipeline_no_panic_both_variants.

Theorem C07_attribute_no_panic : forall be data, dec_attribute be data <> Panic.
Proof. exact dec_attribute_no_panic. Qed.
Print Assumptions C07_attribute_no_panic.

(* both variants of the C06 repair switch of this parser (false = the code before the repair, true = dec_attribute) *)
Theorem C07_attribute_no_panic_both_variants : forall rep be data, dec_attribute_gen rep be data <> Panic.
Proof. exact dec_attribute_gen_np. Qed.
Print Assumptions C07_attribute_no_panic_both_variants.

Theorem C07_link_no_panic : forall offsize data, dec_link offsize data <> Panic.
Proof. exact dec_link_no_panic. Qed.
Print Assumptions C07_link_no_panic.

Theorem C07_linkinfo_no_panic : forall sb data, dec_linkinfo sb data <> Panic.
Proof. exact dec_linkinfo_no_panic. Qed.
Print Assumptions C07_linkinfo_no_panic.

Theorem C07_attrinfo_no_panic : forall sb data, dec_attrinfo sb data <> Panic.
Proof. exact dec_attrinfo_no_panic. Qed.
Print Assumptions C07_attrinfo_no_panic.

Theorem C07_symtab_no_panic : forall be data, dec_symtab be data <> Panic.
Proof. exact dec_symtab_no_panic. Qed.
Print Assumptions C07_symtab_no_panic.

Theorem C07_ohdr_v2_no_panic : forall file addr flags isBE sbBE version, parse_v2 file addr flags isBE sbBE version <> Panic.
Proof. exact parse_v2_no_panic. Qed.
Print Assumptions C07_ohdr_v2_no_panic.

(* object headers (versions 1 and 2, either byte order): every file image made of bytes *)
Theorem C07_ohdr_no_panic : forall sbBE file addr, bytes_ok file = true -> dec_ohdr sbBE file addr <> Panic.
Proof. exact dec_ohdr_no_panic_bytes. Qed.
Print Assumptions C07_ohdr_no_panic.

(* ... and every image shorter than 2^64 elements, bytes or not *)
Theorem C07_ohdr_no_panic_short : forall sbBE file addr, blen file < 18446744073709551616 -> dec_ohdr sbBE file addr <> Panic.
Proof. exact dec_ohdr_no_panic_partial. Qed.
Print Assumptions C07_ohdr_no_panic_short.

(* without either hypothesis the C11 model of the version 1 header DOES panic (it slices at current+8 where the guard is
   on wrap64 (current+8)); the witness needs 2^64 list elements, some of them >= 256: a model artefact, not a file *)
Theorem C07_ohdr_model_corner_refuted : ~ (forall sbBE file addr, dec_ohdr sbBE file addr <> Panic).
Proof. exact dec_ohdr_no_panic_refuted. Qed.
Print Assumptions C07_ohdr_model_corner_refuted.

(* ------------------------------------------------------------------ allocations: n <= k * |file| + c *)
(* ReadBytesAt: k = 1, c = 0; never panics; an Ok result has exactly the requested length *)
Theorem C07_read_bytes_at :
  forall file off size, off < 18446744073709551616 -> size < 18446744073709551616 ->
  fst (read_bytes_at file off size) <> Panic /\
  alloc_bounded 1 0 file (snd (read_bytes_at file off size)) /\
  (forall s, fst (read_bytes_at file off size) = Ok s -> blen s = size /\ size <= blen file).
Proof. exact read_bytes_at_spec. Qed.
Print Assumptions C07_read_bytes_at.

(* SafeMultiply: Ok means the exact product, no wrap-around *)
Theorem C07_safe_multiply_exact :
  forall a b v, a < 18446744073709551616 -> b < 18446744073709551616 -> safe_multiply a b = Ok v -> v = a * b.
Proof. exact safe_multiply_exact. Qed.
Print Assumptions C07_safe_multiply_exact.

(* contiguous dataset (any dimensions, the product wraps in the model as in Go): k = 8, c = 0 *)
Theorem C07_contiguous_read_bounded :
  forall file dims es addr, es < 18446744073709551616 -> addr < 18446744073709551616 ->
  fst (contiguous_read file dims es addr) <> Panic /\ alloc_bounded 8 0 file (snd (contiguous_read file dims es addr)).
Proof. exact contiguous_read_spec. Qed.
Print Assumptions C07_contiguous_read_bounded.

(* one chunk: k = 1, c = 0 *)
Theorem C07_chunk_read_bounded :
  forall file addr nbytes, addr < 18446744073709551616 -> nbytes < 18446744073709551616 ->
  fst (chunk_read file addr nbytes) <> Panic /\ alloc_bounded 1 0 file (snd (chunk_read file addr nbytes)).
Proof. exact chunk_read_spec. Qed.
Print Assumptions C07_chunk_read_bounded.

(* chunk B-tree node (header, body, decoded keys and child pointers): k = 4, c = 24 *)
Theorem C07_btree_node_bounded :
  forall file addr O nd entries, addr < 18446744073709551616 -> O <= 8 -> nd <= 255 -> entries <= 65535 ->
  fst (btree_node_sizes file addr O nd entries) <> Panic /\ alloc_bounded 4 24 file (snd (btree_node_sizes file addr O nd entries)).
Proof. exact btree_node_sizes_spec. Qed.
Print Assumptions C07_btree_node_bounded.

(* local heap: k = 1, c = 64 *)
Theorem C07_local_heap_bounded :
  forall file addr O L, bytes_ok file = true -> O <= 8 -> L <= 8 ->
  fst (local_heap_load file addr O L) <> Panic /\ alloc_bounded 1 64 file (snd (local_heap_load file addr O L)).
Proof. exact local_heap_load_spec. Qed.
Print Assumptions C07_local_heap_bounded.

Theorem C07_heap_string_no_panic : forall data off, heap_get_string data off <> Panic.
Proof. exact heap_get_string_no_panic. Qed.
Print Assumptions C07_heap_string_no_panic.

(* global heap collection and every object copied out of it: k = 1, c = 16 *)
Theorem C07_global_heap_bounded :
  forall file addr os, bytes_ok file = true -> addr < 18446744073709551616 ->
  fst (gcol_read file addr os) <> Panic /\ alloc_bounded 1 16 file (snd (gcol_read file addr os)).
Proof. exact gcol_read_spec. Qed.
Print Assumptions C07_global_heap_bounded.

(* the object loop of a collection is never cut short by its fuel S (length collection) *)
Theorem C07_global_heap_loop_terminates :
  forall fuel cd os offset, (N.to_nat (blen cd - offset) < fuel)%nat ->
  forall fuel', (fuel <= fuel')%nat -> gcol_objects fuel cd os offset = gcol_objects fuel' cd os offset.
Proof. exact gcol_objects_fuel. Qed.
Print Assumptions C07_global_heap_loop_terminates.

(* object header message buffers and decompression output: constants (k = 0) *)
Theorem C07_message_buffer_bounded : forall file sz, alloc_bounded 0 65535 file (msg_buffer_request sz).
Proof. exact msg_buffer_request_bounded. Qed.
Print Assumptions C07_message_buffer_bounded.

(* header message buffers, repaired code: n one-byte messages request n bytes in total (<= the 5 n bytes they occupy) *)
Theorem C07_message_storm_bounded : forall n, storm_requests false n <= storm_file_bytes n.
Proof. exact storm_repaired_bounded. Qed.
Print Assumptions C07_message_storm_bounded.

(* REFUTED for the pooled buffers of the unrepaired code (4096 bytes per message): no k < 819 works *)
Theorem C07_pooled_message_buffers_refuted : forall k c, k < 819 -> exists n, k * storm_file_bytes n + c < storm_requests true n.
Proof. exact storm_pooled_unbounded. Qed.
Print Assumptions C07_pooled_message_buffers_refuted.

Theorem C07_filter_output_bounded : forall file claimed, alloc_bounded 0 2147484162 file (inflate_requests claimed).
Proof. exact inflate_requests_bounded. Qed.
Print Assumptions C07_filter_output_bounded.

(* REFUTED clause: the output buffer of a chunked dataset is sized by the declared extent.  For every k, c with
   k * |file| + c < 2^40 there are dimensions for which the request exceeds k * |file| + c (finding C07-chunked-extent-alloc);
   what holds is the constant limit 2^40. *)
Theorem C07_chunked_extent_refuted :
  forall k c file, k * blen file + c < 1099511627776 ->
  exists dims es, es < 18446744073709551616 /\ Forall (fun d => d < 18446744073709551616) dims /\
                  ~ alloc_bounded k c file (snd (chunked_total_bytes dims es)).
Proof. exact chunked_extent_unbounded. Qed.
Print Assumptions C07_chunked_extent_refuted.

Theorem C07_chunked_extent_limit : forall dims es, Forall (fun n => n <= 1099511627776) (snd (chunked_total_bytes dims es)).
Proof. exact chunked_total_bytes_limit. Qed.
Print Assumptions C07_chunked_extent_limit.

(* ------------------------------------------------------------------ termination, every file graph *)
(* (a) version 1 continuation chain: fuel 65537 is never exhausted; <= 65535 messages, <= 65535 continuation blocks *)
Theorem C07_v1_continuation_terminates :
  forall blk, (forall a k conts, blk a = Some (k, conts) -> N.of_nat (length conts) <= k /\ k <= 65535) ->
  forall first, v1_header blk (N.to_nat 65537) first <> TOutOfFuel /\
                forall n s, v1_header blk (N.to_nat 65537) first = TDone (n, s) -> n <= 65535 /\ s <= 65535.
Proof. exact v1_header_terminates. Qed.
Print Assumptions C07_v1_continuation_terminates.

(* (b) version 2 continuation chain: fuel 1026, <= 1025 chunks *)
Theorem C07_v2_continuation_terminates :
  forall blk first, v2_chain blk 1026 [first] [] 0 <> TOutOfFuel /\
                    forall s, v2_chain blk 1026 [first] [] 0 = TDone s -> s <= 1025.
Proof. exact v2_header_terminates. Qed.
Print Assumptions C07_v2_continuation_terminates.

(* (c) chunk B-tree: recursion depth <= level + 1 <= 256, whatever the child pointers say *)
Theorem C07_btree_descent_terminates :
  forall node level children visited, level <= 255 -> bt_collect node 256 level children visited <> TOutOfFuel.
Proof. exact bt_collect_256. Qed.
Print Assumptions C07_btree_descent_terminates.

Theorem C07_btree_visited_grows :
  forall node fuel level children visited n v',
  bt_collect node fuel level children visited = TDone (n, v') -> exists added, v' = added ++ visited.
Proof. exact bt_collect_visited. Qed.
Print Assumptions C07_btree_visited_grows.

(* (d) object tree: recursion depth <= 1025 for every link graph; never more than maxLoads objects *)
Theorem C07_load_terminates : forall links maxLoads root, load links 1026 maxLoads root [] 0 <> TOutOfFuel.
Proof. exact load_terminates. Qed.
Print Assumptions C07_load_terminates.

Theorem C07_load_count_bounded :
  forall links maxLoads fuel a loading count n,
  count <= maxLoads -> load links fuel maxLoads a loading count = TDone n -> count <= n /\ n <= maxLoads.
Proof. exact load_count. Qed.
Print Assumptions C07_load_count_bounded.

(* ================================================================== extension: group walk, dense attributes, LZF, conversion loops *)
From HV Require Import Model.RobustGroup Model.RobustDense Model.RobustConv.
From HV Require Import Proofs.RobustGroup Proofs.RobustDense Proofs.RobustExt.
From HV Require Model.Filters Proofs.RobustLzf.

(* ------------------------------------------------------------------ (a) symbol-table group walk, all byte strings *)
(* ReadGroupBTreeEntries up to the child (symbol table node) addresses: no panic; buffers bounded by the 16-bit entry count *)
Theorem C07_group_node_no_panic :
  forall file addr O, bytes_ok file = true -> O <= 8 ->
  fst (gnode_read file addr O) <> Panic /\ alloc_bounded 0 2097136 file (snd (gnode_read file addr O)) /\
  forall kids, fst (gnode_read file addr O) = Ok kids -> N.of_nat (length kids) <= 65535.
Proof. exact gnode_read_spec. Qed.
Print Assumptions C07_group_node_no_panic.

(* ParseSymbolTableNode: no panic for every entry count; a node that parses lies inside the file *)
Theorem C07_snod_bounded :
  forall file addr O, bytes_ok file = true -> O <= 8 ->
  fst (snod_parse file addr O) <> Panic /\ alloc_bounded 0 5242800 file (snd (snod_parse file addr O)) /\
  forall es, fst (snod_parse file addr O) = Ok es ->
             addr + 8 + N.of_nat (length es) * (2 * O + 24) <= blen file /\ N.of_nat (length es) <= 65535.
Proof. exact snod_parse_spec. Qed.
Print Assumptions C07_snod_bounded.

(* the whole walk never panics, repaired or not; the loops are counted (structural recursion on 16-bit counts: no fuel) *)
Theorem C07_group_walk_no_panic :
  forall capped file addr O, bytes_ok file = true -> O <= 8 -> fst (group_btree_entries capped file addr O) <> Panic.
Proof. exact group_btree_entries_no_panic. Qed.
Print Assumptions C07_group_walk_no_panic.

(* repaired code (notes/fixes/c07-group-node-entry-budget.patch): every request <= 4 |file| + 5242800 and the entries
   collected fit into the file *)
Theorem C07_group_walk_bounded :
  forall file addr O, bytes_ok file = true -> O <= 8 ->
  fst (group_btree_entries true file addr O) <> Panic /\
  alloc_bounded 4 5242800 file (snd (group_btree_entries true file addr O)) /\
  forall t, fst (group_btree_entries true file addr O) = Ok t -> t * (2 * O + 24) <= blen file.
Proof. exact group_btree_entries_spec. Qed.
Print Assumptions C07_group_walk_bounded.

(* code as it is in /repo: n child pointers to one node of m entries collect n * m entries ... *)
Theorem C07_group_walk_unrepaired_multiplies :
  forall file O a es l, snod_parse file a O = (Ok es, l) ->
  forall n total spanEnd,
  fst (gwalk false file O (repeat a n) total spanEnd) = Ok (total + N.of_nat n * N.of_nat (length es)) /\
  (n <> 0%nat -> In (96 * (total + N.of_nat n * N.of_nat (length es))) (snd (gwalk false file O (repeat a n) total spanEnd))).
Proof. exact gwalk_uncapped_repeat. Qed.
Print Assumptions C07_group_walk_unrepaired_multiplies.

(* ... REFUTED bound: a 14376-byte image makes it collect 65536 entries and exceed 4 |file| + 5242800 *)
Theorem C07_group_walk_unrepaired_refuted :
  exists file, bytes_ok file = true /\ blen file = 14376 /\
               fst (group_btree_entries false file 0 8) = Ok 65536 /\
               ~ alloc_bounded 4 5242800 file (snd (group_btree_entries false file 0 8)).
Proof. exact group_uncapped_refuted. Qed.
Print Assumptions C07_group_walk_unrepaired_refuted.

(* ------------------------------------------------------------------ (b) dense attribute readers, all byte strings *)
Theorem C07_bt2_header_no_panic :
  forall file addr O, bytes_ok file = true ->
  fst (bt2_header_raw file addr O) <> Panic /\ alloc_bounded 0 38 file (snd (bt2_header_raw file addr O)) /\
  forall root nroot total, fst (bt2_header_raw file addr O) = Ok (root, nroot, total) -> nroot <= 65535.
Proof. exact bt2_header_raw_spec. Qed.
Print Assumptions C07_bt2_header_no_panic.

(* leaf: the record count is bounded by the bytes present (6 + 11 records <= |file|); ids are 7 bytes *)
Theorem C07_bt2_leaf_bounded :
  forall file addr nrec, bytes_ok file = true -> nrec <= 65535 ->
  fst (bt2_leaf_records file addr nrec) <> Panic /\ alloc_bounded 0 720895 file (snd (bt2_leaf_records file addr nrec)) /\
  forall ids, fst (bt2_leaf_records file addr nrec) = Ok ids ->
    N.of_nat (length ids) = nrec /\ 6 + 11 * N.of_nat (length ids) <= blen file /\ Forall id_ok ids.
Proof. exact bt2_leaf_records_spec. Qed.
Print Assumptions C07_bt2_leaf_bounded.

Theorem C07_fheap_header_no_panic :
  forall file addr O L, bytes_ok file = true -> L <= 8 ->
  fst (fh_header_raw file addr O L) <> Panic /\ alloc_bounded 0 144 file (snd (fh_header_raw file addr O L)) /\
  forall root hos hls, fst (fh_header_raw file addr O L) = Ok (root, hos, hls) -> hos <= 255.
Proof. exact fh_header_raw_spec. Qed.
Print Assumptions C07_fheap_header_no_panic.

(* heap id decoding for every offset/length width the header can give *)
Theorem C07_heap_id_no_panic :
  forall id hos hls, id_ok id ->
  parse_heap_id id hos hls <> Panic /\
  forall off len, parse_heap_id id hos hls = Ok (off, len) -> off < 18446744073709551616 /\ len < 18446744073709551616.
Proof. exact parse_heap_id_spec. Qed.
Print Assumptions C07_heap_id_no_panic.

(* direct block object: the length field is checked against the file (ReadBytesAt) before the buffer exists *)
Theorem C07_heap_object_bounded :
  forall file blockAddr offset length O hos, O <= 8 -> hos <= 255 -> length < 18446744073709551616 ->
  fst (read_heap_object file blockAddr offset length O hos) <> Panic /\
  alloc_bounded 1 284 file (snd (read_heap_object file blockAddr offset length O hos)) /\
  forall obj, fst (read_heap_object file blockAddr offset length O hos) = Ok obj -> blen obj = length /\ length <= blen file.
Proof. exact read_heap_object_spec. Qed.
Print Assumptions C07_heap_object_bounded.

(* readDenseAttributes: no panic, every request <= |file| + 720895, attribute count bounded by the leaf bytes present *)
Theorem C07_dense_attributes_bounded :
  forall file fhAddr btAddr O L, bytes_ok file = true -> O <= 8 -> L <= 8 ->
  fst (dense_read file fhAddr btAddr O L) <> Panic /\
  alloc_bounded 1 720895 file (snd (dense_read file fhAddr btAddr O L)) /\
  forall t, fst (dense_read file fhAddr btAddr O L) = Ok t -> 6 + 11 * t <= blen file.
Proof. exact dense_read_spec. Qed.
Print Assumptions C07_dense_attributes_bounded.

(* ------------------------------------------------------------------ (c) LZF decompression loop (Model/Filters.v lzf_decompress) *)
Theorem C07_lzf_no_panic_no_fuel :
  forall i, Filters.lzf_decompress i <> Filters.OutOfFuel /\ Filters.lzf_decompress i <> Filters.Panic.
Proof. exact RobustLzf.lzf_decompress_no_panic_no_fuel. Qed.
Print Assumptions C07_lzf_no_panic_no_fuel.

(* lzfDecompress is given no limit by its caller; the output is bounded by the input: 88 bytes per input byte *)
Theorem C07_lzf_output_bounded :
  forall i r, forallb (fun b => b <? 256) i = true -> Filters.lzf_decompress i = Filters.Ok r ->
              N.of_nat (length r) <= 88 * N.of_nat (length i).
Proof. exact RobustLzf.lzf_decompress_out_len_N. Qed.
Print Assumptions C07_lzf_output_bounded.

(* ... and 88 is reached in the limit: 2 + 3k input bytes decode to 1 + 264k bytes *)
Theorem C07_lzf_output_bound_tight :
  forall k, exists r, Filters.lzf_decompress ([0; 65] ++ concat (repeat [224; 255; 0] k)) = Filters.Ok r /\
                      length r = (1 + 264 * k)%nat /\
                      length ([0; 65] ++ concat (repeat [224; 255; 0] k)) = (2 + 3 * k)%nat.
Proof. exact RobustLzf.lzf_blowup. Qed.
Print Assumptions C07_lzf_output_bound_tight.

(* ------------------------------------------------------------------ (d) datatype conversion loops (element loops written out) *)
(* convertToFloat64: no panic, the loop ends within S n iterations, the result slice is <= 8 |raw|, Ok = all n elements *)
Theorem C07_convert_float64_loop :
  forall raw es n, blen raw < 9223372036854775808 -> n < 18446744073709551616 ->
  fst (conv_float64 raw es n) <> Some Panic /\ fst (conv_float64 raw es n) <> None /\
  alloc_bounded 8 0 raw (snd (conv_float64 raw es n)) /\
  forall k, fst (conv_float64 raw es n) = Some (Ok k) -> k = n /\ n * es <= blen raw.
Proof. exact conv_float64_robust. Qed.
Print Assumptions C07_convert_float64_loop.

Theorem C07_convert_strings_loop :
  forall raw ss n, blen raw < 9223372036854775808 -> n < 18446744073709551616 ->
  fst (conv_strings raw ss n) <> Some Panic /\ fst (conv_strings raw ss n) <> None /\
  alloc_bounded 16 0 raw (snd (conv_strings raw ss n)).
Proof. exact conv_strings_robust. Qed.
Print Assumptions C07_convert_strings_loop.

Theorem C07_convert_compound_loop :
  forall raw ss members n, blen raw < 9223372036854775808 -> ss < 4294967296 -> n < 18446744073709551616 ->
  fst (conv_compound raw ss members n) <> Some Panic /\ fst (conv_compound raw ss members n) <> None /\
  alloc_bounded 8 0 raw (snd (conv_compound raw ss members n)).
Proof. exact conv_compound_robust. Qed.
Print Assumptions C07_convert_compound_loop.
