(* C07 - placeholder while the development is being built; replaced below *)
From HV Require Import Base.Prelude.
Theorem C07_placeholder : True.
Proof. exact I. Qed.
Print Assumptions C07_placeholder.
