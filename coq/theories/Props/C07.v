(* C07 - no input file can crash, hang or exhaust the reader.  Property theorems only.
   Three families, all for EVERY input (no length bound; induction / case analysis, no enumeration):
     no_panic      the byte-level decoder models (Model/Codec*.v, checked slicing = Go's index/slice panics) never Panic;
     alloc_bounded every allocation request of the size computations (Model/RobustAlloc.v) is <= k * |file| + c, k and c explicit;
     terminates    the address-following traversals (Model/RobustTerm.v) never exhaust an explicitly given fuel, for every
                   file graph, including cyclic and self-referential ones; step counts / recursion depths are bounded.
   Where the faithful model of the current code refutes a clause, the refutation is a theorem with a witness. *)
From HV Require Import Base.Prelude Base.Outcome Base.Bytes.
From HV Require Import Model.CodecSuper Model.CodecMsg Model.CodecOhdr Model.CodecType Model.CodecCompound
  Model.CodecFilter Model.CodecAttr Model.CodecLink Model.RobustAlloc Model.RobustTerm.
From HV Require Import Proofs.RobustNoPanic Proofs.RobustAlloc Proofs.RobustTerm.

(* ------------------------------------------------------------------ no panic, all byte strings *)
Theorem C07_superblock_no_panic : forall file, dec_superblock file <> Panic.
Proof. exact dec_superblock_no_panic. Qed.
Print Assumptions C07_superblock_no_panic.

Theorem C07_dataspace_no_panic : forall data, dec_dataspace data <> Panic.
Proof. exact dec_dataspace_no_panic. Qed.
Print Assumptions C07_dataspace_no_panic.

Theorem C07_layout_no_panic : forall sb data, dec_layout sb data <> Panic.
Proof. exact dec_layout_no_panic. Qed.
Print Assumptions C07_layout_no_panic.

Theorem C07_datatype_no_panic : forall fuel data, dec_dt fuel data <> Panic.
Proof. exact dec_dt_no_panic. Qed.
Print Assumptions C07_datatype_no_panic.

Theorem C07_compound_no_panic : forall data, dec_compound data <> Panic.
Proof. exact dec_compound_no_panic. Qed.
Print Assumptions C07_compound_no_panic.

Theorem C07_pipeline_no_panic : forall data, dec_pipeline data <> Panic.
Proof. exact dec_pipeline_no_panic. Qed.
Print Assumptions C07_pipeline_no_panic.

Theorem C07_attribute_no_panic : forall be data, dec_attribute be data <> Panic.
Proof. exact dec_attribute_no_panic. Qed.
Print Assumptions C07_attribute_no_panic.

Theorem C07_link_no_panic : forall offsize data, dec_link offsize data <> Panic.
Proof. exact dec_link_no_panic. Qed.
Print Assumptions C07_link_no_panic.

Theorem C07_linkinfo_no_panic : forall sb data, dec_linkinfo sb data <> Panic.
Proof. exact dec_linkinfo_no_panic. Qed.
Print Assumptions C07_linkinfo_no_panic.

Theorem C07_attrinfo_no_panic : forall sb data, dec_attrinfo sb data <> Panic.
Proof. exact dec_attrinfo_no_panic. Qed.
Print Assumptions C07_attrinfo_no_panic.

Theorem C07_symtab_no_panic : forall be data, dec_symtab be data <> Panic.
Proof. exact dec_symtab_no_panic. Qed.
Print Assumptions C07_symtab_no_panic.

Theorem C07_ohdr_v2_no_panic : forall file addr flags isBE sbBE version, parse_v2 file addr flags isBE sbBE version <> Panic.
Proof. exact parse_v2_no_panic. Qed.
Print Assumptions C07_ohdr_v2_no_panic.

(* object headers (versions 1 and 2, either byte order): every file image made of bytes *)
Theorem C07_ohdr_no_panic : forall sbBE file addr, bytes_ok file = true -> dec_ohdr sbBE file addr <> Panic.
Proof. exact dec_ohdr_no_panic_bytes. Qed.
Print Assumptions C07_ohdr_no_panic.

(* ... and every image shorter than 2^64 elements, bytes or not *)
Theorem C07_ohdr_no_panic_short : forall sbBE file addr, blen file < 18446744073709551616 -> dec_ohdr sbBE file addr <> Panic.
Proof. exact dec_ohdr_no_panic_partial. Qed.
Print Assumptions C07_ohdr_no_panic_short.

(* without either hypothesis the C11 model of the version 1 header DOES panic (it slices at current+8 where the guard is
   on wrap64 (current+8)); the witness needs 2^64 list elements, some of them >= 256: a model artefact, not a file *)
Theorem C07_ohdr_model_corner_refuted : ~ (forall sbBE file addr, dec_ohdr sbBE file addr <> Panic).
Proof. exact dec_ohdr_no_panic_refuted. Qed.
Print Assumptions C07_ohdr_model_corner_refuted.

(* ------------------------------------------------------------------ allocations: n <= k * |file| + c *)
(* ReadBytesAt: k = 1, c = 0; never panics; an Ok result has exactly the requested length *)
Theorem C07_read_bytes_at :
  forall file off size, off < 18446744073709551616 -> size < 18446744073709551616 ->
  fst (read_bytes_at file off size) <> Panic /\
  alloc_bounded 1 0 file (snd (read_bytes_at file off size)) /\
  (forall s, fst (read_bytes_at file off size) = Ok s -> blen s = size /\ size <= blen file).
Proof. exact read_bytes_at_spec. Qed.
Print Assumptions C07_read_bytes_at.

(* SafeMultiply: Ok means the exact product, no wrap-around *)
Theorem C07_safe_multiply_exact :
  forall a b v, a < 18446744073709551616 -> b < 18446744073709551616 -> safe_multiply a b = Ok v -> v = a * b.
Proof. exact safe_multiply_exact. Qed.
Print Assumptions C07_safe_multiply_exact.

(* contiguous dataset (any dimensions, the product wraps in the model as in Go): k = 8, c = 0 *)
Theorem C07_contiguous_read_bounded :
  forall file dims es addr, es < 18446744073709551616 -> addr < 18446744073709551616 ->
  fst (contiguous_read file dims es addr) <> Panic /\ alloc_bounded 8 0 file (snd (contiguous_read file dims es addr)).
Proof. exact contiguous_read_spec. Qed.
Print Assumptions C07_contiguous_read_bounded.

(* one chunk: k = 1, c = 0 *)
Theorem C07_chunk_read_bounded :
  forall file addr nbytes, addr < 18446744073709551616 -> nbytes < 18446744073709551616 ->
  fst (chunk_read file addr nbytes) <> Panic /\ alloc_bounded 1 0 file (snd (chunk_read file addr nbytes)).
Proof. exact chunk_read_spec. Qed.
Print Assumptions C07_chunk_read_bounded.

(* chunk B-tree node (header, body, decoded keys and child pointers): k = 4, c = 24 *)
Theorem C07_btree_node_bounded :
  forall file addr O nd entries, addr < 18446744073709551616 -> O <= 8 -> nd <= 255 -> entries <= 65535 ->
  fst (btree_node_sizes file addr O nd entries) <> Panic /\ alloc_bounded 4 24 file (snd (btree_node_sizes file addr O nd entries)).
Proof. exact btree_node_sizes_spec. Qed.
Print Assumptions C07_btree_node_bounded.

(* local heap: k = 1, c = 64 *)
Theorem C07_local_heap_bounded :
  forall file addr O L, bytes_ok file = true -> O <= 8 -> L <= 8 ->
  fst (local_heap_load file addr O L) <> Panic /\ alloc_bounded 1 64 file (snd (local_heap_load file addr O L)).
Proof. exact local_heap_load_spec. Qed.
Print Assumptions C07_local_heap_bounded.

Theorem C07_heap_string_no_panic : forall data off, heap_get_string data off <> Panic.
Proof. exact heap_get_string_no_panic. Qed.
Print Assumptions C07_heap_string_no_panic.

(* global heap collection and every object copied out of it: k = 1, c = 16 *)
Theorem C07_global_heap_bounded :
  forall file addr os, bytes_ok file = true -> addr < 18446744073709551616 ->
  fst (gcol_read file addr os) <> Panic /\ alloc_bounded 1 16 file (snd (gcol_read file addr os)).
Proof. exact gcol_read_spec. Qed.
Print Assumptions C07_global_heap_bounded.

(* the object loop of a collection is never cut short by its fuel S (length collection) *)
Theorem C07_global_heap_loop_terminates :
  forall fuel cd os offset, (N.to_nat (blen cd - offset) < fuel)%nat ->
  forall fuel', (fuel <= fuel')%nat -> gcol_objects fuel cd os offset = gcol_objects fuel' cd os offset.
Proof. exact gcol_objects_fuel. Qed.
Print Assumptions C07_global_heap_loop_terminates.

(* object header message buffers and decompression output: constants (k = 0) *)
Theorem C07_message_buffer_bounded : forall file sz, alloc_bounded 0 65535 file (msg_buffer_request sz).
Proof. exact msg_buffer_request_bounded. Qed.
Print Assumptions C07_message_buffer_bounded.

(* header message buffers, repaired code: n one-byte messages request n bytes in total (<= the 5 n bytes they occupy) *)
Theorem C07_message_storm_bounded : forall n, storm_requests false n <= storm_file_bytes n.
Proof. exact storm_repaired_bounded. Qed.
Print Assumptions C07_message_storm_bounded.

(* REFUTED for the pooled buffers of the unrepaired code (4096 bytes per message): no k < 819 works *)
Theorem C07_pooled_message_buffers_refuted : forall k c, k < 819 -> exists n, k * storm_file_bytes n + c < storm_requests true n.
Proof. exact storm_pooled_unbounded. Qed.
Print Assumptions C07_pooled_message_buffers_refuted.

Theorem C07_filter_output_bounded : forall file claimed, alloc_bounded 0 2147484162 file (inflate_requests claimed).
Proof. exact inflate_requests_bounded. Qed.
Print Assumptions C07_filter_output_bounded.

(* REFUTED clause: the output buffer of a chunked dataset is sized by the declared extent.  For every k, c with
   k * |file| + c < 2^40 there are dimensions for which the request exceeds k * |file| + c (finding C07-chunked-extent-alloc);
   what holds is the constant limit 2^40. *)
Theorem C07_chunked_extent_refuted :
  forall k c file, k * blen file + c < 1099511627776 ->
  exists dims es, es < 18446744073709551616 /\ Forall (fun d => d < 18446744073709551616) dims /\
                  ~ alloc_bounded k c file (snd (chunked_total_bytes dims es)).
Proof. exact chunked_extent_unbounded. Qed.
Print Assumptions C07_chunked_extent_refuted.

Theorem C07_chunked_extent_limit : forall dims es, Forall (fun n => n <= 1099511627776) (snd (chunked_total_bytes dims es)).
Proof. exact chunked_total_bytes_limit. Qed.
Print Assumptions C07_chunked_extent_limit.

(* ------------------------------------------------------------------ termination, every file graph *)
(* (a) version 1 continuation chain: fuel 65537 is never exhausted; <= 65535 messages, <= 65535 continuation blocks *)
Theorem C07_v1_continuation_terminates :
  forall blk, (forall a k conts, blk a = Some (k, conts) -> N.of_nat (length conts) <= k /\ k <= 65535) ->
  forall first, v1_header blk (N.to_nat 65537) first <> TOutOfFuel /\
                forall n s, v1_header blk (N.to_nat 65537) first = TDone (n, s) -> n <= 65535 /\ s <= 65535.
Proof. exact v1_header_terminates. Qed.
Print Assumptions C07_v1_continuation_terminates.

(* (b) version 2 continuation chain: fuel 1026, <= 1025 chunks *)
Theorem C07_v2_continuation_terminates :
  forall blk first, v2_chain blk 1026 [first] [] 0 <> TOutOfFuel /\
                    forall s, v2_chain blk 1026 [first] [] 0 = TDone s -> s <= 1025.
Proof. exact v2_header_terminates. Qed.
Print Assumptions C07_v2_continuation_terminates.

(* (c) chunk B-tree: recursion depth <= level + 1 <= 256, whatever the child pointers say *)
Theorem C07_btree_descent_terminates :
  forall node level children visited, level <= 255 -> bt_collect node 256 level children visited <> TOutOfFuel.
Proof. exact bt_collect_256. Qed.
Print Assumptions C07_btree_descent_terminates.

Theorem C07_btree_visited_grows :
  forall node fuel level children visited n v',
  bt_collect node fuel level children visited = TDone (n, v') -> exists added, v' = added ++ visited.
Proof. exact bt_collect_visited. Qed.
Print Assumptions C07_btree_visited_grows.

(* (d) object tree: recursion depth <= 1025 for every link graph; never more than maxLoads objects *)
Theorem C07_load_terminates : forall links maxLoads root, load links 1026 maxLoads root [] 0 <> TOutOfFuel.
Proof. exact load_terminates. Qed.
Print Assumptions C07_load_terminates.

Theorem C07_load_count_bounded :
  forall links maxLoads fuel a loading count n,
  count <= maxLoads -> load links fuel maxLoads a loading count = TDone n -> count <= n /\ n <= maxLoads.
Proof. exact load_count. Qed.
Print Assumptions C07_load_count_bounded.
