From HV Require Import Base.Prelude Model.FHeap.
Theorem C15_placeholder : True. Proof. exact I. Qed.
Print Assumptions C15_placeholder.
