(* C15 - the fractal heap returns exactly the bytes stored under each live id.
   Statements only; proofs in Proofs/FHeap.v; model and specification in Model/FHeap.v.

   Hypotheses (named boolean predicates, Model/FHeap.v):
     bs_ok bs          19 < bs <= 65536 (the model has 2-byte heap offsets, as the code for these sizes; beyond, the pinned code
                       wrapped ids - C15_offset_wrap_refuted - and the repaired code (aca2fa7) uses wider offsets, not modelled)
     one_block bs h    the volume of the successful inserts stays within the usable size bs - 19 of one direct block
                       (beyond: the insert succeeds in memory and every later write-out is refused:
                       C15_multi_block_refuted, C15_full_refuted_indirect)
     targets_live bs h get / overwrite / delete address ids that are live at that point
                       (refuted for delete of a dead id: C15_dead_id_refuted)
   cap_new is the repaired capacity rule (usable = size - prefix 15 - checksum 4); cap_old the pinned one. *)
From HV Require Import Base.Prelude Model.FHeap Proofs.FHeap.

(* every answer of the model equals the specification's (a finite map id -> bytes); afterwards every live id
   returns its bytes, live ids are pairwise distinct with disjoint byte ranges, and the header's object count and
   free space are the specification's.  SL (write out + load back) may occur anywhere in the history. *)
Theorem C15_refines : forall bs hist,
  bs_ok bs = true -> one_block bs hist = true -> targets_live bs hist = true ->
  exists sp eouts h fs,
    spec_run bs spec0 hist = Some (sp, eouts)
    /\ run cap_new bs (new_heap bs, fs0) hist = (h, fs, eouts)
    /\ ((forall id d, lookup id (sp_live sp) = Some d -> get h id = Ok d)
        /\ NoDup (map fst (sp_live sp))
        /\ ForallOrdPairs (fun a b => disjoint_ids (fst a) (fst b) = true) (sp_live sp)
        /\ h_nobj h = spec_count sp /\ h_free h = spec_free bs sp).
Proof. exact refines_obs. Qed.
Print Assumptions C15_refines.

(* an insert that fails leaves a single-block heap exactly as it was (and it fails only for an empty or an
   over-sized object); the single-block insertion routine refuses what does not fit, unchanged *)
Theorem C15_full : forall cap h d pick,
  h_ind h = None -> h_others h = [] ->
  snd (insert cap h d pick) = Err ->
  fst (insert cap h d pick) = h /\ (len d = 0 \/ MAX_OBJ < len d).
Proof. exact insert_err_unchanged. Qed.
Print Assumptions C15_full.

Theorem C15_full_direct : forall cap h d,
  cap (db_size (h_blk h)) < db_free (h_blk h) + len d -> insert_direct cap h d = (h, Err).
Proof. exact insert_direct_full. Qed.
Print Assumptions C15_full_direct.

(* at any point of an admissible history: what store writes, load reads back as a heap with the same counters
   that answers every live id as before and represents the same specification state *)
Theorem C15_persist : forall bs hist,
  bs_ok bs = true -> one_block bs hist = true -> targets_live bs hist = true ->
  exists sp eouts h fs,
    spec_run bs spec0 hist = Some (sp, eouts)
    /\ run cap_new bs (new_heap bs, fs0) hist = (h, fs, eouts)
    /\ exists h1 fs1 ha h2,
         store h fs = Ok (h1, fs1, ha) /\ load bs (f_bytes fs1) ha = Ok h2
         /\ observables bs h2 sp
         /\ h_nobj h2 = h_nobj h /\ h_free h2 = h_free h /\ h_manoff h2 = h_manoff h
         /\ db_free (h_blk h2) = db_free (h_blk h)
         /\ (forall id d, lookup id (sp_live sp) = Some d -> get h2 id = get h id).
Proof. exact persist. Qed.
Print Assumptions C15_persist.

(* ... hence a store/load cycle inserted anywhere changes no later answer *)
Theorem C15_persist_commutes : forall bs pre post sp eouts,
  bs_ok bs = true -> spec_run bs spec0 (pre ++ post) = Some (sp, eouts) ->
  exists xs ys h fs h' fs',
    eouts = xs ++ ys /\ length xs = length pre
    /\ run cap_new bs (new_heap bs, fs0) (pre ++ post) = (h, fs, xs ++ ys)
    /\ run cap_new bs (new_heap bs, fs0) (pre ++ SL :: post) = (h', fs', xs ++ OUnit :: ys)
    /\ observables bs h sp /\ observables bs h' sp.
Proof. exact persist_commutes. Qed.
Print Assumptions C15_persist_commutes.

(* every live object's bytes are in the serialised direct block, at prefix + offset: none is lost to the block
   prefix or to the checksum *)
Theorem C15_no_byte_lost : forall bs hist,
  bs_ok bs = true -> one_block bs hist = true -> targets_live bs hist = true ->
  exists sp eouts h fs,
    spec_run bs spec0 hist = Some (sp, eouts)
    /\ run cap_new bs (new_heap bs, fs0) hist = (h, fs, eouts)
    /\ forall id d, lookup id (sp_live sp) = Some d ->
         slice (encode_dblock (h_blk h)) (PREFIX + id_off id) (len d) = d.
Proof. exact no_byte_lost. Qed.
Print Assumptions C15_no_byte_lost.

(* ... and both read-only readers return them from the written file *)
Theorem C15_readers : forall bs hist,
  bs_ok bs = true -> one_block bs hist = true -> targets_live bs hist = true ->
  exists sp eouts h fs,
    spec_run bs spec0 hist = Some (sp, eouts)
    /\ run cap_new bs (new_heap bs, fs0) hist = (h, fs, eouts)
    /\ exists h1 fs1 ha,
         store h fs = Ok (h1, fs1, ha)
         /\ forall id d, lookup id (sp_live sp) = Some d ->
              ro_read (f_bytes fs1) ha id = Ok d /\ core_read (f_bytes fs1) ha id = Ok d.
Proof. exact readers. Qed.
Print Assumptions C15_readers.

(* ---- refutations: what the excluded classes do (witnesses replayed on the Go code by the tie) *)
Theorem C15_no_byte_lost_refuted_old_rule :
  let d := obj 1 60 in
  let id := mkid 0 60 in
  bs_ok 64 = true /\ targets_live 64 [Ins d 0; SL; Get id] = true
  /\ outs_of cap_old 64 [Ins d 0; Get id] = [OId id; OData d]
  /\ bytes_eqb (slice (encode_dblock (h_blk (heap_of cap_old 64 [Ins d 0]))) (PREFIX + id_off id) (len d)) d = false
  /\ outs_of cap_old 64 [Ins d 0; SL; Get id] = [OId id; OUnit; OErr].
Proof. exact no_byte_lost_refuted_old_rule. Qed.
Print Assumptions C15_no_byte_lost_refuted_old_rule.

Theorem C15_multi_block_refuted :
  let a := obj 1 40 in let b := obj 101 40 in
  let hist := [Ins a 0; Ins b 0] in
  let idb := mkid 64 40 in
  bs_ok 64 = true /\ targets_live 64 hist = true /\ one_block 64 hist = false
  /\ outs_of cap_new 64 (hist ++ [Get idb; SL; Get idb]) = [OId (mkid 0 40); OId idb; OData b; OErr; OData b]
  /\ store (heap_of cap_new 64 hist) (file_of cap_new 64 hist) = Err
  /\ f_bytes (file_of cap_new 64 (hist ++ [SL])) = [].
Proof. exact multi_block_refuted. Qed.
Print Assumptions C15_multi_block_refuted.

Theorem C15_full_refuted_indirect :
  let hist := [Ins (obj 1 40) 0; Ins (obj 2 40) 0] in
  let h := heap_of cap_new 64 hist in
  let '(h', r) := insert cap_new h (obj 3 40) 0 in
  r = Err /\ h_mansize h = 128 /\ h_mansize h' = 192 /\ h_free h' = h_free h + 64
  /\ length (h_others h') = S (length (h_others h)).
Proof. exact full_refuted_indirect. Qed.
Print Assumptions C15_full_refuted_indirect.

Theorem C15_dead_id_refuted :
  let id := mkid 0 10 in
  let hist := [Ins (obj 1 10) 0; Del id; Del id] in
  bs_ok 64 = true /\ one_block 64 hist = true /\ targets_live 64 hist = false
  /\ outs_of cap_new 64 hist = [OId id; OUnit; OUnit]
  /\ h_nobj (heap_of cap_new 64 hist) = 18446744073709551615
  /\ h_free (heap_of cap_new 64 hist) = 74.
Proof. exact dead_id_refuted. Qed.
Print Assumptions C15_dead_id_refuted.

Theorem C15_offset_wrap_refuted :
  let a := repeat 1 (N.to_nat 65536) in
  let b := repeat 2 (N.to_nat 10) in
  let hist := [Ins a 0; Ins b 0] in
  bs_ok 524288 = false
  /\ outs_of cap_new 524288 (hist ++ [Get (mkid 0 10)]) = [OId (mkid 0 65536); OId (mkid 0 10); OData (repeat 1 (N.to_nat 10))]
  /\ disjoint_ids (mkid 0 65536) (mkid 0 10) = false.
Proof. exact offset_wrap_refuted. Qed.
Print Assumptions C15_offset_wrap_refuted.
