From HV Require Import Base.Prelude Model.LowFloat.
Theorem C20_placeholder : True. Proof. exact I. Qed.
Print Assumptions C20_placeholder.
