(* Property C20: FP8 (E4M3, E5M2) and bfloat16 conversions.  Statements only; proofs are in Proofs/LowFloat*.v.
   Bit patterns are N: float32 as 32 bits, codes as 8/16 bits.  4294967296 = 2^32, 2147483648 = 2^31 (sign bit),
   2139095040 = 0x7F800000 (+Inf, the largest non-NaN magnitude). *)
From HV Require Import Base.Prelude Model.LowFloat Model.LowFloatTie.
From HV Require Import Proofs.LowFloat.

(* ---- 1. run lifting: agreement at the end points of a run inside one sign/NaN segment is agreement on the run *)
Theorem C20_run_lifting_e4m3 : forall s e c x,
  run_ok (fp8_enc E4M3) (s, e, c) = true -> s <= x -> x <= e -> x < 4294967296 -> fp8_enc E4M3 x = c.
Proof. exact (fp8_run_lifting E4M3 (or_introl eq_refl)). Qed.
Print Assumptions C20_run_lifting_e4m3.

Theorem C20_run_lifting_e5m2 : forall s e c x,
  run_ok (fp8_enc E5M2) (s, e, c) = true -> s <= x -> x <= e -> x < 4294967296 -> fp8_enc E5M2 x = c.
Proof. exact (fp8_run_lifting E5M2 (or_intror eq_refl)). Qed.
Print Assumptions C20_run_lifting_e5m2.

(* bfloat16 keeps NaN payloads, so on the NaN segments the encoder is not monotone; run_ok_bf16 is run_ok plus
   "a run in a NaN segment stays inside one 65536-block" (there the code depends on the upper 16 bits only). *)
Theorem C20_run_lifting_bf16 : forall s e c x,
  run_ok_bf16 (s, e, c) = true -> s <= x -> x <= e -> x < 4294967296 -> bf16_enc x = c.
Proof. exact bf16_run_lifting. Qed.
Print Assumptions C20_run_lifting_bf16.

(* on the two number segments plain end-point agreement suffices ... *)
Theorem C20_run_lifting_bf16_numbers : forall s e c x,
  run_ok bf16_enc (s, e, c) = true -> N.even (seg s) = true ->
  s <= x -> x <= e -> x < 4294967296 -> bf16_enc x = c.
Proof. exact bf16_run_lifting_num. Qed.
Print Assumptions C20_run_lifting_bf16_numbers.

(* ... and on a NaN segment it does not (0x7F800001 and 0x7FC0FFFF both give 0x7FC0, 0x7F810000 gives 0x7FC1) *)
Theorem C20_run_lifting_bf16_plain_refuted :
  exists s e c x, run_ok bf16_enc (s, e, c) = true /\ s <= x /\ x <= e /\ x < 4294967296 /\ bf16_enc x <> c.
Proof. exact bf16_run_lifting_plain_refuted. Qed.
Print Assumptions C20_run_lifting_bf16_plain_refuted.

(* ---- 2. the magnitude encoders are monotone on [+0, +Inf] *)
Theorem C20_fp8_mono : forall F, (F = E4M3 \/ F = E5M2) ->
  forall a b, a <= b -> b <= 2139095040 -> fp8_enc_mag F a <= fp8_enc_mag F b.
Proof. exact fp8_mono. Qed.
Print Assumptions C20_fp8_mono.

Theorem C20_bf16_mono : forall a b, a <= b -> b <= 2139095040 -> bf16_enc a <= bf16_enc b.
Proof. exact bf16_mono. Qed.
Print Assumptions C20_bf16_mono.

(* ---- 3. FP8: the result is the nearest representable value, ties to the even code; a value at or beyond the
        midpoint between the largest finite value and the next grid point gives the infinity code 0x7F.
        (fp8_rne_ok = rne_spec on exact values scaled by 2^149, see Model/LowFloat.v) *)
Theorem C20_fp8_rne_e4m3 : forall mag, mag <= 2139095040 -> fp8_rne_ok E4M3 mag (fp8_enc_mag E4M3 mag) = true.
Proof. exact fp8_rne_E4M3. Qed.
Print Assumptions C20_fp8_rne_e4m3.

Theorem C20_fp8_rne_e5m2 : forall mag, mag <= 2139095040 -> fp8_rne_ok E5M2 mag (fp8_enc_mag E5M2 mag) = true.
Proof. exact fp8_rne_E5M2. Qed.
Print Assumptions C20_fp8_rne_e5m2.

(* ---- 4. bfloat16: same specification on the grid of float32 values with 16 low zero bits, infinity 0x7F80 *)
Theorem C20_bf16_rne : forall mag, mag <= 2139095040 -> bf16_rne_ok mag (bf16_enc mag) = true.
Proof. exact bf16_rne. Qed.
Print Assumptions C20_bf16_rne.

(* 3./4. for the full encoders: a non-NaN input gives its sign bit plus the correctly rounded magnitude *)
Theorem C20_fp8_enc_correct : forall F, (F = E4M3 \/ F = E5M2) ->
  forall x, x < 4294967296 -> f32_is_nan x = false ->
  exists c, fp8_enc F x = f32_sign x * 128 + c /\ fp8_rne_ok F (f32_mag x) c = true.
Proof. exact fp8_enc_correct. Qed.
Print Assumptions C20_fp8_enc_correct.

Theorem C20_bf16_enc_correct : forall x, x < 4294967296 -> f32_is_nan x = false ->
  exists c, bf16_enc x = f32_sign x * 32768 + c /\ bf16_rne_ok (f32_mag x) c = true.
Proof. exact bf16_enc_correct. Qed.
Print Assumptions C20_bf16_enc_correct.

(* ---- 5. sign symmetry *)
Theorem C20_fp8_sign : forall F x, x < 2147483648 -> f32_is_nan x = false ->
  fp8_enc F (x + 2147483648) = fp8_enc F x + 128.
Proof. exact fp8_sign. Qed.
Print Assumptions C20_fp8_sign.

Theorem C20_bf16_sign : forall x, x < 2147483648 -> f32_is_nan x = false ->
  bf16_enc (x + 2147483648) = bf16_enc x + 32768.
Proof. exact bf16_sign. Qed.
Print Assumptions C20_bf16_sign.

(* ---- 6. code -> float32 -> code *)
Theorem C20_fp8_code_roundtrip_e4m3 : forall c, c < 256 -> fp8_nan_code E4M3 c = false ->
  fp8_enc E4M3 (fp8_dec E4M3 c) = c.
Proof. exact (fp8_code_roundtrip E4M3 (or_introl eq_refl)). Qed.
Print Assumptions C20_fp8_code_roundtrip_e4m3.

Theorem C20_fp8_code_roundtrip_e5m2 : forall c, c < 256 -> fp8_nan_code E5M2 c = false ->
  fp8_enc E5M2 (fp8_dec E5M2 c) = c.
Proof. exact (fp8_code_roundtrip E5M2 (or_intror eq_refl)). Qed.
Print Assumptions C20_fp8_code_roundtrip_e5m2.

Theorem C20_bf16_code_roundtrip : forall c, c < 65536 -> c mod 32768 <= 32640 -> bf16_enc (bf16_dec c) = c.
Proof. exact bf16_code_roundtrip. Qed.
Print Assumptions C20_bf16_code_roundtrip.

Theorem C20_bf16_nan_stays_nan : forall x, x < 4294967296 -> f32_is_nan x = true ->
  32640 < (bf16_enc x) mod 32768.
Proof. exact bf16_nan_stays_nan. Qed.
Print Assumptions C20_bf16_nan_stays_nan.

Theorem C20_bf16_no_nan_confusion : forall x, x < 4294967296 -> f32_is_nan x = false ->
  (bf16_enc x) mod 32768 <= 32640.
Proof. exact bf16_no_nan_confusion. Qed.
Print Assumptions C20_bf16_no_nan_confusion.

(* ---- 7. NaN codes of FP8 *)
Theorem C20_fp8_no_nan_from_number : forall F, (F = E4M3 \/ F = E5M2) ->
  forall x, x < 4294967296 -> f32_is_nan x = false -> fp8_nan_code F (fp8_enc F x) = false.
Proof. exact fp8_no_nan_from_number. Qed.
Print Assumptions C20_fp8_no_nan_from_number.

(* known finding C20-fp8-nan-is-inf-code: a NaN becomes +Inf *)
Theorem C20_fp8_nan_refuted :
  exists x, f32_is_nan x = true /\ f32_is_inf (fp8_dec E4M3 (fp8_enc E4M3 x)) = true.
Proof. exact fp8_nan_refuted. Qed.
Print Assumptions C20_fp8_nan_refuted.

Theorem C20_fp8_nan_refuted_e5m2 :
  exists x, f32_is_nan x = true /\ f32_is_inf (fp8_dec E5M2 (fp8_enc E5M2 x)) = true.
Proof. exact fp8_nan_refuted_e5m2. Qed.
Print Assumptions C20_fp8_nan_refuted_e5m2.

(* ---- 8. byte codec *)
Theorem C20_bf16_bytes_roundtrip : forall c, c < 65536 -> bf16_unbytes (bf16_bytes c) = c.
Proof. exact bf16_bytes_roundtrip. Qed.
Print Assumptions C20_bf16_bytes_roundtrip.
