(* C09 - Partial reads agree with the full read.
   Model: Model/Hyperslab.v = dataset_read_hyperslab.go + utils.ValidateHyperslabBounds +
   dataset_chunk_iterator.go as repaired by notes/fixes/c09-*.patch (Part 2), and the code as it
   was before (Part 3).  `select full dims s` is the specification: the elements of the full
   read at the coordinates of the selection, in row-major order of the selection.
   All theorems are general in the rank (induction over the list of dimensions). *)
From HV Require Import Base.Prelude Model.Hyperslab Proofs.HyperslabBase Proofs.HyperslabValidate
  Proofs.HyperslabRaw Proofs.HyperslabContig Proofs.HyperslabChunk Proofs.HyperslabDispatch
  Proofs.HyperslabIter Proofs.HyperslabRefuted.

(* ---- validation: accepted  <->  inside the dataset (uint64 arithmetic, unbounded specification) *)
Theorem C09_validate_sound : forall h dims,
  u64_sel h (length dims) -> Forall u64 dims -> validate h dims = Ok -> valid h dims.
Proof. exact validate_sound. Qed.
Print Assumptions C09_validate_sound.

Theorem C09_validate_complete : forall h dims,
  u64_sel h (length dims) -> Forall u64 dims -> dims <> [] ->
  prodN (h_count h) <= max_hyperslab_elements ->
  valid h dims -> validate h dims = Ok.
Proof. exact validate_complete. Qed.
Print Assumptions C09_validate_complete.

Theorem C09_slice_validate : forall start count dims,
  Forall u64 dims -> (slice_validate start count dims = Ok <-> slice_valid start count dims).
Proof. exact slice_validate_ok. Qed.
Print Assumptions C09_slice_validate.

(* ---- every extraction path returns the selection (good_P = the path's dispatch condition) *)
Theorem C09_path_compact_correct : forall full dims s,
  axes_valid s dims -> s <> [] -> lenN full = prodN dims ->
  extract_from_raw full dims s = select full dims s.
Proof. exact extract_from_raw_correct. Qed.
Print Assumptions C09_path_compact_correct.

Theorem C09_path_single_read_correct : forall full dims s,
  axes_valid s dims -> s <> [] -> lenN full = prodN dims ->
  is_contiguous_selection s dims = true ->
  read_contiguous_optimized full dims s = select full dims s.
Proof. exact read_contiguous_optimized_correct. Qed.
Print Assumptions C09_path_single_read_correct.

Theorem C09_path_2d_correct : forall full d0 d1 a0 a1,
  axes_valid [a0; a1] [d0; d1] ->
  read_contiguous_2d full d0 d1 a0 a1 = select full [d0; d1] [a0; a1].
Proof. exact read_contiguous_2d_correct. Qed.
Print Assumptions C09_path_2d_correct.

Theorem C09_path_selection_run_correct : forall full dims s,
  axes_valid s dims -> s <> [] -> lenN full = prodN dims ->
  fst (ext_rec (read_at full (calc_lin (map a_start s) dims) (calc_lin (last_rel s) dims + 1))
               dims (zero_start s) dims [] (zeros (out_elems s), 0))
  = select full dims s.
Proof. exact selection_run_correct. Qed.
Print Assumptions C09_path_selection_run_correct.

Theorem C09_path_contiguous_correct : forall full dims s,
  axes_valid s dims -> s <> [] -> lenN full = prodN dims ->
  read_hyperslab_contiguous full dims s = select full dims s.
Proof. exact read_hyperslab_contiguous_correct. Qed.
Print Assumptions C09_path_contiguous_correct.

Theorem C09_path_chunked_correct : forall full dims cdims s,
  axes_valid s dims -> s <> [] -> length cdims = length dims -> Forall (fun c => 0 < c) cdims ->
  read_hyperslab_chunked full dims cdims s = select full dims s.
Proof. exact read_hyperslab_chunked_correct. Qed.
Print Assumptions C09_path_chunked_correct.

(* ---- ReadHyperslab / ReadSlice as a whole; `good sel` is `True`: no exclusion is left *)
Theorem C09_dispatch : forall lay full dims h,
  u64_sel h (length dims) -> Forall u64 dims -> layout_ok lay full dims ->
  validate h dims = Ok ->
  read_hyperslab lay full dims h = Some (select full dims (axes_of h (length dims))).
Proof. exact read_hyperslab_ok. Qed.
Print Assumptions C09_dispatch.

Theorem C09_valid_is_read : forall lay full dims h,
  u64_sel h (length dims) -> Forall u64 dims -> layout_ok lay full dims ->
  dims <> [] -> prodN (h_count h) <= max_hyperslab_elements -> valid h dims ->
  read_hyperslab lay full dims h = Some (select full dims (axes_of h (length dims))).
Proof. exact read_hyperslab_valid. Qed.
Print Assumptions C09_valid_is_read.

Theorem C09_invalid_is_rejected : forall lay full dims h,
  u64_sel h (length dims) -> Forall u64 dims -> ~ valid h dims -> read_hyperslab lay full dims h = None.
Proof. exact read_hyperslab_rejects. Qed.
Print Assumptions C09_invalid_is_rejected.

(* ReadSlice runs validateHyperslabSelection a second time inside readHyperslab (non-empty requests): more than
   MaxHyperslabElements elements are refused, hence the bound (Props/C09File.v C09_file_read_slice_contiguous shows the
   refusal at file level) *)
Theorem C09_read_slice : forall lay full dims start count,
  Forall u64 dims -> layout_ok lay full dims -> dims <> [] ->
  prodN count <= max_hyperslab_elements ->
  slice_valid start count dims ->
  read_slice lay full dims start count = Some (select full dims (slice_axes start count)).
Proof. exact read_slice_ok. Qed.
Print Assumptions C09_read_slice.

Theorem C09_read_slice_rejects : forall lay full dims start count,
  Forall u64 dims -> ~ slice_valid start count dims -> read_slice lay full dims start count = None.
Proof. exact read_slice_rejects. Qed.
Print Assumptions C09_read_slice_rejects.

(* ---- chunk iterator *)
Theorem C09_chunk_iter_tiles : forall full dims cdims,
  Forall u64 dims -> dims <> [] -> lenN full = prodN dims ->
  length cdims = length dims -> Forall (fun c => 0 < c) cdims -> prodN cdims <= max_hyperslab_elements ->
  NoDup (iter_coords dims cdims) /\
  (forall x, Forall2 N.lt x dims ->
     exists cc, In cc (iter_coords dims cdims) /\ In x (sel_coords (box_axes dims cdims cc)) /\
                forall cc', In cc' (iter_coords dims cdims) ->
                            In x (sel_coords (box_axes dims cdims cc')) -> cc' = cc) /\
  (forall cc, In cc (iter_coords dims cdims) ->
     iter_piece full dims cdims cc = Some (select full dims (box_axes dims cdims cc))).
Proof. exact chunk_iter_tiles. Qed.
Print Assumptions C09_chunk_iter_tiles.

(* ---- the boolean validity predicate evaluated by the tie is the specification's *)
Theorem C09_validb_reflects : forall h dims, validb h dims = true <-> valid h dims.
Proof. exact validb_spec. Qed.
Print Assumptions C09_validb_reflects.

(* ---- the code before the repairs violated the property (D9), one witness per class *)
Theorem C09_refuted_validate_overflow :
  exists h dims, u64_sel h (length dims) /\ Forall u64 dims /\ validate_orig h dims = Ok /\ ~ valid h dims.
Proof. exact validate_orig_refuted. Qed.
Print Assumptions C09_refuted_validate_overflow.

Theorem C09_refuted_slice_overflow :
  exists start count dims, Forall u64 start /\ Forall u64 count /\ Forall u64 dims /\
    slice_validate_orig start count dims = Ok /\ ~ slice_valid start count dims.
Proof. exact slice_validate_orig_refuted. Qed.
Print Assumptions C09_refuted_slice_overflow.

Theorem C09_refuted_1d_fast_path :
  orig_wrong Contiguous (nrange 10) [10] (mkSel [0] [3] (Some [2]) None).
Proof. exact orig_1d_refuted. Qed.
Print Assumptions C09_refuted_1d_fast_path.

Theorem C09_refuted_nd_contiguous_guard :
  orig_wrong Contiguous (nrange 20) [4; 5] (mkSel [0; 0] [2; 5] (Some [2; 1]) None).
Proof. exact orig_nd_contiguous_refuted. Qed.
Print Assumptions C09_refuted_nd_contiguous_guard.

Theorem C09_refuted_bounding_box :
  orig_wrong Contiguous (nrange 60) [3; 4; 5] (mkSel [1; 1; 1] [2; 2; 2] None None).
Proof. exact orig_bbox_refuted. Qed.
Print Assumptions C09_refuted_bounding_box.

Theorem C09_refuted_chunk_major :
  orig_wrong (Chunked [2; 3]) (nrange 24) [4; 6] (mkSel [0; 0] [4; 6] None None).
Proof. exact orig_chunk_major_refuted. Qed.
Print Assumptions C09_refuted_chunk_major.

Theorem C09_refuted_chunk_overlapping_blocks :
  orig_wrong (Chunked [2]) (nrange 6) [6] (mkSel [0] [2] (Some [1]) (Some [3])).
Proof. exact orig_chunk_overlap_refuted. Qed.
Print Assumptions C09_refuted_chunk_overlapping_blocks.

(* ---- non-vacuity *)
Theorem C09_nonvacuous_chunked :
  valid ex_h ex_dims /\ validate ex_h ex_dims = Ok /\
  read_hyperslab (Chunked [2; 3; 2]) (nrange 60) ex_dims ex_h
  = Some [21; 22; 23; 24; 31; 32; 33; 34; 41; 42; 43; 44; 51; 52; 53; 54].
Proof. exact nonvacuous_chunked. Qed.
Print Assumptions C09_nonvacuous_chunked.

Theorem C09_nonvacuous_rejects :
  validate (mkSel [18446744073709551615] [2] None None) [10] = Err /\
  validate (mkSel [1] [1] None (Some [18446744073709551615])) [10] = Err /\
  validate (mkSel [0] [4] (Some [3]) None) [10] = Ok /\
  validate (mkSel [0] [4] (Some [3]) (Some [2])) [10] = Err /\
  slice_validate [9] [18446744073709551615] [10] = Err /\
  slice_validate [10] [0] [10] = Ok.
Proof. exact nonvacuous_rejects. Qed.
Print Assumptions C09_nonvacuous_rejects.

Theorem C09_nonvacuous_iterator :
  chunk_iterator (nrange 24) [4; 6] [2; 4]
  = [([0; 0], Some [0; 1; 2; 3; 6; 7; 8; 9]); ([0; 1], Some [4; 5; 10; 11]);
     ([1; 0], Some [12; 13; 14; 15; 18; 19; 20; 21]); ([1; 1], Some [16; 17; 22; 23])].
Proof. exact nonvacuous_iterator. Qed.
Print Assumptions C09_nonvacuous_iterator.
