(* C08 - filter pipelines are lossless, self-compatible and detect corruption.
   Statements only; proofs are in Proofs/Filters*.v, the model in Model/Filters.v.
   deflate/inflate are NOT re-proved: the theorems that involve them take the zlib round trip
   [forall l x, inflate (deflate l x) = Some x] as an explicit premise (trusted base; exercised by the tie). *)
From HV Require Import Base.Prelude Model.Filters.
From HV Require Import Proofs.FiltersShuffle Proofs.FiltersFletcher Proofs.FiltersLzf Proofs.FiltersPipeline.

(* shuffle: the writer's Remove inverts its Apply whenever the length is a multiple of the element size *)
Theorem C08_shuffle_inv : forall esz x,
  0 < esz -> N.of_nat (length x) mod esz = 0 ->
  bind (shuffle_apply esz x) (shuffle_remove esz) = Ok x.
Proof. exact shuffle_inv. Qed.
Print Assumptions C08_shuffle_inv.

(* the reader's applyShuffle is the same function as the writer's Remove, errors included *)
Theorem C08_reader_unshuffle_is_writer_remove : forall esz y,
  0 < esz -> reader_unshuffle [esz] y = shuffle_remove esz y.
Proof. exact reader_unshuffle_eq. Qed.
Print Assumptions C08_reader_unshuffle_is_writer_remove.

(* lengths that are not a multiple of the element size are rejected by all three entry points *)
Theorem C08_shuffle_nonmultiple : forall esz x,
  0 < esz -> N.of_nat (length x) mod esz <> 0 ->
  shuffle_apply esz x = Err /\ shuffle_remove esz x = Err /\ reader_unshuffle [esz] x = Err.
Proof. exact shuffle_nonmultiple. Qed.
Print Assumptions C08_shuffle_nonmultiple.

(* element size 0 is an error everywhere (the writer used to divide by zero) *)
Theorem C08_shuffle_zero_esz : forall x,
  x <> [] -> shuffle_apply 0 x = Err /\ shuffle_remove 0 x = Err /\ reader_unshuffle [0] x = Err.
Proof. exact shuffle_esz0_err. Qed.
Print Assumptions C08_shuffle_zero_esz.

Theorem C08_fletcher_roundtrip : forall x, fletcher_verify (fletcher_apply x) = Ok x.
Proof. exact fletcher_roundtrip. Qed.
Print Assumptions C08_fletcher_roundtrip.

(* any single byte of the stored chunk (payload or checksum) replaced by a different byte: an error *)
Theorem C08_fletcher_detects_single_byte : forall (x : bytes) (i : nat) (b : byte),
  bytes_ok x -> b < 256 -> (i < length (fletcher_apply x))%nat -> b <> nth i (fletcher_apply x) 0 ->
  fletcher_verify (upd i b (fletcher_apply x)) = Err.
Proof. exact fletcher_detects_single_byte. Qed.
Print Assumptions C08_fletcher_detects_single_byte.

Theorem C08_lzf_roundtrip : forall x, lzf_decompress (lzf_compress x) = Ok x.
Proof. exact lzf_roundtrip. Qed.
Print Assumptions C08_lzf_roundtrip.

(* on arbitrary input the decompressor returns data or an error: no panic, and fuel = len(input) suffices *)
Theorem C08_lzf_decompress_total : forall i, lzf_decompress i <> OutOfFuel /\ lzf_decompress i <> Panic.
Proof. exact lzf_decompress_total. Qed.
Print Assumptions C08_lzf_decompress_total.

(* any filters, any order: whatever the writer's Apply accepted, its Remove restores *)
Theorem C08_pipeline_roundtrip :
  forall (deflate : N -> bytes -> bytes) (inflate : bytes -> option bytes),
  (forall l x, inflate (deflate l x) = Some x) ->
  forall fs x y, pipeline_apply deflate fs x = Ok y -> pipeline_remove inflate fs y = Ok x.
Proof. exact pipeline_roundtrip. Qed.
Print Assumptions C08_pipeline_roundtrip.

(* Apply succeeds when every filter's precondition holds on its input (only shuffle has one) *)
Theorem C08_pipeline_accepts :
  forall (deflate : N -> bytes -> bytes) fs x,
  pipeline_pre deflate fs x -> exists y, pipeline_apply deflate fs x = Ok y.
Proof. exact pipeline_accepts. Qed.
Print Assumptions C08_pipeline_accepts.

(* the reader (ApplyFilters on the parsed description) decodes what the writer encoded *)
Theorem C08_reader_decodes_writer :
  forall (deflate : N -> bytes -> bytes) (inflate : bytes -> option bytes),
  (forall l x, inflate (deflate l x) = Some x) ->
  forall fs x y, stages_small deflate fs x ->     (* every deflate stage input is at most utils.MaxChunkSize = 1 GiB *)
  pipeline_apply deflate fs x = Ok y -> reader_apply inflate (descr fs) y = Ok x.
Proof. exact reader_decodes_writer. Qed.
Print Assumptions C08_reader_decodes_writer.

(* the reader parses the writer's description message into exactly the writer's filter list *)
Theorem C08_msg_roundtrip : forall fs,
  Forall filter_wf fs -> (0 < length fs < 256)%nat ->
  bind (encode_msg (descr fs)) parse_msg = Ok (2, N.of_nat (length fs), descr fs).
Proof. exact msg_roundtrip. Qed.
Print Assumptions C08_msg_roundtrip.

(* ... for both variants of the version 2 filter name switch of the parser (Model/Filters.v filters_v2_names: the code before /
   after notes/fixes/c06-pipeline-v2-filter-name.patch; parse_msg is the repaired variant) *)
Theorem C08_msg_roundtrip_both_variants : forall rep fs,
  Forall filter_wf fs -> (0 < length fs < 256)%nat ->
  bind (encode_msg (descr fs)) (parse_msg_gen rep) = Ok (2, N.of_nat (length fs), descr fs).
Proof. exact msg_roundtrip_gen. Qed.
Print Assumptions C08_msg_roundtrip_both_variants.

(* Fletcher-32 outermost: a single altered byte of the stored chunk is an error for the writer's Remove
   and for the reader's ApplyFilters, whatever the other filters are *)
Theorem C08_pipeline_detects :
  forall (inflate : bytes -> option bytes) pre (z : bytes) (i : nat) (b : byte),
  bytes_ok z -> b < 256 -> (i < length (fletcher_apply z))%nat -> b <> nth i (fletcher_apply z) 0 ->
  pipeline_remove inflate (pre ++ [FFletcher]) (upd i b (fletcher_apply z)) = Err /\
  reader_apply inflate (descr (pre ++ [FFletcher])) (upd i b (fletcher_apply z)) = Err.
Proof. exact pipeline_detects. Qed.
Print Assumptions C08_pipeline_detects.

(* The same statement for Fletcher-32 NOT outermost is false (finding C08-fletcher-not-outermost-lzf):
   pipeline [fletcher32; lzf], 40 zero bytes, stored byte 4 (the length byte) changed from 33 to 29: both decoders return
   36 zero bytes and no error. *)
Theorem C08_fletcher_inner_refuted :
  pipeline_apply (fun _ x => x) refuted_fs refuted_x = Ok refuted_stored /\
  nth 4 refuted_stored 0 = 33 /\
  pipeline_remove (fun x => Some x) refuted_fs (upd 4 29 refuted_stored) = Ok (repeat 0 36) /\
  reader_apply (fun x => Some x) (descr refuted_fs) (upd 4 29 refuted_stored) = Ok (repeat 0 36).
Proof. exact fletcher_inner_refuted. Qed.
Print Assumptions C08_fletcher_inner_refuted.
