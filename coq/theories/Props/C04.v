(* C04 - operations on one object never change another object (store-model part).
   reach bp ba sb h = the state after CreateForWrite (superblock version sb) and the arbitrary history h, for the
   repaired code (cfg_fixed); targets s o = the extents (owner, kind) operation o may rewrite in place. *)
From HV Require Import Base.Prelude Model.Store Proofs.Store Proofs.StoreOps Proofs.StoreInv Proofs.StoreProps.
Local Open Scope N_scope.

(* an in-place object header write never exceeds the reserved 7+255 bytes (writeToV2 checks before writing) *)
Theorem C04_header_rewrite_within_reservation : forall x k m w,
  hdr_write x k m = Some w -> w = CWrite x k 0 (hdr_size m) /\ hdr_size m <= max_hdr.
Proof. exact C04_header_rewrite_within_reservation_l. Qed.
Print Assumptions C04_header_rewrite_within_reservation.

(* every byte range written by an operation lies inside an extent owned by its targets
   (the object itself, the parent group's heap / symbol node) or inside an extent allocated by this operation *)
Theorem C04_writes_within_owned : forall bp ba sb h o,
  let s := reach bp ba sb h in let s' := fst (step s o) in
  ovf (st s') = false ->
  forall w, In w (wlog (st s')) ->
  exists e, In e (exts (st s')) /\ start e <= fst w /\ fst w + snd w <= ext_end e /\
            (targets s o (owner e) (kind_of e) = true \/ next (al (st s)) <= start e).
Proof. exact C04_writes_within_owned_l. Qed.
Print Assumptions C04_writes_within_owned.

(* frame: every extent outside the targets is byte-for-byte untouched by the operation *)
Theorem C04_frame : forall bp ba sb h o,
  let s := reach bp ba sb h in let s' := fst (step s o) in
  ovf (st s') = false ->
  forall e', In e' (exts (st s)) -> targets s o (owner e') (kind_of e') = false ->
  forall w, In w (wlog (st s')) -> fst w + snd w <= start e' \/ ext_end e' <= fst w.
Proof. exact C04_frame_l. Qed.
Print Assumptions C04_frame.

(* in particular all extents of every other object survive and are untouched *)
Theorem C04_frame_other_objects : forall bp ba sb h o y,
  let s := reach bp ba sb h in let s' := fst (step s o) in
  ovf (st s') = false -> (forall k, targets s o y k = false) ->
  forall e', In e' (exts (st s)) -> owner e' = y ->
  In e' (exts (st s')) /\ forall w, In w (wlog (st s')) -> fst w + snd w <= start e' \/ ext_end e' <= fst w.
Proof. exact C04_frame_other_objects_l. Qed.
Print Assumptions C04_frame_other_objects.

(* what the header reservation bought: with exact-size headers the frame property is false *)
Theorem C04_refuted_exact_size_headers :
  let s := run (init cfg_exact_hdr 2) hist_exact in let o := OpAttrSet 1 None 43 true in
  snd (step s o) = true /\
  exists e' w, In e' (exts (st s)) /\ targets s o (owner e') (kind_of e') = false /\
               In w (wlog (st (fst (step s o)))) /\ ~ (fst w + snd w <= start e' \/ ext_end e' <= fst w).
Proof. exact C04_refuted_exact_size_headers_l. Qed.
Print Assumptions C04_refuted_exact_size_headers.

(* /repo before 0d24a11 (link object headers at exact size): hard link to a soft link overwrites the next extent *)
Theorem C04_refuted_exact_size_link_headers :
  let s := run (init cfg_repo 2) hist_link in let o := OpHardLink 0 1 false 2 in
  snd (step s o) = true /\
  exists e' w, In e' (exts (st s)) /\ targets s o (owner e') (kind_of e') = false /\
               In w (wlog (st (fst (step s o)))) /\ ~ (fst w + snd w <= start e' \/ ext_end e' <= fst w).
Proof. exact C04_refuted_exact_size_link_headers_l. Qed.
Print Assumptions C04_refuted_exact_size_link_headers.

(* /repo before 18bfe7a (the object header of a group made by CreateDenseGroup allocated at its exact size):
   dataset a, dense group d, dataset b, first hard link to d -- the grown header of d overwrites b's data extent *)
Theorem C04_refuted_exact_size_dense_group_header :
  let s := run (init cfg_exact_dense 2) hist_dense_group in let o := OpHardLink 0 1 false 2 in
  all_ok_pre (init cfg_exact_dense 2) hist_dense_group = true /\ snd (step s o) = true /\
  exists e' w, In e' (exts (st s)) /\ targets s o (owner e') (kind_of e') = false /\
               In w (wlog (st (fst (step s o)))) /\ ~ (fst w + snd w <= start e' \/ ext_end e' <= fst w).
Proof. exact C04_refuted_exact_size_dense_group_header_l. Qed.
Print Assumptions C04_refuted_exact_size_dense_group_header.

(* with the reservation of 18bfe7a the same call stays inside the 7+255 bytes of d's header *)
Theorem C04_dense_group_header_reserved :
  let s := run (init cfg_fixed 2) hist_dense_group in let o := OpHardLink 0 1 false 2 in
  snd (step s o) = true /\ frame_b s o = true /\
  find_ext (exts (st s)) 2 KHeader = Some (mkExt 531033 max_hdr 2 KHeader).
Proof. exact C04_dense_group_header_reserved_l. Qed.
Print Assumptions C04_dense_group_header_reserved.
