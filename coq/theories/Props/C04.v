From HV Require Import Base.Prelude.
Theorem C04_placeholder : True. Proof. exact I. Qed.
Print Assumptions C04_placeholder.
