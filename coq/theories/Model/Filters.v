(* C08 - executable model of the chunk filter code (no proofs in this file).

   Transcribed from the repaired tree (/repo commits cfaf3f5 zlib container, f3a83f8 message parse,
   c414fcd Fletcher-32 verification, d7e9c97 empty shuffle chunk, b6934a2 zero element size;
   patches kept in notes/fixes/c08-*.patch; 37cc16e + cd14fb7 LZF long back-reference byte order,
   92e0a56 size limits):
     internal/writer/filter_shuffle.go      ShuffleFilter.Apply / Remove
     internal/writer/filter_fletcher32.go   Fletcher32Filter.Apply / Remove (calculateFletcher32 = core.Fletcher32)
     internal/writer/filter_lzf.go          lzfCompress, hashLZF, appendLiteral, appendBackref, lzfDecompress
     internal/writer/filter_gzip.go         deflate = Section variable (zlib container, not re-proved)
     internal/writer/filter_pipeline.go     FilterPipeline.Apply / Remove / EncodePipelineMessage / encodeFilter
     internal/core/filterpipeline.go        ParseFilterPipelineMessage, ApplyFilters, applyFilter, applyShuffle,
                                            applyFletcher32 + verifyFletcher32, Fletcher32, applyLZF, lzfDecompress

   Conventions: bytes are [list N] (every element < 256 is a hypothesis of the theorems that need it);
   positions/lengths are nat; Go run-time failures are values of [outcome].
   Not modelled: [uint32(len(data))] truncation in the shuffle filter (payloads are shorter than 4 GiB),
   error message texts (one error class), bzip2/szip (the writer's Apply always fails for them). *)
From HV Require Import Base.Prelude.
From Coq Require Import FSets.FMapPositive.

Inductive outcome (A : Type) : Type :=
| Ok (a : A)
| Err            (* the Go function returned a non-nil error *)
| Panic          (* Go run-time panic (none is reachable in the repaired code; kept so that this is a theorem) *)
| OutOfFuel.     (* artefact of the model; theorems show it is unreachable with the fuel given *)
Arguments Ok {A} a.
Arguments Err {A}.
Arguments Panic {A}.
Arguments OutOfFuel {A}.

Definition bind {A B} (o : outcome A) (f : A -> outcome B) : outcome B :=
  match o with Ok a => f a | Err => Err | Panic => Panic | OutOfFuel => OutOfFuel end.

(* ------------------------------------------------------------------ shuffle *)

(* a[i] = v on a Go slice whose index is in range (all uses below are in range after the length checks) *)
Fixpoint upd {A} (i : nat) (v : A) (l : list A) : list A :=
  match l with
  | [] => []
  | h :: t => match i with O => v :: t | S i' => h :: upd i' v t end
  end.

(* for o := 0; o < a; o++ { for i := 0; i < b; i++ { ... } } : the (o,i) pairs in execution order *)
Definition loop2 (a b : nat) : list (nat * nat) := list_prod (seq 0 a) (seq 0 b).

(* result := make([]byte, len); for each index pair p in order: result[dst p] = data[src p] *)
Definition scatter (len : nat) (dst src : nat * nat -> nat) (idx : list (nat * nat)) (data : bytes) : bytes :=
  fold_left (fun acc p => upd (dst p) (nth (src p) data 0) acc) idx (repeat 0 len).

(* writer: ShuffleFilter.Apply.  outer loop byteIndex, inner loop elemIndex *)
Definition shuffle_apply (esz : N) (data : bytes) : outcome bytes :=
  match data with
  | [] => Ok data
  | _ =>
    if esz =? 0 then Err                                     (* repaired: zero element size is an error *)
    else if negb (N.of_nat (length data) mod esz =? 0) then Err
    else
      let e := N.to_nat esz in
      let n := (length data / e)%nat in
      Ok (scatter (length data)
                  (fun p => (fst p * n + snd p)%nat)         (* dstIndex := byteIndex*numElements + elemIndex *)
                  (fun p => (snd p * e + fst p)%nat)         (* srcIndex := elemIndex*elementSize + byteIndex *)
                  (loop2 e n) data)
  end.

(* writer: ShuffleFilter.Remove.  same loop nest, indices exchanged *)
Definition shuffle_remove (esz : N) (data : bytes) : outcome bytes :=
  match data with
  | [] => Ok data
  | _ =>
    if esz =? 0 then Err
    else if negb (N.of_nat (length data) mod esz =? 0) then Err
    else
      let e := N.to_nat esz in
      let n := (length data / e)%nat in
      Ok (scatter (length data)
                  (fun p => (snd p * e + fst p)%nat)         (* dstIndex := elemIndex*elementSize + byteIndex *)
                  (fun p => (fst p * n + snd p)%nat)         (* srcIndex := byteIndex*numElements + elemIndex *)
                  (loop2 e n) data)
  end.

(* reader: applyShuffle(data, clientData).  outer loop elemIdx, inner loop byteIdx *)
Definition reader_unshuffle (cd : list N) (data : bytes) : outcome bytes :=
  match cd with
  | [] => Err                                                (* missing element size *)
  | esz :: _ =>
    match data with
    | [] => Ok data                                          (* repaired: empty chunk passes *)
    | _ =>
      if (esz =? 0) || (N.of_nat (length data) <? esz) then Err
      else if negb (N.of_nat (length data) mod esz =? 0) then Err
      else
        let e := N.to_nat esz in
        let n := (length data / e)%nat in
        Ok (scatter (length data)
                    (fun p => (fst p * e + snd p)%nat)       (* dstPos := elemIdx*elementSize + byteIdx *)
                    (fun p => (snd p * n + fst p)%nat)       (* srcPos := byteIdx*numElements + elemIdx *)
                    (loop2 n e) data)
    end
  end.

(* ------------------------------------------------------------------ Fletcher-32 (core.Fletcher32) *)

(* sum = (sum & 0xffff) + (sum >> 16) *)
Definition fold16 (s : N) : N := N.land s 65535 + N.shiftr s 16.

(* inner loop: up to [blk] big-endian 16-bit words; uint32 additions wrap *)
Fixpoint fl_block (blk : nat) (d : bytes) (s1 s2 : N) : bytes * N * N :=
  match blk with
  | O => (d, s1, s2)
  | S k =>
    match d with
    | a :: b :: r =>
      let s1' := wrap32 (s1 + (a * 256 + b)) in              (* uint32(data[pos])<<8 | uint32(data[pos+1]) *)
      fl_block k r s1' (wrap32 (s2 + s1'))
    | _ => (d, s1, s2)
    end
  end.

(* outer loop: blocks of at most 360 words, both sums folded after each block *)
Fixpoint fl_outer (fuel : nat) (d : bytes) (s1 s2 : N) : bytes * N * N :=
  match fuel with
  | O => (d, s1, s2)
  | S f =>
    match d with
    | _ :: _ :: _ =>
      let '(d', a, b) := fl_block 360 d s1 s2 in
      fl_outer f d' (fold16 a) (fold16 b)
    | _ => (d, s1, s2)
    end
  end.

Definition fletcher32 (data : bytes) : N :=
  let '(d, s1, s2) := fl_outer (length data) data 0 0 in
  let '(s1, s2) :=
    match d with
    | a :: _ =>                                              (* len(data)%2 != 0 *)
      let s1' := wrap32 (s1 + a * 256) in
      let s2' := wrap32 (s2 + s1') in
      (fold16 s1', fold16 s2')
    | [] => (s1, s2)
    end in
  let s1 := fold16 s1 in
  let s2 := fold16 s2 in
  wrap32 (N.lor (N.shiftl s2 16) s1).

(* writer Fletcher32Filter.Apply: data ++ little-endian checksum *)
Definition fletcher_apply (data : bytes) : bytes := data ++ le 4 (fletcher32 data).

(* writer Fletcher32Filter.Remove, and reader verifyFletcher32 + applyFletcher32 (same observable) *)
Definition fletcher_verify (stored : bytes) : outcome bytes :=
  if (length stored <? 4)%nat then Err
  else
    let n := (length stored - 4)%nat in
    let payload := firstn n stored in
    if unle (skipn n stored) =? fletcher32 payload then Ok payload else Err.

(* ------------------------------------------------------------------ LZF *)

Definition lzf_hash (b0 b1 b2 : N) : N :=
  let v := b0 * 65536 + b1 * 256 + b2 in
  let v := N.lxor v (N.shiftr v 16) in
  let v := wrap32 (v * 73244475) in                           (* 0x45d9f3b *)
  let v := N.lxor v (N.shiftr v 16) in
  N.land v 16383.

Definition htab := PositiveMap.t nat.
Definition htab_get (h : N) (t : htab) : nat :=
  match PositiveMap.find (N.succ_pos h) t with Some p => p | None => O end.
Definition htab_set (h : N) (p : nat) (t : htab) : htab := PositiveMap.add (N.succ_pos h) p t.

(* appendLiteral: runs of at most 32 bytes, control byte = run length - 1 *)
Fixpoint append_literal (fuel : nat) (lit : bytes) : bytes :=
  match lit with
  | [] => []
  | _ =>
    match fuel with
    | O => []
    | S f =>
      let run := Nat.min (length lit) 32 in
      N.of_nat (run - 1) :: firstn run lit ++ append_literal f (skipn run lit)
    end
  end.
Definition lzf_literal (lit : bytes) : bytes := append_literal (length lit) lit.

(* appendBackref(offset, length); the bit fields are disjoint, so | is + *)
Definition lzf_backref (offset len : nat) : bytes :=
  let off := N.of_nat (offset - 1) in
  let l := N.of_nat len in
  if (len <=? 8)%nat
  then [wrap8 ((l - 2) * 32 + off / 256); off mod 256]
  else [wrap8 (224 + off / 256); wrap8 (l - 9); off mod 256].   (* long form: the length byte precedes the low offset byte *)

(* for matchLen < maxLen && input[ref+matchLen] == input[inPos+matchLen]: number of further equal bytes *)
Fixpoint lzf_ext (a b : bytes) (bound : nat) : nat :=
  match bound with
  | O => O
  | S k =>
    match a, b with
    | x :: a', y :: b' => if x =? y then S (lzf_ext a' b' k) else O
    | _, _ => O
    end
  end.

(* hash table refresh after a match: positions pos, pos+1, ... while pos+2 < inLen *)
Fixpoint htab_fill (cnt pos : nat) (r : bytes) (t : htab) : htab :=
  match cnt with
  | O => t
  | S c =>
    match r with
    | b0 :: ((b1 :: b2 :: _) as r') => htab_fill c (S pos) r' (htab_set (lzf_hash b0 b1 b2) pos t)
    | _ => t
    end
  end.

(* main loop of lzfCompress.  [rest] = input[inPos:]; the append-only output buffer is returned as the
   concatenation of what each iteration appends. *)
Fixpoint lzf_loop (fuel : nat) (input : bytes) (inLen inPos litPos : nat) (rest : bytes) (t : htab) : bytes :=
  match fuel with
  | O => []
  | S f =>
    match rest with
    | b0 :: b1 :: b2 :: _ =>                                 (* inPos+3 <= inLen *)
      let h := lzf_hash b0 b1 b2 in
      let ref := htab_get h t in
      let t1 := htab_set h inPos t in
      if (0 <? ref)%nat && (ref <? inPos)%nat && (N.of_nat (inPos - ref) <=? 8192)
         && (nth ref input 0 =? b0) && (nth (ref + 1) input 0 =? b1) && (nth (ref + 2) input 0 =? b2)
      then
        let lit := if (litPos <? inPos)%nat then lzf_literal (firstn (inPos - litPos) (skipn litPos input)) else [] in
        let maxLen := Nat.min (inLen - inPos) 264 in
        let matchLen := (3 + lzf_ext (skipn (ref + 3) input) (skipn 3 rest) (maxLen - 3))%nat in
        let inPos' := (inPos + matchLen)%nat in
        let t2 := htab_fill (matchLen - 3) (S inPos) (tl rest) t1 in
        lit ++ lzf_backref (inPos - ref) matchLen ++ lzf_loop f input inLen inPos' inPos' (skipn matchLen rest) t2
      else lzf_loop f input inLen (S inPos) litPos (tl rest) t1
    | _ =>
      if (litPos <? inLen)%nat then lzf_literal (skipn litPos input) else []
    end
  end.

Definition lzf_compress (input : bytes) : bytes :=
  match input with
  | [] => []
  | _ => lzf_loop (S (length input)) input (length input) 0 0 input (PositiveMap.empty nat)
  end.

(* for i := 0; i < runLen; i++ { output = append(output, output[srcPos+i]) } *)
Fixpoint copy_back (n src : nat) (out : bytes) : bytes :=
  match n with
  | O => out
  | S k => copy_back k (S src) (out ++ [nth src out 0])
  end.

(* lzfDecompress (identical in internal/writer and internal/core).  On a byte c:
   c&0xE0 == 0 is c < 32;  c&0x1F is c mod 32;  c>>5 is c/32;  c&0xE0 == 0xE0 is c/32 = 7.
   Long back reference: ctrl, length byte, low offset byte (the LZF stream format). *)
Fixpoint lzf_dec (fuel : nat) (input out : bytes) : outcome bytes :=
  match input with
  | [] => Ok out
  | ctrl :: r =>
    match fuel with
    | O => OutOfFuel
    | S f =>
      if ctrl <? 32 then
        let run := (N.to_nat ctrl + 1)%nat in
        if (length r <? run)%nat then Err                    (* truncated literal run *)
        else lzf_dec f (skipn run r) (out ++ firstn run r)
      else
        match r with
        | [] => Err                                          (* truncated backreference *)
        | b1 :: r2 =>
          if ctrl / 32 =? 7 then
            let run := (N.to_nat b1 + 9)%nat in
            match r2 with
            | [] => Err                                      (* truncated long backreference *)
            | lo :: r3 =>
              let off := (N.to_nat ((ctrl mod 32) * 256 + lo) + 1)%nat in
              if (length out <? off)%nat then Err            (* invalid offset *)
              else lzf_dec f r3 (copy_back run (length out - off) out)
            end
          else
            let run := (N.to_nat (ctrl / 32) + 2)%nat in
            let off := (N.to_nat ((ctrl mod 32) * 256 + b1) + 1)%nat in
            if (length out <? off)%nat then Err
            else lzf_dec f r2 (copy_back run (length out - off) out)
        end
    end
  end.

Definition lzf_decompress (input : bytes) : outcome bytes :=
  match input with
  | [] => Ok input
  | _ => lzf_dec (length input) input []
  end.

(* LZFFilter.Apply / Remove, applyLZF *)
Definition lzf_apply (data : bytes) : outcome bytes := Ok (lzf_compress data).
Definition lzf_remove (data : bytes) : outcome bytes := lzf_decompress data.

(* ------------------------------------------------------------------ pipeline and its description message *)

Inductive filter : Type :=
| FDeflate (level : N)      (* NewGZIPFilter(level) *)
| FShuffle (esz : N)        (* NewShuffleFilter(esz) *)
| FFletcher
| FLzf.

Definition norm_level (l : N) : N := if (1 <=? l) && (l <=? 9) then l else 6.

Record fdesc : Type := mk_fdesc {
  fid : N; fnamelen : N; fflags : N; fncd : N; fname : bytes; fcd : list N }.

Definition name_deflate : bytes := [100; 101; 102; 108; 97; 116; 101].
Definition name_shuffle : bytes := [115; 104; 117; 102; 102; 108; 101].
Definition name_fletcher : bytes := [102; 108; 101; 116; 99; 104; 101; 114; 51; 50].
Definition name_lzf : bytes := [108; 122; 102].

(* ID(), Name(), Encode() of each writer filter *)
Definition descr1 (f : filter) : fdesc :=
  match f with
  | FDeflate l => mk_fdesc 1 7 0 1 name_deflate [norm_level l]
  | FShuffle e => mk_fdesc 2 7 0 1 name_shuffle [e]
  | FFletcher => mk_fdesc 3 10 0 0 name_fletcher []
  | FLzf => mk_fdesc 32000 3 0 3 name_lzf [0; 0; 0]
  end.
Definition descr (fs : list filter) : list fdesc := map descr1 fs.

(* encodeFilter *)
Definition encode_filter (d : fdesc) : bytes :=
  let nameLen := wrap16 (N.of_nat (length (fname d))) in
  let padded := if 0 <? nameLen then wrap16 (wrap16 (nameLen + 7) / 8 * 8) else 0 in
  le 2 (fid d) ++ le 2 nameLen ++ le 2 (fflags d) ++ le 2 (wrap16 (N.of_nat (length (fcd d))))
  ++ (if 0 <? nameLen then fname d ++ repeat 0 (N.to_nat padded - length (fname d)) else [])
  ++ concat (map (le 4) (fcd d)).

(* EncodePipelineMessage *)
Definition encode_msg (ds : list fdesc) : outcome bytes :=
  match ds with
  | [] => Err                                                (* empty filter pipeline *)
  | _ => Ok ([2; wrap8 (N.of_nat (length ds)); 0; 0; 0; 0; 0; 0] ++ concat (map encode_filter ds))
  end.

(* name up to the first NUL; an empty result falls back to all name bytes (as the Go code does) *)
Fixpoint until_nul (b : bytes) : bytes :=
  match b with [] => [] | x :: r => if x =? 0 then [] else x :: until_nul r end.
Definition name_of (nb : bytes) : bytes :=
  match until_nul nb with [] => nb | n => n end.

Fixpoint read_u32s (n : nat) (d : bytes) : list N :=
  match n with O => [] | S k => unle (firstn 4 d) :: read_u32s k (skipn 4 d) end.

(* Switch for the repair notes/fixes/c06-pipeline-v2-filter-name.patch (the same switch as Model/CodecFilter.v
   pipeline_v2_names, property C06): [false] = the code before it (outside the version 1 layout no filter has a name-length
   field), [true] = the repaired code (a name-length field and an unpadded name also for identifiers >= 256 of a genuine
   version 2 message).  [parse_filters] / [parse_msg] are the variants of [filters_v2_names]; the tie reads from the source
   tree under test which variant it implements (tools/props/c06switch.py). *)
Definition filters_v2_names : bool := true.

(* loop body of ParseFilterPipelineMessage; [d] = data[offset:] *)
Fixpoint parse_filters_gen (rep : bool) (n : nat) (v1 : bool) (ver : N) (d : bytes) : outcome (list fdesc) :=
  match n with
  | O => Ok []
  | S k =>
    if (length d <? 8)%nat then Err                          (* offset+8 > len(data) *)
    else
      let id := unle (firstn 2 d) in
      let d := skipn 2 d in
      let hasName := v1 || (rep && (256 <=? id)) in
      let nl := if hasName then unle (firstn 2 d) else 0 in
      let d := if hasName then skipn 2 d else d in
      let flags := unle (firstn 2 d) in
      let d := skipn 2 d in
      let ncd := unle (firstn 2 d) in
      let d := skipn 2 d in
      let named := hasName && (0 <? nl) in
      let padded := if v1 then (if nl mod 8 =? 0 then nl else nl + (8 - nl mod 8)) else nl in   (* computed as int: no 16-bit wrap *)
      if named && (N.of_nat (length d) <? padded) then Err   (* filter name truncated *)
      else
        let name := if named then name_of (firstn (N.to_nat nl) d) else [] in
        let d := if named then skipn (N.to_nat padded) d else d in
        if (0 <? ncd) && (N.of_nat (length d) <? 4 * ncd) then Err   (* client data truncated *)
        else
          let cd := read_u32s (N.to_nat ncd) d in
          let d := skipn (4 * N.to_nat ncd) d in
          let d := if (0 <? ncd) && (ver =? 1) && negb ((4 * ncd) mod 8 =? 0)
                   then skipn (N.to_nat (8 - (4 * ncd) mod 8)) d else d in
          bind (parse_filters_gen rep k v1 ver d) (fun rest => Ok (mk_fdesc id nl flags ncd name cd :: rest))
  end.
Definition parse_filters : nat -> bool -> N -> bytes -> outcome (list fdesc) := parse_filters_gen filters_v2_names.

Definition all_zero (b : bytes) : bool := forallb (fun x => x =? 0) b.

(* ParseFilterPipelineMessage (repaired: the writer's own layout is recognised); result = (version, numFilters, filters) *)
Definition parse_msg_gen (rep : bool) (data : bytes) : outcome (N * N * list fdesc) :=
  match data with
  | ver :: nf :: body =>
    if (ver <? 1) || (2 <? ver) then Err
    else
      let v1 := (ver =? 1) || ((ver =? 2) && (0 <? nf) && (6 <=? length body)%nat && all_zero (firstn 6 body)) in
      let d := if v1 then skipn 6 body else body in
      bind (parse_filters_gen rep (N.to_nat nf) v1 ver d) (fun fs => Ok (ver, nf, fs))
  | _ => Err                                                 (* message too short *)
  end.
Definition parse_msg : bytes -> outcome (N * N * list fdesc) := parse_msg_gen filters_v2_names.

(* utils.MaxChunkSize = 1 GiB *)
Definition max_chunk_size : N := 1073741824.

Section Pipeline.
  (* compress/zlib is not re-proved: writer = zlib.NewWriterLevel, reader = zlib.NewReader + io.ReadAll *)
  Variable deflate : N -> bytes -> bytes.
  Variable inflate : bytes -> option bytes.

  Definition inflate_o (d : bytes) : outcome bytes :=
    match inflate d with Some x => Ok x | None => Err end.

  (* writer Filter.Apply / Filter.Remove *)
  Definition apply1 (f : filter) (x : bytes) : outcome bytes :=
    match f with
    | FDeflate l => Ok (deflate (norm_level l) x)
    | FShuffle e => shuffle_apply e x
    | FFletcher => Ok (fletcher_apply x)
    | FLzf => lzf_apply x
    end.
  Definition remove1 (f : filter) (y : bytes) : outcome bytes :=
    match f with
    | FDeflate _ => inflate_o y
    | FShuffle e => shuffle_remove e y
    | FFletcher => fletcher_verify y
    | FLzf => lzf_remove y
    end.

  (* FilterPipeline.Apply: in order, stop at the first error;  FilterPipeline.Remove: reverse order *)
  Definition pipeline_apply (fs : list filter) (x : bytes) : outcome bytes :=
    fold_left (fun acc f => bind acc (apply1 f)) fs (Ok x).
  Definition pipeline_remove (fs : list filter) (y : bytes) : outcome bytes :=
    fold_left (fun acc f => bind acc (remove1 f)) (rev fs) (Ok y).

  (* reader applyDeflate: the inflated chunk may not exceed utils.MaxChunkSize *)
  Definition reader_inflate_o (d : bytes) : outcome bytes :=
    match inflate d with
    | Some x => if max_chunk_size <? N.of_nat (length x) then Err else Ok x
    | None => Err
    end.

  (* reader applyFilter *)
  Definition reader_apply1 (f : fdesc) (data : bytes) : outcome bytes :=
    if fid f =? 1 then reader_inflate_o data
    else if fid f =? 2 then reader_unshuffle (fcd f) data
    else if fid f =? 3 then
      (if (length data <? 4)%nat then Err else Ok (firstn (length data - 4) data))   (* applyFletcher32: strip *)
    else if fid f =? 32000 then
      (if (3 <=? length (fcd f))%nat && (0 <? nth 2 (fcd f) 0) && (N.of_nat (length data) =? nth 2 (fcd f) 0)
       then Ok data else lzf_remove data)
    else Err.

  (* verifyFletcher32 *)
  Definition reader_verify (data : bytes) : bool :=
    if (length data <? 4)%nat then true
    else unle (skipn (length data - 4) data) =? fletcher32 (firstn (length data - 4) data).

  (* one iteration of the loop in ApplyFilters *)
  Definition reader_step (f : fdesc) (result : bytes) : outcome bytes :=
    if (fid f =? 3) && negb (reader_verify result) then Err
    else
      match reader_apply1 f result with
      | Ok r =>
        if (fid f =? 32000) && (3 <=? length (fcd f))%nat && (0 <? nth 2 (fcd f) 0)
        then
          if max_chunk_size <? nth 2 (fcd f) 0 then Err       (* expected chunk size exceeds MaxChunkSize: hard error *)
          else if N.of_nat (length r) <? nth 2 (fcd f) 0
          then Ok (r ++ repeat 0 (N.to_nat (nth 2 (fcd f) 0) - length r))
          else Ok r
        else Ok r
      | Err => if N.odd (fflags f) then Ok [] else Err       (* optional filter: continue with a nil result *)
      | o => o
      end.

  (* FilterPipelineMessage.ApplyFilters *)
  Definition reader_apply (fs : list fdesc) (data : bytes) : outcome bytes :=
    fold_left (fun acc f => bind acc (reader_step f)) (rev fs) (Ok data).
End Pipeline.

(* preconditions of a writer filter on its input: what makes Apply succeed *)
Definition filter_pre (f : filter) (x : bytes) : Prop :=
  match f with
  | FShuffle e => x = [] \/ (0 < e /\ N.of_nat (length x) mod e = 0)
  | _ => True
  end.

(* specification vocabulary used by the property statements *)
Definition bytes_ok (d : bytes) : Prop := Forall (fun b => b < 256) d.
(* element size as the writer stores it: a uint32 *)
Definition filter_wf (f : filter) : Prop := match f with FShuffle e => e < 4294967296 | _ => True end.
