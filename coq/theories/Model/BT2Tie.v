(* Executable predicates evaluated by the correspondence check of C14 on implementation outputs. *)
From HV Require Import Base.Prelude Base.Crc32 Spec.Lookup3 Model.BT2.

(* ---- hash: (key hex, hash reported by Go) ---- *)
Definition hash_ok (c : string * N) : bool :=
  let k := unhex (fst c) in (jenkins k =? snd c) && (hashlittle k 0 =? snd c).

(* ---- histories ---- *)
(* operation: (opcode, index into the name pool, value); opcodes 0 insert 1 update 2 search 3 has
   4 delete 5 store+load 6 rewrite+load 7 write in place (no reload) 8 store (no reload) *)
Definition cop := (N * N * N)%type.

Definition decode_op (pool : list bytes) (o : cop) : op :=
  let '(code, i, v) := o in
  let n := nth (N.to_nat i) pool [] in
  match code with
  | 0 => OInsert n v
  | 1 => OUpdate n v
  | 2 => OSearch n
  | 3 => OHas n
  | 4 => ODelete n
  | 5 => OStoreLoad
  | 6 => ORewrite
  | 7 => OWriteAt
  | _ => OStore
  end.

(* result codes: 0 err, 1 ok, 2 not found, 3 false, 4 true, 5 + (8-byte id as LE number) found *)
Definition res_code (r : res) : N :=
  match r with
  | RErr => 0
  | ROk => 1
  | RNotFound => 2
  | RBool false => 3
  | RBool true => 4
  | RFound id => if (List.length id =? 8)%nat then 5 + unle id else 0
  end.

Definition rec_code (r : rec) : N * N := (fst r, if (List.length (snd r) =? 7)%nat then unle (snd r) else 72057594037927936).

Definition pair_eqb (a b : N * N) : bool := (fst a =? fst b) && (snd a =? snd b).

Definition mode_of (m thr : N) (delay : bool) : mode :=
  match m with
  | 0 => MOff
  | 1 => MImmediate
  | 2 => MLazy thr delay
  | _ => MIncremental thr delay
  end.

(* what the Go harness reported for one history *)
Record hcase := mkCase {
  k_mode : N; k_thr : N; k_delay : bool; k_osz : nat; k_ns : N;
  k_pool : list string;             (* names, hex *)
  k_ops : list cop;
  k_res : list N;                   (* result codes reported by Go *)
  k_oracle : list N;                (* result codes expected by the Python map oracle *)
  k_recs : list (N * N);            (* bt.records: (hash, id as LE number) *)
  k_leaf_same : bool;               (* bt.leaf.Records equal to bt.records *)
  k_nroot : N; k_total : N; k_nodesize : N;
  k_loaded : N * N; k_next : N;
  k_hdr : string; k_leaf : string;  (* encodeHeader / encodeLeafNode of the final object *)
  k_file : option string;           (* the whole in-memory file, when small *)
  k_final : string;                 (* fresh file after a final WriteToFile *)
  k_lazy : option (N * N)           (* UnderflowCount, PendingDeletes *)
}.

Definition case_cfg (k : hcase) : cfg := mkCfg (mode_of (k_mode k) (k_thr k) (k_delay k)) (k_osz k) (k_ns k).
Definition case_ops (k : hcase) : list op := map (decode_op (map unhex (k_pool k))) (k_ops k).

Definition bit (b : bool) (v : N) : N := if b then 0 else v.

(* 0 = the model reproduces every observable; otherwise the sum of the components that differ:
   1 results, 2 records, 4 counts / leaf view / node size, 8 header bytes, 16 leaf bytes,
   32 file, 64 final file, 128 lazy counters (diagnostic), 256 loaded addresses / allocator,
   512 the Python oracle disagrees with the Coq specification (spec_run) on the expected results *)
Definition hist_code (k : hcase) : N :=
  let c := case_cfg k in
  let '(w, rs) := run c (case_ops k) in
  let s := bt w in
  bit (list_eqb N.eqb (map res_code rs) (k_res k)) 1
  + bit (list_eqb pair_eqb (map rec_code (recs s)) (k_recs k)) 2
  + bit ((h_nroot (header s) =? k_nroot k) && (h_total (header s) =? k_total k)
         && (node_size s =? k_nodesize k)
         && Bool.eqb (list_eqb pair_eqb (map rec_code (leaf_recs s)) (map rec_code (recs s))) (k_leaf_same k)) 4
  + bit (bytes_eqb (encode_header (c_osz c) s) (unhex (k_hdr k))) 8
  + bit (bytes_eqb (encode_leaf s) (unhex (k_leaf k))) 16
  + bit (match k_file k with Some f => bytes_eqb (fil w) (unhex f) | None => true end) 32
  + bit (bytes_eqb (fil (fst (write_to_file (c_osz c) (mkW s [] 64)))) (unhex (k_final k))) 64
  + bit (match k_lazy k, lazy s with
         | Some (u, p), Some l => (lz_underflow l =? u) && (lz_pending l =? p)
         | None, None => true
         | _, _ => false
         end) 128
  + bit ((loaded_hdr s =? fst (k_loaded k)) && (loaded_leaf s =? snd (k_loaded k)) && (next w =? k_next k)) 256
  + bit (list_eqb N.eqb (map res_code (snd (spec_run c (case_ops k)))) (k_oracle k)) 512.

(* ---- LoadFromFile on arbitrary bytes: (osz, ns, file hex, header address, Go ok?, Go records) ---- *)
Definition load_ok (c : N * N * string * N * bool * list (N * N)) : bool :=
  let '(osz, ns, f, addr, ok, rs) := c in
  match load_from (N.to_nat osz) (new_bt ns) (unhex f) addr with
  | LOk s => ok && list_eqb pair_eqb (map rec_code (recs s)) rs
  | LErr _ => negb ok
  end.
