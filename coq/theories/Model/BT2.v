(* Model of the B-tree v2 name index writer of scigolib/hdf5 (property C14).

   Transcribed from internal/structures/btreev2_write.go, btreev2_rebalance.go, btreev2_lazy.go
   (function names are given at each definition).  The tree is the MVP of the Go code: one leaf.
   Go fixed-width arithmetic is written out with wrap16/wrap32/wrap64/sub32/sub64.

   The model follows /repo including the C14 repairs committed there:
     1c79147 name hash = lookup3 (loop `> 12`, case 12, case 0)
     6c2e9ef InsertRecord refuses a key whose hash is already present (notes/fixes/c14-duplicate-key)
   No proofs in this file (Proofs/BT2.v, Proofs/Lookup3.v). *)
From HV Require Import Base.Prelude Base.Crc32.

(* ------------------------------------------------------------------------------------------ *)
(* jenkinsHash (btreev2_write.go): the loop `for length-i > 12` over an index i into the name,
   words assembled with | and <<, then the switch with fallthrough, then the final mix.        *)

Definition bat (name : bytes) (i : nat) : N := nth i name 0.         (* uint32(name[i]) *)
Definition u32shl (b n : N) : N := wrap32 (N.shiftl b n).            (* uint32(..) << n *)

(* uint32(name[i]) | uint32(name[i+1])<<8 | uint32(name[i+2])<<16 | uint32(name[i+3])<<24 *)
Definition jword (name : bytes) (i : nat) : N :=
  N.lor (N.lor (N.lor (bat name i) (u32shl (bat name (i + 1)) 8))
               (u32shl (bat name (i + 2)) 16))
        (u32shl (bat name (i + 3)) 24).

(* a -= c; a ^= (c << 4) | (c >> 28); c += b; ...  ((x<<k)|(x>>(32-k)) on uint32 = rotl32) *)
Definition jmix (a b c : N) : N * N * N :=
  let a := sub32 a c in let a := N.lxor a (rotl32 c 4)  in let c := wrap32 (c + b) in
  let b := sub32 b a in let b := N.lxor b (rotl32 a 6)  in let a := wrap32 (a + c) in
  let c := sub32 c b in let c := N.lxor c (rotl32 b 8)  in let b := wrap32 (b + a) in
  let a := sub32 a c in let a := N.lxor a (rotl32 c 16) in let c := wrap32 (c + b) in
  let b := sub32 b a in let b := N.lxor b (rotl32 a 19) in let a := wrap32 (a + c) in
  let c := sub32 c b in let c := N.lxor c (rotl32 b 4)  in let b := wrap32 (b + a) in
  (a, b, c).

(* c ^= b; c -= (b << 14) | (b >> 18); ... (the caller returns c) *)
Definition jfinal (a b c : N) : N * N * N :=
  let c := N.lxor c b in let c := sub32 c (rotl32 b 14) in
  let a := N.lxor a c in let a := sub32 a (rotl32 c 11) in
  let b := N.lxor b a in let b := sub32 b (rotl32 a 25) in
  let c := N.lxor c b in let c := sub32 c (rotl32 b 16) in
  let a := N.lxor a c in let a := sub32 a (rotl32 c 4)  in
  let b := N.lxor b a in let b := sub32 b (rotl32 a 14) in
  let c := N.lxor c b in let c := sub32 c (rotl32 b 24) in
  (a, b, c).

(* i := 0; for length-i > 12 { a += word(i); b += word(i+4); c += word(i+8); mix; i += 12 } *)
Fixpoint jloop (fuel : nat) (name : bytes) (length i : nat) (a b c : N) : nat * N * N * N :=
  match fuel with
  | O => (i, a, b, c)
  | S fuel' =>
    if (12 <? length - i)%nat then
      let a := wrap32 (a + jword name i) in
      let b := wrap32 (b + jword name (i + 4)) in
      let c := wrap32 (c + jword name (i + 8)) in
      let '(a, b, c) := jmix a b c in
      jloop fuel' name length (i + 12) a b c
    else (i, a, b, c)
  end.

(* switch remaining { case 12: c += uint32(name[i+11]) << 24; fallthrough; ... case 1: a += uint32(name[i]) }
   (case 0 returns before the switch body; a value above 12 matches no case) *)
Definition jswitch (name : bytes) (i remaining : nat) (a b c : N) : N * N * N :=
  if (12 <? remaining)%nat then (a, b, c) else
  let c := if (12 <=? remaining)%nat then wrap32 (c + u32shl (bat name (i + 11)) 24) else c in
  let c := if (11 <=? remaining)%nat then wrap32 (c + u32shl (bat name (i + 10)) 16) else c in
  let c := if (10 <=? remaining)%nat then wrap32 (c + u32shl (bat name (i + 9)) 8) else c in
  let c := if (9 <=? remaining)%nat then wrap32 (c + bat name (i + 8)) else c in
  let b := if (8 <=? remaining)%nat then wrap32 (b + u32shl (bat name (i + 7)) 24) else b in
  let b := if (7 <=? remaining)%nat then wrap32 (b + u32shl (bat name (i + 6)) 16) else b in
  let b := if (6 <=? remaining)%nat then wrap32 (b + u32shl (bat name (i + 5)) 8) else b in
  let b := if (5 <=? remaining)%nat then wrap32 (b + bat name (i + 4)) else b in
  let a := if (4 <=? remaining)%nat then wrap32 (a + u32shl (bat name (i + 3)) 24) else a in
  let a := if (3 <=? remaining)%nat then wrap32 (a + u32shl (bat name (i + 2)) 16) else a in
  let a := if (2 <=? remaining)%nat then wrap32 (a + u32shl (bat name (i + 1)) 8) else a in
  let a := if (1 <=? remaining)%nat then wrap32 (a + bat name i) else a in
  (a, b, c).

Definition jenkins (name : bytes) : N :=
  let length := List.length name in
  let init := wrap32 (3735928559 + wrap32 (N.of_nat length)) in     (* uint32(0xdeadbeef)+uint32(length) *)
  let '(i, a, b, c) := jloop length name length 0%nat init init init in
  let remaining := (length - i)%nat in
  match remaining with
  | O => c                                                           (* case 0: return c *)
  | _ => let '(a, b, c) := jswitch name i remaining a b c in
         let '(_, _, c) := jfinal a b c in c                         (* return c *)
  end.

(* ------------------------------------------------------------------------------------------ *)
(* State: WritableBTreeV2 { header, leaf, records, nodeSize, loaded*Address, lazyState }        *)

Definition rec := (N * bytes)%type.                  (* LinkNameRecord { NameHash uint32; HeapID [7]byte } *)

Record hdr := mkHdr {
  h_type : N;            (* uint8  *)
  h_node_size : N;       (* uint32 *)
  h_rec_size : N;        (* uint16 *)
  h_depth : N;           (* uint16 *)
  h_split : N;           (* uint8  *)
  h_merge : N;           (* uint8  *)
  h_root : N;            (* uint64 *)
  h_nroot : N;           (* uint16  NumRecordsRoot *)
  h_total : N            (* uint64  TotalRecords   *)
}.

Record lazy_st := mkLazy {
  lz_thr : N;            (* Config.Threshold in thousandths (after validation) *)
  lz_underflow : N;      (* UnderflowCount *)
  lz_nodes : N;          (* TotalNodes *)
  lz_pending : N         (* PendingDeletes *)
}.

Record bt2 := mkBT {
  node_size : N;                 (* bt.nodeSize uint32 *)
  header : hdr;
  leaf_type : N;                 (* bt.leaf.Type (signature "BTLF" and version 0 are constant) *)
  leaf_recs : list rec;          (* bt.leaf.Records *)
  recs : list rec;               (* bt.records *)
  loaded_hdr : N;                (* loadedHeaderAddress *)
  loaded_leaf : N;               (* loadedLeafAddress *)
  lazy : option lazy_st          (* lazyState (nil = None) *)
}.

Definition set_counts (h : hdr) (nroot total : N) : hdr :=
  mkHdr (h_type h) (h_node_size h) (h_rec_size h) (h_depth h) (h_split h) (h_merge h) (h_root h) nroot total.
Definition set_root (h : hdr) (root : N) : hdr :=
  mkHdr (h_type h) (h_node_size h) (h_rec_size h) (h_depth h) (h_split h) (h_merge h) root (h_nroot h) (h_total h).

(* records/leaf.Records/counts after a mutation of the record slice *)
Definition with_recs (s : bt2) (rs : list rec) (nroot total : N) : bt2 :=
  mkBT (node_size s) (set_counts (header s) nroot total) (leaf_type s) rs rs
       (loaded_hdr s) (loaded_leaf s) (lazy s).
Definition with_lazy (s : bt2) (l : option lazy_st) : bt2 :=
  mkBT (node_size s) (header s) (leaf_type s) (leaf_recs s) (recs s) (loaded_hdr s) (loaded_leaf s) l.
Definition with_root (s : bt2) (root : N) : bt2 :=
  mkBT (node_size s) (set_root (header s) root) (leaf_type s) (leaf_recs s) (recs s)
       (loaded_hdr s) (loaded_leaf s) (lazy s).

(* NewWritableBTreeV2 *)
Definition new_bt (ns : N) : bt2 :=
  let ns := if ns =? 0 then 4096 else ns in
  mkBT ns (mkHdr 5 ns 11 0 100 40 0 0 0) 5 [] [] 0 0 None.

(* binary.LittleEndian.PutUint64(temp[:], heapID); copy(heapIDBytes[:], temp[:7]) *)
Definition to7 (v : N) : bytes := firstn 7 (le 8 v).

(* calculateMaxRecords: available := bt.nodeSize - overhead (uint32, wraps below 10); available / 11 *)
Definition max_records (ns : N) : N := sub32 ns 10 / 11.

(* insertRecordSorted: position of the first record with NameHash >= new hash, default len *)
Fixpoint find_insert_pos (rs : list rec) (h : N) (i : nat) : nat :=
  match rs with
  | [] => i
  | r :: t => if h <=? fst r then i else find_insert_pos t h (S i)
  end.
Definition insert_sorted (rs : list rec) (r : rec) : list rec :=
  let pos := find_insert_pos rs (fst r) 0 in
  firstn pos rs ++ r :: skipn pos rs.

(* `for i, record := range bt.records { if record.NameHash == hash { ... i ... } }` *)
Fixpoint find_index (rs : list rec) (h : N) (i : nat) : option nat :=
  match rs with
  | [] => None
  | r :: t => if fst r =? h then Some i else find_index t h (S i)
  end.

Definition sub16 (a b : N) : N := (a + 65536 - b mod 65536) mod 65536.

(* InsertRecord *)
Definition insert_record (s : bt2) (name : bytes) (v : N) : bt2 * bool :=
  let h := jenkins name in
  let r := (h, to7 v) in
  match find_index (recs s) h 0 with
  | Some _ => (s, false)                                                  (* ErrBTreeRecordExists *)
  | None =>
    if max_records (node_size s) <=? N.of_nat (List.length (recs s)) then (s, false)   (* ErrBTreeNodeFull *)
    else
      let rs := insert_sorted (recs s) r in
      (with_recs s rs (wrap16 (h_nroot (header s) + 1)) (wrap64 (h_total (header s) + 1)), true)
  end.

(* HasKey *)
Definition has_key (s : bt2) (name : bytes) : bool :=
  match find_index (recs s) (jenkins name) 0 with Some _ => true | None => false end.

(* SearchRecord: heapID := make([]byte, 8); copy(heapID, record.HeapID[:]) *)
Definition search_record (s : bt2) (name : bytes) : option bytes :=
  match find_index (recs s) (jenkins name) 0 with
  | Some i => Some (firstn 8 (snd (nth i (recs s) (0, [])) ++ repeat 0 8))
  | None => None
  end.

(* UpdateRecord: bt.records[i].HeapID = heapIDBytes; bt.leaf.Records = bt.records *)
Definition update_record (s : bt2) (name : bytes) (v : N) : bt2 * bool :=
  match find_index (recs s) (jenkins name) 0 with
  | Some i =>
    let old := nth i (recs s) (0, []) in
    let rs := firstn i (recs s) ++ (fst old, to7 v) :: skipn (S i) (recs s) in
    (with_recs s rs (h_nroot (header s)) (h_total (header s)), true)
  | None => (s, false)
  end.

(* Phases 1-2 shared (textually duplicated in Go) by DeleteRecordWithRebalancing and DeleteRecordLazy:
   find index, bt.records = append(bt.records[:i], bt.records[i+1:]...), TotalRecords--, NumRecordsRoot-- *)
Definition remove_record (s : bt2) (name : bytes) : option bt2 :=
  match find_index (recs s) (jenkins name) 0 with
  | Some i =>
    let rs := firstn i (recs s) ++ skipn (S i) (recs s) in
    Some (with_recs s rs (sub16 (h_nroot (header s)) 1) (sub64 (h_total (header s)) 1))
  | None => None
  end.

(* handleRootDepthDecrease: returns nil without doing anything *)
Definition handle_root_depth_decrease (s : bt2) : bt2 := s.

(* DeleteRecordWithRebalancing *)
Definition delete_with_rebalancing (s : bt2) (name : bytes) : bt2 * bool :=
  match remove_record s name with
  | Some s' =>
    if (h_nroot (header s') =? 0) && (0 <? h_depth (header s'))
    then (handle_root_depth_decrease s', true) else (s', true)
  | None => (s, false)
  end.

(* DeleteRecord: delegates *)
Definition delete_record (s : bt2) (name : bytes) : bt2 * bool := delete_with_rebalancing s name.

(* EnableLazyRebalancing (Enabled=true; threshold given in thousandths; MaxDelay/BatchSize do not
   influence records, MaxDelay is represented by the `delay` oracle below) *)
Definition enable_lazy (s : bt2) (thr : N) : bt2 :=
  let thr := if thr =? 0 then 50 else thr in
  let thr := if 200 <? thr then 200 else thr in
  with_lazy s (Some (mkLazy thr 0 1 0)).

Definition is_lazy_enabled (s : bt2) : bool := match lazy s with Some _ => true | None => false end.

(* shouldTriggerBatchRebalancing: float64(UnderflowCount)/float64(TotalNodes) >= Threshold || time.Since(..) >= MaxDelay.
   UnderflowCount/TotalNodes is 0/1 or 1/1 in this code, compared exactly here as a fraction. *)
Definition should_trigger (l : lazy_st) (delay : bool) : bool :=
  ((0 <? lz_nodes l) && (lz_thr l * lz_nodes l <=? 1000 * lz_underflow l)) || delay.

(* BatchRebalance *)
Definition batch_rebalance (l : lazy_st) : lazy_st := mkLazy (lz_thr l) 0 (lz_nodes l) 0.

(* calculateMinRecords *)
Definition min_records (ns : N) : N := max_records ns / 2.

(* DeleteRecordLazy *)
Definition delete_lazy (s : bt2) (name : bytes) (delay : bool) : bt2 * bool :=
  match lazy s with
  | None => (s, false)                                         (* "lazy rebalancing not enabled" *)
  | Some l =>
    match remove_record s name with
    | None => (s, false)
    | Some s' =>
      let l := mkLazy (lz_thr l) (lz_underflow l) (lz_nodes l) (lz_pending l + 1) in
      let l := if N.of_nat (List.length (recs s')) <? min_records (node_size s')
               then mkLazy (lz_thr l) 1 (lz_nodes l) (lz_pending l) else l in
      let l := if should_trigger l delay then batch_rebalance l else l in
      (with_lazy s' (Some l), true)
    end
  end.

(* ------------------------------------------------------------------------------------------ *)
(* Serialisation: encodeHeader / encodeLeafNode / readBTreeV2Header / readBTreeV2LeafNode        *)

Definition sig_hdr : bytes := [66; 84; 72; 68].       (* "BTHD" *)
Definition sig_leaf : bytes := [66; 84; 76; 70].      (* "BTLF" *)

(* writeUint64(buf, value, size, LittleEndian): sizes other than 1,2,4,8 write nothing *)
Definition enc_addr (osz : nat) (v : N) : bytes :=
  match osz with
  | 1%nat | 2%nat | 4%nat | 8%nat => le osz v
  | _ => repeat 0 osz
  end.
(* readUint64: default 0 *)
Definition dec_addr (osz : nat) (b : bytes) : N :=
  match osz with
  | 1%nat | 2%nat | 4%nat | 8%nat => unle (firstn osz b)
  | _ => 0
  end.

Definition hdr_size (osz : nat) : nat := (30 + osz)%nat.   (* 4+1+1+4+2+2+1+1+osz+2+8+4 *)

Definition hdr_body (osz : nat) (h : hdr) : bytes :=
  sig_hdr ++ [0; h_type h] ++ le 4 (h_node_size h) ++ le 2 (h_rec_size h) ++ le 2 (h_depth h)
          ++ [h_split h; h_merge h] ++ enc_addr osz (h_root h) ++ le 2 (h_nroot h) ++ le 8 (h_total h).
Definition encode_header (osz : nat) (s : bt2) : bytes :=
  let body := hdr_body osz (header s) in body ++ le 4 (crc32 body).

Definition enc_rec (r : rec) : bytes := le 4 (fst r) ++ snd r.
Definition leaf_body (ty : N) (rs : list rec) : bytes := sig_leaf ++ [0; ty] ++ flat_map enc_rec rs.
Definition encode_leaf (s : bt2) : bytes :=
  let body := leaf_body (leaf_type s) (leaf_recs s) in body ++ le 4 (crc32 body).

Inductive lres (A : Type) : Type := LOk (a : A) | LErr (why : N).
Arguments LOk {A} a.
Arguments LErr {A} why.
(* error classes: 1 short read, 2 signature, 3 version, 4 checksum, 5 type, 6 depth *)

(* buf[a:a+n] *)
Definition slice (b : bytes) (a n : nat) : bytes := firstn n (skipn a b).

(* readBTreeV2Header on the `size` bytes read *)
Definition decode_header (osz : nat) (buf : bytes) : lres hdr :=
  if negb (bytes_eqb (slice buf 0 4) sig_hdr) then LErr 2
  else if negb (nth 4 buf 0 =? 0) then LErr 3
  else
    let ty := nth 5 buf 0 in
    let ns := unle (slice buf 6 4) in
    let rsz := unle (slice buf 10 2) in
    let depth := unle (slice buf 12 2) in
    let split := nth 14 buf 0 in
    let merge := nth 15 buf 0 in
    let root := dec_addr osz (slice buf 16 osz) in
    let nroot := unle (slice buf (16 + osz) 2) in
    let total := unle (slice buf (18 + osz) 8) in
    let stored := unle (slice buf (26 + osz) 4) in
    if negb (stored =? crc32 (firstn (26 + osz) buf)) then LErr 4
    else LOk (mkHdr ty ns rsz depth split merge root nroot total).

(* the record loop of readBTreeV2LeafNode, reading at a running offset *)
Fixpoint dec_recs (n : nat) (buf : bytes) (off : nat) : list rec :=
  match n with
  | O => []
  | S n' => (unle (slice buf off 4), slice buf (off + 4) 7) :: dec_recs n' buf (off + 11)
  end.

(* readBTreeV2LeafNode on the `size` bytes read: (leaf type, records) *)
Definition decode_leaf (nrec : nat) (buf : bytes) : lres (N * list rec) :=
  if negb (bytes_eqb (slice buf 0 4) sig_leaf) then LErr 2
  else if negb (nth 4 buf 0 =? 0) then LErr 3
  else
    let ty := nth 5 buf 0 in
    let rs := dec_recs nrec buf 6 in
    let off := (6 + nrec * 11)%nat in
    let stored := unle (slice buf off 4) in
    if negb (stored =? crc32 (firstn off buf)) then LErr 4
    else LOk (ty, rs).

(* ---- the file: io.ReaderAt / WriteAtAddress on a growable byte array ---- *)
Definition file := bytes.

(* ReadAt of exactly len bytes; None = short read (io.EOF with n < len) *)
Definition read_at (f : file) (off : N) (len : nat) : option bytes :=
  let o := N.to_nat off in
  if (o + len <=? List.length f)%nat then Some (slice f o len) else None.

(* WriteAt: zero-extends the file when writing past its end *)
Definition write_at (f : file) (off : N) (d : bytes) : file :=
  let o := N.to_nat off in
  let f' := f ++ repeat 0 (o + List.length d - List.length f) in
  firstn o f' ++ d ++ skipn (o + List.length d) f'.

(* LoadFromFile into receiver `recv` *)
Definition load_from (osz : nat) (recv : bt2) (f : file) (hdr_addr : N) : lres bt2 :=
  match read_at f hdr_addr (hdr_size osz) with
  | None => LErr 1
  | Some hbuf =>
    match decode_header osz hbuf with
    | LErr e => LErr e
    | LOk h =>
      if negb (h_type h =? 5) then LErr 5
      else if negb (h_depth h =? 0) then LErr 6
      else if 0 <? h_nroot h then
        let n := N.to_nat (h_nroot h) in
        match read_at f (h_root h) (4 + 1 + 1 + n * 11 + 4) with
        | None => LErr 1
        | Some lbuf =>
          match decode_leaf n lbuf with
          | LErr e => LErr e
          | LOk (ty, rs) => LOk (mkBT (h_node_size h) h ty rs rs hdr_addr (h_root h) (lazy recv))
          end
        end
      else LOk (mkBT (h_node_size h) h 5 [] [] hdr_addr (h_root h) (lazy recv))
    end
  end.

(* ---- writer + bump allocator (the harness' in-memory Writer/Allocator) ---- *)
Record world := mkW { bt : bt2; fil : file; next : N }.

(* WriteToFile: returns the header address *)
Definition write_to_file (osz : nat) (w : world) : world * N :=
  let s := bt w in
  let leaf_addr := next w in
  let nx := next w + node_size s in                      (* allocator.Allocate(uint64(bt.nodeSize)) *)
  let f := write_at (fil w) leaf_addr (encode_leaf s) in
  let hdr_addr := nx in
  let nx := nx + N.of_nat (hdr_size osz) in
  let s := with_root s leaf_addr in
  let f := write_at f hdr_addr (encode_header osz s) in
  (mkW s f nx, hdr_addr).

(* WriteAt: in place at the loaded addresses; error when not loaded from a file *)
Definition write_in_place (osz : nat) (w : world) : option world :=
  let s := bt w in
  if loaded_hdr s =? 0 then None
  else
    let f := write_at (fil w) (loaded_leaf s) (encode_leaf s) in
    let s := with_root s (loaded_leaf s) in
    let f := write_at f (loaded_hdr s) (encode_header osz s) in
    Some (mkW s f (next w)).

(* ------------------------------------------------------------------------------------------ *)
(* Histories                                                                                    *)

Inductive mode :=
| MOff                                          (* DeleteRecord *)
| MImmediate                                    (* DeleteRecordWithRebalancing *)
| MLazy (thr : N) (delay : bool)                (* EnableLazyRebalancing + DeleteRecordLazy *)
| MIncremental (thr : N) (delay : bool).        (* + EnableIncrementalRebalancing (background part: C18) *)

Record cfg := mkCfg { c_mode : mode; c_osz : nat; c_ns : N }.

Inductive op :=
| OInsert (name : bytes) (v : N)
| OUpdate (name : bytes) (v : N)
| OSearch (name : bytes)
| OHas (name : bytes)
| ODelete (name : bytes)
| OStoreLoad          (* WriteToFile at fresh addresses, then LoadFromFile into a new object *)
| ORewrite            (* WriteAt in place, then LoadFromFile into a new object *)
| OWriteAt            (* WriteAt in place on the current object, NO reload: the history continues on the
                         same object (loaded addresses and lazy state are kept), so one loaded handle
                         can be written in place any number of times *)
| OStore.             (* WriteToFile at fresh addresses, NO reload: the object keeps its loaded addresses
                         (WriteToFile does not touch loadedHeaderAddress/loadedLeafAddress; it only sets
                         header.RootNodeAddr to the new leaf address) *)

Inductive res := RErr | ROk | RFound (id8 : bytes) | RNotFound | RBool (b : bool).

Definition setup_mode (m : mode) (s : bt2) : bt2 :=
  match m with
  | MLazy t _ | MIncremental t _ => enable_lazy s t
  | _ => s
  end.

Definition init (c : cfg) : world := mkW (setup_mode (c_mode c) (new_bt (c_ns c))) [] 64.

Definition delete_by_mode (m : mode) (s : bt2) (name : bytes) : bt2 * bool :=
  match m with
  | MOff => delete_record s name
  | MImmediate => delete_with_rebalancing s name
  | MLazy _ d | MIncremental _ d => delete_lazy s name d
  end.

Definition okres (b : bool) : res := if b then ROk else RErr.
Definition with_bt (w : world) (s : bt2) : world := mkW s (fil w) (next w).

(* a new object is created, loaded from the file and the mode is enabled on it; the history
   continues on the loaded object *)
Definition reload (c : cfg) (w : world) (hdr_addr : N) : option world :=
  match load_from (c_osz c) (new_bt (c_ns c)) (fil w) hdr_addr with
  | LOk s => Some (with_bt w (setup_mode (c_mode c) s))
  | LErr _ => None
  end.

Definition step (c : cfg) (w : world) (o : op) : world * res :=
  match o with
  | OInsert n v => let '(s, ok) := insert_record (bt w) n v in (with_bt w s, okres ok)
  | OUpdate n v => let '(s, ok) := update_record (bt w) n v in (with_bt w s, okres ok)
  | OSearch n => (w, match search_record (bt w) n with Some id => RFound id | None => RNotFound end)
  | OHas n => (w, RBool (has_key (bt w) n))
  | ODelete n => let '(s, ok) := delete_by_mode (c_mode c) (bt w) n in (with_bt w s, okres ok)
  | OStoreLoad =>
    let '(w1, a) := write_to_file (c_osz c) w in
    match reload c w1 a with Some w2 => (w2, ROk) | None => (w1, RErr) end
  | ORewrite =>
    match write_in_place (c_osz c) w with
    | None => (w, RErr)
    | Some w1 => match reload c w1 (loaded_hdr (bt w1)) with Some w2 => (w2, ROk) | None => (w1, RErr) end
    end
  | OWriteAt =>
    match write_in_place (c_osz c) w with
    | None => (w, RErr)
    | Some w1 => (w1, ROk)
    end
  | OStore => let '(w1, _) := write_to_file (c_osz c) w in (w1, ROk)
  end.

Fixpoint run_from (c : cfg) (w : world) (ops : list op) : world * list res :=
  match ops with
  | [] => (w, [])
  | o :: r => let '(w1, x) := step c w o in let '(w2, xs) := run_from c w1 r in (w2, x :: xs)
  end.
Definition run (c : cfg) (ops : list op) : world * list res := run_from c (init c) ops.

(* ------------------------------------------------------------------------------------------ *)
(* Specification: a finite map from names to 7-byte ids, with a capacity.                       *)

Definition smap := list (bytes * bytes).

Fixpoint s_lookup (n : bytes) (m : smap) : option bytes :=
  match m with
  | [] => None
  | (k, v) :: t => if bytes_eqb k n then Some v else s_lookup n t
  end.
Definition s_remove (n : bytes) (m : smap) : smap := filter (fun kv => negb (bytes_eqb (fst kv) n)) m.
Definition s_update (n v : bytes) (m : smap) : smap :=
  map (fun kv => if bytes_eqb (fst kv) n then (fst kv, v) else kv) m.

Record sstate := mkS { s_map : smap; s_loaded : bool }.

Definition spec_step (cap : N) (st : sstate) (o : op) : sstate * res :=
  let m := s_map st in
  match o with
  | OInsert n v =>
    match s_lookup n m with
    | Some _ => (st, RErr)
    | None => if cap <=? N.of_nat (List.length m) then (st, RErr)
              else (mkS ((n, to7 v) :: m) (s_loaded st), ROk)
    end
  | OUpdate n v =>
    match s_lookup n m with
    | Some _ => (mkS (s_update n (to7 v) m) (s_loaded st), ROk)
    | None => (st, RErr)
    end
  | OSearch n => (st, match s_lookup n m with Some id => RFound (id ++ [0]) | None => RNotFound end)
  | OHas n => (st, RBool (match s_lookup n m with Some _ => true | None => false end))
  | ODelete n =>
    match s_lookup n m with
    | Some _ => (mkS (s_remove n m) (s_loaded st), ROk)
    | None => (st, RErr)
    end
  | OStoreLoad => (mkS m true, ROk)
  | ORewrite => if s_loaded st then (st, ROk) else (st, RErr)
  | OWriteAt => if s_loaded st then (st, ROk) else (st, RErr)     (* the map is not changed by writing it out *)
  | OStore => (st, ROk)
  end.

Fixpoint spec_run_from (cap : N) (st : sstate) (ops : list op) : sstate * list res :=
  match ops with
  | [] => (st, [])
  | o :: r => let '(st1, x) := spec_step cap st o in
              let '(st2, xs) := spec_run_from cap st1 r in (st2, x :: xs)
  end.
Definition spec_run (c : cfg) (ops : list op) : sstate * list res :=
  spec_run_from (max_records (node_size (new_bt (c_ns c)))) (mkS [] false) ops.

(* names used by a history, and the exclusion predicate of the refinement theorem *)
Definition op_names (o : op) : list bytes :=
  match o with
  | OInsert n _ | OUpdate n _ | OSearch n | OHas n | ODelete n => [n]
  | _ => []
  end.
Definition names_of (ops : list op) : list bytes := flat_map op_names ops.

(* two names of the history are different byte strings with the same hash *)
Definition has_collision (ns : list bytes) : bool :=
  let hs := map (fun n => (n, jenkins n)) ns in
  existsb (fun a => existsb (fun b => negb (bytes_eqb (fst a) (fst b)) && (snd a =? snd b)) hs) hs.
