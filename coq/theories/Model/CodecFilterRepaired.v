(* ParseFilterPipelineMessage with the filter-name rule of a genuine version 2 message as a parameter.
   [repaired = false] : internal/core/filterpipeline.go as it is (Model/CodecFilter.v dec_pipeline; Proofs/ReaderSpecPipeline.v dec_pipeline_gen_current):
                        outside the version 1 layout no filter has a name-length field;
   [repaired = true]  : the code with notes/fixes/c06-pipeline-v2-filter-name.patch - a filter has a name-length field (and a
                        name, unpadded) when the layout is version 1 or its identifier is >= 256 (user-defined filter).
   Everything else is the text of Model/CodecFilter.v parse_filters / dec_pipeline. *)
From HV Require Import Base.Prelude Base.Outcome Base.Bytes Model.CodecFilter.

Fixpoint parse_filters_gen (repaired : bool) (n : nat) (data : bytes) (version : N) (v1 : bool) (offset : N)
  : outcome (list rfilter) :=
  match n with
  | O => Ok []
  | S n' =>
      if blen data <? offset + 8 then Err else
      id <- rd_le data offset 2;;
      let offset := offset + 2 in
      let hasName := v1 || (repaired && (256 <=? id)) in
      '(nameLength, offset) <- (if hasName then nl <- rd_le data offset 2;; Ok (nl, offset + 2) else Ok (0, offset));;
      flags <- rd_le data offset 2;;
      let offset := offset + 2 in
      ncd <- rd_le data offset 2;;
      let offset := offset + 2 in
      '(name, offset) <-
        (if hasName && (0 <? nameLength) then
           let padded := if v1 then (if nameLength mod 8 =? 0 then nameLength else nameLength + (8 - nameLength mod 8))
                         else nameLength in
           if blen data <? offset + padded then Err else
           nb <- slice data offset (offset + nameLength);;
           Ok (filter_name nb, offset + padded)
         else Ok ([], offset));;
      '(cd, offset) <-
        (if 0 <? ncd then
           let dataSize := ncd * 4 in
           if blen data <? offset + dataSize then Err else
           c <- read_cd data (N.to_nat ncd) offset;;
           let offset := offset + dataSize in
           let offset := if (version =? 1) && negb (dataSize mod 8 =? 0) then offset + (8 - dataSize mod 8) else offset in
           Ok (Some c, offset)
         else Ok (None, offset));;
      rest <- parse_filters_gen repaired n' data version v1 offset;;
      Ok ({| rf_id := id; rf_namelen := nameLength; rf_flags := flags; rf_ncd := ncd; rf_name := name; rf_cd := cd |} :: rest)
  end.

Definition dec_pipeline_gen (repaired : bool) (data : bytes) : outcome pipeline' :=
  if blen data <? 2 then Err else
  version <- index data 0;;
  numFilters <- index data 1;;
  if (version <? 1) || (2 <? version) then Err else
  let zero6 := match slice data 2 8 with Ok s => forallb (fun b => b =? 0) s | _ => false end in
  let v1 := (version =? 1) || ((version =? 2) && (0 <? numFilters) && (8 <=? blen data) && zero6) in
  let offset := if v1 then 8 else 2 in
  fs <- parse_filters_gen repaired (N.to_nat numFilters) data version v1 offset;;
  Ok {| pl_version := version; pl_nfilters := numFilters; pl_filters := fs |}.
