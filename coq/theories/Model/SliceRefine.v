(* C09 at file level: the bridge between the two transcriptions of dataset_read_hyperslab.go,

     Model/Hyperslab.v     (C09)  which ELEMENT of the full read goes where: validation, dispatcher, every extraction path
                                  over an abstract row-major "full read" (one N per element, unbounded arithmetic after
                                  validation);
     Model/IOProgSlice.v   (C17)  which BYTES of the file are read: the same function as an I/O program over the file image
                                  (uint64 arithmetic everywhere), returning the bytes read (slicedata).

   What Go does with the bytes it has read is a pure function of them: convertToFloat64 of the first outputElements
   elements (dataset_read_hyperslab.go:524/543), of the element buffer filled by the per-element reads (:665), or of the
   buffer filled by extractHyperslabRecursive from the selection run (:596-606) / from CompactData (:421) / by
   extractChunkPortion from every chunk read (:884).  slice_value is that function, written with the extraction functions of
   Model/Hyperslab.v; one element is represented by the little-endian value of its bytes (unle: injective on byte strings of
   one length, so equal values = equal element bytes; the conversion to float64 is a function of the element bytes).
   No proofs here (Proofs/SliceRefine*.v; theorems Props/C09File.v). *)
From HV Require Import Base.Prelude Base.Outcome Base.Bytes Model.IOProg Model.IOProgReader Model.IOProgSlice.
From HV Require Import Model.CodecSuper Model.FileImage.
From HV Require Model.Hyperslab.
Module Hs := HV.Model.Hyperslab.

(* ------------------------------------------------------------------ the two selection types *)
Definition hsel_of (s : selection) : Hs.hsel := Hs.mkSel (s_start s) (s_count s) (s_stride s) (s_block s).
Definition axes_of_sel (s : sel) : list Hs.axis := Hs.zip4 (start s) (count s) (stride s) (block s).

(* a filled selection of rank n *)
Definition sel_lens (s : sel) (n : nat) : Prop :=
  length (start s) = n /\ length (count s) = n /\ length (stride s) = n /\ length (block s) = n.

(* ------------------------------------------------------------------ bytes as elements *)
(* the i-th element of es bytes *)
Definition elem (es : N) (b : bytes) (i : N) : bytes := rd b (i * es) es.
(* the complete elements of a byte string, and their values *)
Definition elems (es : N) (b : bytes) : list bytes := map (elem es b) (Hs.nrange (blen b / es)).
Definition evals (es : N) (b : bytes) : list N := map unle (elems es b).

(* ------------------------------------------------------------------ from the bytes read to the result *)
Definition slice_value (es : N) (dims cdims : list N) (ax : list Hs.axis) (sd : slicedata) : list N :=
  let n := Hs.out_elems ax in
  match sd with
  | SlEmpty => []
  | SlCompact b => Hs.extract_from_raw (evals es b) dims ax
  | SlRun b => firstn (N.to_nat n) (evals es b)
  | SlElems l => map unle l ++ repeat 0 (N.to_nat n - length l)
  | SlSpan b => fst (Hs.ext_rec (evals es b) dims (Hs.zero_start ax) dims [] (Hs.zeros n, 0))
  | SlChunks cs => fst (fold_left (fun st c => Hs.extract_chunk_portion (evals es (snd c)) (fst c) cdims dims ax st)
                                  cs (Hs.zeros n, 0))
  end.

(* ------------------------------------------------------------------ regression guard (tools/props/c09.py refine_guard) *)
(* what ReadSuperblock returns on every image_v2 (= Proofs/FileImageData.v SB') *)
Definition SBI : superblock' :=
  {| spp_version := 2; spp_offsize := 8; spp_lensize := 8; spp_bigendian := false; spp_base := 0; spp_root := 2168;
     spp_superext := UNDEF; spp_driverinfo := 0; spp_rootbtree := 0; spp_rootheap := 0 |}.

Definition nlist_eqb (a b : list N) : bool := (length a =? length b)%nat && forallb (fun p => fst p =? snd p) (combine a b).

(* program result against model result *)
Definition agree (es : N) (dims : list N) (ax : list Hs.axis) (p : outcome slicedata) (m : option (list N)) : bool :=
  match p, m with
  | Ok sd, Some v => nlist_eqb (slice_value es dims [] ax sd) v
  | Err, None => true
  | _, _ => false
  end.

(* one case: datatype code (FileImage.dtype_of_code), dims, data (hex), start, count, stride, block (empty = nil), and
   whether ReadSlice(start, count) is called instead of ReadHyperslab.  The program runs on the image of the file; the model
   on the element values of the data.  Element sizes other than 4 and 8 are refused by the program (:385). *)
Definition refine_case_ok (c : N * list N * string * (list N * list N * list N * list N) * bool) : bool :=
  match c with
  | (code, dims, hexdata, (st, cn, sr, bl), is_slice) =>
      let '(class, size, cbf) := dtype_of_code code in
      let data := unhex hexdata in
      let f := image_v2 [100] class size cbf dims data in
      let full := evals size data in
      let osr := match sr with [] => None | _ => Some sr end in
      let obl := match bl with [] => None | _ => Some bl end in
      let s := {| s_start := st; s_count := cn; s_stride := osr; s_block := obl |} in
      let supported := (size =? 4) || (size =? 8) in
      if is_slice then
        agree size dims (Hs.slice_axes st cn)
              (run0 f (api_read_slice SBI 64 (dset_addr data) st cn))
              (if supported then Hs.read_slice Hs.Contiguous full dims st cn else None)
      else
        agree size dims (Hs.axes_of (hsel_of s) (length dims))
              (run0 f (api_read_hyperslab SBI 64 (dset_addr data) s))
              (if supported then Hs.read_hyperslab Hs.Contiguous full dims (hsel_of s) else None)
  end.
Definition refine_mismatches (cs : list (N * list N * string * (list N * list N * list N * list N) * bool)) : list N :=
  map (fun p => N.of_nat (fst p)) (filter (fun p => negb (refine_case_ok (snd p))) (combine (seq 0 (length cs)) cs)).
