(* C05 - executable well-formedness predicates evaluated by the tie on the extent lists produced by the
   independent decoder, and the transcription of the append-only allocator
   (/repo/internal/writer/allocator.go).  No proofs in this file. *)
From HV Require Import Base.Prelude.

(* ---------------------------------------------------------------- extents *)
(* a visited structure occupies the half-open byte range [fst e, snd e) *)
Definition ext : Type := (N * N)%type.

(* non-empty, inside the file of size fs, at or below the recorded end-of-file address eof *)
Definition ext_in (fs eof : N) (e : ext) : bool :=
  (fst e <? snd e) && (snd e <=? fs) && (snd e <=? eof).

Fixpoint insert_ext (e : ext) (l : list ext) : list ext :=
  match l with
  | [] => [e]
  | x :: r => if fst e <=? fst x then e :: l else x :: insert_ext e r
  end.

Fixpoint sort_ext (l : list ext) : list ext :=
  match l with [] => [] | x :: r => insert_ext x (sort_ext r) end.

(* sweep over the list sorted by start: every extent ends before the next one starts *)
Fixpoint chain_ok (l : list ext) : bool :=
  match l with
  | a :: r => match r with [] => true | b :: _ => (snd a <=? fst b) && chain_ok r end
  | [] => true
  end.

Definition extents_ok (fs eof : N) (l : list ext) : bool :=
  forallb (ext_in fs eof) l && chain_ok (sort_ext l).

(* specification side *)
Definition disjoint (a b : ext) : Prop := snd a <= fst b \/ snd b <= fst a.
Definition pairwise_disjoint (l : list ext) : Prop := ForallOrdPairs disjoint l.
Definition ext_inside (fs eof : N) (e : ext) : Prop := fst e < snd e /\ snd e <= fs /\ snd e <= eof.

(* ---------------------------------------------------------------- allocator (allocator.go) *)
(* type AllocatedBlock struct { Offset, Size uint64 };  type Allocator struct { blocks; nextOffset } *)
Record allocator := { blocks : list (N * N) (* Offset, Size; append order *); next_offset : N }.

Definition new_allocator (initial : N) : allocator := {| blocks := []; next_offset := initial |}.

(* func (a *Allocator) Allocate(size uint64) (uint64, error):
     if size == 0 { return 0, error }
     addr := a.nextOffset; a.blocks = append(a.blocks, {addr,size}); a.nextOffset = addr + size   (uint64 arithmetic)
     return addr, nil *)
Definition allocate (a : allocator) (size : N) : allocator * option N :=
  if size =? 0 then (a, None)
  else let addr := next_offset a in
       ({| blocks := blocks a ++ [(addr, size)]; next_offset := wrap64 (addr + size) |}, Some addr).

(* an arbitrary sequence of requests; failed (zero-size) requests leave the allocator unchanged *)
Fixpoint allocate_all (a : allocator) (reqs : list N) : allocator :=
  match reqs with [] => a | s :: r => allocate_all (fst (allocate a s)) r end.

Definition end_of_file (a : allocator) : N := next_offset a.
Definition block_ext (b : N * N) : ext := (fst b, fst b + snd b).
Definition block_exts (a : allocator) : list ext := map block_ext (blocks a).

(* the blocks tile [s, e): each starts where the previous one ended, all are non-empty *)
Fixpoint tiles (s : N) (l : list ext) (e : N) : Prop :=
  match l with
  | [] => s = e
  | b :: r => fst b = s /\ fst b < snd b /\ tiles (snd b) r e
  end.

Definition sum_sizes (reqs : list N) : N := fold_right N.add 0 reqs.

(* ---------------------------------------------------------------- the recorded end-of-file address *)
(* CreateForWrite writes the superblock with eofAddress = allocator end-of-file at that moment;
   no later call rewrites the field, FileWriter.Close included (dataset_write.go Close). *)
Record wfile := { sb_eof : N; wf_alloc : allocator }.
Definition wf_create (initial : N) : wfile := {| sb_eof := initial; wf_alloc := new_allocator initial |}.
Definition wf_allocs (w : wfile) (reqs : list N) : wfile := {| sb_eof := sb_eof w; wf_alloc := allocate_all (wf_alloc w) reqs |}.
Definition wf_close (w : wfile) : wfile := w.
(* the proposed repair: Close rewrites the field with the allocator's end of file *)
Definition wf_close_fixed (w : wfile) : wfile := {| sb_eof := end_of_file (wf_alloc w); wf_alloc := wf_alloc w |}.
Definition below_eof (w : wfile) : Prop := Forall (fun e => snd e <= sb_eof w) (block_exts (wf_alloc w)).

(* the property's clause "below the end-of-file address recorded in the superblock", for the code as written *)
Definition eof_full : Prop := forall initial reqs, initial + sum_sizes reqs < 18446744073709551616 ->
  below_eof (wf_close (wf_allocs (wf_create initial) reqs)).
