(* C13, object-header level: DatasetWriter.Resize as a rewrite of the stored object header.
   Transcription of /repo dataset_write.go  func (dw *DatasetWriter) Resize(newDims []uint64) error
   (steps 1-11 of that function, in its order) on top of the codec models
     Model/CodecOhdr.v  dec_ohdr   = core.ReadObjectHeader   (refreshObjectHeader: the header as it is on disk)
                        enc_ohdr_v2 = ObjectHeaderWriter.writeToV2 (through core.WriteObjectHeader)
     Model/CodecMsg.v   dec_dataspace = core.ParseDataspaceMessage, enc_dataspace = core.EncodeDataspaceMessage
   and writer.NewChunkCoordinator (validation + chunks per dimension).

   State = the fields of the handle Resize reads or writes + the file image.  The handle is the one returned
   by CreateDataset: FileWriter.OpenDataset does not set isChunked / maxDims, so Resize through a reopened
   handle stops at step 1 (rh_chunked = false).
   dw.objectHeader (the cached header) is the field rh_cache: it is replaced by the header read from the file
   even on calls that fail later, and is never read by Resize.
   os.File.WriteAt failing half way (I/O error) is outside this model (C17).
   No proofs here (Proofs/Resize*.v). *)
From HV Require Import Base.Prelude Base.Outcome Base.Bytes Model.CodecMsg Model.CodecOhdr.

Definition UNLIMITED : N := 18446744073709551615.      (* hdf5.Unlimited = 0xFFFFFFFFFFFFFFFF *)
Definition MSG_DATASPACE : N := 1.

Record rhandle := {
  rh_chunked : bool;              (* dw.isChunked *)
  rh_dims : list N;               (* dw.dims *)
  rh_maxdims : list N;            (* dw.maxDims; [] = not set *)
  rh_chunkdims : list N;          (* dw.chunkDims *)
  rh_esize : N;                   (* dw.elementSize(): uint32 *)
  rh_datasize : N;                (* dw.dataSize: uint64 *)
  rh_numchunks : list N;          (* dw.chunkCoordinator.numChunks *)
  rh_cache : option ohdr'         (* dw.objectHeader *)
}.

Inductive rres := ROk | RErr | RPanic.
Definition rres_code (r : rres) : N := match r with ROk => 0 | RErr => 1 | RPanic => 2 end.

(* os.File.WriteAt(buf, off): bytes between the old end of the file and off read as zero *)
Definition write_at (f : bytes) (off : N) (d : bytes) : bytes :=
  let o := N.to_nat off in
  let f' := f ++ repeat 0 (o + length d - length f)%nat in
  firstn o f' ++ d ++ skipn (o + length d) f'.

(* step 2:  for i, newDim := range newDims { if dw.maxDims[i] != Unlimited && newDim > dw.maxDims[i] { error } }
   (dw.maxDims[i] beyond its length is an index panic) *)
Fixpoint check_max (new maxd : list N) : rres :=
  match new with
  | [] => ROk
  | d :: r =>
      match maxd with
      | [] => RPanic
      | m :: mr => if negb (m =? UNLIMITED) && (m <? d) then RErr else check_max r mr
      end
  end.

(* writer.NewChunkCoordinator(datasetDims, chunkDims): None = error *)
Fixpoint num_chunks (dims chunk : list N) : list N :=
  match dims, chunk with
  | d :: dr, c :: cr => (sub64 (wrap64 (d + c)) 1 / c) :: num_chunks dr cr
  | _, _ => []
  end.
Definition new_coordinator (dims chunk : list N) : option (list N) :=
  if negb (length dims =? length chunk)%nat then None else
  if (length dims =? 0)%nat then None else
  if negb (forallb (fun d => negb (d =? 0)) dims) then None else
  if negb (forallb (fun d => negb (d =? 0)) chunk) then None else
  Some (num_chunks dims chunk).

(* step 4: the loop over dw.objectHeader.Messages: the FIRST message of type 1 is taken; its data must parse *)
Fixpoint find_dataspace (ms : list hmsg') (i : nat) : outcome nat :=
  match ms with
  | [] => Err                                             (* "dataspace message not found in object header" *)
  | m :: r => if hmp_type m =? MSG_DATASPACE
              then (_ <- dec_dataspace (hmp_data m);; Ok i)
              else find_dataspace r (S i)
  end.

(* step 7: dw.objectHeader.Messages[idx].Data = newData *)
Fixpoint set_data (ms : list hmsg') (i : nat) (d : bytes) : list hmsg' :=
  match ms, i with
  | [], _ => []
  | m :: r, O => {| hmp_type := hmp_type m; hmp_offset := hmp_offset m; hmp_data := d |} :: r
  | m :: r, S i' => m :: set_data r i' d
  end.

Definition to_hmsg (m : hmsg') : hmsg := {| hm_type := hmp_type m; hm_data := hmp_data m |}.

(* core.WriteObjectHeader: only version 2; writeToV2 refuses a chunk above 255 bytes; None = error (nothing written) *)
Definition write_ohdr (file : bytes) (addr : N) (o : ohdr') : option bytes :=
  if negb (ohp_version o =? 2) then None else
  let x := {| oh_version := ohp_version o; oh_flags := ohp_flags o; oh_refcount := ohp_refcount o;
              oh_msgs := map to_hmsg (ohp_msgs o) |} in
  if negb (encok_ohdr_v2 x) then None else
  Some (write_at file addr (enc_ohdr_v2 x)).

(* calculateTotalElements(dims) * uint64(elementSize) in uint64 *)
Definition total_elements (dims : list N) : N := fold_left (fun t d => wrap64 (t * d)) dims 1.

Definition set_cache (h : rhandle) (c : option ohdr') : rhandle :=
  {| rh_chunked := rh_chunked h; rh_dims := rh_dims h; rh_maxdims := rh_maxdims h; rh_chunkdims := rh_chunkdims h;
     rh_esize := rh_esize h; rh_datasize := rh_datasize h; rh_numchunks := rh_numchunks h; rh_cache := c |}.

(* Resize.  sbBE: the byte order recorded in the superblock (only the reference count of the cached header
   depends on it).  Result: handle, file image, result class of the call. *)
Definition resize (sbBE : bool) (h : rhandle) (file : bytes) (addr : N) (new : list N) : rhandle * bytes * rres :=
  (* 1 *)
  if negb (rh_chunked h) then (h, file, RErr) else
  if (length (rh_maxdims h) =? 0)%nat then (h, file, RErr) else
  if negb (length new =? length (rh_dims h))%nat then (h, file, RErr) else
  (* 2 *)
  match check_max new (rh_maxdims h) with
  | RPanic => (h, file, RPanic)
  | RErr => (h, file, RErr)
  | ROk =>
  match new_coordinator new (rh_chunkdims h) with
  | None => (h, file, RErr)
  | Some coord =>
  (* 3 *)
  match dec_ohdr sbBE file addr with
  | Panic => (h, file, RPanic)
  | Err => (h, file, RErr)
  | Ok oh =>
  let h1 := set_cache h (Some oh) in
  (* 4 *)
  match find_dataspace (ohp_msgs oh) 0 with
  | Panic => (h1, file, RPanic)
  | Err => (h1, file, RErr)
  | Ok idx =>
  (* 6 *)
  let x := {| ds_dims := new; ds_maxdims := rh_maxdims h |} in
  if negb (encok_dataspace x) then (h1, file, RErr) else
  if negb (length new <=? 255)%nat then (h1, file, RPanic) else     (* buf of uint8(len(dims)) extents, loop over all dims *)
  (* 7 *)
  let oh' := {| ohp_version := ohp_version oh; ohp_flags := ohp_flags oh; ohp_refcount := ohp_refcount oh;
                ohp_name := ohp_name oh; ohp_msgs := set_data (ohp_msgs oh) idx (enc_dataspace x) |} in
  let h2 := set_cache h (Some oh') in
  (* 8 *)
  match write_ohdr file addr oh' with
  | None => (h2, file, RErr)
  | Some file' =>
  (* 9-11 *)
  ({| rh_chunked := rh_chunked h; rh_dims := new; rh_maxdims := rh_maxdims h; rh_chunkdims := rh_chunkdims h;
      rh_esize := rh_esize h; rh_datasize := wrap64 (total_elements new * rh_esize h);
      rh_numchunks := coord; rh_cache := Some oh' |}, file', ROk)
  end end end end end.

(* ---------------------------------------------------------------- specification side *)

(* "within the declared maximum": same rank, no zero extent, every extent at most its maximum (Unlimited: any) *)
Fixpoint within_max (new maxd : list N) : bool :=
  match new, maxd with
  | [], _ => true
  | d :: r, m :: mr => ((m =? UNLIMITED) || (d <=? m)) && within_max r mr
  | _ :: _, [] => false
  end.
Definition resize_ok (dims maxd new : list N) : bool :=
  (length new =? length dims)%nat && forallb (fun d => 0 <? d) new && within_max new maxd.

(* what a reader finds after reopen: object header -> first dataspace message -> extents and maximum extents *)
Fixpoint first_dataspace (ms : list hmsg') : outcome bytes :=
  match ms with
  | [] => Err
  | m :: r => if hmp_type m =? MSG_DATASPACE then Ok (hmp_data m) else first_dataspace r
  end.
Definition stored_shape (sbBE : bool) (file : bytes) (addr : N) : outcome (list N * option (list N)) :=
  oh <- dec_ohdr sbBE file addr;;
  d <- first_dataspace (ohp_msgs oh);;
  s <- dec_dataspace d;;
  Ok (dsp_dims s, dsp_maxdims s).

(* a list of Resize calls through one handle *)
Fixpoint resizes (sbBE : bool) (h : rhandle) (file : bytes) (addr : N) (news : list (list N))
  : rhandle * bytes * list rres :=
  match news with
  | [] => (h, file, [])
  | new :: r =>
      let '(h1, f1, c) := resize sbBE h file addr new in
      let '(h2, f2, cs) := resizes sbBE h1 f1 addr r in
      (h2, f2, c :: cs)
  end.

(* the shape after a list of requests: the last accepted one *)
Definition last_accepted (dims maxd : list N) (news : list (list N)) : list N :=
  fold_left (fun cur new => if resize_ok cur maxd new then new else cur) news dims.
Fixpoint expected_results (dims maxd : list N) (news : list (list N)) : list rres :=
  match news with
  | [] => []
  | new :: r => if resize_ok dims maxd new then ROk :: expected_results new maxd r
                else RErr :: expected_results dims maxd r
  end.

(* the handle CreateDataset(dims, WithChunkDims(chunk), WithMaxDims(maxd)) returns for element size esize *)
Definition new_handle (dims maxd chunk : list N) (esize : N) : rhandle :=
  {| rh_chunked := true; rh_dims := dims; rh_maxdims := maxd; rh_chunkdims := chunk; rh_esize := esize;
     rh_datasize := wrap64 (total_elements dims * esize); rh_numchunks := num_chunks dims chunk; rh_cache := None |}.

(* ---------------------------------------------------------------- invariants the theorems are stated under *)

(* the handle of a resizable dataset as CreateDataset builds it (createChunkedDataset validates: chunk rank =
   rank, no zero chunk extent, maxDims of the same rank) *)
Definition handle_ok (h : rhandle) : bool :=
  rh_chunked h && negb (length (rh_dims h) =? 0)%nat && (length (rh_maxdims h) =? length (rh_dims h))%nat &&
  (length (rh_chunkdims h) =? length (rh_dims h))%nat && forallb (fun d => negb (d =? 0)) (rh_chunkdims h).

(* the dataspace message of a dataset with the given extents and maxima, and a version 2 header that holds it
   between arbitrary other messages (datatype before; layout, filter pipeline, attributes, reference count after) *)
Definition ds_msg (dims maxd : list N) : hmsg :=
  {| hm_type := MSG_DATASPACE; hm_data := enc_dataspace {| ds_dims := dims; ds_maxdims := maxd |} |}.
Definition hdr_of (flags : N) (before : list hmsg) (dims maxd : list N) (after : list hmsg) : ohdr :=
  {| oh_version := 2; oh_flags := flags; oh_refcount := 1; oh_msgs := before ++ ds_msg dims maxd :: after |}.
Definition no_ds (ms : list hmsg) : bool := forallb (fun m => negb (hm_type m =? MSG_DATASPACE)) ms.

(* what follows the header in the file: the reader fetches 6 bytes for every message header, and a message with
   one byte of data is 5 bytes long - so either the last message has two bytes of data or the file goes on *)
Fixpoint room (ms : list hmsg) (suf : bytes) : bool :=
  match ms with
  | [] => true
  | m :: r => match r with [] => 2 <=? blen (hm_data m) + blen suf | _ => room r suf end
  end.

(* the bytes of the header image in front of / behind the extents of the dataspace message; they depend on the
   rank only, not on the extents *)
Definition frame_front (flags : N) (before : list hmsg) (rank : N) (maxd : list N) (after : list hmsg) : bytes :=
  let dlen := 8 + 8 * rank + 8 * blen maxd in
  [79; 72; 68; 82] ++ [2; flags; wrap8 (chunk_size_v2 before + (4 + dlen + chunk_size_v2 after))]
  ++ body_v2 before ++ [wrap8 MSG_DATASPACE] ++ le 2 (wrap16 dlen) ++ [0]
  ++ [1; wrap8 rank; match maxd with [] => 0 | _ => 1 end] ++ zeros 5.
Definition frame_back (maxd : list N) (after : list hmsg) : bytes := enc_dims8 maxd ++ body_v2 after.
