(* C11 codec models, group 2: the datatype message.
   Transcription of internal/core/messages_write.go EncodeDatatypeMessage and its per-class helpers
   (encodeDatatypeNumeric/String/Reference/Opaque/Compound/VLen) and of
   internal/core/datatype.go ParseDatatypeMessage + calculateCompoundPropsLen.
   No proofs here (Proofs/CodecType.v). *)
From HV Require Import Base.Prelude Base.Outcome Base.Bytes.

(* core.DatatypeMessage; the encoder takes it, the decoder returns it *)
Record datatype := { dt_class : N; dt_version : N; dt_size : N; dt_cbf : N; dt_props : bytes }.

Definition DT_FIXED := 0.   Definition DT_FLOAT := 1.   Definition DT_TIME := 2.
Definition DT_STRING := 3.  Definition DT_BITFIELD := 4. Definition DT_OPAQUE := 5.
Definition DT_COMPOUND := 6. Definition DT_REFERENCE := 7. Definition DT_ENUM := 8.
Definition DT_VLEN := 9.    Definition DT_ARRAY := 10.

(* uint32(class) | uint32(version)<<4 | classBitField<<8   (all uint32) *)
Definition dt_word (class version cbf : N) : N :=
  N.lor (N.lor class (wrap32 (N.shiftl version 4))) (wrap32 (N.shiftl cbf 8)).

(* the common 8-byte header *)
Definition dt_header (class version cbf size : N) : bytes :=
  le 4 (dt_word class version cbf) ++ le 4 size.

(* D10 switch: [false] = the layout before /repo commit 71914eb (class and version nibbles swapped, type
   flags written at bytes 8-11 instead of into the class bit field); [true] = the repaired layout written
   since then (standard header, version 1, base type directly after it).  This one definition selects the
   layout the tie compares with the Go code; theorems exist for both (C11_vlen_refuted / C11_vlen_roundtrip). *)
Definition vlen_header_repaired : bool := true.
Definition vlen_repaired_version : N := 1.

Definition numeric_props (class size cbf : N) : bytes :=
  let byteOrder := N.land cbf 1 in
  let precision := wrap8 (wrap32 (size * 8)) in
  if class =? DT_FLOAT then
    let mant := if size =? 4 then 23 else 52 in
    let expo := if size =? 4 then 8 else 11 in
    [byteOrder; precision; 0; expo; mant; 127] ++ zeros 6
  else [byteOrder; precision; 0; 0].

Definition pad8 (n : N) : N := ((n + 7) / 8) * 8.

(* error checks of EncodeDatatypeMessage and the per-class helpers *)
Definition encok_datatype (x : datatype) : bool :=
  negb (dt_size x =? 0) &&
  let c := dt_class x in let s := dt_size x in
  if c =? DT_FIXED then (s =? 1) || (s =? 2) || (s =? 4) || (s =? 8)
  else if c =? DT_FLOAT then (s =? 4) || (s =? 8)
  else if c =? DT_STRING then true
  else if c =? DT_REFERENCE then (s =? 8) || (s =? 12)
  else if c =? DT_OPAQUE then negb (length (dt_props x) =? 0)%nat
  else if c =? DT_COMPOUND then negb (length (dt_props x) =? 0)%nat
  else if c =? DT_VLEN then true
  else false.

Definition enc_datatype_gen (vlen_repaired : bool) (x : datatype) : bytes :=
  let c := dt_class x in
  if (c =? DT_FIXED) || (c =? DT_FLOAT) then
    dt_header c 1 (dt_cbf x) (dt_size x) ++ numeric_props c (dt_size x) (dt_cbf x)
  else if c =? DT_STRING then
    dt_header c 1 (dt_cbf x) (dt_size x) ++ [0]
  else if c =? DT_REFERENCE then
    dt_header c 1 (dt_cbf x) (dt_size x)
  else if c =? DT_OPAQUE then
    let tag := dt_props x in
    let padded := pad8 (blen tag) in
    dt_header c 1 (wrap32 padded) (dt_size x) ++ tag ++ zeros (N.to_nat (padded - blen tag))
  else if c =? DT_COMPOUND then
    dt_header c (dt_version x) (dt_cbf x) (dt_size x) ++ dt_props x
  else if c =? DT_VLEN then
    if vlen_repaired then
      dt_header c vlen_repaired_version (dt_cbf x) (dt_size x) ++ dt_props x
    else
      (* buf[0] = version(0) | byte(class)<<4 ; buf[1..3] = 0 ; size ; ClassBitField ; properties *)
      [wrap8 (N.shiftl c 4); 0; 0; 0] ++ le 4 (dt_size x) ++ le 4 (dt_cbf x) ++ dt_props x
  else [].

(* the encoder of the tree under test *)
Definition enc_datatype (x : datatype) : bytes := enc_datatype_gen vlen_header_repaired x.

(* ---- decoder ---- *)

(* calculateCompoundPropsLen's member loop; [parse] is ParseDatatypeMessage (recursion is through it).
   Err = the Go function returns an error (the caller then falls back to "all remaining").
   [fuel] bounds the number of iterations: each one advances offset by >= 13 or fails, so
   S (length props) iterations are never exhausted. *)
Fixpoint cpl_loop (parse : bytes -> outcome datatype) (fuel : nat) (props : bytes) (remaining offset : N)
  : outcome N :=
  if remaining =? 0 then Ok offset else
  match fuel with
  | O => Err
  | S fuel' =>
      let nameEnd := find0 props offset in
      if blen props <=? nameEnd then Err else
      let offset := nameEnd + 1 in
      if blen props <? offset + 4 then Err else
      let offset := offset + 4 in
      if blen props <? offset + 8 then Err else
      sub <- slice_from props offset;;
      match parse sub with
      | Ok m => cpl_loop parse fuel' props (remaining - 1) (offset + 8 + blen (dt_props m))
      | _ => Err
      end
  end.

Definition compound_props_len (parse : bytes -> outcome datatype) (props : bytes) (version : N) : outcome N :=
  if negb (version =? 3) then Err else
  if blen props <? 4 then Err else
  n <- rd_le props 0 4;;
  cpl_loop parse (S (length props)) props n 4.

(* ParseDatatypeMessage; [fuel] bounds the nesting depth (each nested call is on a strictly shorter
   slice, so S (length data) is never exhausted) *)
Fixpoint dec_dt (fuel : nat) (data : bytes) : outcome datatype :=
  match fuel with
  | O => Err
  | S fuel' =>
      if blen data <? 8 then Err else
      cv <- rd_le data 0 4;;
      let class := N.land cv 15 in
      let version := N.land (N.shiftr cv 4) 15 in
      let cbf := N.land (N.shiftr cv 8) 16777215 in
      size <- rd_le data 4 4;;
      let rest := blen data - 8 in
      propsLen <-
        (if class =? DT_FIXED then Ok 4
         else if class =? DT_FLOAT then Ok 12
         else if class =? DT_BITFIELD then Ok 4
         else if class =? DT_TIME then Ok 2
         else if class =? DT_COMPOUND then
           d8 <- slice_from data 8;;
           match compound_props_len (dec_dt fuel') d8 version with
           | Ok n => Ok n
           | Err => Ok rest
           | Panic => Panic
           end
         else Ok rest);;
      let propsLen := if blen data <? 8 + propsLen then rest else propsLen in
      p <- slice data 8 (8 + propsLen);;
      Ok {| dt_class := class; dt_version := version; dt_size := size; dt_cbf := cbf; dt_props := p |}
  end.

Definition dec_datatype (data : bytes) : outcome datatype := dec_dt (S (length data)) data.

(* ---- what the decoder returns for an encoded value ---- *)
Definition proj_datatype (x : datatype) : datatype :=
  let c := dt_class x in
  if (c =? DT_FIXED) || (c =? DT_FLOAT) then
    {| dt_class := c; dt_version := 1; dt_size := dt_size x; dt_cbf := dt_cbf x;
       dt_props := numeric_props c (dt_size x) (dt_cbf x) |}
  else if c =? DT_STRING then
    (* the encoder writes one property byte (0) which the decoder hands back as Properties *)
    {| dt_class := c; dt_version := 1; dt_size := dt_size x; dt_cbf := dt_cbf x; dt_props := [0] |}
  else if c =? DT_REFERENCE then
    {| dt_class := c; dt_version := 1; dt_size := dt_size x; dt_cbf := dt_cbf x; dt_props := [] |}
  else if c =? DT_OPAQUE then
    (* ClassBitField of the input is ignored and replaced by the padded tag length; the tag comes
       back zero-padded to a multiple of 8 *)
    {| dt_class := c; dt_version := 1; dt_size := dt_size x; dt_cbf := pad8 (blen (dt_props x));
       dt_props := dt_props x ++ zeros (N.to_nat (pad8 (blen (dt_props x)) - blen (dt_props x))) |}
  else x.

(* the fields of the input that are actually transported (identity on them is the C11 statement) *)
Definition transported (x y : datatype) : bool :=
  (dt_class x =? dt_class y) && (dt_size x =? dt_size y) &&
  let c := dt_class x in
  if c =? DT_OPAQUE then bytes_eqb (dt_props x) (firstn (length (dt_props x)) (dt_props y))
  else if c =? DT_COMPOUND then (dt_version x =? dt_version y) && (dt_cbf x =? dt_cbf y) && bytes_eqb (dt_props x) (dt_props y)
  else (dt_cbf x =? dt_cbf y).

(* compound: the decoder re-computes the properties length from the member list when version = 3;
   the value round-trips iff that computation fails (fallback = everything) or returns the full length *)
Definition compound_props_exact (x : datatype) : bool :=
  match compound_props_len (dec_dt (8 + length (dt_props x))) (dt_props x) (dt_version x) with
  | Ok n => n =? blen (dt_props x)
  | Err => true
  | Panic => false
  end.

Definition wf_datatype (x : datatype) : bool :=
  encok_datatype x && negb (dt_class x =? DT_VLEN) &&
  (dt_size x <? 4294967296) && (dt_cbf x <? 16777216) && bytes_ok (dt_props x) &&
  (if dt_class x =? DT_COMPOUND then (dt_version x <? 16) && compound_props_exact x else true) &&
  (if dt_class x =? DT_OPAQUE then pad8 (blen (dt_props x)) <? 16777216 else true).

Definition size_datatype_gen (vlen_repaired : bool) (x : datatype) : N :=
  let c := dt_class x in
  if c =? DT_FIXED then 12 else if c =? DT_FLOAT then 20 else if c =? DT_STRING then 9
  else if c =? DT_REFERENCE then 8 else if c =? DT_OPAQUE then 8 + pad8 (blen (dt_props x))
  else if c =? DT_COMPOUND then 8 + blen (dt_props x)
  else if c =? DT_VLEN then (if vlen_repaired then 8 else 12) + blen (dt_props x)
  else 0.
Definition size_datatype (x : datatype) : N := size_datatype_gen vlen_header_repaired x.

Definition datatype_eqb (a b : datatype) : bool :=
  (dt_class a =? dt_class b) && (dt_version a =? dt_version b) && (dt_size a =? dt_size b) &&
  (dt_cbf a =? dt_cbf b) && bytes_eqb (dt_props a) (dt_props b).

Definition val_datatype (d : datatype) : val :=
  VL [VN (dt_class d); VN (dt_version d); VN (dt_size d); VN (dt_cbf d); VB (dt_props d)].

(* variable-length types under the repaired layout: version comes back as 1 *)
Definition wf_vlen (x : datatype) : bool :=
  (dt_class x =? DT_VLEN) && negb (dt_size x =? 0) && (dt_size x <? 4294967296) && (dt_cbf x <? 16777216).
Definition proj_vlen (x : datatype) : datatype :=
  {| dt_class := DT_VLEN; dt_version := vlen_repaired_version; dt_size := dt_size x; dt_cbf := dt_cbf x;
     dt_props := dt_props x |}.

(* D10 witness: a variable-length string type as dataset_write.go builds it *)
Definition vlen_witness : datatype :=
  {| dt_class := DT_VLEN; dt_version := 0; dt_size := 16; dt_cbf := 1;
     dt_props := enc_datatype_gen false {| dt_class := DT_STRING; dt_version := 1; dt_size := 1; dt_cbf := 0; dt_props := [] |} |}.
