(* C03 / C05 / C11 - the symbol-table GROUP structures at byte level.  Proof-free transcription of the CURRENT /repo code
   (336a458) of the three structures a symbol-table group consists of, writers AND readers:

     internal/structures/localheap.go        NewLocalHeap :137  AddString :167  WriteTo :209  Size :268
                                             PrepareForModification :286  LoadLocalHeap :41  GetString :105
     internal/structures/symboltable_node.go NewSymbolTableNode :157  AddEntry :167  WriteAt :181  writeAddressToBytes :231
                                             ParseSymbolTableNode :27  readAddressFromBytes :133
     internal/structures/btree_group.go      NewBTreeNodeV1 :193  AddKey :209  WriteAt :226  writeAddr :292
                                             ReadGroupBTreeEntries :21 (with the entry budget of 336a458)  readAddress :142
     internal/utils/saferead.go              ReadBytesAt :13  (Model/RobustAlloc.v read_bytes_at)
     group_write.go                          createGroupStructures :113, readLocalHeap :415, readSymbolTableNode :443 and the
                                             two writes at the end of linkToParent (heap.WriteTo, stNode.WriteAt)

   The symbol table MESSAGE and the symbol table ENTRY of the superblock are in Model/CodecLink.v / Model/CodecSuper.v.
   The abstract namespace model Model/GroupNS.v keeps, per group, the heap's data segment and the node's (offset, address)
   pairs; Proofs/GroupWireAbs.v shows that the byte-level steps below commute with its add_string / add_entry / write_to.

   Conventions: the file is `bytes`; `read_at` (Model/RobustGroup.v) is r.ReadAt with err != nil => error; `write_at`
   (Model/ChunkIndex.v) is os.File.WriteAt (zero fill beyond the end).  Little-endian files.  [O] / [L] = the superblock's
   size of offsets / lengths; the writer is only ever called with 8 (CreateForWrite produces 8/8 superblocks), the readers
   with whatever the file says.  uint64 fields are numbers below 2^64 (le 8 v writes v mod 2^64).
   No proofs in this file (Proofs/GroupWire*.v; theorems Props/C11Group.v, Props/C05Group.v). *)
From HV Require Import Base.Prelude Base.Outcome Base.Bytes Model.RobustAlloc Model.RobustGroup.
From HV Require Model.GroupNS Model.ChunkIndex.

Definition sigHEAP : bytes := [72; 69; 65; 80].
Definition llen {A} (l : list A) : N := N.of_nat (length l).
Definition write_at := HV.Model.ChunkIndex.write_at.

(* ================================================================== internal/structures/localheap.go *)

(* the write-mode fields of LocalHeap: strings, DataSegmentSize, OffsetToHeadFreeList, DataSegmentAddress *)
Record wheap := { hw_strings : bytes; hw_dss : N; hw_free : N; hw_daddr : N }.

(* NewLocalHeap :137 *)
Definition new_local_heap (n : N) : wheap :=
  {| hw_strings := []; hw_dss := HV.Model.GroupNS.new_heap_size n; hw_free := 1; hw_daddr := 0 |}.

(* AddString :167   needed = len(s)+1; "local heap is full" iff len(strings)+needed > DataSegmentSize; offset = len(strings) *)
Definition add_string (h : wheap) (s : bytes) : outcome (N * wheap) :=
  let needed := blen s + 1 in
  let cur := blen (hw_strings h) in
  if hw_dss h <? cur + needed then Err
  else Ok (cur, {| hw_strings := hw_strings h ++ s ++ [0]; hw_dss := hw_dss h; hw_free := hw_free h; hw_daddr := hw_daddr h |}).

(* Size :268 *)
Definition heap_size (h : wheap) : N := 32 + hw_dss h.

(* the 32 header bytes WriteTo builds :222-249 *)
Definition heap_header (dss free daddr : N) : bytes :=
  sigHEAP ++ [0] ++ [0; 0; 0] ++ le 8 dss ++ le 8 free ++ le 8 daddr.

(* WriteTo :209   DataSegmentAddress = address + 32 (uint64); the strings buffer is padded IN MEMORY to DataSegmentSize;
   returns the mutated heap, the header bytes (written at address) and the segment bytes (written at DataSegmentAddress) *)
Definition heap_write_to (h : wheap) (address : N) : wheap * bytes * bytes :=
  let daddr := wrap64 (address + 32) in
  let s := if blen (hw_strings h) <? hw_dss h
           then hw_strings h ++ zeros (N.to_nat (hw_dss h - blen (hw_strings h))) else hw_strings h in
  ({| hw_strings := s; hw_dss := hw_dss h; hw_free := hw_free h; hw_daddr := daddr |},
   heap_header (hw_dss h) (hw_free h) daddr, s).
(* header and segment are adjacent: the image of the heap in the file *)
Definition heap_image (h : wheap) (address : N) : bytes :=
  let '(_, hdr, seg) := heap_write_to h address in hdr ++ seg.
(* the two WriteAt calls on the file :253 :259 *)
Definition heap_write_file (f : bytes) (h : wheap) (address : N) : wheap * bytes :=
  let '(h', hdr, seg) := heap_write_to h address in
  (h', write_at (write_at f address hdr) (hw_daddr h') seg).

(* LoadLocalHeap :41   header of 8+2L+O bytes through ReadAt, signature, DataSegmentSize (L bytes at 8), DataSegmentAddress
   (O bytes at 8+2L; the free-list offset is skipped, the version byte is not looked at), data through ReadBytesAt.
   Returns Data.  (Model/RobustAlloc.v local_heap_load is the same function returning len(Data) and the allocation log.) *)
Definition load_local_heap (file : bytes) (addr O L : N) : outcome bytes :=
  let headerSize := 8 + 2 * L + O in
  hb <- read_at file addr headerSize;;
  if negb (bytes_eqb (firstn 4 hb) sigHEAP) then Err else
  dsize <- rd_field hb 8 L;;
  daddr <- rd_field hb (8 + 2 * L) O;;
  fst (read_bytes_at file daddr dsize).

(* GetString :105 = Model/RobustAlloc.v heap_get_string *)
Definition get_string : bytes -> N -> outcome bytes := heap_get_string.

(* PrepareForModification :286 after LoadLocalHeap (DataSegmentSize = 0 there, so it becomes len(Data)) and
   readLocalHeap :430 (OffsetToHeadFreeList = 1).  The trailing-zero scan is Model/GroupNS.v used_size. *)
Definition prepare_for_modification (data : bytes) : wheap :=
  {| hw_strings := firstn (N.to_nat (HV.Model.GroupNS.used_size data)) data; hw_dss := blen data; hw_free := 1; hw_daddr := 0 |}.

(* ================================================================== internal/structures/symboltable_node.go *)
(* SymbolTableEntry: LinkNameOffset, ObjectAddress (uint64), CacheType, Reserved (uint32), CachedBTreeAddr, CachedHeapAddr *)
Record sym := { sy_name : N; sy_obj : N; sy_cache : N; sy_res : N; sy_bt : N; sy_heap : N }.
(* SymbolTableNode: Version, NumSymbols (uint16), Entries, cap(Entries) *)
Record snode := { stn_version : N; stn_num : N; stn_entries : list sym; stn_cap : N }.

(* NewSymbolTableNode :157 *)
Definition new_snode (capacity : N) : snode := {| stn_version := 1; stn_num := 0; stn_entries := []; stn_cap := capacity |}.
(* AddEntry :167   full iff int(NumSymbols) >= cap(Entries); NumSymbols++ on uint16 *)
Definition add_entry (s : snode) (e : sym) : outcome snode :=
  if stn_cap s <=? stn_num s then Err
  else Ok {| stn_version := stn_version s; stn_num := wrap16 (stn_num s + 1); stn_entries := stn_entries s ++ [e]; stn_cap := stn_cap s |}.

(* writeAddressToBytes / writeAddr (data has room): sizes 1,2,4,8 truncate, any other size copies the low bytes of the
   little-endian 8-byte form (size > 8 leaves the rest zero): always the `size` low bytes of addr *)
Definition write_address (addr O : N) : bytes := le (N.to_nat O) addr.

(* one used slot :199-218: offsets, cache type, reserved, 16 scratch bytes left zero (the cached addresses are NOT written) *)
Definition enc_sym (O : N) (e : sym) : bytes :=
  write_address (sy_name e) O ++ write_address (sy_obj e) O ++ le 4 (sy_cache e) ++ le 4 (sy_res e) ++ zeros 16.
Definition sym_size (O : N) : N := 2 * O + 24.

(* the loop :197   `entry := stn.Entries[i]` panics when NumSymbols exceeds len(Entries) *)
Fixpoint snod_slots (n : nat) (i : N) (s : snode) (O : N) : outcome bytes :=
  match n with
  | O => Ok []
  | S n' =>
      slot <- (if i <? stn_num s
               then match nth_error (stn_entries s) (N.to_nat i) with Some e => Ok (enc_sym O e) | None => Panic end
               else Ok (zeros (N.to_nat (sym_size O))));;
      rest <- snod_slots n' (i + 1) s O;;
      Ok (slot ++ rest)
  end.
(* WriteAt :181 : the buffer that goes to the file at `address` *)
Definition snod_write_at (s : snode) (O maxEntries : N) : outcome bytes :=
  body <- snod_slots (N.to_nat maxEntries) 0 s O;;
  Ok (sigSNOD ++ [stn_version s; 0] ++ le 2 (stn_num s) ++ body).

(* the entry loop of ParseSymbolTableNode :89-127 (Model/RobustGroup.v snod_entries plus the Reserved field) *)
Fixpoint sym_entries (n : nat) (data : bytes) (offset O : N) : outcome (list sym) :=
  match n with
  | O => Ok []
  | S n' =>
      let es := 2 * O + 24 in
      if blen data <? offset + es then Err                       (* "SNOD data truncated at entry i" *)
      else
        d0 <- slice_from data offset;;
        name <- read_address d0 O;;
        d1 <- slice_from data (offset + O);;
        obj <- read_address d1 O;;
        ct <- rd_le data (offset + 2 * O) 4;;
        res <- rd_le data (offset + 2 * O + 4) 4;;
        ' (bt, hp) <- (if ct =? 1 then
                         d2 <- slice_from data (offset + 2 * O + 8);;
                         bt <- read_address d2 O;;
                         d3 <- slice_from data (offset + 2 * O + 8 + O);;
                         hp <- read_address d3 O;;
                         Ok (bt, hp)
                       else Ok (0, 0));;
        rest <- sym_entries n' data (offset + es) O;;
        Ok ({| sy_name := name; sy_obj := obj; sy_cache := ct; sy_res := res; sy_bt := bt; sy_heap := hp |} :: rest)
  end.

(* ParseSymbolTableNode :27   8 header bytes, "SNOD", version 1, NumSymbols; capacity 32 raised to NumSymbols;
   NumSymbols*entrySize bytes through ReadAt (a short file is an error), then the entries *)
Definition parse_snod (file : bytes) (addr O : N) : outcome snode :=
  h <- read_at file addr 8;;
  if negb (bytes_eqb (firstn 4 h) sigSNOD) then Err else
  ver <- index h 4;;
  if negb (ver =? 1) then Err else
  nsym <- rd_le h 6 2;;
  let cap := if 32 <? nsym then nsym else 32 in
  if nsym =? 0 then Ok {| stn_version := ver; stn_num := 0; stn_entries := []; stn_cap := cap |} else
  data <- read_at file (addr + 8) (nsym * (2 * O + 24));;
  es <- sym_entries (N.to_nat nsym) data 0 O;;
  Ok {| stn_version := ver; stn_num := nsym; stn_entries := es; stn_cap := cap |}.

(* ================================================================== internal/structures/btree_group.go *)
(* BTreeNodeV1; Signature is always "TREE" (only NewBTreeNodeV1 builds one); cap(Keys) = 2k+1 *)
Record btnode := { btn_type : N; btn_level : N; btn_used : N; btn_left : N; btn_right : N;
                   btn_keys : list N; btn_children : list N; btn_cap : N }.

(* NewBTreeNodeV1 :193 *)
Definition new_btnode (nodeType k : N) : btnode :=
  {| btn_type := nodeType; btn_level := 0; btn_used := 0; btn_left := MaxUint64; btn_right := MaxUint64;
     btn_keys := []; btn_children := []; btn_cap := 2 * k + 1 |}.
(* AddKey :209   full iff len(Keys) >= cap(Keys) *)
Definition add_key (b : btnode) (key child : N) : outcome btnode :=
  if btn_cap b <=? blen (btn_keys b) then Err
  else Ok {| btn_type := btn_type b; btn_level := btn_level b; btn_used := wrap16 (btn_used b + 1);
             btn_left := btn_left b; btn_right := btn_right b;
             btn_keys := btn_keys b ++ [key]; btn_children := btn_children b ++ [child]; btn_cap := btn_cap b |}.

(* the loop :264  for i < 2k+1: key i (0 beyond len(Keys)); if i < 2k: child i (0 beyond len(ChildPointers)) *)
Fixpoint bt_slots (n : nat) (i : N) (b : btnode) (O maxChildren : N) : bytes :=
  match n with
  | O => []
  | S n' =>
      write_address (nth (N.to_nat i) (btn_keys b) 0) O
      ++ (if i <? maxChildren then write_address (nth (N.to_nat i) (btn_children b) 0) O else [])
      ++ bt_slots n' (i + 1) b O maxChildren
  end.
(* WriteAt :226 *)
Definition bt_write_at (b : btnode) (O k : N) : bytes :=
  sigTREE ++ [btn_type b; btn_level b] ++ le 2 (btn_used b) ++ write_address (btn_left b) O ++ write_address (btn_right b) O
  ++ bt_slots (N.to_nat (2 * k + 1)) 0 b O (2 * k).

(* BTreeEntry as ReadGroupBTreeEntries fills it (Reserved: 0) *)
Record bentry := { be_name : N; be_obj : N; be_cache : N; be_bt : N; be_heap : N }.
Definition bentry_of (e : sym) : bentry :=
  {| be_name := sy_name e; be_obj := sy_obj e; be_cache := sy_cache e; be_bt := sy_bt e; be_heap := sy_heap e |}.

(* the loop over the child addresses :111-134 with the entry budget: the entries collected so far must fit into the bytes up
   to the highest end of a symbol table node read so far *)
Fixpoint gwalk_entries (file : bytes) (O : N) (kids : list N) (acc : list bentry) (spanEnd : N) : outcome (list bentry) :=
  match kids with
  | [] => Ok acc
  | a :: r =>
      s <- parse_snod file a O;;
      let m := llen (stn_entries s) in
      let es := 2 * O + 24 in
      let spanEnd' := N.max spanEnd (wrap64 (a + 8 + m * es)) in
      if spanEnd' <? (llen acc + m) * es then Err                (* "symbol table nodes of the group overlap or repeat" *)
      else gwalk_entries file O r (acc ++ map bentry_of (stn_entries s)) spanEnd'
  end.

(* ReadGroupBTreeEntries :21   header, "TREE", type 0, level 0, entries used, the child addresses (0 and UNDEF skipped):
   Model/RobustGroup.v gnode_read; then the walk *)
Definition read_group_btree_entries (file : bytes) (addr O : N) : outcome (list bentry) :=
  kids <- fst (gnode_read file addr O);;
  gwalk_entries file O kids [] 0.

(* ================================================================== group_write.go *)
(* createGroupStructures :113 at the three addresses the allocator returned: SNOD written, B-tree written, heap written *)
Definition GROUP_K : N := 16.
Definition SNOD_CAP : N := 32.
Definition HEAP_INIT : N := 256.
Definition snod_alloc_size (O : N) : N := 8 + 32 * (2 * O + 24).
Definition btree_alloc_size (O : N) : N := 24 + (2 * 16 + 1) * O + 2 * 16 * O.

Definition create_group_structures (f : bytes) (heapAddr stAddr btAddr : N) : outcome bytes :=
  let heap := new_local_heap HEAP_INIT in
  sn <- snod_write_at (new_snode SNOD_CAP) 8 SNOD_CAP;;
  let f1 := write_at f stAddr sn in
  bt <- add_key (new_btnode 0 GROUP_K) 0 stAddr;;
  let f2 := write_at f1 btAddr (bt_write_at bt 8 GROUP_K) in
  Ok (snd (heap_write_file f2 heap heapAddr)).

(* the heap half of linkToParent: readLocalHeap (LoadLocalHeap + PrepareForModification), AddString, heap.WriteTo at the
   same address.  Returns the offset of the name and the file. *)
Definition link_heap (f : bytes) (heapAddr : N) (nm : bytes) : outcome (N * bytes) :=
  data <- load_local_heap f heapAddr 8 8;;
  ' (off, h1) <- add_string (prepare_for_modification data) nm;;
  Ok (off, snd (heap_write_file f h1 heapAddr)).
(* the node half: readSymbolTableNode, AddEntry, stNode.WriteAt(…, 32) at the same address *)
Definition link_snod (f : bytes) (stAddr : N) (e : sym) : outcome bytes :=
  s <- parse_snod f stAddr 8;;
  s1 <- add_entry s e;;
  b <- snod_write_at s1 8 SNOD_CAP;;
  Ok (write_at f stAddr b).

(* ================================================================== well-formedness (the hypotheses of the theorems) *)
Definition u64 (v : N) : bool := v <? 18446744073709551616.
Definition u32 (v : N) : bool := v <? 4294967296.
(* what the writer hands to the encoder: uint64 / uint32 fields, nothing cached (the cached addresses are not written) *)
Definition sym_ok (e : sym) : bool :=
  u64 (sy_name e) && u64 (sy_obj e) && u32 (sy_cache e) && u32 (sy_res e) && (sy_bt e =? 0) && (sy_heap e =? 0).
Definition snode_ok (s : snode) : bool :=
  (stn_version s =? 1) && (stn_num s =? llen (stn_entries s)) && (stn_num s <? 65536) && forallb sym_ok (stn_entries s)
  && (stn_cap s =? (if 32 <? stn_num s then stn_num s else 32)).
Definition btnode_ok (b : btnode) : bool :=
  (btn_type b <? 256) && (btn_level b <? 256) && (btn_used b =? blen (btn_keys b)) && (blen (btn_children b) =? blen (btn_keys b))
  && u64 (btn_left b) && u64 (btn_right b) && forallb u64 (btn_keys b) && forallb u64 (btn_children b).
Definition name_ok (n : bytes) : bool := forallb (fun b => negb (b =? 0)) n && bytes_ok n.

(* ================================================================== observables for the tie (tools/props/c03wire.py) *)
Definition sym_val (e : sym) : val := vlistN [sy_name e; sy_obj e; sy_cache e; sy_res e; sy_bt e; sy_heap e].
Definition snode_val (s : snode) : val := VL [VN (stn_version s); VN (stn_num s); VN (stn_cap s); VL (map sym_val (stn_entries s))].
Definition bentry_val (e : bentry) : val := vlistN [be_name e; be_obj e; be_cache e; be_bt e; be_heap e].
