(* Executable predicates evaluated by the correspondence check of C19 (tools/props/c19.py).

   Transport: Coq elaborates a numeral in time proportional to its bit length, so every number of a
   generated file (float64 bit patterns, clock increments, sizes, ...) is sent once, in a pool
   [list Z], and referenced by its index; modes likewise through a table of strings. *)
From HV Require Import Base.Prelude Model.Selector.

Open Scope Z_scope.

Definition getz (pool : list Z) (i : N) : Z := nth (N.to_nat i) pool 0.
Definition getn (pool : list Z) (i : N) : N := Z.to_N (getz pool i).
Definition getm (modes : list string) (i : N) : string := nth (N.to_nat i) modes "?"%string.

(* one observation: del (pool index of float64 bits), burst, file size, samples, workload type,
   clock increment since the previous observation (all pool indices) *)
Definition tobs := (N * bool * N * N * N * N)%type.
(* what the Go side answered: mode (table index), confidence bits (pool index), config kind,
   strategy's mode, strategy's confidence bits *)
Definition tgo := (N * N * N * N * N)%type.
(* patched, scripted-strategy table (None = built-in strategy), (MinConfidence, MinStabilityPeriod: pool
   indices, AllowedModes: table indices), observations, Go answers *)
Definition tcase := (bool * option (list N) * (N * N * list N) * list tobs * list tgo)%type.

Section Decode.
  Variable pool : list Z.
  Variable modes : list string.

  Fixpoint obs_of (prev : Z) (os : list tobs) : list obs :=
    match os with
    | [] => []
    | (del, burst, size, samples, w, dnow) :: r =>
        let now := prev + getz pool dnow in
        (mkFeatures (getn pool del) 0%N 0%N burst (getn pool size) (getz pool samples), getz pool w, now) :: obs_of now r
    end.
  Definition strategy_of (t : option (list N)) : features -> Z -> sdec :=
    match t with None => rule_select | Some tb => scripted (map (getm modes) tb) end.
  Definition cons_of (c : N * N * list N) : constraints :=
    let '(mc, ms, al) := c in mkConstraints (getn pool mc) (getz pool ms) (map (getm modes) al).

  Definition model_rows (c : tcase) : list row :=
    let '(p, t, cs, os, _) := c in run p (strategy_of t) cstate0 (cons_of cs) (obs_of 0 os).

  (* mode, confidence bits, config kind, strategy's mode, strategy's confidence bits *)
  Definition ans := (string * N * N * string * N)%type.
  Definition ans_eqb (a b : ans) : bool :=
    let '(m1, c1, k1, rm1, rc1) := a in let '(m2, c2, k2, rm2, rc2) := b in
    String.eqb m1 m2 && (c1 =? c2)%N && (k1 =? k2)%N && String.eqb rm1 rm2 && (rc1 =? rc2)%N.
  Definition ans_of_row (r : row) : ans :=
    (d_mode (r_dec r), d_conf (r_dec r), d_cfg (r_dec r), s_mode (r_raw r), s_conf (r_raw r)).
  Definition ans_of_go (g : tgo) : ans :=
    let '(m, cf, k, rm, rc) := g in (getm modes m, getn pool cf, k, getm modes rm, getn pool rc).

  (* gate: the model's decisions equal Go's (mode, confidence bits, config kind, and the strategy's proposal) *)
  Definition sel_case_ok (c : tcase) : bool :=
    let '(_, _, _, _, gos) := c in list_eqb ans_eqb (map ans_of_row (model_rows c)) (map ans_of_go gos).

  (* the specification predicates of Model/Selector.v evaluated on GO's answers (rows rebuilt from them) *)
  Fixpoint go_rows (os : list obs) (gos : list tgo) : list row :=
    match os, gos with
    | (_, _, now) :: os', g :: gos' =>
        let '(m, cf, k, rm, rc) := ans_of_go g in
        mkRow now (mkSdec rm rc 0) (mkDecision m cf 0 k) :: go_rows os' gos'
    | _, _ => []
    end.
  (* bit i set = predicate i violated somewhere: 1 allowed, 2 min confidence, 4 range (only asked when
     the strategy's own answers are all in [0,1]), 8 stability (strict iff patched), 16 dwell (only asked
     under a monotone clock), 32 confidence not passed through *)
  Definition spec_on_go (c : tcase) : N :=
    let '(p, t, cs, tos, gos) := c in
    let k := cons_of cs in
    let os := obs_of 0 tos in
    let rows := go_rows os gos in
    ((if forallb (allowed_ok k) rows then 0 else 1)
     + (if forallb (min_conf_ok k) rows then 0 else 2)
     + (if forallb (fun r => f64_in_unit (s_conf (r_raw r))) rows && negb (forallb range_ok rows) then 4 else 0)
     + (if stability_ok p k rows then 0 else 8)
     + (if match os with
           | (_, _, n0) :: _ => clock_mono p n0 os && negb (dwell_ok k rows)
           | [] => false
           end then 16 else 0)
     + (if forallb (fun r => (d_conf (r_dec r) =? s_conf (r_raw r))%N) rows then 0 else 32))%N.

  (* one number per case: 0 = agrees and satisfies the specification; +64 = model and Go differ *)
  Definition case_code (c : tcase) : N := ((if sel_case_ok c then 0 else 64) + spec_on_go c)%N.

  (* what the model answers, for the replay file of a mismatching case *)
  Definition model_answers (c : tcase) : list (string * N * N * N) :=
    map (fun r => (d_mode (r_dec r), d_conf (r_dec r), d_kind (r_dec r), d_cfg (r_dec r))) (model_rows c).
End Decode.
