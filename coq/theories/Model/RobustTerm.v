(* C07 termination models: the traversals of the reader that follow addresses found in the file, as fuel-indexed
   functions over an explicit file graph, with the guards the Go code has (current /repo):
     (a) version 1 object header continuation chain      internal/core/objectheader_v1.go parseV1Header
         (visitedBlocks set, 16-bit message cap maxV1HeaderMessages, since 7757cdc)
     (b) version 2 continuation (OCHK) chain             internal/core/objectheader.go parseV2Header
         (visited set, at most 1024 chunks, since 57823d4)
     (c) chunk B-tree descent                            internal/core/btree_v1.go collectAllChunks
         (child level strictly below the parent's, global visited set, since 99b7c62)
     (d) object tree load                                file.go enterLoad / group.go loadObject
         (loading set = ancestors, depth limit 1024, total loads <= filesize/8 + 1024, since 653ef00)
     (e) symbol table groups through cached B-tree addresses   group.go loadChildren (visitedBTrees)
   A traversal result is a value, an error, or OutOfFuel; fuel exhaustion is never turned into a normal value.
   The graph is a parameter: `blk a` is what reading/parsing the structure at address a yields.  No proofs here. *)
From HV Require Import Base.Prelude Base.Outcome Base.Bytes.

Inductive tres (A : Type) : Type := TDone (a : A) | TErr | TOutOfFuel.
Arguments TDone {A} a.
Arguments TErr {A}.
Arguments TOutOfFuel {A}.

Definition memN (a : N) (l : list N) : bool := existsb (N.eqb a) l.

(* ------------------------------------------------------------------ (a) version 1 continuation chain *)
(* blk a = None: the block does not parse (read error); Some (k, conts): it holds k messages, of which `conts` are the
   addresses of the continuation messages that parse (so length conts <= k). *)
Section V1.
  Variable blk : N -> option (N * list N).
  Definition maxV1 : N := 65535.

  (* the loop `for len(continuations) > 0` of parseV1Header; nmsgs = len(messages) so far; steps counts iterations *)
  Fixpoint v1_chain (fuel : nat) (pending visited : list N) (nmsgs steps : N) : tres (N * N) :=
    match pending with
    | [] => TDone (nmsgs, steps)
    | a :: rest =>
        match fuel with
        | O => TOutOfFuel
        | S fuel' =>
            if memN a visited then TErr
            else match blk a with
                 | None => TErr
                 | Some (k, conts) =>
                     let n' := nmsgs + k in
                     if maxV1 <? n' then TErr
                     else v1_chain fuel' (rest ++ conts) (a :: visited) n' (steps + 1)
                 end
        end
    end.

  (* parseV1Header: first block at hdr+16 (message count limited to the 16-bit field), then the chain *)
  Definition v1_header (fuel : nat) (first : N) : tres (N * N) :=
    match blk first with
    | None => TErr
    | Some (k, conts) => v1_chain fuel conts [first] (N.min k maxV1) 0
    end.
End V1.

(* ------------------------------------------------------------------ (b) version 2 continuation chain *)
Section V2.
  (* blk a: the chunk at a parses into the list of its continuation targets (each already checked: size >= 8, "OCHK"
     present); None = read error.  The visited set and the 1024 limit are applied when a continuation MESSAGE is met. *)
  Variable blk : N -> option (list N).

  (* conts of the chunk being scanned are registered one by one: visited check, limit, then queued *)
  Fixpoint v2_register (conts pending visited : list N) : option (list N * list N) :=
    match conts with
    | [] => Some (pending, visited)
    | c :: r => if memN c visited || (1024 <=? N.of_nat (length visited)) then None
                else v2_register r (pending ++ [c]) (c :: visited)
    end.

  Fixpoint v2_chain (fuel : nat) (pending visited : list N) (steps : N) : tres N :=
    match pending with
    | [] => TDone steps
    | a :: rest =>
        match fuel with
        | O => TOutOfFuel
        | S fuel' =>
            match blk a with
            | None => TErr
            | Some conts =>
                match v2_register conts rest visited with
                | None => TErr
                | Some (p', v') => v2_chain fuel' p' v' (steps + 1)
                end
            end
        end
    end.
End V2.

(* ------------------------------------------------------------------ (c) chunk B-tree descent *)
Section BTree.
  (* node a = Some (level, children) when the node at a parses *)
  Variable node : N -> option (N * list N).

  (* collectAllChunks(node, visited): returns the chunk count and the visited set (threaded through the recursion) *)
  Fixpoint bt_collect (fuel : nat) (level : N) (children visited : list N) : tres (N * list N) :=
    match fuel with
    | O => TOutOfFuel
    | S fuel' =>
        if level =? 0 then TDone (N.of_nat (length children), visited)
        else
          (fix each (cs : list N) (acc : N) (visited : list N) {struct cs} : tres (N * list N) :=
             match cs with
             | [] => TDone (acc, visited)
             | c :: r =>
                 if memN c visited then TErr
                 else match node c with
                      | None => TErr
                      | Some (lv, kids) =>
                          if level <=? lv then TErr
                          else match bt_collect fuel' lv kids (c :: visited) with
                               | TDone (n, v') => each r (acc + n) v'
                               | TErr => TErr
                               | TOutOfFuel => TOutOfFuel
                               end
                      end
             end) children 0 visited
    end.
End BTree.

(* ------------------------------------------------------------------ (d) object tree load *)
Section Load.
  (* links a = Some children: the object at a is a group whose links point at `children`; None: not a group / error is
     modelled as Some [] for a leaf and None for a load error *)
  Variable links : N -> option (list N).
  Definition maxDepth : N := 1024.

  (* loadObject(address): enterLoad checks, in this order: address in loading => cycle (listed, not descended, NOT an
     error); len(loading) >= 1024 => error; ++loadCount > maxLoads => error.  count is threaded. *)
  Fixpoint load (fuel : nat) (maxLoads : N) (a : N) (loading : list N) (count : N) : tres N :=
    match fuel with
    | O => TOutOfFuel
    | S fuel' =>
        if memN a loading then TDone count
        else if maxDepth <=? N.of_nat (length loading) then TErr
        else if maxLoads <? count + 1 then TErr
        else match links a with
             | None => TErr
             | Some cs =>
                 (fix each (cs : list N) (count : N) {struct cs} : tres N :=
                    match cs with
                    | [] => TDone count
                    | c :: r => match load fuel' maxLoads c (a :: loading) count with
                                | TDone n => each r n
                                | TErr => TErr
                                | TOutOfFuel => TOutOfFuel
                                end
                    end) cs (count + 1)
             end
    end.
End Load.

(* ------------------------------------------------------------------ executable instances used by the tie:
   graphs given as association lists *)
Fixpoint assoc {A} (l : list (N * A)) (a : N) : option A :=
  match l with [] => None | (k, v) :: r => if k =? a then Some v else assoc r a end.

Definition tres_val {A} (f : A -> val) (r : tres A) : val :=
  match r with TDone a => VL [VN 0; f a] | TErr => VL [VN 1] | TOutOfFuel => VL [VN 3] end.
