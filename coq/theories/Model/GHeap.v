(* C12 - variable-length data through the global heap.

   Executable transcription of
     /repo/global_heap_write.go         globalHeapWriter: WriteToGlobalHeap, createNewHeap, addObject,
                                        hasSpace, alignTo8, encodeHeapCollection, flushCurrentHeap/Flush,
                                        HeapID.Encode
     /repo/internal/core/globalheap.go  ReadGlobalHeapCollection (with the bounds check of /repo 4200bd8),
                                        GetObject, ParseGlobalHeapReference
     /repo/internal/core/messages_write.go  encodeDatatypeNumeric / encodeDatatypeString /
                                        encodeDatatypeVLen (repaired layout: /repo 71914eb =
                                        notes/fixes/vlen-datatype-header.patch; the layout of the
                                        pinned tree is kept as enc_vlen_old, finding D10)
     /repo/dataset_write.go             vlenTypeHandler.EncodeDatatypeMessage, datatypeRegistry rows of the
                                        vlen base types
     /repo/internal/core/datatype.go    ParseDatatypeMessage, IsVariableString
   No proofs in this file (Proofs/GHeap.v, Props/C12.v).

   Conventions.  Thresholds are parameters: [minsz] = globalHeapWriter.minCollectionSize (4096) and
   [blk] = the rounding unit of createNewHeap (4096).  The file is modelled by the list of extents the
   heap writer has written (newest first); everything else in the file is some other allocation
   (operation [A n]: the allocator's end-of-file moves by n).  The offset size is 8 (the writer never
   produces anything else; the 4-byte branches of the reader are not modelled).
   64-bit overflow of the size arithmetic is not modelled: a Go slice is shorter than 2^63 bytes and a
   file address is below 2^64 (hypothesis [eof < 2^64] of the theorems), so no uint64 sum in the
   anchored code wraps; the one narrow counter, the uint16 object index, IS modelled with [wrap16]. *)
From HV Require Import Base.Prelude.

Definition blen (b : bytes) : N := N.of_nat (length b).
Definition zeros (n : N) : bytes := repeat 0 (N.to_nat n).
Definition slice (d : bytes) (off n : N) : bytes := firstn (N.to_nat n) (skipn (N.to_nat off) d).

(* alignTo8 *)
Definition align8 (x : N) : N := if x mod 8 =? 0 then x else x + (8 - x mod 8).

(* ------------------------------------------------------------------ results *)
Inductive gerr := EIO | ESig | EVer | ESize | EBeyond | ENotFound | EShort | EFuel | EPanic.
Inductive res (A : Type) := Ok (a : A) | Err (e : gerr).
Arguments Ok {A} a.
Arguments Err {A} e.

(* ------------------------------------------------------------------ writer state *)
Record gobj := mkobj { o_index : N; o_ref : N; o_data : bytes }.

(* globalHeapCollectionBuilder *)
Record coll := mkcoll {
  c_addr : N; c_size : N; c_objs : list gobj;
  c_next : N;            (* nextIndex uint16 *)
  c_used : N; c_free : N }.

(* HeapID *)
Record heapid := mkid { h_addr : N; h_idx : N }.

(* globalHeapWriter + the allocator's end-of-file + what the heap writer has put on disk *)
Record gstate := mkst { cur : option coll; eof : N; disk : list (N * bytes) }.

Definition sig_gcol : bytes := [71; 67; 79; 76].   (* "GCOL" *)

(* objectHeaderSize + alignTo8(len(data)) *)
Definition obj_total (len : N) : N := 16 + align8 len.

Definition enc_obj (o : gobj) : bytes :=
  le 2 (o_index o) ++ le 2 (o_ref o) ++ [0; 0; 0; 0] ++ le 8 (blen (o_data o)) ++ o_data o
  ++ zeros (align8 (blen (o_data o)) - blen (o_data o)).

(* free-space marker: written only when freeSpace >= 16; its size field is freeSpace - 16 *)
Definition enc_free (c : coll) : bytes :=
  if 16 <=? c_free c then le 2 0 ++ le 2 0 ++ [0; 0; 0; 0] ++ le 8 (c_free c - 16) else [].

Definition coll_content (c : coll) : bytes :=
  sig_gcol ++ [1] ++ [0; 0; 0] ++ le 8 (c_size c) ++ flat_map enc_obj (c_objs c) ++ enc_free c.

(* encodeHeapCollection: buf := make([]byte, size); fields are stored at a running offset.
   Storing beyond the buffer is a Go run-time panic (PutUintNN) or a silent truncation (copy):
   both are reported as None; Proofs/GHeap.v shows None is unreachable. *)
Definition encode_collection (c : coll) : option bytes :=
  let content := coll_content c in
  if blen content <=? c_size c then Some (content ++ zeros (c_size c - blen content)) else None.

Section Writer.
Variable minsz blk : N.

(* createNewHeap: collection size rule *)
Definition new_size (total : N) : N :=
  let needed := 16 + total + 16 in
  if minsz <? needed then ((needed + (blk - 1)) / blk) * blk else minsz.

(* createNewHeap (Allocate(size) = bump of the end-of-file; its size==0 error branch is
   unreachable because size >= 48) *)
Definition create_heap (st : gstate) (total : N) : gstate :=
  let sz := new_size total in
  mkst (Some (mkcoll (eof st) sz [] 1 16 (sz - 16))) (eof st + sz) (disk st).

(* flushCurrentHeap: WriteAt(encodeHeapCollection(), address) *)
Definition flush (st : gstate) : option gstate :=
  match cur st with
  | None => Some st
  | Some c => match encode_collection c with
              | Some b => Some (mkst (cur st) (eof st) ((c_addr c, b) :: disk st))
              | None => None
              end
  end.

Definition has_space (c : coll) (sz : N) : bool := sz <=? c_free c.

(* addObject; freeSpace -= totalSize cannot go below zero: the only caller checks hasSpace *)
Definition add_object (c : coll) (data : bytes) : coll * N :=
  let tot := obj_total (blen data) in
  (mkcoll (c_addr c) (c_size c) (c_objs c ++ [mkobj (c_next c) 1 data])
          (wrap16 (c_next c + 1)) (c_used c + tot) (c_free c - tot),
   c_next c).

(* WriteToGlobalHeap *)
Definition write_obj (st : gstate) (data : bytes) : option (gstate * heapid) :=
  let tot := obj_total (blen data) in
  let needs_new := match cur st with None => true | Some c => negb (has_space c tot) end in
  let st2 := if needs_new
             then match flush st with Some st1 => Some (create_heap st1 tot) | None => None end
             else Some st in
  match st2 with
  | None => None
  | Some st2 =>
      match cur st2 with
      | None => None
      | Some c => let '(c', i) := add_object c data in
                  Some (mkst (Some c') (eof st2) (disk st2), mkid (c_addr c') i)
      end
  end.

(* a history: vlen elements written (W) interleaved with other allocations of the file writer (A) *)
Inductive op := W (data : bytes) | A (n : N).

Fixpoint run (st : gstate) (ops : list op) : option (gstate * list heapid) :=
  match ops with
  | [] => Some (st, [])
  | W d :: r => match write_obj st d with
                | None => None
                | Some (st1, id) => match run st1 r with
                                    | None => None
                                    | Some (st2, ids) => Some (st2, id :: ids)
                                    end
                end
  | A n :: r => run (mkst (cur st) (eof st + n) (disk st)) r
  end.

Fixpoint writes (ops : list op) : list bytes :=
  match ops with [] => [] | W d :: r => d :: writes r | A _ :: r => writes r end.

(* the whole writer-side life cycle: empty writer at end-of-file e0, the history, Close (Flush) *)
Definition run_close (e0 : N) (ops : list op) : option (gstate * list heapid) :=
  match run (mkst None e0 []) ops with
  | None => None
  | Some (st, ids) => match flush st with None => None | Some fin => Some (fin, ids) end
  end.
End Writer.

(* HeapID.Encode: 8 bytes address, uint32(index), 4 bytes padding.
   (The HDF5 format puts a 4-byte sequence length first; this field order is finding D16/C05 and is
   pinned by TestVLenHeapIDStorage.  ParseGlobalHeapReference below is its inverse.) *)
Definition encode_reference (id : heapid) : bytes :=
  le 8 (h_addr id) ++ le 4 (h_idx id) ++ [0; 0; 0; 0].

(* ------------------------------------------------------------------ reader *)
(* ReadAt on the heap writer's extents; None = short read / unwritten *)
Fixpoint read_at (f : list (N * bytes)) (a n : N) : option bytes :=
  match f with
  | [] => None
  | (a0, b) :: r => if (a0 <=? a) && (a + n <=? a0 + blen b) then Some (slice b (a - a0) n)
                    else read_at r a n
  end.

(* the object loop of ReadGlobalHeapCollection; [rest] is collectionData[offset:].
   `offset < len` and `offset+16 > len -> break` together are `len(rest) < 16 -> stop`. *)
Fixpoint parse_objs (fuel : nat) (rest : bytes) : res (list gobj) :=
  match fuel with
  | O => Err EFuel
  | S k =>
      let n := blen rest in                     (* len(collectionData) - offset *)
      if n <? 16 then Ok []
      else
        let id := unle (slice rest 0 2) in
        let nrefs := unle (slice rest 2 2) in
        let sz := unle (slice rest 8 8) in
        if n - 16 <? sz                        (* objSize > len - offset - objHeaderSize *)
        then (if id =? 0 then Ok [] else Err EBeyond)
        else
        if id =? 0 then parse_objs k (skipn (N.to_nat (16 + align8 sz)) rest)
        else if n <? 16 + sz then Err EBeyond
        else match parse_objs k (skipn (N.to_nat (16 + align8 sz)) rest) with
             | Ok l => Ok (mkobj id nrefs (slice rest 16 sz) :: l)
             | Err e => Err e
             end
  end.

Record rcoll := mkrc { r_addr : N; r_size : N; r_objs : list gobj }.

Definition read_collection (f : list (N * bytes)) (addr : N) : res rcoll :=
  match read_at f addr 16 with
  | None => Err EIO
  | Some h =>
      if negb (bytes_eqb (slice h 0 4) sig_gcol) then Err ESig
      else if negb (nth 4 h 0 =? 1) then Err EVer
      else let sz := unle (slice h 8 8) in
           if sz <? 16 then Err ESize
           else match read_at f addr sz with
                | None => Err EIO
                | Some d => match parse_objs (S (S (N.to_nat (sz / 16)))) (skipn 16 d) with
                            | Ok l => Ok (mkrc addr sz l)
                            | Err e => Err e
                            end
                end
  end.

(* GetObject *)
Fixpoint get_object (objs : list gobj) (idx : N) : res gobj :=
  match objs with
  | [] => Err ENotFound
  | o :: r => if o_index o =? idx then Ok o else get_object r idx
  end.

(* ParseGlobalHeapReference, offsetSize = 8 *)
Definition parse_reference (data : bytes) : res heapid :=
  if blen data <? 12 then Err EShort
  else Ok (mkid (unle (slice data 0 8)) (unle (slice data 8 4))).

(* what the harness (and TestVLenHeapIDStorage) does with one 16-byte dataset element *)
Definition resolve (f : list (N * bytes)) (ref : bytes) : res bytes :=
  match parse_reference ref with
  | Err e => Err e
  | Ok id => match read_collection f (h_addr id) with
             | Err e => Err e
             | Ok rc => match get_object (r_objs rc) (h_idx id) with
                        | Err e => Err e
                        | Ok o => Ok (o_data o)
                        end
             end
  end.

(* ------------------------------------------------------------------ format predicate *)
(* Independent of the reader: the HDF5 global heap collection layout (III.E) on raw bytes.
   [adj] is the free-space size convention: the size field of object 0 must equal
   (bytes from its header to the end of the collection) - adj.   adj = 16: what this writer and this
   reader use (size of the space after the header); adj = 0: the HDF5 library's convention (the
   object-0 size includes its header; finding D16, a C05 matter). *)
Definition all_zero (b : bytes) : bool := forallb (N.eqb 0) b.

Fixpoint wf_objs (adj : N) (fuel : nat) (seen : list N) (rest : bytes) : bool :=
  match fuel with
  | O => false
  | S k =>
      let n := blen rest in
      if n =? 0 then true
      else if n <? 16 then all_zero rest           (* no room for a free-space header *)
      else
        let id := unle (slice rest 0 2) in
        let sz := unle (slice rest 8 8) in
        all_zero (slice rest 4 4) &&
        (if id =? 0
         then (unle (slice rest 2 2) =? 0) && (sz + adj =? n)
         else negb (existsb (N.eqb id) seen)
              && (16 + align8 sz <=? n)
              && wf_objs adj k (id :: seen) (skipn (N.to_nat (16 + align8 sz)) rest))
  end.

Definition wf_gcol (adj : N) (b : bytes) : bool :=
  (16 <=? blen b)
  && bytes_eqb (slice b 0 4) sig_gcol
  && (nth 4 b 0 =? 1)
  && all_zero (slice b 5 3)
  && (unle (slice b 8 8) =? blen b)             (* declared size = byte length *)
  && (blen b mod 8 =? 0)                         (* with 8-byte steps: every object is 8-aligned *)
  && wf_objs adj (S (N.to_nat (blen b / 16))) [] (skipn 16 b).

(* ------------------------------------------------------------------ datatype messages *)
Record dtmsg := mkdt { d_class : N; d_version : N; d_size : N; d_bits : N; d_props : bytes }.

(* uint32(class) | uint32(version)<<4 | bits<<8, stored little-endian *)
Definition pack_cvb (class version bits : N) : bytes :=
  le 4 (wrap32 (N.lor (N.lor class (wrap32 (N.shiftl version 4))) (wrap32 (N.shiftl bits 8)))).

(* encodeDatatypeNumeric (version 1); class 0 = fixed point, 1 = floating point *)
Definition enc_numeric (class size bits : N) : res bytes :=
  if negb ((size =? 1) || (size =? 2) || (size =? 4) || (size =? 8)) then Err ESize
  else
    let props :=
      if class =? 1 then
        if size =? 4 then Ok ([N.land bits 1; wrap8 (size * 8); 0; 8; 23; 127] ++ zeros 6)
        else if size =? 8 then Ok ([N.land bits 1; wrap8 (size * 8); 0; 11; 52; 127] ++ zeros 6)
        else Err ESize
      else Ok [N.land bits 1; wrap8 (size * 8); 0; 0] in
    match props with
    | Err e => Err e
    | Ok p => Ok (pack_cvb class 1 bits ++ le 4 size ++ p)
    end.

(* encodeDatatypeString (version 1, one property byte) *)
Definition enc_string (size bits : N) : res bytes :=
  if size =? 0 then Err ESize else Ok (pack_cvb 3 1 bits ++ le 4 size ++ [0]).

(* the base types the writer offers for vlen data (datatypeRegistry rows VLenString .. VLenUint64) *)
Inductive vbase := VString | VInt32 | VInt64 | VUint32 | VUint64 | VFloat32 | VFloat64.
Definition vbases := [VString; VInt32; VInt64; VUint32; VUint64; VFloat32; VFloat64].

(* (class, size, classBitField) of the base type: registry rows Int32/Int64 (signed: bit 3),
   Uint32/Uint64, Float32/Float64; VLenString uses a 1-byte character string *)
Definition base_cls (b : vbase) : N * N * N :=
  match b with
  | VString => (3, 1, 0)
  | VInt32 => (0, 4, 8) | VInt64 => (0, 8, 8)
  | VUint32 => (0, 4, 0) | VUint64 => (0, 8, 0)
  | VFloat32 => (1, 4, 0) | VFloat64 => (1, 8, 0)
  end.

Definition enc_base (b : vbase) : res bytes :=
  let '(c, s, f) := base_cls b in
  if c =? 3 then enc_string s f else enc_numeric c s f.

(* vlen type indicator in the class bit field: 0 = sequence, 1 = string *)
Definition vl_bits (b : vbase) : N := match b with VString => 1 | _ => 0 end.

(* encodeDatatypeVLen, REPAIRED: the common 8-byte header (class 9, version 1, bit field), then the
   base type message *)
Definition enc_vlen (b : vbase) : res bytes :=
  match enc_base b with
  | Err e => Err e
  | Ok base => Ok (pack_cvb 9 1 (vl_bits b) ++ le 4 16 ++ base)
  end.

(* encodeDatatypeVLen of the pinned tree (finding D10): byte 0 = version | class<<4, bytes 1-3 zero,
   size, then the bit field as a separate 4-byte word, then the base type *)
Definition enc_vlen_old (b : vbase) : res bytes :=
  match enc_base b with
  | Err e => Err e
  | Ok base => Ok ([wrap8 (N.lor 0 (wrap8 (N.shiftl 9 4))); 0; 0; 0] ++ le 4 16 ++ le 4 (vl_bits b) ++ base)
  end.

(* ParseDatatypeMessage (the compound branch walks the member list; not needed here: it takes all
   remaining bytes like the other variable-length classes) *)
Definition parse_datatype (data : bytes) : res dtmsg :=
  if blen data <? 8 then Err EShort
  else
    let cv := unle (slice data 0 4) in
    let class := N.land cv 15 in
    let version := N.land (N.shiftr cv 4) 15 in
    let bits := N.land (N.shiftr cv 8) 16777215 in
    let size := unle (slice data 4 4) in
    let rem := blen data - 8 in
    let plen := if class =? 0 then 4 else if class =? 1 then 12 else if class =? 4 then 4
                else if class =? 2 then 2 else rem in
    let plen := if rem <? plen then rem else plen in
    Ok (mkdt class version size bits (slice data 8 plen)).

(* IsVariableString *)
Definition is_variable_string (d : dtmsg) : bool := (d_class d =? 9) && (N.land (d_bits d) 15 =? 1).

(* what "recognised as variable-length data of the written base type" means on a parsed message *)
Definition vlen_recognised (b : vbase) (m : bytes) : bool :=
  match parse_datatype m with
  | Err _ => false
  | Ok d =>
      (d_class d =? 9) && (d_size d =? 16) && (N.land (d_bits d) 15 =? vl_bits b)
      && Bool.eqb (is_variable_string d) (match b with VString => true | _ => false end)
      && match parse_datatype (d_props d) with
         | Err _ => false
         | Ok bd => let '(c, s, f) := base_cls b in
                    (d_class bd =? c) && (d_size bd =? s) && (d_bits bd =? f)
         end
  end.
