(* C17: the I/O skeleton of the remaining read entry points as reader programs (Model/IOProg.v):
     Dataset.ReadSlice / ReadHyperslab   dataset_read_hyperslab.go
     Dataset.ChunkIterator / Chunk       dataset_chunk_iterator.go
     Dataset.ReadCompound (variable-length members through the global heap)   internal/core/dataset_reader_compound.go
     Dataset.ReadAttribute (variable-length strings through the global heap)  group.go:86, internal/core/attribute.go:166
     Dataset.ReadStrings                                                       internal/core/dataset_reader_strings.go
   Every r.ReadAt call site and every dropped error carries a file:line comment against the current /repo.  The
   selection arithmetic is uint64 (wrap64).  What is done with bytes that have been read (filter pipeline, scatter
   into the output, conversion to float64) is a pure function of those bytes: the programs return the bytes read.
   NOT modelled: failure of make([]byte, n) for absurd n (C07), the fill of missing chunks.
   No proofs here (Proofs/IOProgSlice.v). *)
From HV Require Import Base.Prelude Base.Outcome Base.Bytes Model.IOProg Model.IOProgReader.
From HV Require Import Model.CodecSuper Model.CodecOhdr Model.CodecMsg Model.CodecType Model.CodecAttr Model.CodecFilter.

(* ------------------------------------------------------------------ selections (HyperslabSelection) *)

(* Stride / Block nil = None *)
Record selection := { s_start : list N; s_count : list N; s_stride : option (list N); s_block : option (list N) }.
(* after fillHyperslabDefaults *)
Record sel := { start : list N; count : list N; stride : list N; block : list N }.

Definition nthN (l : list N) (i : nat) : N := nth i l 0.
Definition nseq (n : N) : list N := map N.of_nat (seq 0 (N.to_nat n)).
Definition idxs {A} (l : list A) : list nat := seq 0 (length l).

(* fillHyperslabDefaults (dataset_read_hyperslab.go:214) *)
Definition fill (s : selection) (ndims : nat) : sel :=
  {| start := s_start s; count := s_count s;
     stride := match s_stride s with Some x => x | None => repeat 1 ndims end;
     block := match s_block s with Some x => x | None => repeat 1 ndims end |}.
Definition refill (s : sel) : selection :=
  {| s_start := start s; s_count := count s; s_stride := Some (stride s); s_block := Some (block s) |}.

(* calculateHyperslabOutputSize (dataset_read_hyperslab.go:414) *)
Definition out_size (s : sel) : N :=
  match count s with
  | [] => 0
  | _ => fold_left (fun t i => let b := nthN (block s) i in
                               wrap64 (t * wrap64 (nthN (count s) i * (if b =? 0 then 1 else b))))
                   (idxs (count s)) 1
  end.

(* utils.ValidateHyperslabBounds (internal/utils/overflow.go:124) for one dimension *)
Definition vhb_dim (s : sel) (dims : list N) (i : nat) : bool :=
  let c := nthN (count s) i in let st := nthN (start s) i in let d := nthN dims i in
  negb (c =? 0) &&
  ((c - 1) * nthN (stride s) i <? 18446744073709551616) &&               (* SafeMultiply *)
  negb ((d <=? st) || (d - st <=? (c - 1) * nthN (stride s) i)).
(* utils.CalculateHyperslabElements (overflow.go:155): product of the counts, each step checked, at most 10^9 *)
Definition che (cs : list N) : bool :=
  match cs with
  | [] => false
  | _ => match fold_left (fun t c => match t with
                                     | Some t => if (c =? 0) || (18446744073709551616 <=? t * c) then None else Some (t * c)
                                     | None => None end) cs (Some 1) with
         | Some t => negb (t =? 0) && (t <=? 1000000000)
         | None => false
         end
  end.
(* validateDimensionBounds (dataset_read_hyperslab.go:255) *)
Definition vdb_dim (s : sel) (dims : list N) (i : nat) : bool :=
  let c := nthN (count s) i in let d := nthN dims i in let b := nthN (block s) i in
  let lbs := wrap64 (nthN (start s) i + wrap64 ((c - 1) * nthN (stride s) i)) in
  negb (c =? 0) && negb (nthN (stride s) i =? 0) && negb (b =? 0) &&
  negb ((d <=? lbs) || (d - lbs <? b)).

(* validateHyperslabSelection (dataset_read_hyperslab.go:177): the filled selection, or an error *)
Definition validate (s : selection) (dims : list N) : option sel :=
  let n := length dims in
  (* validateSelectionDimensions (dataset_read_hyperslab.go:193) *)
  if negb ((length (s_start s) =? n)%nat && (length (s_count s) =? n)%nat &&
           match s_stride s with Some x => (length x =? n)%nat | None => true end &&
           match s_block s with Some x => (length x =? n)%nat | None => true end) then None else
  let f := fill s n in
  if forallb (vhb_dim f dims) (idxs dims) && che (count f) && forallb (vdb_dim f dims) (idxs dims)
  then Some f else None.

(* the checks of ReadSlice before readHyperslab (dataset_read_hyperslab.go:89-116) *)
Definition validate_slice (st cn : list N) (dims : list N) : option sel :=
  let n := length dims in
  if negb ((length st =? n)%nat && (length cn =? n)%nat) then None else
  if forallb (fun i => negb ((nthN dims i <? nthN cn i) || (nthN dims i - nthN cn i <? nthN st i))) (idxs st)
  then Some (fill {| s_start := st; s_count := cn; s_stride := None; s_block := None |} n) else None.

(* calculateLinearOffset (dataset_read_hyperslab.go:1113): row major, uint64 *)
Definition lin_off (coords dims : list N) : N :=
  fst (fold_left (fun os i => (wrap64 (fst os + wrap64 (nthN coords i * snd os)), wrap64 (snd os * nthN dims i)))
                 (rev (idxs coords)) (0, 1)).

(* isContiguousSelection (dataset_read_hyperslab.go:471) *)
Definition is_contig (s : sel) (dims : list N) : bool :=
  fst (fold_left (fun st i =>
         match st with
         | (false, _) => st
         | (true, false) => (((nthN (count s) i =? 1) && (nthN (block s) i =? 1)), false)
         | (true, true) =>
             if negb (nthN (count s) i =? 1) && negb (nthN (stride s) i =? nthN (block s) i) then (false, true)
             else (true, (nthN (start s) i =? 0) && (wrap64 (nthN (count s) i * nthN (block s) i) =? nthN dims i))
         end) (rev (idxs dims)) (true, true)).

(* the selected indices of one dimension that lie below dim, in selection order
   (the loops of readContiguous2DOptimized, dataset_read_hyperslab.go:626-641) *)
Definition sel_idx (s : sel) (dims : list N) (i : nat) : list N :=
  flat_map (fun c => flat_map (fun b =>
      let x := wrap64 (wrap64 (nthN (start s) i + wrap64 (c * nthN (stride s) i)) + b) in
      if nthN dims i <=? x then [] else [x]) (nseq (nthN (block s) i))) (nseq (nthN (count s) i)).

(* findOverlappingChunks + generateChunkCoordinates (dataset_read_hyperslab.go:762-830): row-major over the ranges *)
Definition chunk_range (s : sel) (cd dims : list N) (i : nat) : list N :=
  let first := nthN (start s) i / nthN cd i in
  let e := wrap64 (wrap64 (wrap64 (nthN (start s) i + wrap64 ((nthN (count s) i - 1) * nthN (stride s) i)) + nthN (block s) i) + 18446744073709551615) in
  let e := if nthN dims i <=? e then sub64 (nthN dims i) 1 else e in
  let last := e / nthN cd i in
  map (fun k => first + k) (nseq (last + 1 - first)).
Fixpoint cart (rs : list (list N)) : list (list N) :=
  match rs with
  | [] => [[]]
  | r :: rest => flat_map (fun x => map (cons x) (cart rest)) r
  end.
Definition overlapping (s : sel) (cd dims : list N) : list (list N) :=
  match start s with
  | [] => []
  | _ => cart (map (chunk_range s cd dims) (idxs (start s)))
  end.

(* ------------------------------------------------------------------ what a slice read returns: the bytes read *)

Inductive slicedata :=
| SlEmpty                                   (* []float64{} without I/O *)
| SlCompact (b : bytes)                     (* layout.CompactData *)
| SlRun (b : bytes)                         (* one ReadBytesAt of exactly the selected elements *)
| SlSpan (b : bytes)                        (* one ReadBytesAt of the run from the first to the last selected element *)
| SlElems (es : list bytes)                 (* one ReadAt per element *)
| SlChunks (cs : list (list N * bytes)).    (* (chunk coordinate, stored bytes) of every chunk read *)

(* strict element reads of readContiguous2DOptimized *)
Fixpoint p_elems (offs : list N) (es : N) : prog (list bytes) :=
  match offs with
  | [] => Ret []
  | o :: rest =>
      (* dataset_read_hyperslab.go:649  _, err := d.file.osFile.ReadAt(outputData[i*es:(i+1)*es], byteOffset); err != nil -> return *)
      ReadAt o es (fun b => bind (p_elems rest es) (fun r => Ret (b :: r)))
  end.

Definition list_eqb (a b : list N) : bool := (length a =? length b)%nat && forallb (fun p => fst p =? snd p) (combine a b).

Section WithSuperblock.
Variable sb : superblock'.

(* readHyperslabContiguous (dataset_read_hyperslab.go:449) for a validated selection with out_size <> 0 *)
Definition p_slice_contig (s : sel) (dims : list N) (es addr : N) : prog slicedata :=
  let out := out_size s in
  if is_contig s dims then
    (* readContiguousOptimized (dataset_read_hyperslab.go:495) *)
    match dims with
    | [_] =>
        (* dataset_read_hyperslab.go:518  utils.ReadBytesAt(osFile, DataAddress + start[0]*es, out*es) *)
        bind (p_read_bytes_at (wrap64 (addr + wrap64 (nthN (start s) 0 * es))) (wrap64 (out * es))) (fun b =>
        if blen b <? out * es then Fail else Ret (SlRun b))                 (* convertToFloat64: "data truncated" *)
    | _ =>
        (* dataset_read_hyperslab.go:536  utils.ReadBytesAt(osFile, DataAddress + linear(start)*es, out*es) *)
        bind (p_read_bytes_at (wrap64 (addr + wrap64 (lin_off (start s) dims * es))) (wrap64 (out * es))) (fun b =>
        if blen b <? out * es then Fail else Ret (SlRun b))
    end
  else
    (* readContiguousRowByRow (dataset_read_hyperslab.go:546) *)
    match dims with
    | [_; d1] =>
        (* readContiguous2DOptimized (dataset_read_hyperslab.go:612): one strict ReadAt per selected element *)
        let offs := flat_map (fun row => map (fun col =>
                      wrap64 (addr + wrap64 (wrap64 (wrap64 (row * d1) + col) * es))) (sel_idx s dims 1)) (sel_idx s dims 0) in
        bind (p_elems offs es) (fun r => Ret (SlElems r))
    | _ =>
        (* dataset_read_hyperslab.go:573-584: the run from the first to the last selected element *)
        let lastRel := map (fun i => wrap64 (wrap64 (wrap64 ((nthN (count s) i - 1) * nthN (stride s) i) + nthN (block s) i) + 18446744073709551615))
                           (idxs dims) in
        let run := wrap64 (lin_off lastRel dims + 1) in
        (* dataset_read_hyperslab.go:584  utils.ReadBytesAt(osFile, DataAddress + linear(start)*es, run*es) *)
        bind (p_read_bytes_at (wrap64 (addr + wrap64 (lin_off (start s) dims * es))) (wrap64 (run * es))) (fun b =>
        Ret (SlSpan b))
    end.

(* the chunk index of readHyperslabChunked (dataset_read_hyperslab.go:720-732): a map, the last entry of a key wins *)
Definition scaled (cd : list N) (ndims : nat) (co : list N) : list N :=
  firstn ndims (map (fun p => fst p / snd p) (combine co cd)).
Definition chunk_lookup (cd : list N) (ndims : nat) (ents : list (N * list N * N)) (coord : list N) : option (N * N) :=
  fold_left (fun acc e => match e with (nb, co, a) => if list_eqb (scaled cd ndims co) coord then Some (a, nb) else acc end) ents None.

(* extractFromChunk for every overlapping chunk (dataset_read_hyperslab.go:739-748, 843-891) *)
Fixpoint p_slice_chunks (cd : list N) (ndims : nat) (ents : list (N * list N * N)) (coords : list (list N))
  : prog (list (list N * bytes)) :=
  match coords with
  | [] => Ret []
  | c :: rest =>
      match chunk_lookup cd ndims ents c with
      | None => p_slice_chunks cd ndims ents rest          (* dataset_read_hyperslab.go:857: a chunk that is not in the index is skipped *)
      | Some (a, nb) =>
          if (nb =? 0) || (1073741824 <? nb) then Fail else               (* dataset_read_hyperslab.go:867 utils.ValidateBufferSize *)
          (* dataset_read_hyperslab.go:870  utils.ReadBytesAt(osFile, chunkInfo.address, chunkInfo.nbytes) *)
          bind (p_read_bytes_at a nb) (fun d =>
          (* dataset_read_hyperslab.go:877 ApplyFilters, :884 extractChunkPortion: pure in d *)
          bind (p_slice_chunks cd ndims ents rest) (fun r => Ret ((c, d) :: r)))
      end
  end.

(* readHyperslabChunked (dataset_read_hyperslab.go:671) *)
Definition p_slice_chunked (fuel : nat) (s : sel) (dims : list N) (ly : layout') : prog slicedata :=
  let cd := match ly_chunk ly with Some c => c | None => [] end in
  if (length cd <? length dims)%nat then Fail else                          (* dataset_read_hyperslab.go:684 *)
  if existsb (N.eqb 0) (firstn (length dims) cd) then Fail else             (* dataset_read_hyperslab.go:688 *)
  if out_size s =? 0 then Ret SlEmpty else
  let ov := overlapping s cd dims in
  match ov with
  | [] => Ret SlEmpty                                                       (* dataset_read_hyperslab.go:702 *)
  | _ =>
      (* dataset_read_hyperslab.go:708  core.ParseBTreeV1Node(osFile, layout.DataAddress, ...) *)
      bind (p_bt1_node sb (ly_addr ly) (length cd) cd) (fun nd =>
      (* dataset_read_hyperslab.go:721  btreeNode.CollectAllChunks *)
      bind (p_collect sb fuel (length cd) cd (fst nd) (snd nd) []) (fun r =>
      bind (p_slice_chunks cd (length dims) (fst r) ov) (fun cs => Ret (SlChunks cs))))
  end.

(* readHyperslab (dataset_read_hyperslab.go:282) with the selection the caller validated.
   extractHyperslabMessages takes the LAST message of each type (find_msg); the callers validated against the FIRST
   dataspace message. *)
Definition p_read_hyperslab (fuel : nat) (s : sel) (ms : list hmsg') : prog slicedata :=
  match find_msg 3 ms, find_msg 1 ms, find_msg 8 ms with
  | Some dtd, Some dsd, Some lyd =>
      bind (lift (dt <- dec_datatype dtd;; ds <- dec_dataspace dsd;; ly <- dec_layout (sbp sb) lyd;; Ok (dt, ds, ly))) (fun x =>
      let dt := fst (fst x) in let ds := snd (fst x) in let ly := snd x in
      (* dataset_read_hyperslab.go:368  an unparsable filter pipeline message is an error *)
      bind (match find_msg 11 ms with Some fd => bind (lift (dec_pipeline fd)) (fun _ => Ret tt) | None => Ret tt end) (fun _ =>
      (* dataset_read_hyperslab.go:385  only float64 / float32 / int32 / int64 elements *)
      if negb (((dt_class dt =? 1) || (dt_class dt =? 0)) && ((dt_size dt =? 4) || (dt_size dt =? 8))) then Fail else
      let dims := dsp_dims ds in
      let es := dt_size dt in
      if out_size s =? 0 then
        (* an empty selection is left to the readers (dataset_read_hyperslab.go:394) *)
        if ly_class ly =? 0 then Ret SlEmpty
        else if ly_class ly =? 1 then (if (length (count s) <? length dims)%nat then Crash else Ret SlEmpty)
        else if ly_class ly =? 2 then p_slice_chunked fuel s dims ly
        else Fail
      else
        match validate (refill s) dims with                                  (* dataset_read_hyperslab.go:395 validateHyperslabSelection *)
        | None => Fail
        | Some s =>
            if ly_class ly =? 0 then Ret (SlCompact (match ly_compact ly with Some c => c | None => [] end))
            else if ly_class ly =? 1 then p_slice_contig s dims es (ly_addr ly)
            else if ly_class ly =? 2 then p_slice_chunked fuel s dims ly
            else Fail
        end))
  | _, _, _ => Fail
  end.

Definition first_msg (ty : N) (ms : list hmsg') : option bytes :=
  match find (fun m => hmp_type m =? ty) ms with Some m => Some (hmp_data m) | None => None end.

(* the common head of ReadSlice / ReadHyperslab (dataset_read_hyperslab.go:63-118, 142-172): ReadObjectHeader -- the
   attribute part and its error (AttributesErr) are not looked at --, the first dataspace message, the caller's checks *)
Definition api_slice_with (fuel : nat) (addr : N) (check : list N -> option sel) : prog slicedata :=
  (* dataset_read_hyperslab.go:65 / :144  core.ReadObjectHeader *)
  bind (p_ohdr sb fuel addr) (fun h =>
  Swallow (bind (p_attrs sb (ohp_msgs h)) (fun a => Ret (Some a))) None (fun _ =>
  match first_msg 1 (ohp_msgs h) with
  | None => Fail
  | Some dsd =>
      bind (lift (dec_dataspace dsd)) (fun ds =>
      match check (dsp_dims ds) with
      | None => Fail
      | Some s => p_read_hyperslab fuel s (ohp_msgs h)
      end)
  end)).

(* Dataset.ReadSlice(start, count) *)
Definition api_read_slice (fuel : nat) (addr : N) (st cn : list N) : prog slicedata :=
  api_slice_with fuel addr (validate_slice st cn).
(* Dataset.ReadHyperslab(selection) *)
Definition api_read_hyperslab (fuel : nat) (addr : N) (s : selection) : prog slicedata :=
  api_slice_with fuel addr (validate s).

(* ------------------------------------------------------------------ ChunkIterator (dataset_chunk_iterator.go) *)

(* Dataset.ChunkIteratorWithContext (dataset_chunk_iterator.go:66): (chunk coordinates, chunk dims, dataset dims) *)
Definition api_chunk_iterator (fuel : nat) (addr : N) : prog (list (list N) * list N * list N) :=
  (* dataset_chunk_iterator.go:68  core.ReadObjectHeader *)
  bind (p_ohdr sb fuel addr) (fun h =>
  Swallow (bind (p_attrs sb (ohp_msgs h)) (fun a => Ret (Some a))) None (fun _ =>
  let ms := ohp_msgs h in
  match find_msg 8 ms, find_msg 1 ms with
  | Some lyd, Some dsd =>
      bind (lift (dec_layout (sbp sb) lyd)) (fun ly =>
      if negb (ly_class ly =? 2) then Fail else                             (* dataset_chunk_iterator.go:98 *)
      bind (lift (dec_dataspace dsd)) (fun ds =>
      let cd := match ly_chunk ly with Some c => c | None => [] end in
      (* dataset_chunk_iterator.go:127  core.ParseBTreeV1Node;  :138 CollectAllChunks *)
      bind (p_bt1_node sb (ly_addr ly) (length cd) cd) (fun nd =>
      bind (p_collect sb fuel (length cd) cd (fst nd) (snd nd) []) (fun r =>
      let ndims := length (dsp_dims ds) in
      if (length cd <? ndims)%nat then Fail else                            (* dataset_chunk_iterator.go:145 *)
      Ret (map (fun e => match e with (_, co, _) => scaled cd ndims co end) (fst r), cd, dsp_dims ds)))))
  | _, _ => Fail
  end)).

(* ChunkIterator.Chunk (dataset_chunk_iterator.go:189): the slice of one chunk, clamped to the dataset *)
Definition chunk_sel (cd dims coord : list N) : list N * list N :=
  let st := map (fun i => wrap64 (nthN coord i * nthN cd i)) (idxs coord) in
  let cn := map (fun i => if nthN dims i <? wrap64 (nthN st i + nthN cd i) then sub64 (nthN dims i) (nthN st i) else nthN cd i) (idxs coord) in
  (st, cn).
Definition api_chunk (fuel : nat) (addr : N) (cd dims coord : list N) : prog slicedata :=
  api_read_slice fuel addr (fst (chunk_sel cd dims coord)) (snd (chunk_sel cd dims coord)).

(* for iter.Next() { iter.Chunk() }: every chunk in turn, the first error ends the loop *)
Fixpoint p_chunk_all (fuel : nat) (addr : N) (cd dims : list N) (coords : list (list N)) : prog (list slicedata) :=
  match coords with
  | [] => Ret []
  | c :: rest => bind (api_chunk fuel addr cd dims c) (fun x =>
                 bind (p_chunk_all fuel addr cd dims rest) (fun r => Ret (x :: r)))
  end.
Definition api_chunk_iterate (fuel : nat) (addr : N) : prog (list slicedata) :=
  bind (api_chunk_iterator fuel addr) (fun it =>
  p_chunk_all fuel addr (snd (fst it)) (snd it) (fst (fst it))).

(* ------------------------------------------------------------------ values behind global heap references *)

(* parseCompoundData / parseMemberValue (dataset_reader_compound.go:119-243) and Attribute.ReadValue
   (attribute.go:320-356) walk bytes that have been read; each step is a pure check that can fail or a
   variable-length string fetched through the global heap (readVariableString dataset_reader_compound.go:262,
   readVariableLengthString attribute.go:373).  steps = that walk: Ok ref = fetch, Err = the walk fails here. *)
Fixpoint p_steps (fuel : nat) (steps : list (outcome bytes)) : prog (list bytes) :=
  match steps with
  | [] => Ret []
  | Ok ref :: rest =>
      (* dataset_reader_compound.go:276 / attribute.go:396  ReadGlobalHeapCollection *)
      bind (api_vlen_string sb fuel ref) (fun s => bind (p_steps fuel rest) (fun r => Ret (s :: r)))
  | Err :: _ => Fail
  | Panic :: _ => Crash
  end.

(* Attribute.ReadValue, variable-length string branch (attribute.go:166-175, 320-356), for the idx-th attribute of the
   list; n = Dataspace.TotalElements() of that attribute.  Every element is length (4) + heap address (offset size) +
   object index (4); readVariableLengthString (attribute.go:373) resolves the reference behind the length. *)
Definition vlen_walk (idx : nat) (n : N) (attrs : list attr) : list (outcome bytes) :=
  match nth_error attrs idx with
  | None => [Err]
  | Some (_, d) =>
      let rs := spp_offsize sb + 8 in
      if (n =? 0) || (blen d =? 0) then [] else                             (* attribute.go:172: empty value, no I/O *)
      if 18446744073709551616 <=? n * rs then [Err] else                    (* attribute.go:334 utils.SafeMultiply *)
      if blen d <? n * rs then [Err] else                                   (* attribute.go:339 *)
      map (fun i => match slice d (i * rs) (i * rs + rs) with Ok e => Ok (skipn 4 e) | _ => Err end) (nseq n)
  end.

(* ReadDatasetStrings / ReadDatasetCompound (dataset_reader_strings.go:14-107, dataset_reader_compound.go:16-115): the
   layout dispatch of ReadDatasetFloat64 (p_dataset_raw: the same ReadBytesAt / readChunkedData calls) behind a check
   of the datatype that is made before any data is read (IsString, dataset_reader_strings.go:47; IsCompound and
   ParseCompoundType, dataset_reader_compound.go:50-58) *)
Definition p_dataset_raw_gated (fuel : nat) (ms : list hmsg') (gate : datatype -> bool) : prog rawdata :=
  match find_msg 3 ms with
  | Some dtd => bind (lift (dec_datatype dtd)) (fun dt => if gate dt then p_dataset_raw sb fuel ms else Fail)
  | None => Fail
  end.

(* Dataset.ReadStrings (group.go:119): ReadObjectHeader (attribute error not looked at), then the string reader *)
Definition api_read_strings (fuel : nat) (addr : N) : prog rawdata :=
  bind (p_ohdr sb fuel addr) (fun h =>
  Swallow (bind (p_attrs sb (ohp_msgs h)) (fun a => Ret (Some a))) None
          (fun _ => p_dataset_raw_gated fuel (ohp_msgs h) (fun dt => dt_class dt =? 3))).

(* Dataset.ReadCompound (group.go:133): the raw data, then the walk over it (parseCompoundData);
   ctype = "ParseCompoundType succeeds" (a pure function of the datatype message) *)
Definition api_read_compound (fuel : nat) (addr : N) (ctype : datatype -> bool) (walk : rawdata -> list (outcome bytes))
  : prog (rawdata * list bytes) :=
  bind (p_ohdr sb fuel addr) (fun h =>
  Swallow (bind (p_attrs sb (ohp_msgs h)) (fun a => Ret (Some a))) None
          (fun _ => bind (p_dataset_raw_gated fuel (ohp_msgs h) (fun dt => (dt_class dt =? 6) && ctype dt)) (fun raw =>
                    bind (p_steps fuel (walk raw)) (fun ss => Ret (raw, ss))))).

(* Dataset.ReadAttribute(name) (group.go:86): Attributes(), then ReadValue of the attribute found *)
Definition api_read_attribute (fuel : nat) (addr : N) (walk : list attr -> list (outcome bytes)) : prog (list attr * list bytes) :=
  bind (api_attributes sb fuel addr) (fun a => bind (p_steps fuel (walk a)) (fun ss => Ret (a, ss))).

End WithSuperblock.
