(* C17, writer side: the write-API operations at the granularity "sequence of WriteAt / Sync / Truncate / Close calls
   on the file", each call followed by `if err != nil { return ... err }` (no dropped error: tools/props/c17.py audits
   the source for blank-assigned / statement-level calls of the write family on every run).
   An operation is [w_of_calls cs]: the calls in order, the first failing one ends the operation with an error
   (theorem C17_write_fault_err); what the file holds afterwards is wfile_upto (theorem C17_write_fault_file): the calls
   before it applied, the failing write torn, nothing after.  Most calls REWRITE structures in place (the parent's local
   heap and symbol table node when an object is linked, the object header when an attribute is added, the superblock on
   Close), so a failure can leave the file torn; the property only asks for the error.
   [op_patterns]: which structures an operation writes, in which order -- transcribed from the call sites named in
   the comments; the tie matches the pwrite64/fsync/ftruncate/close sequence strace records for each API call
   against it.  No proofs here. *)
From HV Require Import Base.Prelude Base.Outcome Base.Bytes Model.IOProg.

Inductive wcallD := DWrite (off : N) (data : bytes) | DSync | DTruncate (size : N) | DClose.

Fixpoint w_of_calls (cs : list wcallD) : wprog unit :=
  match cs with
  | [] => WRet tt
  | DWrite off data :: r => WriteAt off data (w_of_calls r)
  | DSync :: r => WSync (w_of_calls r)
  | DTruncate s :: r => WTruncate s (w_of_calls r)
  | DClose :: r => WClose (w_of_calls r)
  end.

(* what strace shows of one call: kind (0 pwrite64, 1 fsync, 2 ftruncate, 3 close), first 4 bytes, length *)
Definition obs := (N * bytes * N)%type.

Inductive pat :=
| PK (sig : bytes)       (* a write that starts with this signature *)
| PAny                   (* a write *)
| PAnyPlus               (* one or more writes that do not start with "TREE" (chunk data) *)
| PSyncs                 (* one or more fsync *)
| PTruncOpt              (* at most one ftruncate *)
| PClose.

Definition S_SNOD : bytes := [83; 78; 79; 68].
Definition S_TREE : bytes := [84; 82; 69; 69].
Definition S_HEAP : bytes := [72; 69; 65; 80].
Definition S_OHDR : bytes := [79; 72; 68; 82].
Definition S_SIG  : bytes := [137; 72; 68; 70].
Definition S_FRHP : bytes := [70; 82; 72; 80].
Definition S_FHDB : bytes := [70; 72; 68; 66].
Definition S_BTLF : bytes := [66; 84; 76; 70].
Definition S_BTHD : bytes := [66; 84; 72; 68].

Definition is_write (o : obs) : bool := fst (fst o) =? 0.
Definition sig_of (o : obs) : bytes := snd (fst o).

Fixpoint match_pat (fuel : nat) (ps : list pat) (os : list obs) : bool :=
  match fuel with
  | O => false
  | S fuel' =>
      match ps, os with
      | [], [] => true
      | [], _ => false
      | PK s :: pr, o :: r => is_write o && bytes_eqb (sig_of o) s && match_pat fuel' pr r
      | PAny :: pr, o :: r => is_write o && match_pat fuel' pr r
      | PAnyPlus :: pr, o :: r =>
          is_write o && negb (bytes_eqb (sig_of o) S_TREE) &&
          (match_pat fuel' pr r || match_pat fuel' (PAnyPlus :: pr) r)
      | PSyncs :: pr, o :: r =>
          (fst (fst o) =? 1) && (match_pat fuel' pr r || match_pat fuel' (PSyncs :: pr) r)
      | PTruncOpt :: pr, o :: r =>
          if fst (fst o) =? 2 then match_pat fuel' pr r else match_pat fuel' pr (o :: r)
      | PTruncOpt :: pr, [] => match_pat fuel' pr []
      | PClose :: pr, o :: r => (fst (fst o) =? 3) && match_pat fuel' pr r
      | _, [] => false
      end
  end.

(* linkToParent (group_write.go:310): the parent's local heap (header + data segment, group_write.go:316) and its
   symbol table node (group_write.go:322) are rewritten in place *)
Definition P_LINK : list pat := [PK S_HEAP; PAny; PK S_SNOD].

(* operation codes of the tie *)
Definition op_patterns (op : N) : list (list pat) :=
  match op with
  (* 0: CreateForWrite, superblock 2/3 (dataset_write.go:2878 symbol table node, :2895 B-tree, :2778 local heap,
        :2971 root object header, :761 superblock, :766 Flush) *)
  | 0 => [[PK S_SNOD; PK S_TREE; PK S_HEAP; PAny; PK S_OHDR; PK S_SIG; PSyncs]]
  (* 1: CreateForWrite, superblock 0 (dataset_write.go:3004 version 1 root header, :2948 B-tree, :2919 node, :2859 heap) *)
  | 1 => [[PAny; PK S_TREE; PK S_SNOD; PK S_HEAP; PAny; PK S_SIG; PSyncs]]
  (* 2: CreateGroup (group_write.go:132 node, :148 B-tree, :153 heap, :246 object header) then linkToParent *)
  | 2 => [[PK S_SNOD; PK S_TREE; PK S_HEAP; PAny; PK S_OHDR] ++ P_LINK]
  (* 3: CreateDataset, contiguous (dataset_write.go:982) or chunked (dataset_write_chunked.go:146), CreateHardLink
        (link_write.go: target header rewritten with the new reference count), CreateSoftLink / CreateExternalLink
        (link_write.go:343 / :537): one object header, then linkToParent *)
  | 3 => [[PK S_OHDR] ++ P_LINK]
  (* 4: Write, contiguous (dataset_write.go:1357) *)
  | 4 => [[PAny]]
  (* 5: Write, chunked: every chunk (dataset_write_chunked.go:277), the chunk B-tree node, its address into the
        layout message of the header (dataset_write_chunked.go:312) *)
  | 5 => [[PAnyPlus; PK S_TREE; PAny]]
  (* 6: WriteAttribute: compact = the object header rewritten (attribute_write.go:301 -> objectheader_write.go:460);
        dense = fractal heap header, direct block, B-tree leaf, B-tree header (attribute_write.go:471/476, 774/780);
        the transition to dense storage writes those, the header, Flush (attribute_write.go:951) and the header again *)
  | 6 => [[PK S_OHDR];
          [PK S_FRHP; PK S_FHDB; PK S_BTLF; PK S_BTHD];
          [PK S_FRHP; PK S_FHDB; PK S_BTLF; PK S_BTHD; PK S_OHDR; PSyncs; PK S_OHDR]]
  (* 7: Close (dataset_write.go:2326): end-of-file address into the superblock (:2348), extend the file (:2357),
        Flush (:2364), close (:2369);
     the superblock is rewritten only when the end of the allocated space grew (superblock.go:479) *)
  | 7 => [[PK S_SIG; PTruncOpt; PSyncs; PClose]; [PTruncOpt; PSyncs; PClose]]
  | _ => []
  end.

Definition shape_ok (c : N * list obs) : bool :=
  existsb (fun p => match_pat 4096 p (snd c)) (op_patterns (fst c)).

(* the wprog of an observed call list: every operation the tie matched is w_of_calls of its calls *)
Definition calls_of_obs (os : list (N * N * N)) : list wcallD :=   (* kind, offset / size, length *)
  map (fun o => match o with (k, a, n) =>
         if k =? 0 then DWrite a (zeros (N.to_nat n)) else if k =? 1 then DSync else if k =? 2 then DTruncate a else DClose end) os.
