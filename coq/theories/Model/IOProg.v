(* C17: a small deep-embedded language of reader programs (a free monad over the I/O primitive ReadAt),
   its semantics on a file image with a fault oracle, and the syntactic fragment ("strict") on which
   truncation / failing I/O can only turn an answer into an error.

   Go correspondence of the constructors:
     ReadAt off len k       buf := make([]byte, len); if _, err := r.ReadAt(buf, off); err != nil { return err }; k(buf)
     ReadAtShort off len k  n, err := r.ReadAt(buf, off); if err != nil && !errors.Is(err, io.EOF) { return err }; k(buf, n)
                            (the short-read tolerant call sites: superblock.go:47, attribute.go:584/664/729/886)
     Swallow p d k          x, err := p(); if err != nil { x = d }; k(x)      (error dropped or converted)
     Fail                   return an error;   Crash  a run-time panic;   Ret a  return a
   No proofs here (Proofs/IOProg.v). *)
From HV Require Import Base.Prelude Base.Outcome Base.Bytes.

Inductive prog (A : Type) : Type :=
| Ret (a : A)
| Fail
| Crash
| ReadAt (off len : N) (k : bytes -> prog A)
| ReadAtShort (off len : N) (k : bytes -> N -> prog A)
| Swallow {B : Type} (p : prog B) (d : B) (k : B -> prog A).
Arguments Ret {A} a.
Arguments Fail {A}.
Arguments Crash {A}.
Arguments ReadAt {A} off len k.
Arguments ReadAtShort {A} off len k.
Arguments Swallow {A B} p d k.

Fixpoint bind {A B} (p : prog A) (g : A -> prog B) : prog B :=
  match p with
  | Ret a => g a
  | Fail => Fail
  | Crash => Crash
  | ReadAt off len k => ReadAt off len (fun b => bind (k b) g)
  | ReadAtShort off len k => ReadAtShort off len (fun b n => bind (k b n) g)
  | Swallow p d k => Swallow p d (fun x => bind (k x) g)
  end.

(* a pure decoding step: error / panic of the decoder end the program *)
Definition lift {A} (o : outcome A) : prog A :=
  match o with Ok a => Ret a | Err => Fail | Panic => Crash end.

Declare Scope prog_scope.
Delimit Scope prog_scope with prog.
Notation "x <<- e ;; k" := (bind e (fun x => k))
  (at level 61, e at next level, right associativity) : prog_scope.
Notation "' p <<- e ;; k" := (bind e (fun x => let p := x in k))
  (at level 61, p pattern, e at next level, right associativity) : prog_scope.

(* ------------------------------------------------------------------ the file and the I/O primitive *)

(* what one I/O call can suffer *)
Inductive fault : Type :=
| NoFault
| FailIO              (* the call returns (0, EIO) *)
| ShortRead (n : N).  (* the call delivers at most n bytes and then reports io.EOF, as if the file ended there *)

Definition oracle := nat -> fault.
Definition nofault : oracle := fun _ => NoFault.
(* exactly the k-th call (0-based) suffers ft *)
Definition fault_at (k : nat) (ft : fault) : oracle := fun c => if Nat.eqb c k then ft else NoFault.

(* the bytes of [off, off+len) that exist *)
Definition rd (f : bytes) (off len : N) : bytes := firstn (N.to_nat len) (skipn (N.to_nat off) f).
Definition in_range (f : bytes) (off len : N) : bool := off + len <=? blen f.
Definition avail (f : bytes) (off len : N) : N := blen (rd f off len).
(* the buffer after a short read: the bytes that exist, zeros behind (the Go buffers are freshly made or pooled;
   whatever lies behind the count is not file content, and the strict fragment never looks at it) *)
Definition padded (f : bytes) (off len : N) : bytes := rd f off len ++ zeros (N.to_nat (len - avail f off len)).

Definition limit (ft : fault) (f : bytes) (off len : N) : N :=
  match ft with ShortRead n => N.min n (avail f off len) | _ => avail f off len end.

(* run a program on file image f; c counts the I/O calls made so far *)
Fixpoint run {A} (f : bytes) (fl : oracle) (c : nat) (p : prog A) {struct p} : outcome A * nat :=
  match p with
  | Ret a => (Ok a, c)
  | Fail => (Err, c)
  | Crash => (Panic, c)
  | ReadAt off len k =>
      match fl c with
      | FailIO => (Err, S c)
      | ShortRead n => if (len <=? n) && in_range f off len then run f fl (S c) (k (rd f off len)) else (Err, S c)
      | NoFault => if in_range f off len then run f fl (S c) (k (rd f off len)) else (Err, S c)
      end
  | ReadAtShort off len k =>
      match fl c with
      | FailIO => (Err, S c)
      | ft => let g := limit ft f off len in
              run f fl (S c) (k (firstn (N.to_nat g) (rd f off len) ++ zeros (N.to_nat (len - g))) g)
      end
  | Swallow p d k =>
      match run f fl c p with
      | (Ok b, c') => run f fl c' (k b)
      | (Err, c') => run f fl c' (k d)
      | (Panic, c') => (Panic, c')
      end
  end.

(* the result on the intact file with working I/O *)
Definition run0 {A} (f : bytes) (p : prog A) : outcome A := fst (run f nofault 0 p).
(* number of I/O calls the intact run makes: the fault positions the property quantifies over *)
Definition calls0 {A} (f : bytes) (p : prog A) : nat := snd (run f nofault 0 p).

(* "an error, or exactly the intact answer" *)
Definition refines {A} (o' o : outcome A) : Prop := o' = o \/ o' = Err.

(* ------------------------------------------------------------------ the strict fragment *)

(* side condition for a short-read tolerant call: with fewer bytes delivered (g' <= g, the two buffers agreeing on
   the g' bytes both have) the continuation is the same program or fails.  This is "the count is checked against
   every byte the continuation decodes" (what /repo d9e66d7 and 07228cc established). *)
Definition short_safe {A} (len : N) (k : bytes -> N -> prog A) : Prop :=
  forall b b' g g', g' <= g -> g <= len -> blen b = len -> blen b' = len ->
    firstn (N.to_nat g') b' = firstn (N.to_nat g') b ->
    k b' g' = k b g \/ k b' g' = Fail.

Inductive strict : forall {A : Type}, prog A -> Prop :=
| st_ret : forall A (a : A), strict (Ret a)
| st_fail : forall A, strict (@Fail A)
| st_crash : forall A, strict (@Crash A)
| st_read : forall A off len (k : bytes -> prog A),
    (forall b, strict (k b)) -> strict (ReadAt off len k)
| st_short : forall A off len (k : bytes -> N -> prog A),
    (forall b g, strict (k b g)) -> short_safe len k -> strict (ReadAtShort off len k)
(* the dropped error is turned into a failure later: `if err == nil {...}; if x == nil { return error }` *)
| st_swallow_fail : forall A B (p : prog B) d (k : B -> prog A),
    strict p -> (forall b, strict (k b)) -> k d = Fail -> strict (Swallow p d k)
(* the result of the call whose error is dropped is not used by what follows *)
| st_swallow_ignore : forall A B (p : prog B) d (k : B -> prog A),
    strict p -> (forall b, k b = k d) -> strict (k d) -> strict (Swallow p d k)
(* readSignature: 4 bytes are read, "" on error; what follows for "" starts by reading the same place strictly,
   and for every signature either does the same as for "" or rejects every buffer that starts with it *)
| st_swallow_reread : forall A off len len' d (k : bytes -> prog A) (k' : bytes -> prog A),
    len <= len' -> k d = ReadAt off len' k' -> (forall b, strict (k b)) ->
    (forall sg, k sg = k d \/ forall b, firstn (N.to_nat len) b = sg -> k' b = Fail) ->
    strict (Swallow (ReadAt off len (fun b => Ret b)) d k).

(* ------------------------------------------------------------------ writer programs *)

(* The write API at the granularity "sequence of WriteAt / Sync / Truncate / Close calls on the file".
   WSwallow is an error that is dropped (`_ = w.WriteAt(...)`, `defer f.Close()` without looking at the result). *)
Inductive wprog (A : Type) : Type :=
| WRet (a : A)
| WFail
| WriteAt (off : N) (data : bytes) (k : wprog A)
| WSync (k : wprog A)
| WTruncate (size : N) (k : wprog A)
| WClose (k : wprog A)
| WSwallow (p : wprog unit) (k : wprog A).
Arguments WRet {A} a.
Arguments WFail {A}.
Arguments WriteAt {A} off data k.
Arguments WSync {A} k.
Arguments WTruncate {A} size k.
Arguments WClose {A} k.
Arguments WSwallow {A} p k.

(* os.File.WriteAt: the file grows (zero filled) to reach off, data overwrites *)
Definition write_at (f : bytes) (off : N) (data : bytes) : bytes :=
  let o := N.to_nat off in
  let f' := f ++ zeros (o - length f) in
  firstn o f' ++ data ++ skipn (o + length data) f'.
Definition truncate_to (f : bytes) (size : N) : bytes :=
  let s := N.to_nat size in firstn s f ++ zeros (s - length f).

(* a failing WriteAt may have written any prefix of its data (torn write): torn c says how many bytes *)
Fixpoint wrun {A} (f : bytes) (fl : nat -> bool) (torn : nat -> nat) (c : nat) (p : wprog A) {struct p}
  : outcome A * bytes * nat :=
  match p with
  | WRet a => (Ok a, f, c)
  | WFail => (Err, f, c)
  | WriteAt off data k =>
      if fl c then (Err, write_at f off (firstn (torn c) data), S c)
      else wrun (write_at f off data) fl torn (S c) k
  | WSync k => if fl c then (Err, f, S c) else wrun f fl torn (S c) k
  | WTruncate size k => if fl c then (Err, f, S c) else wrun (truncate_to f size) fl torn (S c) k
  | WClose k => if fl c then (Err, f, S c) else wrun f fl torn (S c) k
  | WSwallow p k =>
      match wrun f fl torn c p with
      | (_, f', c') => wrun f' fl torn c' k
      end
  end.

Fixpoint wstrict {A} (p : wprog A) : Prop :=
  match p with
  | WRet _ | WFail => True
  | WriteAt _ _ k | WSync k | WTruncate _ k | WClose k => wstrict k
  | WSwallow _ _ => False
  end.

(* the I/O calls of a program, in order: what the tie compares with the strace log of the real call *)
Inductive wcall := CWrite (off len : N) | CSync | CTruncate (size : N) | CClose.
Fixpoint wcalls {A} (p : wprog A) : list wcall :=
  match p with
  | WRet _ | WFail => []
  | WriteAt off data k => CWrite off (blen data) :: wcalls k
  | WSync k => CSync :: wcalls k
  | WTruncate s k => CTruncate s :: wcalls k
  | WClose k => CClose :: wcalls k
  | WSwallow p k => wcalls p ++ wcalls k
  end.
Fixpoint wseq {A} (p : wprog unit) (k : wprog A) : wprog A :=
  match p with
  | WRet _ => k
  | WFail => WFail
  | WriteAt off data q => WriteAt off data (wseq q k)
  | WSync q => WSync (wseq q k)
  | WTruncate s q => WTruncate s (wseq q k)
  | WClose q => WClose (wseq q k)
  | WSwallow q r => WSwallow q (wseq r k)
  end.
