(* ParseAttributeMessage with the padding rule as a parameter.
   [padv2 = true]  : internal/core/attribute.go as it is - name / datatype / dataspace are padded to multiples of 8 bytes in
                     attribute message versions 1 AND 2 (Model/CodecAttr.v dec_attribute; dec_attribute_gen_current below);
   [padv2 = false] : the code with notes/fixes/c06-attribute-v2-padding.patch applied (`version < 2` in the three places) -
                     version 1 only, as the format specification and H5Oattr.c have it.
   Everything else is the text of Model/CodecAttr.v dec_attribute. *)
From HV Require Import Base.Prelude Base.Outcome Base.Bytes Model.CodecMsg Model.CodecType Model.CodecAttr.

Definition dec_attribute_gen (padv2 : bool) (bigendian : bool) (data : bytes) : outcome attribute' :=
  if blen data <? 8 then Err else
  version <- index data 0;;
  nameSize <- rd16 data 2 bigendian;;
  dtSize <- rd16 data 4 bigendian;;
  dsSize <- rd16 data 6 bigendian;;
  let offset := if 3 <=? version then 9 else 8 in
  if blen data <? offset + nameSize then Err else
  name <- (if 0 <? nameSize then slice data offset (offset + nameSize - 1) else Ok []);;
  let adv (s : N) := if (if padv2 then version <? 3 else version <? 2) then align8_u16 s else s in
  let offset := offset + adv nameSize in
  if blen data <? offset + dtSize then Err else
  dtd <- slice data offset (offset + dtSize);;
  dt <- dec_datatype dtd;;
  let offset := offset + adv dtSize in
  if blen data <? offset + dsSize then Err else
  dsd <- slice data offset (offset + dsSize);;
  ds <- dec_dataspace dsd;;
  let offset := offset + adv dsSize in
  if offset <? blen data then
    if MaxAttributeSize <? blen data - offset then Err else
    d <- slice_from data offset;;
    Ok {| atp_name := name; atp_dt := dt; atp_ds := ds; atp_data := Some d |}
  else
    Ok {| atp_name := name; atp_dt := dt; atp_ds := ds; atp_data := None |}.

(* the parameter set to the code as it is gives the tied model, definitionally *)
Lemma dec_attribute_gen_current (bigendian : bool) (data : bytes) :
  dec_attribute_gen true bigendian data = dec_attribute bigendian data.
Proof. reflexivity. Qed.
