(* C17: executable predicate the parser-level tie evaluates: the reader programs of Model/IOProgReader.v run on the
   same image, cut and failing call as the Go parsers; compared: ok/err/panic class, number of I/O calls made,
   and the value when the call succeeds.  No proofs here. *)
From HV Require Import Base.Prelude Base.Outcome Base.Bytes Model.IOProg Model.IOProgReader Model.IOProgOpen.
From HV Require Import Model.CodecSuper Model.CodecOhdr Model.CodecMsg.

Definition TIE_FUEL : nat := 4096.

(* kind code: 0 = the call fails with EIO; m+1 = the call delivers at most m bytes and reports io.EOF *)
Definition fault_of (kind : N) : fault := if kind =? 0 then FailIO else ShortRead (kind - 1).

Definition run_case {A} (img : bytes) (cut k : Z) (kind : N) (p : prog A) : outcome A * nat :=
  let f := if (cut <? 0)%Z then img else firstn (Z.to_nat cut) img in
  let fl := if (k <? 0)%Z then nofault else fault_at (Z.to_nat k) (fault_of kind) in
  run f fl 0 p.

Definition val_attr (a : attr) : val := VL [VB (fst a); VB (snd a)].
Definition val_entry (e : stentry) : val :=
  match e with (lo, oa, ct, cb, ch) => VL [VN lo; VN oa; VN ct; VN cb; VN ch] end.

(* value to compare (None: class and call count only) *)
Definition model_run (op : N) (sb : superblock') (img : bytes) (addr : N) (cut k : Z) (kind : N) : outcome (option val) * nat :=
  let rc {A} (p : prog A) (f : A -> option val) := let r := run_case img cut k kind p in (omap f (fst r), snd r) in
  if op =? 0 then rc p_superblock (fun s => Some (val_superblock' s))
  else if op =? 1 then rc (p_read_object_header sb TIE_FUEL addr) (fun x => Some (val_ohdr' (fst x)))
  else if op =? 2 then rc (api_attributes sb TIE_FUEL addr) (fun a => Some (VL (map val_attr a)))
  else if op =? 3 then rc (p_local_heap sb addr) (fun b => Some (VB b))
  else if op =? 4 then rc (p_snod sb addr) (fun es => Some (VL (map val_entry es)))
  else if op =? 5 then rc (p_group_btree sb addr) (fun es => Some (VL (map val_entry es)))
  else if op =? 6 then rc (p_gheap sb TIE_FUEL addr) (fun os => Some (VL (map (fun x => VL [VN (fst x); VB (snd x)]) os)))
  else if op =? 7 then rc (api_read_raw sb TIE_FUEL addr) (fun _ => None)
  else (Err, 0%nat).

(* hdf5.Open on the image cut at [cut] (no call-level faults: the public API reads through *os.File) *)
Definition open_ok (repaired : bool) (img : bytes) (vint : val) (case : Z * Z * N * N * N) : bool :=
  match case with
  | (cut, _, _, cls, _) =>
      let f := if (cut <? 0)%Z then img else firstn (Z.to_nat cut) img in
      let r := fst (run f nofault 0 (p_open repaired (blen f) TIE_FUEL TIE_FUEL)) in
      (oclass r =? cls) && match r with Ok n => val_eqb (val_node n) vint | _ => true end
  end.

(* case = (cut, failing call, kind code, Go class, Go call count); vint = the Go value on the intact file *)
Definition tie_ok (op : N) (img : bytes) (addr : N) (vint : val) : (Z * Z * N * N * N) -> bool :=
  let sbo := run0 img p_superblock in
  fun case =>
    match case with
    | (cut, k, kind, cls, ncalls) =>
        match sbo with
        | Ok sb =>
            let r := model_run op sb img addr cut k kind in
            (oclass (fst r) =? cls) && (N.of_nat (snd r) =? ncalls) &&
            match fst r with Ok (Some v) => val_eqb v vint | _ => true end
        | _ => false
        end
    end.
