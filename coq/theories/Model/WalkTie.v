(* C05 tie of the whole-file walker: what tools/props/c05walk.py evaluates.  One case = the bytes of one closed file
   written by the library (hex, in pieces).  [walk_obs] runs Spec.Walk.walk (tolerant and strict) and flattens the result to a list
   of numbers the tie parses:
     [ code; version; eof; #extents; (start; end; kind)*; #tags; tag code*; #objects; object* ]
     code   = 1 (tolerant walk accepts) + 2 (strict walk accepts) + 4 (walk_ok: accepted and extents_ok)
              + 8 (accepted, and the extents are in bounds and pairwise disjoint when the end-of-file address is left out)
     object = addr; kind; datatype class; datatype size; layout; #dims; dim*; |path|; path bytes; #attrs; (|name|; name bytes)*
   and [ code ] alone when the tolerant walk rejects. *)
From HV Require Import Base.Prelude Base.Outcome Base.Bytes Spec.Parse Spec.Walk Model.Wellformed.

Definition enc_bytes (b : bytes) : list N := blen b :: b.
Definition enc_obj (o : obj_sum) : list N :=
  [os_addr o; os_kind o; os_dtclass o; os_dtsize o; os_layout o] ++ lenN (os_dims o) :: os_dims o ++ enc_bytes (os_path o) ++
  lenN (os_attrs o) :: concat (map enc_bytes (os_attrs o)).
Definition enc_ext (x : xext) : list N := [fst (fst x); snd (fst x); snd x].

Definition walk_obs (fuel : nat) (f : bytes) : list N :=
  let strict_ok := match walk wstrict fuel f with Ok _ => 2 | _ => 0 end in
  let wok := if walk_ok fuel f then 4 else 0 in
  match walk wtolerant fuel f with
  | Ok r =>
      (1 + strict_ok + wok + (if extents_ok (blen f) (blen f) (plain (wr_extents r)) then 8 else 0)) :: wr_version r :: wr_eof r ::
      lenN (wr_extents r) :: concat (map enc_ext (wr_extents r)) ++
      lenN (wr_tags r) :: map wtag_code (wr_tags r) ++
      lenN (wr_tree r) :: concat (map enc_obj (wr_tree r))
  | _ => [strict_ok + wok]
  end.

(* the file arrives as a list of hex strings (a string literal of a whole file is too deep a term for the parser) *)
Definition walk_obs_hex (hexs : list string) : list N := walk_obs default_fuel (concat (map unhex hexs)).
