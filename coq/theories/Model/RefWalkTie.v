(* C06 tie of the whole-file specification walker: what tools/props/c06walk.py evaluates on the reference-library files of the
   corpus.  One case = the complete bytes of one corpus file, transported as pieces (hex strings and runs of zero bytes).
   [walk6_obs] runs the STRICT walk (Spec.Walk.walk wstrict) and flattens the answer to a list of numbers:
     accepted:  [ 1; superblock version; #deviation tags (the tie requires 0); #objects; object* ]
     rejected:  [ 0; reason code ]                        (Spec.Walk.walk_code; tools/props/c06walk.py REASONS; 900: accepted, but the
                                                          summary is too long to transport)
     object = addr; kind; datatype class; datatype size; datatype bits; dataspace type; layout; #dims; dim*; |path|; path bytes;
              #attrs; (|name|; name bytes)*; #links; (link type; |name|; name bytes)*
   The strict walk is the reference: by Props/C06Walk.v its acceptance implies that every tolerance accepts with the identical
   result. *)
From HV Require Import Base.Prelude Base.Outcome Base.Bytes Spec.Parse Spec.Walk.

Inductive piece : Type := PH (s : string) | PZ (n : N).
Definition piece_bytes (p : piece) : bytes := match p with PH s => unhex s | PZ n => repeat 0 (N.to_nat n) end.
Definition pieces_bytes (l : list piece) : bytes := concat (map piece_bytes l).

Definition enc6_bytes (b : bytes) : list N := blen b :: b.
Definition enc6_obj (o : obj_sum) : list N :=
  [os_addr o; os_kind o; os_dtclass o; os_dtsize o; os_dtbits o; os_space o; os_layout o] ++ lenN (os_dims o) :: os_dims o ++
  enc6_bytes (os_path o) ++ lenN (os_attrs o) :: concat (map enc6_bytes (os_attrs o)) ++
  lenN (os_links o) :: concat (map (fun l : N * bytes => fst l :: enc6_bytes (snd l)) (os_links o)).

(* a summary of more than [obs_limit] numbers (link names of 64 kB: tlonglinks.h5) is not transported - printing it overflows the
   stack of coqc; the file counts as rejected with reason 900 *)
Definition obs_limit : N := 50000.
Definition walk6_obs (fuel : nat) (f : bytes) : list N :=
  match walk wstrict fuel f with
  | Ok r =>
      let l := concat (map enc6_obj (wr_tree r)) in
      if obs_limit <? lenN l then [0; 900] else 1 :: wr_version r :: lenN (wr_tags r) :: lenN (wr_tree r) :: l
  | _ => [0; walk_code wstrict fuel f]
  end.

Definition walk6_pieces (l : list piece) : list N := walk6_obs default_fuel (pieces_bytes l).
