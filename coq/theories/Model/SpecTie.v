(* C05 tie: what the correspondence check (tools/props/c05spec.py) evaluates.  One case = one on-disk structure of
   a file (its bytes, the context the specification needs to read it, and what the independent Python decoder
   tools/h5spec.py decoded from it).  [obs] runs the specification decoder of the structure's kind and flattens
   the result to the universal observable [val]:
       VL [VN 0; VL [tag codes]; VL [fields...]]   the decoder accepted (all bytes consumed), with these deviations
       VL [VN 1]                                    Err.
   A case is good when the tolerant decoder yields exactly what Python reported, and the strict decoder yields the
   same iff there are no deviation tags and Err otherwise. *)
From HV Require Import Base.Prelude Base.Outcome Base.Bytes Spec.Parse Spec.Format.

Definition vtags (l : list tag) : val := VL (map (fun t => VN (tag_code t)) l).
Definition accepted (tags : list tag) (fields : list val) : val := VL [VN 0; vtags tags; VL fields].
Definition rejected : val := VL [VN 1].

Definition v_sym_entry (e : sym_entry) : val :=
  VL [VN (se_name_off e); VN (se_obj e); VN (se_cache e); VN (se_btree e); VN (se_heap e); VN (se_link_off e)].

Definition obs_superblock (tol : tolerance) (bs : bytes) : val :=
  match spec_dec_superblock tol bs with
  | Ok (s, tg, []) =>
      accepted tg [VN (sbs_version s); VN (sbs_O s); VN (sbs_L s); VN (sbs_leafK s); VN (sbs_intK s); VN (sbs_istoreK s);
                   VN (sbs_flags s); VN (sbs_base s); VN (sbs_ext s); VN (sbs_eof s); VN (sbs_driver s); VN (sbs_root s);
                   vopt v_sym_entry (sbs_root_entry s)]
  | _ => rejected
  end.

(* kind codes: tools/props/c05spec.py KINDS *)
Definition obs (kind : N) (ctx : list N) (tol : tolerance) (bs : bytes) : val :=
  match kind with
  | 1 => obs_superblock tol bs
  | _ => VL [VN 2]
  end.

Definition strict_expect (e : val) : val :=
  match e with
  | VL [VN 0; VL []; _] => e
  | _ => rejected
  end.

(* (kind, context, bytes as hex, expected tolerant observation) *)
Definition spec_case := (N * list N * string * val)%type.
Definition case_ok (c : spec_case) : bool :=
  match c with
  | (kind, ctx, hex, e) =>
      let bs := unhex hex in
      val_eqb (obs kind ctx tolerant bs) e && val_eqb (obs kind ctx strict bs) (strict_expect e)
  end.
(* 0 = good; 1 = tolerant differs; 2 = strict differs; 3 = both *)
Definition case_code (c : spec_case) : N :=
  match c with
  | (kind, ctx, hex, e) =>
      let bs := unhex hex in
      (if val_eqb (obs kind ctx tolerant bs) e then 0 else 1) +
      (if val_eqb (obs kind ctx strict bs) (strict_expect e) then 0 else 2)
  end.
