(* C05 tie: what the correspondence check (tools/props/c05spec.py) evaluates.  One case = one on-disk structure of
   a file (its bytes, the context the specification needs to read it, and what the independent Python decoder
   tools/h5spec.py decoded from it).  [obs] runs the specification decoder of the structure's kind and flattens
   the result to the universal observable [val]:
       VL [VN 0; VL [tag codes]; VL [fields...]]   the decoder accepted (all bytes consumed), with these deviations
       VL [VN 1]                                    Err.
   A case is good when the tolerant decoder yields exactly what Python reported, and the strict decoder yields the
   same iff there are no deviation tags and Err otherwise. *)
From HV Require Import Base.Prelude Base.Outcome Base.Bytes Spec.Parse Spec.Format Spec.FormatMsg Spec.FormatNode.

Definition vtags (l : list tag) : val := VL (map (fun t => VN (tag_code t)) l).
Definition accepted (tags : list tag) (fields : list val) : val := VL [VN 0; vtags tags; VL fields].
Definition rejected : val := VL [VN 1].

Definition v_sym_entry (e : sym_entry) : val :=
  VL [VN (se_name_off e); VN (se_obj e); VN (se_cache e); VN (se_btree e); VN (se_heap e); VN (se_link_off e)].

Definition obs_superblock (tol : tolerance) (bs : bytes) : val :=
  match spec_dec_superblock tol bs with
  | Ok (s, tg, []) =>
      accepted tg [VN (sbs_version s); VN (sbs_O s); VN (sbs_L s); VN (sbs_leafK s); VN (sbs_intK s); VN (sbs_istoreK s);
                   VN (sbs_flags s); VN (sbs_base s); VN (sbs_ext s); VN (sbs_eof s); VN (sbs_driver s); VN (sbs_root s);
                   vopt v_sym_entry (sbs_root_entry s)]
  | _ => rejected
  end.

(* ---- object headers: the messages as (type, flags, data); Python's list leaves out continuation messages (and, in
   version 2 headers, NIL messages) *)
Definition v_msg (m : msg_spec) : val := VL [VN (ms_type m); VN (ms_flags m); VB (ms_data m)].
Definition v_msgs (drop_nil : bool) (ms : list msg_spec) : val :=
  VL (map v_msg (filter (fun m => negb (ms_type m =? 16) && negb (drop_nil && (ms_type m =? 0))) ms)).

Definition obs_ohdr1 (bs : bytes) : val :=
  match spec_dec_ohdr1 bs with
  | Ok (h, []) => accepted [] [VN (o1_nmsgs h); VN (o1_refcount h); VN (o1_size h); v_msgs false (o1_msgs h)]
  | _ => rejected
  end.
Definition obs_ohdr1_cont (bs : bytes) : val :=
  match spec_dec_ohdr1_cont bs with Ok ms => accepted [] [v_msgs false ms] | _ => rejected end.
Definition obs_ohdr2 (tol : tolerance) (bs : bytes) : val :=
  match spec_dec_ohdr2 tol bs with
  | Ok (h, tg, []) => accepted tg [VN (o2_flags h); VN (o2_chunk0 h); v_msgs true (o2_msgs h)]
  | _ => rejected
  end.
Definition obs_ochk (tol : tolerance) (corder : bool) (bs : bytes) : val :=
  match spec_dec_ochk tol corder bs with Ok (ms, tg) => accepted tg [v_msgs true ms] | _ => rejected end.

(* ---- messages *)
Definition obs_dataspace (lsz : nat) (pad_ok : bool) (bs : bytes) : val :=
  match spec_dec_dataspace lsz pad_ok bs with
  | Ok d => accepted [] [VN (if dss_version d =? 1 then 1 else dss_type d); vlistN (dss_dims d); vopt vlistN (dss_maxdims d)]
  | _ => rejected
  end.

(* the projection of a datatype the Python decoder also has: class, size, and per class:
   fixed: signed, byte order, precision;  float: byte order;  string: padding, character set;  opaque: tag bytes;
   reference: type;  variable length: kind and base type;  others: version only *)
Fixpoint v_dtype (t : dtype) : val :=
  match t with
  | DFixed v s o _ _ sg _ p => VL [VN 0; VN s; vbool sg; VN o; VN p]
  | DFloat v s o _ _ _ _ _ _ _ _ _ _ => VL [VN 1; VN s; VN (o mod 2)]
  | DTime v s _ _ => VL [VN 2; VN s]
  | DString v s p c => VL [VN 3; VN s; VN p; VN c]
  | DBitfield v s _ _ _ _ _ => VL [VN 4; VN s]
  | DOpaque v s tg => VL [VN 5; VN s; VB tg]
  | DCompound v s ms => VL [VN 6; VN s; VL (map (fun m => match m with (nm, off, mt) => VL [VB nm; VN off; v_dtype mt] end) ms)]
  | DReference v s rt => VL [VN 7; VN s; VN rt]
  | DEnum v s b ms => VL [VN 8; VN s; v_dtype b; VL (map (fun m => VL [VB (fst m); VB (snd m)]) ms)]
  | DVlen v s vt _ _ b => VL [VN 9; VN s; VN vt; v_dtype b]
  | DArray v s ds b => VL [VN 10; VN s; vlistN ds; v_dtype b]
  end.

Definition obs_datatype (tol : tolerance) (pad_ok : bool) (bs : bytes) : val :=
  match spec_dec_datatype tol pad_ok bs with Ok (t, tg) => accepted tg [v_dtype t] | _ => rejected end.

Definition obs_layout (osz lsz : nat) (bs : bytes) : val :=
  match spec_dec_layout osz lsz false bs with
  | Ok (LyCompact d) => accepted [] [VN 0; VB d]
  | Ok (LyContiguous a s) => accepted [] [VN 1; VN a; VN s]
  | Ok (LyChunked a ds) => accepted [] [VN 2; VN a; vlistN ds]
  | _ => rejected
  end.

Definition obs_pipeline (tol : tolerance) (bs : bytes) : val :=
  match spec_dec_pipeline tol false bs with
  | Ok (fs, tg) => accepted tg [VL (map (fun f => VL [VN (fl_id f); VN (fl_flags f); vlistN (fl_cd f)]) fs)]
  | _ => rejected
  end.

Definition obs_attribute (tol : tolerance) (lsz : nat) (pad_ok : bool) (bs : bytes) : val :=
  match spec_dec_attribute tol lsz pad_ok bs with
  | Ok (a, tg) => accepted tg [VB (as_name a); v_dtype (as_dtype a); vlistN (dss_dims (as_space a)); VN (nelem (as_space a)); VB (as_data a)]
  | _ => rejected
  end.

Definition obs_attrinfo (osz : nat) (bs : bytes) : val :=
  match spec_dec_attrinfo osz false bs with
  | Ok a => accepted [] [VN (ais_flags a); vopt VN (ais_maxcidx a); VN (ais_heap a); VN (ais_btname a); vopt VN (ais_btorder a)]
  | _ => rejected
  end.

Definition obs_link (tol : tolerance) (osz : nat) (bs : bytes) : val :=
  match spec_dec_link tol osz false bs with
  | Ok (l, tg) => accepted tg [VB (ls_name l);
                               match ls_value l with
                               | LHard a => VL [VN 0; VN a]
                               | LSoft v => VL [VN 1; VB v]
                               | LExternal f p => VL [VN 64; VB f; VB p]
                               end]
  | _ => rejected
  end.

Definition obs_symtab (osz : nat) (pad_ok : bool) (bs : bytes) : val :=
  match spec_dec_symtab osz pad_ok bs with Ok (b, h) => accepted [] [VN b; VN h] | _ => rejected end.
Definition obs_refcount (tol : tolerance) (pad_ok : bool) (bs : bytes) : val :=
  match spec_dec_refcount tol pad_ok bs with Ok (c, tg) => accepted tg [VN c] | _ => rejected end.
Definition obs_fillvalue (pad_ok : bool) (bs : bytes) : val :=
  match spec_dec_fillvalue pad_ok bs with Ok f => accepted [] [VN (fv_version f); vbool (fv_defined f)] | _ => rejected end.
Definition obs_mtime (pad_ok : bool) (bs : bytes) : val :=
  match spec_dec_mtime pad_ok bs with Ok s => accepted [] [VN s] | _ => rejected end.
Definition obs_cont (osz lsz : nat) (pad_ok : bool) (bs : bytes) : val :=
  match spec_dec_continuation osz lsz pad_ok bs with Ok (a, l) => accepted [] [VN a; VN l] | _ => rejected end.

(* ---- level 1 structures *)
Definition obs_lheap (osz lsz : nat) (bs : bytes) : val :=
  match spec_dec_lheap osz lsz bs with
  | Ok (h, []) => accepted [] [VN (lh_size h); VN (lh_free h); VN (lh_addr h)]
  | _ => rejected
  end.
Definition obs_btree1 (tol : tolerance) (osz lsz : nat) (ntype : N) (nd : nat) (K : N) (bs : bytes) : val :=
  match spec_dec_btree1 tol osz lsz ntype nd K bs with
  | Ok (b, tg, []) => accepted tg [VN (b1_level b); VN (b1_n b); VN (b1_left b); VN (b1_right b);
                                   VL (map vlistN (b1_keys b)); vlistN (b1_children b)]
  | _ => rejected
  end.
Definition obs_snod (tol : tolerance) (osz : nat) (leafK : N) (bs : bytes) : val :=
  match spec_dec_snod tol osz leafK bs with
  | Ok (es, tg, []) => accepted tg [VL (map v_sym_entry es)]
  | _ => rejected
  end.
Definition obs_gcol (tol : tolerance) (lsz : nat) (bs : bytes) : val :=
  match spec_dec_gcol tol lsz bs with
  | Ok (size, objs, tg, []) => accepted tg [VN size; VL (map (fun o => VL [VN (go_index o); VB (go_data o)]) objs)]
  | _ => rejected
  end.
Definition obs_fheap (tol : tolerance) (osz lsz : nat) (bs : bytes) : val :=
  match spec_dec_fheap_hdr tol osz lsz bs with
  | Ok (h, tg, []) =>
      accepted tg [VN (fh_idlen h); VN (fh_filtlen h); VN (fh_flags h); VN (fh_maxobj h); VN (fh_nexthuge h); VN (fh_hugebt h);
                   VN (fh_free h); VN (fh_fsaddr h); VN (fh_mansize h); VN (fh_manalloc h); VN (fh_iter h); VN (fh_nman h);
                   VN (fh_hugesize h); VN (fh_nhuge h); VN (fh_tinysize h); VN (fh_ntiny h); VN (fh_width h); VN (fh_start h);
                   VN (fh_maxdirect h); VN (fh_maxheap h); VN (fh_startrows h); VN (fh_root h); VN (fh_currows h)]
  | _ => rejected
  end.
Definition obs_fhdb (tol : tolerance) (osz : nat) (ha : N) (offsz : nat) (hoff fl : N) (bs : bytes) : val :=
  match spec_dec_fhdb tol osz ha offsz hoff fl bs with Ok (pre, tg) => accepted tg [VN pre] | _ => rejected end.
Definition obs_bt2hdr (tol : tolerance) (osz lsz : nat) (bs : bytes) : val :=
  match spec_dec_bt2hdr tol osz lsz bs with
  | Ok (h, tg, []) => accepted tg [VN (b2_type h); VN (b2_nodesize h); VN (b2_recsize h); VN (b2_depth h); VN (b2_split h);
                                   VN (b2_merge h); VN (b2_root h); VN (b2_nroot h); VN (b2_total h)]
  | _ => rejected
  end.
Definition obs_bt2leaf (tol : tolerance) (btype : N) (nrec recsize : nat) (bs : bytes) : val :=
  match spec_dec_bt2leaf tol btype nrec recsize bs with Ok (recs, tg) => accepted tg [VL (map VB recs)] | _ => rejected end.

Definition cx (ctx : list N) (i : nat) : N := nth i ctx 0.
Definition cn (ctx : list N) (i : nat) : nat := N.to_nat (nth i ctx 0).
Definition cb (ctx : list N) (i : nat) : bool := negb (nth i ctx 0 =? 0).

(* kind codes: tools/props/c05spec.py KINDS *)
Definition obs (kind : N) (ctx : list N) (tol : tolerance) (bs : bytes) : val :=
  match kind with
  | 1 => obs_superblock tol bs
  | 2 => obs_ohdr1 bs
  | 3 => obs_ohdr1_cont bs
  | 4 => obs_ohdr2 tol bs
  | 5 => obs_dataspace (cn ctx 0) (cb ctx 1) bs
  | 6 => obs_datatype tol (cb ctx 0) bs
  | 7 => obs_layout (cn ctx 0) (cn ctx 1) bs
  | 8 => obs_pipeline tol bs
  | 9 => obs_attribute tol (cn ctx 0) (cb ctx 1) bs
  | 10 => obs_attrinfo (cn ctx 0) bs
  | 11 => obs_link tol (cn ctx 0) bs
  | 12 => obs_symtab (cn ctx 0) (cb ctx 1) bs
  | 13 => obs_refcount tol (cb ctx 0) bs
  | 14 => obs_fillvalue (cb ctx 0) bs
  | 15 => obs_lheap (cn ctx 0) (cn ctx 1) bs
  | 16 => obs_btree1 tol (cn ctx 0) (cn ctx 1) (cx ctx 2) (cn ctx 3) (cx ctx 4) bs
  | 17 => obs_snod tol (cn ctx 0) (cx ctx 1) bs
  | 18 => obs_gcol tol (cn ctx 0) bs
  | 19 => obs_fheap tol (cn ctx 0) (cn ctx 1) bs
  | 20 => obs_fhdb tol (cn ctx 0) (cx ctx 1) (cn ctx 2) (cx ctx 3) (cx ctx 4) bs
  | 21 => obs_bt2hdr tol (cn ctx 0) (cn ctx 1) bs
  | 22 => obs_bt2leaf tol (cx ctx 0) (cn ctx 1) (cn ctx 2) bs
  | 23 => obs_ochk tol (cb ctx 0) bs
  | 24 => obs_mtime (cb ctx 0) bs
  | 25 => obs_cont (cn ctx 0) (cn ctx 1) (cb ctx 2) bs
  | _ => VL [VN 2]
  end.

(* the expected value may name a slice of the structure's own bytes instead of repeating it:
   VL [VB []; VL []; VN off; VN len]  stands for  VB (bytes [off, off+len)) *)
Fixpoint resolve (bs : bytes) (v : val) : val :=
  match v with
  | VL [VB []; VL []; VN off; VN len] => VB (firstn (N.to_nat len) (skipn (N.to_nat off) bs))
  | VL l => VL (map (resolve bs) l)
  | x => x
  end.

Definition strict_expect (e : val) : val :=
  match e with
  | VL [VN 0; VL []; _] => e
  | _ => rejected
  end.

(* (kind, context, bytes as hex, expected tolerant observation) *)
Definition spec_case := (N * list N * string * val)%type.
Definition case_ok (c : spec_case) : bool :=
  match c with
  | (kind, ctx, hex, e) =>
      let bs := unhex hex in let e := resolve bs e in
      val_eqb (obs kind ctx tolerant bs) e && val_eqb (obs kind ctx strict bs) (strict_expect e)
  end.
(* 0 = good; 1 = tolerant differs; 2 = strict differs; 3 = both *)
Definition case_code (c : spec_case) : N :=
  match c with
  | (kind, ctx, hex, e) =>
      let bs := unhex hex in let e := resolve bs e in
      (if val_eqb (obs kind ctx tolerant bs) e then 0 else 1) +
      (if val_eqb (obs kind ctx strict bs) (strict_expect e) then 0 else 2)
  end.
