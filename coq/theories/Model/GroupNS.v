(* C03 - group / link namespace.  Executable transcription of the writer's namespace bookkeeping
   (group_write.go, link_write.go, dataset_write.go: CreateGroup, CreateDataset, CreateHardLink,
   CreateSoftLink, linkToParent, resolveObjectAddress, parsePath), of the two on-disk structures it
   edits (internal/structures/localheap.go, symboltable_node.go) and of the reader's walk
   (group.go: loadModernGroup / loadChildren / loadObject with the visitedBTrees guard).
   No proofs in this file (lemmas: Proofs/GroupNS*.v, theorems: Props/C03.v).

   Identities.  Every object header / group structure is allocated by exactly one API call, so the model
   uses the index of the call (clock) as its address.  Heap, symbol-table node and B-tree of a group
   are keyed by the id of the group's object header (each group owns exactly one of each). *)
From HV Require Import Base.Prelude.

Definition name := bytes.
Definition path := bytes.
Definition SL : N := 47.          (* '/' *)

Definition blen {A} (b : list A) : N := N.of_nat (length b).
Definition zeros (n : N) : bytes := repeat 0 (N.to_nat n).

(* ------------------------------------------------------------------ association lists *)
Fixpoint alookup {A} (k : N) (l : list (N * A)) : option A :=
  match l with [] => None | (k', v) :: r => if k' =? k then Some v else alookup k r end.
Fixpoint aset {A} (k : N) (v : A) (l : list (N * A)) : list (N * A) :=
  match l with
  | [] => [(k, v)]
  | (k', v') :: r => if k' =? k then (k, v) :: r else (k', v') :: aset k v r
  end.
(* Go map[string]T keyed by the raw path string *)
Fixpoint plookup {A} (p : path) (l : list (path * A)) : option A :=
  match l with [] => None | (p', v) :: r => if bytes_eqb p' p then Some v else plookup p r end.
Fixpoint pset {A} (p : path) (v : A) (l : list (path * A)) : list (path * A) :=
  match l with
  | [] => [(p, v)]
  | (p', v') :: r => if bytes_eqb p' p then (p, v) :: r else (p', v') :: pset p v r
  end.
Fixpoint nmem (k : N) (l : list N) : bool :=
  match l with [] => false | x :: r => (x =? k) || nmem k r end.

(* ================================================================== internal/structures/localheap.go *)

(* NewLocalHeap: minimum 16, rounded up to a multiple of 8 *)
Definition new_heap_size (n : N) : N :=
  let n1 := if n <? 16 then 16 else n in
  if n1 mod 8 =? 0 then n1 else (n1 / 8 + 1) * 8.

(* write-mode heap object: the private `strings` buffer and DataSegmentSize *)
Record wheap := { wh_strings : bytes; wh_dss : N }.

Definition new_local_heap (n : N) : wheap := {| wh_strings := []; wh_dss := new_heap_size n |}.

(* AddString: needed = len(s)+1; full iff len(strings)+needed > DataSegmentSize; offset = len(strings).
   (uint64 arithmetic on slice lengths: no wrap is possible for representable slices) *)
Definition add_string (h : wheap) (s : bytes) : option (N * wheap) :=
  let needed := blen s + 1 in
  let cur := blen (wh_strings h) in
  if wh_dss h <? cur + needed then None
  else Some (cur, {| wh_strings := wh_strings h ++ s ++ [0]; wh_dss := wh_dss h |}).

(* WriteTo: pads the strings buffer IN MEMORY to DataSegmentSize and writes it as the data segment.
   Returns the mutated heap object and the segment bytes that reach the file. *)
Definition write_to (h : wheap) : wheap * bytes :=
  let s := if blen (wh_strings h) <? wh_dss h
           then wh_strings h ++ zeros (wh_dss h - blen (wh_strings h)) else wh_strings h in
  ({| wh_strings := s; wh_dss := wh_dss h |}, s).

(* GetString on the loaded Data: error when offset >= len(Data) or no NUL follows *)
Fixpoint get_string_from (d : bytes) : option bytes :=
  match d with
  | [] => None
  | b :: r => if b =? 0 then Some [] else option_map (cons b) (get_string_from r)
  end.
Definition get_string (data : bytes) (off : N) : option bytes :=
  if blen data <=? off then None else get_string_from (skipn (N.to_nat off) data).

(* PrepareForModification, transcribed literally:
     usedSize := 0
     for i := len(Data)-1; i >= 0; i-- {
       if Data[i] != 0 { usedSize = i+1
                         for j := i+1; j < len(Data); j++ { if Data[j]==0 { usedSize = j+1; break } }
                         break } }
   prep_scan walks Data from the end: rd = reverse of Data[0..i), suffix = Data[i..). *)
Fixpoint find_zero_from (d : bytes) (j : N) : option N :=
  match d with [] => None | b :: r => if b =? 0 then Some j else find_zero_from r (j + 1) end.
Fixpoint prep_scan (rd suffix : bytes) : N :=
  match rd with
  | [] => 0
  | b :: r =>                                  (* b = Data[i], i = len r *)
      if b =? 0 then prep_scan r (b :: suffix)
      else let i := blen r in
           match find_zero_from suffix (i + 1) with Some j => j + 1 | None => i + 1 end
  end.
Definition used_size (data : bytes) : N := prep_scan (rev data) [].
(* LoadLocalHeap leaves DataSegmentSize = 0, so PrepareForModification sets it to len(Data) *)
Definition prepare_for_modification (data : bytes) : wheap :=
  {| wh_strings := firstn (N.to_nat (used_size data)) data; wh_dss := blen data |}.

(* ================================================================== internal/structures/symboltable_node.go *)
Record entry := { e_off : N; e_obj : N }.
Record wsnod := { sn_entries : list entry; sn_cap : N }.     (* NumSymbols = len(Entries) throughout *)

Definition new_snod (cap : N) : wsnod := {| sn_entries := []; sn_cap := cap |}.
(* AddEntry: full iff NumSymbols >= cap(Entries) *)
Definition add_entry (s : wsnod) (e : entry) : option wsnod :=
  if sn_cap s <=? blen (sn_entries s) then None
  else Some {| sn_entries := sn_entries s ++ [e]; sn_cap := sn_cap s |}.
(* WriteAt(maxEntries): entries i < maxEntries with i < NumSymbols reach the file *)
Definition snod_write_at (s : wsnod) (maxEntries : N) : list entry :=
  firstn (N.to_nat maxEntries) (sn_entries s).
(* ParseSymbolTableNode: capacity = 32, raised to NumSymbols when that is larger *)
Definition parse_snod (std_cap : N) (d : list entry) : wsnod :=
  {| sn_entries := d; sn_cap := N.max std_cap (blen d) |}.

(* ================================================================== paths (group_write.go, link_write.go) *)

Definition starts_with_slash (p : path) : bool := match p with b :: _ => b =? SL | [] => false end.
Definition is_slash_only (p : path) : bool := match p with [b] => b =? SL | _ => false end.

(* validateGroupPath: not empty, starts with '/', not "/" *)
Definition validate_group_path (p : path) : bool := starts_with_slash p && negb (is_slash_only p).
(* validateDatasetName: not empty, starts with '/' *)
Definition validate_dataset_name (p : path) : bool := starts_with_slash p.
Fixpoint contains_dslash (p : path) : bool :=
  match p with
  | a :: ((b :: _) as r) => ((a =? SL) && (b =? SL)) || contains_dslash r
  | _ => false
  end.
(* validateLinkPath: not empty, starts with '/', not "/", no "//" *)
Definition validate_link_path (p : path) : bool :=
  starts_with_slash p && negb (is_slash_only p) && negb (contains_dslash p).
(* validateSoftLinkTargetPath: not empty, starts with '/', no "//" *)
Definition validate_soft_target (p : path) : bool := starts_with_slash p && negb (contains_dslash p).

(* strings.TrimSuffix(path, "/") *)
Definition trim_suffix_slash (p : path) : path :=
  match rev p with b :: r => if b =? SL then rev r else p | [] => p end.
(* strings.LastIndex(path, "/") *)
Fixpoint last_slash_from (p : path) (i : N) (acc : option N) : option N :=
  match p with [] => acc | b :: r => last_slash_from r (i + 1) (if b =? SL then Some i else acc) end.
Definition last_index_slash (p : path) : option N := last_slash_from p 0 None.

(* parsePath.  LastIndex = -1 would make Go panic on path[:-1]; every caller has checked the leading
   '/', so the branch is unreachable (Proofs/GroupNSPath.v: parse_path_has_slash). *)
Definition parse_path (p : path) : path * name :=
  if is_slash_only p then ([], []) else
  let p1 := trim_suffix_slash p in
  match last_index_slash p1 with
  | None => ([], p1)
  | Some i => if i =? 0 then ([], skipn 1 p1)
              else (firstn (N.to_nat i) p1, skipn (N.to_nat i + 1) p1)
  end.
(* parent == "" || parent == "/" *)
Definition is_root_parent (parent : path) : bool := match parent with [] => true | _ => is_slash_only parent end.

(* ================================================================== writer state *)
Inductive kind := KGroup | KData | KSoft.
Definition kind_eqb (a b : kind) : bool :=
  match a, b with KGroup, KGroup | KData, KData | KSoft, KSoft => true | _, _ => false end.

Inductive err := EInvalidPath | ENoParent | EDup | EHeapFull | ESnodFull | ENoTarget | ETooLong | EIO.
Inductive result := Ok | Err (e : err).
Definition is_ok (r : result) : bool := match r with Ok => true | Err _ => false end.

Inductive op := MkGroup (p : path) | MkDataset (p : path) | HardLink (p q : path) | SoftLink (p q : path).

(* object header: kind (determineObjectType) and the RefCount message if one was ever added;
   ReadObjectHeader reports ReferenceCount = message value, or 1 without a message *)
Record obj := { o_kind : kind; o_rcmsg : option N }.
Definition refcount (o : obj) : N := match o_rcmsg o with Some v => v | None => 1 end.

Record wstate := {
  clock   : N;                          (* index of the current API call = address of what it allocates *)
  groups  : list (path * N);            (* fw.groups: raw path string -> group structures *)
  heaps   : list (N * bytes);           (* per group: data segment of its local heap, as on disk *)
  snods   : list (N * list entry);      (* per group: entries of its symbol table node, as on disk *)
  objects : list (N * obj)              (* object headers *)
}.

(* thresholds are parameters: Go uses NewLocalHeap(256), NewSymbolTableNode(32)/WriteAt(..,32,..),
   and a 255-byte header chunk which bounds len(name)+len(target) of a soft link by 244 *)
Record cfg := { heap_cap : N; snod_cap : N; soft_max : N;
  max_depth : N;            (* reader: maxGroupDepth, the number of objects that may be "being loaded" at once *)
  (* three candidate repairs (notes/fixes/*.patch), off in the tree as it is; the theorems hold for
     every value, the tie reads the values from the source (tools/props/c03unit.py: source_cfg) *)
  strict_names : bool;      (* linkToParent refuses empty names and names with a NUL byte *)
  canon_group_key : bool;   (* CreateGroup trims one trailing slash before parsing / registering *)
  rc_rollback_fix : bool;   (* writeV2RefCount also updates an existing RefCount message when the count is 1 *)
  cycle_is_error : bool;    (* reader: a link to an object that is being loaded is an error; false since
                               8c0b97a "list a hard link that closes a cycle instead of failing to open the file" *)
  check_first : bool        (* e5d916a: every creation runs checkLinkable (linkToParent without the two writes)
                               before it allocates or writes anything *)
}.
(* the tree before the repairs *)
Definition base_cfg : cfg := {| heap_cap := 256; snod_cap := 32; soft_max := 244; max_depth := 1024;
                                strict_names := false; canon_group_key := false; rc_rollback_fix := false; cycle_is_error := true; check_first := false |}.
(* /repo as it is now (all repairs in: 4d95b56, 28810bd, 1b1a681, 8c0b97a, e5d916a); the tie does not use
   this definition, it reads the switches from the source *)
Definition go_cfg : cfg := {| heap_cap := 256; snod_cap := 32; soft_max := 244; max_depth := 1024;
                              strict_names := true; canon_group_key := true; rc_rollback_fix := true; cycle_is_error := false; check_first := true |}.

(* heap-level well-formedness of a link name: non-empty, no NUL byte *)
Definition heap_name_ok (n : name) : bool :=
  negb (match n with [] => true | _ => false end) && forallb (fun b => negb (b =? 0)) n.

Definition set_heaps (w : wstate) h := {| clock := clock w; groups := groups w; heaps := h; snods := snods w; objects := objects w |}.
Definition set_snods (w : wstate) s := {| clock := clock w; groups := groups w; heaps := heaps w; snods := s; objects := objects w |}.
Definition set_objects (w : wstate) o := {| clock := clock w; groups := groups w; heaps := heaps w; snods := snods w; objects := o |}.
Definition set_groups (w : wstate) g := {| clock := clock w; groups := g; heaps := heaps w; snods := snods w; objects := objects w |}.
Definition tick (w : wstate) := {| clock := clock w + 1; groups := groups w; heaps := heaps w; snods := snods w; objects := objects w |}.

(* CreateForWrite: root group (id 0) with an empty heap and node *)
Definition init (c : cfg) : wstate :=
  {| clock := 1; groups := [];
     heaps := [(0, snd (write_to (new_local_heap (heap_cap c))))];
     snods := [(0, snod_write_at (new_snod (snod_cap c)) (snod_cap c))];
     objects := [(0, {| o_kind := KGroup; o_rcmsg := None |})] |}.

Definition parent_group (w : wstate) (parent : path) : option N :=
  if is_root_parent parent then Some 0 else plookup parent (groups w).

(* does some entry of the node carry this name?  (GetString errors are skipped, as in Go) *)
Definition name_of (seg : bytes) (e : entry) : option name := get_string seg (e_off e).
Definition entry_has_name (seg : bytes) (nm : name) (e : entry) : bool :=
  match name_of seg e with Some s => bytes_eqb s nm | None => false end.

(* linkToParent: parent lookup; read heap (+PrepareForModification); read SNOD; duplicate check;
   AddString (in memory); AddEntry (in memory); heap.WriteTo; stNode.WriteAt.
   Nothing reaches the file before both in-memory insertions have succeeded. *)
Definition link_to_parent (c : cfg) (w : wstate) (parent : path) (nm : name) (child : N) : wstate * result :=
  if strict_names c && negb (heap_name_ok nm) then (w, Err EInvalidPath) else
  match parent_group w parent with
  | None => (w, Err ENoParent)
  | Some g =>
    match alookup g (heaps w), alookup g (snods w) with
    | Some seg, Some ents =>
        let heap := prepare_for_modification seg in
        let node := parse_snod (snod_cap c) ents in
        if existsb (entry_has_name seg nm) (sn_entries node) then (w, Err EDup) else
        match add_string heap nm with
        | None => (w, Err EHeapFull)
        | Some (off, heap1) =>
          match add_entry node {| e_off := off; e_obj := child |} with
          | None => (w, Err ESnodFull)
          | Some node1 =>
              let w1 := set_heaps w (aset g (snd (write_to heap1)) (heaps w)) in
              let w2 := set_snods w1 (aset g (snod_write_at node1 (snod_cap c)) (snods w1)) in
              (w2, Ok)
          end
        end
    | _, _ => (w, Err EIO)
    end
  end.

(* checkLinkable: prepareLink alone (the error linkToParent would return), nothing is written *)
Definition precheck (c : cfg) (w : wstate) (parent : path) (nm : name) : option err :=
  if check_first c then
    match snd (link_to_parent c w parent nm 0) with Err e => Some e | Ok => None end
  else None.

(* the parent check that CreateGroup / CreateHardLink / CreateSoftLink make before anything else *)
Definition parent_registered (w : wstate) (parent : path) : bool :=
  is_root_parent parent || match plookup parent (groups w) with Some _ => true | None => false end.

(* CreateGroup: validate; parsePath; parent check; checkLinkable; createGroupStructures (heap, SNOD, B-tree written
   at fresh addresses) and the object header; linkToParent; only then fw.groups[path] (raw path!). *)
Definition create_group (c : cfg) (w : wstate) (p0 : path) : wstate * result :=
  if negb (validate_group_path p0) then (w, Err EInvalidPath) else
  let p := if canon_group_key c then trim_suffix_slash p0 else p0 in
  let '(parent, nm) := parse_path p in
  if negb (parent_registered w parent) then (w, Err ENoParent) else
  match precheck c w parent nm with Some e => (w, Err e) | None =>
  let id := clock w in
  let w1 := set_heaps w (aset id (snd (write_to (new_local_heap (heap_cap c)))) (heaps w)) in
  let w2 := set_snods w1 (aset id (snod_write_at (new_snod (snod_cap c)) (snod_cap c)) (snods w1)) in
  let w3 := set_objects w2 (aset id {| o_kind := KGroup; o_rcmsg := None |} (objects w2)) in
  match link_to_parent c w3 parent nm id with
  | (w4, Ok) => (set_groups w4 (pset p id (groups w4)), Ok)
  | (w4, Err e) => (w4, Err e)
  end end.

(* CreateDataset (dtype/dims valid): validateDatasetName; data + object header allocated and written;
   parsePath; linkToParent (which is where a missing parent is detected) *)
Definition create_dataset (c : cfg) (w : wstate) (p : path) : wstate * result :=
  if negb (validate_dataset_name p) then (w, Err EInvalidPath) else
  let '(parent, nm) := parse_path p in
  match precheck c w parent nm with Some e => (w, Err e) | None =>
  let id := clock w in
  let w1 := set_objects w (aset id {| o_kind := KData; o_rcmsg := None |} (objects w)) in
  link_to_parent c w1 parent nm id end.

(* resolveObjectAddress *)
Definition resolve_object_address (w : wstate) (q : path) : option N :=
  if is_slash_only q then Some 0 else
  if negb (starts_with_slash q) then None else
  let '(parent, nm) := parse_path q in
  match parent_group w parent with
  | None => None
  | Some g =>
    match alookup g (snods w), alookup g (heaps w) with
    | Some ents, Some seg =>
        match find (entry_has_name seg nm) ents with Some e => Some (e_obj e) | None => None end
    | _, _ => None
    end
  end.

(* writeV2RefCount: the RefCount message is added/updated only when ReferenceCount > 1;
   otherwise the header is rewritten with whatever messages it has *)
Definition write_refcount (c : cfg) (o : obj) (rc : N) : obj :=
  {| o_kind := o_kind o;
     o_rcmsg := if (1 <? rc) || (rc_rollback_fix c && match o_rcmsg o with Some _ => true | None => false end)
                then Some rc else o_rcmsg o |}.

(* CreateHardLink: validate both paths; parent check; resolve target; ReferenceCount++ written to the
   target header; linkToParent; on failure ReferenceCount-- and the header is written again *)
Definition create_hard_link (c : cfg) (w : wstate) (p q : path) : wstate * result :=
  if negb (validate_link_path p) then (w, Err EInvalidPath) else
  if negb (validate_link_path q) then (w, Err EInvalidPath) else
  let '(parent, nm) := parse_path p in
  if negb (parent_registered w parent) then (w, Err ENoParent) else
  match resolve_object_address w q with
  | None => (w, Err ENoTarget)
  | Some t =>
    match alookup t (objects w) with
    | None => (w, Err EIO)
    | Some o =>
        match precheck c w parent nm with Some e => (w, Err e) | None =>
        let rc1 := wrap32 (refcount o + 1) in
        let o1 := write_refcount c o rc1 in
        let w1 := set_objects w (aset t o1 (objects w)) in
        match link_to_parent c w1 parent nm t with
        | (w2, Ok) => (w2, Ok)
        | (w2, Err e) =>
            let rc2 := if 0 <? rc1 then rc1 - 1 else rc1 in
            (set_objects w2 (aset t (write_refcount c o1 rc2) (objects w2)), Err e)
        end end
    end
  end.

(* CreateSoftLink: validate; parent check; the link message must fit the 255-byte header chunk
   (4 + 2+1+1+1+len(name)+2+len(target) <= 255); header allocated and written; linkToParent.
   CreateExternalLink is identical as far as the namespace is concerned. *)
Definition create_soft_link (c : cfg) (w : wstate) (p q : path) : wstate * result :=
  if negb (validate_link_path p) then (w, Err EInvalidPath) else
  if negb (validate_soft_target q) then (w, Err EInvalidPath) else
  let '(parent, nm) := parse_path p in
  if negb (parent_registered w parent) then (w, Err ENoParent) else
  if soft_max c <? blen nm + blen q then (w, Err ETooLong) else
  match precheck c w parent nm with Some e => (w, Err e) | None =>
  let id := clock w in
  let w1 := set_objects w (aset id {| o_kind := KSoft; o_rcmsg := None |} (objects w)) in
  link_to_parent c w1 parent nm id end.

Definition step_body (c : cfg) (w : wstate) (o : op) : wstate * result :=
  match o with
  | MkGroup p => create_group c w p
  | MkDataset p => create_dataset c w p
  | HardLink p q => create_hard_link c w p q
  | SoftLink p q => create_soft_link c w p q
  end.
Definition step (c : cfg) (w : wstate) (o : op) : wstate * result :=
  let '(w', r) := step_body c w o in (tick w', r).

Fixpoint run {S O R} (f : S -> O -> S * R) (s : S) (h : list O) : S * list R :=
  match h with
  | [] => (s, [])
  | o :: r => let '(s1, x) := f s o in let '(s2, xs) := run f s1 r in (s2, x :: xs)
  end.

(* ================================================================== reader (group.go) *)
Inductive tree := TNode (id : N) (k : kind) (ch : list (name * tree)).

Section Kids.
  Variable rec : list N -> N -> option (tree * list N).
  (* loadChildren's loop over the node's entries, the visited set threaded through *)
  Fixpoint kids (seg : bytes) (ents : list entry) (vis : list N) : option (list (name * tree) * list N) :=
    match ents with
    | [] => Some ([], vis)
    | e :: r =>
      match get_string seg (e_off e) with
      | None => None                                   (* "link name read failed": Open fails *)
      | Some nm =>
        match rec vis (e_obj e) with
        | None => None                                 (* "child load failed" *)
        | Some (t, vis1) =>
          match kids seg r vis1 with
          | None => None
          | Some (ts, vis2) => Some ((nm, t) :: ts, vis2)
          end
        end
      end
    end.
End Kids.

(* loadModernGroup / loadChildren for one group.  A group whose B-tree was already visited gets no
   children (visitedBTrees is never cleared). *)
Definition load_group (rec : list N -> N -> option (tree * list N)) (w : wstate) (vis : list N) (id : N)
  : option (tree * list N) :=
  if nmem id vis then Some (TNode id KGroup [], vis) else
  match alookup id (heaps w), alookup id (snods w) with
  | Some seg, Some ents =>
    match kids rec seg ents (vis ++ [id]) with
    | None => None
    | Some (ts, vis') => Some (TNode id KGroup ts, vis')
    end
  | _, _ => None
  end.

(* loadObject.  enterLoad first: an object that is currently being loaded (one of its own ancestors) is
   an error, and so is nesting beyond maxGroupDepth; both errors propagate through loadChildren
   ("child load failed") and make Open fail.  A soft/external link object is an object header with one
   Link message: determineObjectType calls it a group, loadModernGroup finds a link message, skips it
   and never looks at a symbol table, so it appears as an empty group.
   anc = the objects being loaded (File.loading); the root group is loaded by loadGroup directly and
   is not among them. *)
Fixpoint load_object (fuel : nat) (c : cfg) (w : wstate) (anc : list N) (vis : list N) (id : N)
  : option (tree * list N) :=
  match fuel with
  | O => None
  | S f =>
    if nmem id anc then (if cycle_is_error c then None else Some (TNode id KGroup [], vis)) else
    if max_depth c <=? blen anc then None else
    match alookup id (objects w) with
    | None => None
    | Some o =>
      match o_kind o with
      | KData => Some (TNode id KData [], vis)
      | KSoft => Some (TNode id KGroup [], vis)
      | KGroup => load_group (load_object f c w (id :: anc)) w vis id
      end
    end
  end.

(* Open: the root group.  fuel: every level of nesting is a group created by its own API call *)
Definition read_tree (c : cfg) (w : wstate) : option tree :=
  option_map fst (load_group (load_object (N.to_nat (clock w)) c w []) w [] 0).

(* ================================================================== specification *)
(* The obvious tree: every group is an association list name -> child; children are referred to by
   object identity so that a hard link is the same child under a second name. *)
Inductive snode := SG (ch : list (name * N)) | SD | SS (target : path).
Record stree := { s_clock : N; s_nodes : list (N * snode) }.
Definition s_empty : stree := {| s_clock := 1; s_nodes := [(0, SG [])] |}.

Fixpoint clookup (n : name) (ch : list (name * N)) : option N :=
  match ch with [] => None | (n', c) :: r => if bytes_eqb n' n then Some c else clookup n r end.

(* path syntax of the specification: "/" or '/' name ('/' name)*, names non-empty, no NUL, no '/' *)
Definition name_ok (n : name) : bool :=
  negb (match n with [] => true | _ => false end) && forallb (fun b => negb (b =? 0) && negb (b =? SL)) n.
Fixpoint split_slash (p : bytes) : list bytes :=
  match p with
  | [] => [[]]
  | b :: r => if b =? SL then [] :: split_slash r
              else match split_slash r with c :: cs => (b :: c) :: cs | [] => [[b]] end
  end.
Definition split_path (p : path) : option (list name) :=
  match p with
  | b :: r => if b =? SL then
                match r with [] => Some []
                | _ => let cs := split_slash r in if forallb name_ok cs then Some cs else None end
              else None
  | [] => None
  end.
Fixpoint render (cs : list name) : path :=
  match cs with [] => [] | n :: r => SL :: n ++ render r end.

Fixpoint sresolve (t : list (N * snode)) (g : N) (cs : list name) : option N :=
  match cs with
  | [] => Some g
  | n :: r =>
    match alookup g t with
    | Some (SG ch) => match clookup n ch with Some c => sresolve t c r | None => None end
    | _ => None
    end
  end.

Fixpoint names_size (ch : list (name * N)) : N :=
  match ch with [] => 0 | (n, _) :: r => blen n + 1 + names_size r end.

Fixpoint unsnoc {A} (l : list A) : option (list A * A) :=
  match l with
  | [] => None
  | x :: r => match unsnoc r with None => Some ([], x) | Some (i, y) => Some (x :: i, y) end
  end.

(* insert child under the group named by the parent components; the per-group capacity rule is part
   of the specification: at most snod_cap names, sum of (len+1) at most the heap size *)
Definition s_link (c : cfg) (nodes : list (N * snode)) (cs : list name) (child : N) : option (list (N * snode)) * result :=
  match unsnoc cs with
  | None => (None, Err EInvalidPath)
  | Some (pcs, n) =>
    match sresolve nodes 0 pcs with
    | None => (None, Err ENoParent)
    | Some g =>
      match alookup g nodes with
      | Some (SG ch) =>
          match clookup n ch with
          | Some _ => (None, Err EDup)
          | None =>
            if new_heap_size (heap_cap c) <? names_size ch + blen n + 1 then (None, Err EHeapFull)
            else if snod_cap c <=? blen ch then (None, Err ESnodFull)
            else (Some (aset g (SG (ch ++ [(n, child)])) nodes), Ok)
          end
      | _ => (None, Err ENoParent)
      end
    end
  end.

Definition s_tick (t : stree) (nodes : list (N * snode)) : stree := {| s_clock := s_clock t + 1; s_nodes := nodes |}.

Definition s_create (c : cfg) (t : stree) (p : path) (nd : snode) : stree * result :=
  match split_path p with
  | None => (s_tick t (s_nodes t), Err EInvalidPath)
  | Some cs =>
    match s_link c (s_nodes t) cs (s_clock t) with
    | (Some nodes, r) => (s_tick t (aset (s_clock t) nd nodes), r)
    | (None, r) => (s_tick t (s_nodes t), r)
    end
  end.

Definition spec_step (c : cfg) (t : stree) (o : op) : stree * result :=
  match o with
  | MkGroup p => s_create c t p (SG [])
  | MkDataset p => s_create c t p SD
  | SoftLink p q =>
      if negb (validate_soft_target q) then (s_tick t (s_nodes t), Err EInvalidPath) else
      match split_path p with
      | Some cs =>
        match unsnoc cs with
        | Some (_, n) => if soft_max c <? blen n + blen q then (s_tick t (s_nodes t), Err ETooLong)
                         else s_create c t p (SS q)
        | None => (s_tick t (s_nodes t), Err EInvalidPath)
        end
      | None => (s_tick t (s_nodes t), Err EInvalidPath)
      end
  | HardLink p q =>
      match split_path p, split_path q with
      | Some cs, Some qcs =>
        match sresolve (s_nodes t) 0 qcs with
        | None => (s_tick t (s_nodes t), Err ENoTarget)
        | Some tgt =>
          match s_link c (s_nodes t) cs tgt with
          | (Some nodes, r) => (s_tick t nodes, r)
          | (None, r) => (s_tick t (s_nodes t), r)
          end
        end
      | _, _ => (s_tick t (s_nodes t), Err EInvalidPath)
      end
  end.

(* the tree a reader must show.  soft_as = KSoft: the specification; soft_as = KGroup: what this
   reader makes of a soft link object (see load_object) *)
Section Unfold.
  Variable soft_as : kind.
  Section UMap.
    Variable rec : N -> option tree.
    Fixpoint umap (ch : list (name * N)) : option (list (name * tree)) :=
      match ch with
      | [] => Some []
      | (n, c) :: r =>
        match rec c with
        | None => None
        | Some t => match umap r with None => None | Some ts => Some ((n, t) :: ts) end
        end
      end.
  End UMap.
  Fixpoint unfold (fuel : nat) (t : list (N * snode)) (id : N) : option tree :=
    match fuel with
    | O => None
    | S f =>
      match alookup id t with
      | None => None
      | Some SD => Some (TNode id KData [])
      | Some (SS _) => Some (TNode id soft_as [])
      | Some (SG ch) =>
        match umap (unfold f t) ch with None => None | Some ts => Some (TNode id KGroup ts) end
      end
    end.
End Unfold.
Definition spec_tree_as (soft_as : kind) (t : stree) : option tree :=
  unfold soft_as (S (N.to_nat (s_clock t))) (s_nodes t) 0.
Definition spec_tree : stree -> option tree := spec_tree_as KSoft.

(* ================================================================== admissible histories *)
(* Named exclusions of the refinement theorem (each has a _refuted witness in Props/C03.v):
   path_ok        - the path is in the specification's syntax (Go also accepts "//", "/a/", "/" for a
                    dataset, names with NUL bytes ... and then corrupts or hides names)
   target_is_data - a hard link's target is a dataset (a group reachable through two paths is listed
                    with its children only once; fw.groups does not know the second path) *)
Definition path_ok (p : path) : bool :=
  match split_path p with Some (_ :: _) => true | _ => false end.
Definition skind (nd : snode) : kind := match nd with SG _ => KGroup | SD => KData | SS _ => KSoft end.
Definition target_is_data (t : stree) (q : path) : bool :=
  match split_path q with
  | Some qcs => match sresolve (s_nodes t) 0 qcs with
                | Some id => match alookup id (s_nodes t) with Some SD => true | _ => false end
                | None => true      (* no such target: both sides reject *)
                end
  | None => false
  end.
Definition adm_op (t : stree) (o : op) : bool :=
  match o with
  | MkGroup p | MkDataset p => path_ok p
  | SoftLink p q => path_ok p
  | HardLink p q => path_ok p && path_ok q && target_is_data t q
  end.
Fixpoint adm (c : cfg) (t : stree) (h : list op) : bool :=
  match h with [] => true | o :: r => adm_op t o && adm c (fst (spec_step c t o)) r end.
Definition no_soft (h : list op) : bool :=
  forallb (fun o => match o with SoftLink _ _ => false | _ => true end) h.

(* the path an operation parses (CreateGroup may trim a trailing slash first) and the name under
   which it links (what linkToParent receives) *)
Definition op_path_eff (c : cfg) (o : op) : path :=
  match o with
  | MkGroup p => if canon_group_key c then trim_suffix_slash p else p
  | MkDataset p | HardLink p _ | SoftLink p _ => p
  end.
Definition op_link_name (c : cfg) (o : op) : name := snd (parse_path (op_path_eff c o)).
(* heap-level exclusion: the linked name is non-empty and has no NUL byte (heap_name_ok above);
   not needed when linkToParent checks it itself (strict_names) *)
Definition names_ok (c : cfg) (h : list op) : bool :=
  strict_names c || forallb (fun o => heap_name_ok (op_link_name c o)) h.

(* every group's entry names (as the reader decodes them), for C03_no_dup *)
Definition group_names (w : wstate) (g : N) : option (list (option name)) :=
  match alookup g (heaps w), alookup g (snods w) with
  | Some seg, Some ents => Some (map (name_of seg) ents)
  | _, _ => None
  end.
