(* C03 end to end: the byte image of the file that

     fw := CreateForWrite(file, CreateTruncate)            (superblock version 2: dataset_write.go:674)
     <a history of CreateGroup / CreateDataset(+Write) / CreateHardLink calls, failing calls included>
     fw.Close()                                            (dataset_write.go:2338)

   leaves behind, as a fold of a BYTE-LEVEL step function over the file.  The writer's allocator (internal/writer/allocator.go:118)
   is a bump allocator without alignment: Allocate(n) returns the current end and moves it by n, so "allocate" is "append at the
   end"; the model keeps the file zero-extended to the allocator's end (the reserves that are never written read as zeros once
   Close has extended the file, dataset_write.go:2368).

     CreateGroup   (group_write.go:191)  validate, TrimSuffix, parsePath, parent check, checkLinkable; then appends
                                         local heap 32+256 | symbol table node 8+32*40 | group B-tree node 544 |
                                         object header v2 (symbol table message) in a block of 7+255 bytes,
                                         and rewrites IN PLACE the parent's heap and node (linkToParent :309);
     CreateDataset (dataset_write.go:868) contiguous layout, basic registry datatype: checkLinkable; appends the raw data |
                                         object header v2 (datatype, dataspace, layout) in a block of 7+255 bytes; linkToParent;
                                         the data are what Write puts at the data address (precondition: |data| = the data size);
     CreateHardLink (link_write.go:54)   validate, parent check, resolveObjectAddress (group_write.go:526), ReadObjectHeader of the
                                         target, checkLinkable, reference count + 1 in a RefCount message (writeV2RefCount :167),
                                         header rewritten in place, linkToParent.

   The two halves of linkToParent are Model/GroupWire.v link_heap / link_snod (byte-level readers and writers of the local heap
   and the symbol table node).  Every refused call returns false and leaves the file as it is (since e5d916a every creation
   runs checkLinkable before it allocates).
   Compared byte for byte with the library's files on every run: tools/props/c03file.py.
   No proofs here (Proofs/TreeImage*.v; theorems Props/C03File.v). *)
From HV Require Import Base.Prelude Base.Outcome Base.Bytes Model.RobustAlloc Model.RobustGroup.
From HV Require Import Model.CodecSuper Model.CodecOhdr Model.CodecMsg Model.CodecType Model.CodecLink Model.GroupWire Model.FileImage.
From HV Require Model.GroupNS.
Module NS := HV.Model.GroupNS.

(* ------------------------------------------------------------------ histories *)
Inductive top :=
| TGroup (p : bytes)                                             (* CreateGroup(p) *)
| TDataset (p : bytes) (code : N) (dims : list N) (data : bytes)  (* CreateDataset(p, dtype code, dims); Write(data) *)
| THardLink (p q : bytes).                                       (* CreateHardLink(p, q) *)

(* fw.groups: raw path -> (heapAddr, stNodeAddr); the B-tree address is never used again *)
Record tstate := { t_file : bytes; t_groups : list (bytes * (N * N)) }.

(* ------------------------------------------------------------------ the blocks a creation appends *)
Definition sb_eof (eof : N) : superblock :=
  {| sp_version := 2; sp_offsize := 8; sp_lensize := 8; sp_base := 0; sp_root := ROOT_ADDR; sp_superext := 0;
     sp_rootbtree := BTREE_ADDR; sp_rootheap := HEAP_ADDR; sp_eof := eof |}.

(* NewSymbolTableNode(32).WriteAt(.., 32): the empty node *)
Definition new_snod_block : bytes := match snod_write_at (new_snode SNOD_CAP) 8 SNOD_CAP with Ok b => b | _ => [] end.
(* NewBTreeNodeV1(0, 16); AddKey(0, stNodeAddr); WriteAt *)
Definition bt_block (stAddr : N) : bytes :=
  match add_key (new_btnode 0 GROUP_K) 0 stAddr with Ok b => bt_write_at b 8 GROUP_K | _ => [] end.
(* the object header of a symbol-table group *)
Definition group_ohdr (bt hp : N) : ohdr :=
  {| oh_version := 2; oh_flags := 0; oh_refcount := 1;
     oh_msgs := [ {| hm_type := 17; hm_data := enc_symtab 8 {| st_btree := bt; st_heap := hp |} |} ] |}.
(* a header at the start of its reserved block of maxObjectHeaderV2Size = 7 + 255 bytes *)
Definition ohdr_block (x : ohdr) : bytes := enc_ohdr_v2 x ++ zeros (N.to_nat (OHDR_RESERVE - size_ohdr_v2 x)).

Definition HEAP_SIZE : N := heap_size (new_local_heap HEAP_INIT).     (* 288 *)
Definition SNOD_SIZE : N := snod_alloc_size 8.                        (* 1288 *)
Definition BT_SIZE : N := btree_alloc_size 8.                         (* 544 *)

(* createGroupStructures + the header: (file, heapAddr, stNodeAddr, btreeAddr, headerAddr) *)
Definition alloc_group (f : bytes) : bytes * N * N * N * N :=
  let ha := blen f in
  let sa := ha + HEAP_SIZE in
  let ba := sa + SNOD_SIZE in
  let oa := ba + BT_SIZE in
  (f ++ heap_image (new_local_heap HEAP_INIT) ha ++ new_snod_block ++ bt_block sa ++ ohdr_block (group_ohdr ba ha), ha, sa, ba, oa).

(* CreateDataset: datatype, dataspace, contiguous layout at the data address *)
Definition dset_ohdr_at (class size cbf : N) (dims : list N) (da : N) : ohdr :=
  {| oh_version := 2; oh_flags := 0; oh_refcount := 1;
     oh_msgs := [ {| hm_type := 3; hm_data := enc_datatype (dtype_msg class size cbf) |};
                  {| hm_type := 1; hm_data := enc_dataspace {| ds_dims := dims; ds_maxdims := [] |} |};
                  {| hm_type := 8; hm_data := enc_layout SBP (LContig (data_size size dims) da) |} ] |}.
(* (file, header address) *)
Definition alloc_dataset (f : bytes) (code : N) (dims : list N) (data : bytes) : bytes * N :=
  let '(class, size, cbf) := dtype_of_code code in
  let da := blen f in
  let oa := da + blen data in
  (f ++ data ++ ohdr_block (dset_ohdr_at class size cbf dims da), oa).

(* CreateForWrite: superblock (its end-of-file field is rewritten by Close), the root group's structures, the root header in a
   block of exactly its size *)
Definition init_file : bytes :=
  enc_superblock (sb_eof 0) ++ heap_image (new_local_heap HEAP_INIT) HEAP_ADDR ++ new_snod_block ++ bt_block SNOD_ADDR
  ++ enc_ohdr_v2 root_ohdr.
Definition t_init : tstate := {| t_file := init_file; t_groups := [] |}.

(* ------------------------------------------------------------------ linkToParent *)
Definition parent_addrs (st : tstate) (parent : bytes) : option (N * N) :=
  if NS.is_root_parent parent then Some (HEAP_ADDR, SNOD_ADDR) else NS.plookup parent (t_groups st).
Definition parent_registered (st : tstate) (parent : bytes) : bool :=
  NS.is_root_parent parent || match NS.plookup parent (t_groups st) with Some _ => true | None => false end.

Definition new_sym (off child : N) : sym := {| sy_name := off; sy_obj := child; sy_cache := 0; sy_res := 0; sy_bt := 0; sy_heap := 0 |}.
Definition sym_has_name (data nm : bytes) (e : sym) : bool :=
  match get_string data (sy_name e) with Ok x => bytes_eqb x nm | _ => false end.

(* prepareLink (group_write.go:341): name check, parent lookup, readLocalHeap, readSymbolTableNode, duplicate check, AddString and
   AddEntry on the in-memory copies.  Nothing is written.  Returns the parent's heap and node address. *)
Definition prepare_link (st : tstate) (parent nm : bytes) (child : N) : outcome (N * N) :=
  if negb (NS.heap_name_ok nm) then Err else
  match parent_addrs st parent with
  | None => Err
  | Some (ha, sa) =>
      data <- load_local_heap (t_file st) ha 8 8;;
      s <- parse_snod (t_file st) sa 8;;
      if existsb (sym_has_name data nm) (stn_entries s) then Err else
      ' (off, _) <- add_string (prepare_for_modification data) nm;;
      _ <- add_entry s (new_sym off child);;
      Ok (ha, sa)
  end.

(* linkToParent (group_write.go:309): prepareLink, heap.WriteTo, stNode.WriteAt, both at the addresses they were read from *)
Definition link_to_parent (st : tstate) (parent nm : bytes) (child : N) : outcome bytes :=
  ' (ha, sa) <- prepare_link st parent nm child;;
  ' (off, f1) <- link_heap (t_file st) ha nm;;
  link_snod f1 sa (new_sym off child).

Definition with_file (st : tstate) (f : bytes) : tstate := {| t_file := f; t_groups := t_groups st |}.

(* ------------------------------------------------------------------ the three calls *)
Definition t_create_group (st : tstate) (p0 : bytes) : tstate * bool :=
  if negb (NS.validate_group_path p0) then (st, false) else
  let p := NS.trim_suffix_slash p0 in
  let '(parent, nm) := NS.parse_path p in
  if negb (parent_registered st parent) then (st, false) else
  match prepare_link st parent nm 0 with
  | Ok _ =>
      let '(f1, ha, sa, _, oa) := alloc_group (t_file st) in
      match link_to_parent (with_file st f1) parent nm oa with
      | Ok f2 => ({| t_file := f2; t_groups := NS.pset p (ha, sa) (t_groups st) |}, true)
      | _ => (with_file st f1, false)
      end
  | _ => (st, false)
  end.

Definition t_create_dataset (st : tstate) (p : bytes) (code : N) (dims : list N) (data : bytes) : tstate * bool :=
  if negb (NS.validate_dataset_name p) then (st, false) else
  let '(parent, nm) := NS.parse_path p in
  match prepare_link st parent nm 0 with
  | Ok _ =>
      let '(f1, oa) := alloc_dataset (t_file st) code dims data in
      match link_to_parent (with_file st f1) parent nm oa with
      | Ok f2 => (with_file st f2, true)
      | _ => (with_file st f1, false)
      end
  | _ => (st, false)
  end.

(* resolveObjectAddress (group_write.go:526) for a validated link path (not "/") *)
Definition resolve_addr (st : tstate) (q : bytes) : outcome N :=
  let '(parent, nm) := NS.parse_path q in
  match parent_addrs st parent with
  | None => Err
  | Some (ha, sa) =>
      s <- parse_snod (t_file st) sa 8;;
      data <- load_local_heap (t_file st) ha 8 8;;
      match find (sym_has_name data nm) (stn_entries s) with Some e => Ok (sy_obj e) | None => Err end
  end.

(* ensureRefCountMessage (link_write.go:197): the first RefCount message with at least 4 bytes is updated in place, otherwise
   one is appended through AddMessageToObjectHeader (refused above 255 message bytes) *)
Fixpoint update_rc (ms : list hmsg) (rc : N) : option (list hmsg) :=
  match ms with
  | [] => None
  | m :: r => if (hm_type m =? MSG_REFCOUNT) && (4 <=? blen (hm_data m))
              then Some ({| hm_type := hm_type m; hm_data := le 4 rc ++ skipn 4 (hm_data m) |} :: r)
              else option_map (cons m) (update_rc r rc)
  end.
Definition ensure_rc (ms : list hmsg) (rc : N) : outcome (list hmsg) :=
  match update_rc ms rc with
  | Some ms' => Ok ms'
  | None => if 255 <? chunk_size_v2 ms + 8 then Err else Ok (ms ++ [ {| hm_type := MSG_REFCOUNT; hm_data := le 4 rc |} ])
  end.
Definition has_rc (ms : list hmsg) : bool := existsb (fun m => (hm_type m =? MSG_REFCOUNT) && (4 <=? blen (hm_data m))) ms.
Definition unproj_msgs (ms : list hmsg') : list hmsg := map (fun m => {| hm_type := hmp_type m; hm_data := hmp_data m |}) ms.

(* IncrementReferenceCount; writeObjectHeaderWithRefCount (version 2 only; the writer creates nothing else):
   the bytes written at the target's address *)
Definition rc_header (h : ohdr') : outcome bytes :=
  if negb (ohp_version h =? 2) then Err else
  let rc := wrap32 (ohp_refcount h + 1) in
  let ms := unproj_msgs (ohp_msgs h) in
  ms' <- (if (1 <? rc) || has_rc ms then ensure_rc ms rc else Ok ms);;
  let x := {| oh_version := 2; oh_flags := ohp_flags h; oh_refcount := rc; oh_msgs := ms' |} in
  if negb (encok_ohdr_v2 x) then Err else Ok (enc_ohdr_v2 x).

Definition t_hard_link (st : tstate) (p q : bytes) : tstate * bool :=
  if negb (NS.validate_link_path p) || negb (NS.validate_link_path q) then (st, false) else
  let '(parent, nm) := NS.parse_path p in
  if negb (parent_registered st parent) then (st, false) else
  match (t <- resolve_addr st q;; h <- dec_ohdr false (t_file st) t;; _ <- prepare_link st parent nm 0;;
         b <- rc_header h;; Ok (t, b)) with
  | Ok (t, b) =>
      let f1 := write_at (t_file st) t b in
      match link_to_parent (with_file st f1) parent nm t with
      | Ok f2 => (with_file st f2, true)
      | _ => (with_file st f1, false)       (* the roll-back of the count is not modelled: unreachable after checkLinkable *)
      end
  | _ => (st, false)
  end.

Definition t_step (st : tstate) (o : top) : tstate * bool :=
  match o with
  | TGroup p => t_create_group st p
  | TDataset p code dims data => t_create_dataset st p code dims data
  | THardLink p q => t_hard_link st p q
  end.

Fixpoint t_run (st : tstate) (h : list top) : tstate * list bool :=
  match h with
  | [] => (st, [])
  | o :: r => let '(st1, x) := t_step st o in let '(st2, xs) := t_run st1 r in (st2, x :: xs)
  end.

(* Close: UpdateEndOfFile rewrites the superblock (48 bytes at 0) with the allocator's end, which is the length of the file *)
Definition t_close (f : bytes) : bytes := enc_superblock (sb_eof (blen f)) ++ skipn 48 f.

Definition tree_run (h : list top) : tstate * list bool := t_run t_init h.
Definition tree_image (h : list top) : bytes := t_close (t_file (fst (tree_run h))).
Definition tree_oks (h : list top) : list bool := snd (tree_run h).

(* the projection to the abstract namespace model's histories *)
Definition ns_op (o : top) : NS.op :=
  match o with
  | TGroup p => NS.MkGroup p
  | TDataset p _ _ _ => NS.MkDataset p
  | THardLink p q => NS.HardLink p q
  end.

(* the arguments of a dataset call the model covers: a basic registry type, rank 1..24 with extents > 0, exactly the data *)
Definition ds_args_ok (code : N) (dims : list N) (data : bytes) : bool :=
  let '(class, size, cbf) := dtype_of_code code in
  dims_ok dims && (blen data =? data_size size dims) && (blen data <? 4294967296) && bytes_ok data.
Definition op_args_ok (o : top) : bool :=
  match o with TDataset _ code dims data => (code <? 10) && ds_args_ok code dims data | _ => true end.

(* ------------------------------------------------------------------ tie (tools/props/c03file.py) *)
(* the file travels as (hex piece, number of zero bytes that follow) *)
Definition unhex_runs (l : list (string * N)) : bytes := concat (map (fun p => unhex (fst p) ++ zeros (N.to_nat (snd p))) l).
(* an operation travels as (kind, path, target path | data, datatype code, dims) *)
Definition top_of (c : N * string * string * N * list N) : top :=
  match c with
  | (k, p, q, code, dims) =>
      if k =? 0 then TGroup (unhex p) else if k =? 1 then TDataset (unhex p) code dims (unhex q) else THardLink (unhex p) (unhex q)
  end.
Definition tree_case_ok (c : list (N * string * string * N * list N) * list bool * list (string * N)) : bool :=
  match c with
  | (ops, oks, file) =>
      let h := map top_of ops in
      let r := tree_run h in
      list_eqb Bool.eqb (snd r) oks && bytes_eqb (t_close (t_file (fst r))) (unhex_runs file)
  end.
