(* C12: the byte image of the file that

     fw := CreateForWrite(file, CreateTruncate)                 (superblock version 2)
     ds := fw.CreateDataset("/"+name, VLen<base>, dims)         (contiguous layout: dataset_write.go:868; the element size of
                                                                 every variable-length type is 16, vlenTypeHandler.GetInfo)
     ds.Write(elems)                                            (writeVLen, dataset_write.go:1377)
     fw.Close()                                                 (dataset_write.go:2338: globalHeapWriter.Flush, end-of-file
                                                                 address into the superblock, file extended to it)

   leaves behind.  The first five blocks are those of Model/FileImage.v (superblock, local heap, symbol table node, group B-tree
   node, root object header: 0 .. 2195).  Then, in the order of allocation:

    2195            the dataset's raw data: 16 * count bytes, allocated by CreateDataset, written by writeVLen AFTER all elements
                    have gone to the global heap: element i is HeapID.Encode of the id WriteToGlobalHeap returned for elems[i]
                    (Model/GHeap.v encode_reference: 8-byte collection address, uint32 object index, 4 zero bytes)
    2195+16*count   the dataset's object header v2 (datatype = variable length of base, dataspace, contiguous layout) in its
                    reserved block of 7+255 bytes
    e0 = +262       the global heap collections.  The heap writer (Model/GHeap.v write_obj: global_heap_write.go) allocates a
                    collection when the first element arrives and whenever the current one has no room (roll-over; size 4096, or
                    16 + object + 16 rounded up to 4096 for a larger element); a collection is written to the file when it is
                    rolled over and at Close.  Nothing else is allocated between CreateDataset's header and Close, so the
                    collections are adjacent, in the order of their creation, and the last one ends at the allocator's
                    end-of-file = the superblock's end-of-file address = the file length.

   The heap writer's part is literally the C12 model: run_close 4096 4096 e0 (map W elems) gives the ids and the extents written
   (disk, newest first).  The whole image is compared byte for byte with files written by the library on every run
   (tools/props/c12file.py).  No proofs here (Proofs/FileImageVlen*.v; theorems Props/C12File.v). *)
From HV Require Import Base.Prelude Model.GHeap.
From HV Require Import Base.Outcome Base.Bytes.
From HV Require Import Model.CodecSuper Model.CodecOhdr Model.CodecMsg Model.CodecType Model.CodecLink Model.GroupWire.
From HV Require Import Model.FileImage.

(* globalHeapWriter.minCollectionSize and the rounding unit of createNewHeap (global_heap_write.go:66, :113) *)
Definition V_MIN : N := 4096.
Definition V_BLK : N := 4096.

(* the base type message nested in the variable-length datatype message: registry rows Int32..Float64 (basicTypeHandler,
   version 1) and, for VLenString, a 1-byte character string (vlenTypeHandler.EncodeDatatypeMessage, dataset_write.go:402) *)
Definition base_dt (b : vbase) : datatype :=
  let '(c, s, f) := base_cls b in {| dt_class := c; dt_version := 1; dt_size := s; dt_cbf := f; dt_props := [] |}.
(* class 9, Version 0 in the struct (the repaired encoder writes version 1), size 16, type indicator in the class bit field *)
Definition vlen_dt (b : vbase) : datatype :=
  {| dt_class := DT_VLEN; dt_version := 0; dt_size := 16; dt_cbf := vl_bits b; dt_props := enc_datatype (base_dt b) |}.

(* the tie's names of the base types *)
Definition vbase_of_code (c : N) : vbase :=
  match c with
  | 0 => VString | 1 => VInt32 | 2 => VInt64 | 3 => VUint32 | 4 => VUint64 | 5 => VFloat32 | _ => VFloat64
  end.

Section ImageV.
Variable name : bytes.            (* the link name, without the leading "/" *)
Variable base : vbase.
Variable dims : list N.
Variable elems : list bytes.      (* what writeVLen hands to WriteToGlobalHeap: the bytes of every element *)

Definition v_count : N := N.of_nat (length elems).
(* end of file when Write starts: data block (16 bytes per element) and reserved header block *)
Definition v_e0 : N := DATA_ADDR + 16 * v_count + OHDR_RESERVE.

(* the heap writer over the elements in order, then Close's Flush *)
Definition v_run : option (gstate * list heapid) := run_close V_MIN V_BLK v_e0 (map W elems).
Definition v_ids : list heapid := match v_run with Some (_, ids) => ids | None => [] end.
Definition v_disk : list (N * bytes) := match v_run with Some (fin, _) => disk fin | None => [] end.
Definition v_eof : N := match v_run with Some (fin, _) => eof fin | None => v_e0 end.

(* heapIDData (dataset_write.go:1527) *)
Definition v_refs : bytes := flat_map encode_reference v_ids.
(* the collections in address order = order of creation *)
Definition v_colls : list bytes := rev (map snd v_disk).

Definition v_data_size : N := wrap64 (total_elems dims * 16).           (* dataset_write.go:917 *)
Definition v_dset_addr : N := dset_addr v_refs.                         (* DATA_ADDR + |refs| *)

Definition v_dset_ohdr : ohdr :=
  {| oh_version := 2; oh_flags := 0; oh_refcount := 1;
     oh_msgs := [ {| hm_type := 3; hm_data := enc_datatype (vlen_dt base) |};
                  {| hm_type := 1; hm_data := enc_dataspace {| ds_dims := dims; ds_maxdims := [] |} |};
                  {| hm_type := 8; hm_data := enc_layout SBP (LContig v_data_size DATA_ADDR) |} ] |}.
Definition v_dset_block : bytes :=
  enc_ohdr_v2 v_dset_ohdr ++ zeros (N.to_nat (OHDR_RESERVE - size_ohdr_v2 v_dset_ohdr)).

Definition v_sb : superblock :=
  {| sp_version := 2; sp_offsize := 8; sp_lensize := 8; sp_base := 0; sp_root := ROOT_ADDR; sp_superext := 0;
     sp_rootbtree := BTREE_ADDR; sp_rootheap := HEAP_ADDR; sp_eof := v_eof |}.

(* everything CreateDataset has allocated, with the data Write puts at 2195 *)
Definition v_prefix_blocks : list bytes :=
  [ enc_superblock v_sb;
    heap_image (final_heap name) HEAP_ADDR;
    snod_block v_refs;
    bt_write_at final_btnode 8 GROUP_K;
    enc_ohdr_v2 root_ohdr;
    v_refs;
    v_dset_block ].

Definition blocks_v2_vlen : list bytes := v_prefix_blocks ++ v_colls.
Definition image_v2_vlen : bytes := place_all blocks_v2_vlen.
End ImageV.

(* ------------------------------------------------------------------ the hypotheses of the theorems *)

(* rank 1..23: datatype (at most 8 + 20 bytes), dataspace and layout messages must fit the 255-byte header chunk
   (4+28 + 4+8+8r + 4+18 = 66 + 8r <= 255) *)
Definition dims_ok_vlen (dims : list N) : bool := dims_ok dims && (length dims <=? 23)%nat.

(* ------------------------------------------------------------------ tie (tools/props/c12file.py) *)
(* transport: hex pieces and runs of zero bytes (the unused tail of a collection) *)
Inductive fpart := FH (s : string) | FZ (n : N).
Definition unparts (l : list fpart) : bytes :=
  concat (map (fun p => match p with FH s => unhex s | FZ n => repeat 0 (N.to_nat n) end) l).

Definition image_vlen_case_ok (c : list string * N * list N * list (list string) * list fpart) : bool :=
  match c with
  | (name, code, dims, elems, file) =>
      bytes_eqb (image_v2_vlen (unhex_parts name) (vbase_of_code code) dims (map unhex_parts elems)) (unparts file)
  end.
