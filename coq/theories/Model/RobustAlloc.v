(* C07 allocation-aware models: the size computations that govern make()/read-buffer sizes in the reader.
   Each function returns the Go outcome together with the ALLOCATION LOG: the list of sizes (in bytes) that the Go
   code passes to make() / GetBuffer() on that path, in order.  64-bit arithmetic is written out with wrap64.
   Transcribed from (current /repo, i.e. after the fix: commits 4200bd8, 8c85334, 99b7c62, 92e0a56):
     internal/utils/saferead.go   ReadBytesAt           internal/utils/overflow.go  SafeMultiply, ValidateBufferSize
     internal/core/dataspace.go   TotalElements         internal/core/dataset_reader.go ReadDatasetFloat64 (contiguous and
     chunked size computation), convertToFloat64        internal/structures/localheap.go LoadLocalHeap
     internal/core/globalheap.go  ReadGlobalHeapCollection   internal/core/btree_v1.go ParseBTreeV1Node (node body size)
     internal/core/filterpipeline.go applyDeflate (LimitReader)   objectheader*.go message buffers (GetBuffer(msgSize)).
   No proofs here (Proofs/RobustAlloc.v). *)
From HV Require Import Base.Prelude Base.Outcome Base.Bytes.

Definition alog := list N.
Definition MaxUint64 : N := 18446744073709551615.
Definition MaxInt64 : N := 9223372036854775807.
Definition MaxChunkSize : N := 1073741824.
Definition u64b (x : N) : bool := x <? 18446744073709551616.

(* every logged request is at most k * |file| + c *)
Definition alloc_bounded (k c : N) (file : bytes) (log : alog) : Prop :=
  Forall (fun n => n <= k * blen file + c) log.
Definition alloc_bounded_b (k c : N) (file : bytes) (log : alog) : bool :=
  forallb (fun n => n <=? k * blen file + c) log.

(* ---- utils.SafeMultiply / CheckMultiplyOverflow ---- *)
Definition safe_multiply (a b : N) : outcome N :=
  if (a =? 0) || (b =? 0) then Ok (wrap64 (a * b))
  else if MaxUint64 / b <? a then Err else Ok (wrap64 (a * b)).

(* ---- utils.ValidateBufferSize ---- *)
Definition validate_buffer_size (size maxSize : N) : outcome unit :=
  if size =? 0 then Err else if maxSize <? size then Err else Ok tt.

(* ---- DataspaceMessage.TotalElements for a simple dataspace: the product WRAPS (total *= dim on uint64) ---- *)
Definition total_elements (dims : list N) : N := fold_left (fun t d => wrap64 (t * d)) dims 1.

(* ---- utils.ReadBytesAt(r, off, size): probe the last byte, then make([]byte, size) and read ---- *)
Definition read_bytes_at (file : bytes) (off size : N) : outcome bytes * alog :=
  if size =? 0 then (Ok [], [])
  else
    let end_ := wrap64 (off + size) in
    if (end_ <? off) || (MaxInt64 <? end_) then (Err, [])
    else if blen file <=? end_ - 1 then (Err, [])                 (* probe: ReadAt(probe[:], end-1) returned n < 1 *)
    else (match slice file off (off + size) with Ok s => Ok s | Err => Err | Panic => Panic end, [size]).

(* ---- convertToFloat64 (dataset_reader.go): the element count is compared with the data before sizing the result ---- *)
(* elemSize = 8 or 4 (float64/int64, float32/int32); any other datatype returns an error AFTER the make() *)
Definition convert_to_float64 (raw : bytes) (elemSize numElements : N) : outcome N * alog :=
  if blen raw <? numElements then (Err, [])
  else
    let log := [8 * numElements] in                             (* make([]float64, numElements) *)
    if negb ((elemSize =? 8) || (elemSize =? 4)) then (Err, log)
    else if (0 <? numElements) && (blen raw <? wrap64 ((numElements - 1) * elemSize) + elemSize) then (Err, log)   (* "data truncated" at the last element *)
    else (Ok numElements, log).

(* ---- ReadDatasetFloat64, contiguous layout ---- *)
Definition contiguous_read (file : bytes) (dims : list N) (elemSize addr : N) : outcome N * alog :=
  let total := total_elements dims in
  if total =? 0 then (Ok 0, [])
  else match safe_multiply total elemSize with
       | Ok dataSize =>
           match read_bytes_at file addr dataSize with
           | (Ok raw, l1) => let '(r, l2) := convert_to_float64 raw elemSize total in (r, l1 ++ l2)
           | (Err, l1) => (Err, l1)
           | (Panic, l1) => (Panic, l1)
           end
       | Err => (Err, [])
       | Panic => (Panic, [])
       end.

(* ---- readChunkedData: the output buffer is sized by the DECLARED extent (limit: MaxChunkSize*1024 = 2^40) ---- *)
Definition chunked_total_bytes (dims : list N) (elemSize : N) : outcome N * alog :=
  let total := total_elements dims in
  match safe_multiply total elemSize with
  | Ok totalBytes =>
      match validate_buffer_size totalBytes (MaxChunkSize * 1024) with
      | Ok _ => (Ok totalBytes, [totalBytes])                   (* rawData := make([]byte, totalBytes) *)
      | _ => (Err, [])
      end
  | Err => (Err, [])
  | Panic => (Panic, [])
  end.

(* ---- one chunk: ValidateBufferSize(nbytes, MaxChunkSize) then ReadBytesAt ---- *)
Definition chunk_read (file : bytes) (addr nbytes : N) : outcome bytes * alog :=
  match validate_buffer_size nbytes MaxChunkSize with
  | Ok _ => read_bytes_at file addr nbytes
  | _ => (Err, [])
  end.

(* ---- ParseBTreeV1Node: header (8 + 2*O bytes, make before the read), body = entries*(keySize+O)+keySize via ReadBytesAt,
        then Keys (entries+1 keys of ndims uint64 + 8 bytes) and Children (entries uint64) ---- *)
Definition btree_node_sizes (file : bytes) (addr O ndims entries : N) : outcome N * alog :=
  let headerSize := 8 + 2 * O in
  let keySize := 8 + ndims * 8 in
  if blen file <? addr + headerSize then (Err, [headerSize])
  else if entries =? 0 then (Ok 0, [headerSize])
  else
    let dataSize := entries * (keySize + O) + keySize in
    match read_bytes_at file (wrap64 (addr + headerSize)) dataSize with
    | (Ok _, l) => (Ok dataSize, headerSize :: l ++ [(entries + 1) * (ndims * 8 + 32); entries * 8])
    | (Err, l) => (Err, headerSize :: l)
    | (Panic, l) => (Panic, headerSize :: l)
    end.

(* ---- LoadLocalHeap: header of 8 + 2L + O bytes (GetBuffer: capacity 2x), data segment through ReadBytesAt ---- *)
Definition rd_field (buf : bytes) (pos w : N) : outcome N :=
  if (w =? 2) || (w =? 4) || (w =? 8) then rd_le buf pos w else Ok 0.

Definition local_heap_load (file : bytes) (addr O L : N) : outcome N * alog :=
  let headerSize := 8 + 2 * L + O in
  let log0 := [2 * headerSize] in
  if blen file <? addr + headerSize then (Err, log0)
  else match slice file addr (addr + headerSize) with
       | Ok hb =>
           if negb (bytes_eqb (firstn 4 hb) [72; 69; 65; 80]) then (Err, log0)
           else match rd_field hb 8 L, rd_field hb (8 + 2 * L) O with
                | Ok dsize, Ok daddr =>
                    match read_bytes_at file daddr dsize with
                    | (Ok d, l) => (Ok (blen d), log0 ++ l)
                    | (Err, l) => (Err, log0 ++ l)
                    | (Panic, l) => (Panic, log0 ++ l)
                    end
                | Panic, _ | _, Panic => (Panic, log0)
                | _, _ => (Err, log0)
                end
       | Err => (Err, log0)
       | Panic => (Panic, log0)
       end.

(* LocalHeap.GetString: scan for the terminating NUL inside the data segment *)
Definition heap_get_string (data : bytes) (offset : N) : outcome bytes :=
  if blen data <=? offset then Err
  else let e := find0 data offset in
       if blen data <=? e then Err else slice data offset e.

(* ---- ReadGlobalHeapCollection: header, collection via ReadBytesAt, then one make([]byte, objSize) per object ---- *)
Fixpoint gcol_objects (fuel : nat) (cd : bytes) (os offset : N) : outcome (list N) * alog :=
  match fuel with
  | O => (Err, [])                                                (* never reached with fuel = S (length cd): see Proofs *)
  | S fuel' =>
      if blen cd <=? offset then (Ok [], [])
      else
        let ohs := 8 + os in
        if blen cd <? offset + ohs then (Ok [], [])
        else match rd_le cd offset 2, rd_le cd (offset + 8) os with
             | Ok objID, Ok objSize =>
                 let aligned := if objSize mod 8 =? 0 then objSize else objSize + (8 - objSize mod 8) in
                 if blen cd - offset - ohs <? objSize then
                   (if objID =? 0 then (Ok [], []) else (Err, []))
                 else if objID =? 0 then gcol_objects fuel' cd os (offset + ohs + aligned)
                 else
                   let '(r, l) := gcol_objects fuel' cd os (offset + ohs + aligned) in
                   (match r with Ok szs => Ok (objSize :: szs) | Err => Err | Panic => Panic end, objSize :: l)
             | Panic, _ | _, Panic => (Panic, [])
             | _, _ => (Err, [])
             end
  end.

Definition gcol_read (file : bytes) (addr os : N) : outcome (list N) * alog :=
  if negb ((os =? 4) || (os =? 8)) then (Err, [])
  else
    let headerSize := 8 + os in
    let log0 := [headerSize] in
    if blen file <? addr + headerSize then (Err, log0)
    else match slice file addr (addr + headerSize) with
         | Ok hb =>
             if negb (bytes_eqb (firstn 4 hb) [71; 67; 79; 76]) then (Err, log0)
             else match index hb 4, rd_le hb 8 os with
                  | Ok ver, Ok csize =>
                      if negb (ver =? 1) then (Err, log0)
                      else if csize <? headerSize then (Err, log0)
                      else match read_bytes_at file addr csize with
                           | (Ok cd, l) =>
                               let start := if headerSize mod 8 =? 0 then headerSize else headerSize + (8 - headerSize mod 8) in
                               let '(r, l2) := gcol_objects (S (length cd)) cd os start in
                               (r, log0 ++ l ++ l2)
                           | (Err, l) => (Err, log0 ++ l)
                           | (Panic, l) => (Panic, log0 ++ l)
                           end
                  | Panic, _ | _, Panic => (Panic, log0)
                  | _, _ => (Err, log0)
                  end
         | Err => (Err, log0)
         | Panic => (Panic, log0)
         end.

(* ---- object header message buffers.  msgSize is a uint16 taken from the file.
        Repaired code (notes/fixes/c07-header-message-buffers.patch): data := make([]byte, msgSize).
        Before it: data := utils.GetBuffer(int(msgSize)), a pooled buffer of capacity >= 4096 (make(size, 2*size) when
        larger) that stays referenced by the returned message: 4096 bytes per message however small. ---- *)
Definition msg_buffer_request (msgSize : N) : alog := [wrap16 msgSize].
Definition msg_buffer_request_pooled (msgSize : N) : alog :=
  [if wrap16 msgSize <=? 4096 then 4096 else 2 * wrap16 msgSize].
(* n one-byte messages of a version 2 header occupy 5 n bytes of the file *)
Definition storm_file_bytes (n : N) : N := 5 * n.
Definition storm_requests (pooled : bool) (n : N) : N := if pooled then 4096 * n else n.

(* ---- applyDeflate / applyBZIP2: io.ReadAll(io.LimitReader(r, MaxChunkSize+1)): whatever the stream says, at most
        MaxChunkSize+1 bytes are produced; ReadAll's append growth keeps capacity below twice the length + 512 ---- *)
Definition inflate_limit (claimed : N) : N := N.min claimed (MaxChunkSize + 1).
Definition inflate_requests (claimed : N) : alog := [2 * inflate_limit claimed + 512].

(* ---- what the tie compares: class, result size, log ---- *)
Definition val_alloc {A} (f : A -> val) (r : outcome A * alog) : val := VL [oval f (fst r); vlistN (snd r)].
Definition val_class_len (r : outcome bytes * alog) : val := oval (fun b => VN (blen b)) (fst r).
