(* Executable predicates evaluated by the correspondence check of C11 (tools/props/c11.py) on the
   bytes / decoded values produced by the Go library. *)
From HV Require Import Base.Prelude Base.Outcome Base.Bytes.

(* Go encoder output (hex) equals the model encoder's output *)
Definition enc_agrees (model : bytes) (go_hex : string) : bool := bytes_eqb model (unhex go_hex).

(* Go decoder outcome (class + canonical value) equals the model decoder's *)
Definition dec_agrees {A} (tv : A -> val) (model : outcome A) (go : val) : bool := val_eqb (oval tv model) go.

Definition id_bool (b : bool) : bool := b.
