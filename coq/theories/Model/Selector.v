(* C19 part B: executable model of internal/rebalancing/selector.go (ConfigSelector.SelectConfig,
   RuleBasedStrategy.Select, calculateConfidence, SafetyConstraints.IsAllowed) and of the
   classification rules of internal/rebalancing/detector.go (DetectWorkloadType).

   No proofs in this file.

   float64.  Confidences and ratios are Go float64.  They are carried as 64-bit patterns (N) and
   every comparison / addition is done with Coq's own IEEE-754 specification
   [Coq.Floats.SpecFloat] (SFadd / SFltb / SFleb at prec = 53, emax = 1024, round to nearest
   even), which is a plain computable definition: it evaluates under vm_compute and is closed
   under the global context.  Flocq's [b64_plus] computes the same values (Flocq defines Bplus
   through SFadd) but its terms carry proofs over R, so [Print Assumptions] lists the classical
   real-number axioms; that is why SpecFloat is used directly and Flocq is not imported.

   time.Time is an integer number of nanoseconds since the Unix epoch (Z; the clock is an input and
   may run backwards); Time.Sub saturates at the int64 range like Go's; Time.IsZero is equality
   with the instant 0001-01-01T00:00:00Z.

   Mode is a Go string, hence [string] here; WorkloadType is a Go int, hence Z. *)
From Coq Require Import Floats.SpecFloat.
From HV Require Import Base.Prelude.

Open Scope Z_scope.

(* ------------------------------------------------------------------ float64 as bit patterns *)
Definition f64 := N.

Definition sf_of_bits (x : N) : spec_float :=
  (* sign = bit 63, biased exponent = bits 62..52, fraction = bits 51..0 (masks and shifts, which
     vm_compute evaluates in time linear in the bit length - the tie decodes millions of values) *)
  let x := N.land x 18446744073709551615%N in
  let s := N.testbit x 63 in
  let e := Z.of_N (N.land (N.shiftr x 52) 2047) in
  let m := Z.of_N (N.land x 4503599627370495) in
  if e =? 0 then
    match m with Zpos p => S754_finite s p (-1074) | _ => S754_zero s end
  else if e =? 2047 then
    (if m =? 0 then S754_infinity s else S754_nan)
  else
    match m + 4503599627370496 with Zpos p => S754_finite s p (e - 1075) | _ => S754_nan end.

(* inverse on canonical values (every result of SFadd 53 1024 is canonical); a NaN result would be
   Go's quiet NaN pattern - no NaN is ever produced by the code modelled here *)
Definition bits_of_sf (f : spec_float) : N :=
  let sb (s : bool) : N := if s then 9223372036854775808%N else 0%N in
  match f with
  | S754_zero s => sb s
  | S754_infinity s => (sb s + 9218868437227405312)%N
  | S754_nan => 9221120237041090561%N
  | S754_finite s m e =>
      if (Zpos m <? 4503599627370496) then (sb s + Npos m)%N
      else (sb s + Z.to_N (e + 1075) * 4503599627370496 + (Npos m - 4503599627370496))%N
  end.

Definition f64_lt (a b : f64) : bool := SFltb (sf_of_bits a) (sf_of_bits b).   (* Go: a < b *)
Definition f64_gt (a b : f64) : bool := SFltb (sf_of_bits b) (sf_of_bits a).   (* Go: a > b *)
Definition f64_le (a b : f64) : bool := SFleb (sf_of_bits a) (sf_of_bits b).   (* Go: a <= b *)
Definition f64_add (a b : f64) : f64 := bits_of_sf (SFadd 53 1024 (sf_of_bits a) (sf_of_bits b)).
Definition f64_is_nan (a : f64) : bool :=
  match sf_of_bits a with S754_nan => true | _ => false end.

(* the float64 constants that occur in selector.go / detector.go (nearest doubles of the decimals) *)
Definition c_0    : f64 := 0%N.
Definition c_1    : f64 := 4607182418800017408%N.  (* 1.0   0x3FF0000000000000 *)
Definition c_0_9  : f64 := 4606281698874543309%N.  (* 0.9   0x3FECCCCCCCCCCCCD *)
Definition c_0_75 : f64 := 4604930618986332160%N.  (* 0.75  0x3FE8000000000000 *)
Definition c_0_7  : f64 := 4604480259023595110%N.  (* 0.7   0x3FE6666666666666 *)
Definition c_0_65 : f64 := 4604029899060858061%N.  (* 0.65  0x3FE4CCCCCCCCCCCD *)
Definition c_0_6  : f64 := 4603579539098121011%N.  (* 0.6   0x3FE3333333333333 *)
Definition c_0_5  : f64 := 4602678819172646912%N.  (* 0.5   0x3FE0000000000000 *)
Definition c_0_3  : f64 := 4599075939470750515%N.  (* 0.3   0x3FD3333333333333 *)
Definition c_0_2  : f64 := 4596373779694328218%N.  (* 0.2   0x3FC999999999999A *)
Definition c_0_1  : f64 := 4591870180066957722%N.  (* 0.1   0x3FB999999999999A *)
Definition c_0_05 : f64 := 4587366580439587226%N.  (* 0.05  0x3FA999999999999A *)

(* 0 <= x <= 1 with Go's comparisons (false for NaN) *)
Definition f64_in_unit (x : f64) : bool := f64_le c_0 x && f64_le x c_1.

(* ------------------------------------------------------------------ time *)
Definition zero_instant : Z := -62135596800000000000.       (* time.Time{} in ns since 1970 *)
Definition is_zero_time (t : Z) : bool := t =? zero_instant. (* Time.IsZero *)
Definition min_i64 : Z := -9223372036854775808.
Definition max_i64 : Z := 9223372036854775807.
(* Time.Sub: the exact difference when it fits a Duration, else minDuration / maxDuration *)
Definition sat_sub (t u : Z) : Z :=
  let d := t - u in
  if d <? min_i64 then min_i64 else if max_i64 <? d then max_i64 else d.

(* ------------------------------------------------------------------ data *)
Definition mode := string.
Definition ModeNone : mode := "none"%string.
Definition ModeLazy : mode := "lazy"%string.
Definition ModeIncremental : mode := "incremental"%string.

(* WorkloadType (detector.go:101-114) *)
Definition WorkloadUnknown : Z := 0.
Definition WorkloadBatchDeletion : Z := 1.
Definition WorkloadFrequentWrites : Z := 2.
Definition WorkloadMixedRW : Z := 3.
Definition WorkloadReadHeavy : Z := 4.
Definition WorkloadAppendOnly : Z := 5.

(* the fields of WorkloadFeatures that influence Mode or Confidence (OperationRate, WindowDuration
   and ExtractedAt only feed Reason/Factors, which are not observables of C19) *)
Record features := mkFeatures {
  f_delete : f64; f_write : f64; f_read : f64;
  f_burst : bool;
  f_file_size : N;        (* uint64 *)
  f_samples : Z           (* int *)
}.

(* what a SelectionStrategy returns, as far as SelectConfig looks at it; cfg: 0 nil, 1 lazy, 2 incremental *)
Record sdec := mkSdec { s_mode : mode; s_conf : f64; s_cfg : N }.

Record constraints := mkConstraints {
  min_conf : f64;          (* SafetyConstraints.MinConfidence *)
  min_stab : Z;            (* MinStabilityPeriod, int64 ns *)
  allowed : list mode      (* AllowedModes *)
}.

(* ConfigSelector.lastDecisionTime / lastMode / hasLastDecision.
   hasLastDecision exists in the code only after notes/fixes/selector-zero-time-stability.patch;
   in the code as found it is a ghost field (written, never read). *)
Record cstate := mkCstate { last_time : Z; last_mode : mode; has_last : bool }.
Definition cstate0 : cstate := mkCstate zero_instant ""%string false.

(* "a previous decision exists", as the stability gate tests it.
   patched = false: the code as found:  !s.lastDecisionTime.IsZero()
   patched = true : the repaired code:  s.hasLastDecision *)
Definition armed (patched : bool) (st : cstate) : bool :=
  if patched then has_last st else negb (is_zero_time (last_time st)).

(* kind: which return statement of SelectConfig produced the decision
   0 strategy decision accepted, 1 low confidence, 2 mode not allowed, 3 stability enforced *)
Record decision := mkDecision { d_mode : mode; d_conf : f64; d_kind : N; d_cfg : N }.

(* SafetyConstraints.IsAllowed (selector.go:190-202) *)
Definition is_allowed (c : constraints) (m : mode) : bool :=
  match allowed c with
  | [] => true
  | l => existsb (String.eqb m) l
  end.

(* ------------------------------------------------------------------ SelectConfig (selector.go:340-397) *)
Section Select.
  Variable patched : bool.
  Variable strategy : features -> Z -> sdec.

  Definition select_config (st : cstate) (c : constraints) (f : features) (w : Z) (now : Z)
    : cstate * decision :=
    let d := strategy f w in
    (* 1. confidence threshold *)
    if f64_lt (s_conf d) (min_conf c) then (st, mkDecision ModeNone (s_conf d) 1 0)
    (* 2. allowed modes *)
    else if negb (is_allowed c (s_mode d)) then (st, mkDecision ModeNone (s_conf d) 2 0)
    (* 3. stability period *)
    else if armed patched st
            && (sat_sub now (last_time st) <? min_stab c)
            && negb (String.eqb (s_mode d) (last_mode st))
         then (st, mkDecision (last_mode st) (s_conf d) 3 0)
    else (mkCstate now (s_mode d) true, mkDecision (s_mode d) (s_conf d) 0 (s_cfg d)).

  (* one observation = features, workload type, the clock reading of that call *)
  Definition obs := (features * Z * Z)%type.

  (* what one call shows: clock reading, the strategy's proposal, the returned decision *)
  Record row := mkRow { r_now : Z; r_raw : sdec; r_dec : decision }.

  Fixpoint run (st : cstate) (c : constraints) (l : list obs) : list row :=
    match l with
    | [] => []
    | (f, w, now) :: r =>
        let sd := select_config st c f w now in
        mkRow now (strategy f w) (snd sd) :: run (fst sd) c r
    end.

  Fixpoint run_state (st : cstate) (c : constraints) (l : list obs) : cstate :=
    match l with
    | [] => st
    | (f, w, now) :: r => run_state (fst (select_config st c f w now)) c r
    end.
End Select.

(* ------------------------------------------------------------------ RuleBasedStrategy (selector.go:443-605) *)
Definition mediumFileThreshold : N := 524288000.   (* 500 * 1024 * 1024 *)

(* calculateConfidence *)
Definition calc_confidence (f : features) : f64 :=
  if negb (0 <? f_samples f) then c_0      (* !features.IsValid() *)
  else
    let sample :=
      if 1000 <=? f_samples f then c_0_9
      else if 100 <=? f_samples f then c_0_75
      else if 50 <=? f_samples f then c_0_65
      else if 10 <=? f_samples f then c_0_5
      else c_0_3 in
    let bonus0 := c_0 in
    let bonus1 := if f64_gt (f_delete f) c_0_6 || f64_lt (f_delete f) c_0_05
                  then f64_add bonus0 c_0_1 else bonus0 in
    let bonus2 := if f_burst f then f64_add bonus1 c_0_05 else bonus1 in
    let conf := f64_add sample bonus2 in
    if f64_gt conf c_1 then c_1 else conf.

Definition rule_select (f : features) (w : Z) : sdec :=
  let conf := calc_confidence f in
  if w =? WorkloadBatchDeletion then mkSdec ModeLazy conf 1
  else if w =? WorkloadAppendOnly then mkSdec ModeNone conf 0
  else if w =? WorkloadFrequentWrites then
    (if (mediumFileThreshold <? f_file_size f)%N then mkSdec ModeIncremental conf 2
     else mkSdec ModeLazy conf 1)
  else if w =? WorkloadReadHeavy then mkSdec ModeLazy conf 1
  else if w =? WorkloadMixedRW then
    (if (mediumFileThreshold <? f_file_size f)%N then mkSdec ModeIncremental conf 2
     else mkSdec ModeLazy conf 1)
  else mkSdec ModeNone conf 0.

(* DetectWorkloadType (detector.go:510-548) as a function of the extracted features *)
Definition classify (min_samples : Z) (f : features) : Z :=
  if f_samples f <? min_samples then WorkloadUnknown
  else if f64_gt (f_delete f) c_0_6 && f_burst f then WorkloadBatchDeletion
  else if f64_gt (f_write f) c_0_5 && f64_lt (f_delete f) c_0_05 then WorkloadAppendOnly
  else if f64_gt (f_write f) c_0_6 && negb (f_burst f) then WorkloadFrequentWrites
  else if f64_gt (f_read f) c_0_7 then WorkloadReadHeavy
  else if f64_lt (f_delete f) c_0_2 then WorkloadMixedRW
  else WorkloadUnknown.

(* a strategy that replays its input: the arbitrary SelectionStrategy of WithStrategy.  The tie
   encodes the scripted answer in the observation itself: the mode is looked up by index w in a
   table, the confidence bits travel in f_delete, the config kind in f_file_size. *)
Definition scripted (table : list mode) (f : features) (w : Z) : sdec :=
  mkSdec (if w <? 0 then ModeNone else nth (Z.to_nat w) table ModeNone) (f_delete f)
         (if (f_file_size f =? 1)%N then 1%N else if (f_file_size f =? 2)%N then 2%N else 0%N).

(* ------------------------------------------------------------------ specification, on what a run shows *)
(* the strategy's proposal passes the confidence gate and the allowed-modes gate *)
Definition passes (c : constraints) (r : row) : bool :=
  negb (f64_lt (s_conf (r_raw r)) (min_conf c)) && is_allowed c (s_mode (r_raw r)).
(* ... and was returned as it is (not replaced by the previous mode): these are the decisions the
   selector remembers *)
Definition recorded (c : constraints) (r : row) : bool :=
  passes c r && String.eqb (d_mode (r_dec r)) (s_mode (r_raw r)).

Definition allowed_ok (c : constraints) (r : row) : bool :=
  String.eqb (d_mode (r_dec r)) ModeNone || is_allowed c (d_mode (r_dec r)).
Definition min_conf_ok (c : constraints) (r : row) : bool :=
  negb (f64_lt (d_conf (r_dec r)) (min_conf c)) || String.eqb (d_mode (r_dec r)) ModeNone.
Definition range_ok (r : row) : bool := f64_in_unit (d_conf (r_dec r)).

(* reading a history (list of rows, oldest first) from the outside:
   g_pass_mode   mode returned by the latest gate-passing decision
   g_rec_time    clock reading of the latest recorded decision
   g_change_time clock reading of the latest gate-passing decision whose mode differs from the
                 gate-passing decision before it (the first gate-passing decision counts) *)
Record ghost := mkGhost { g_pass_mode : option mode; g_rec_time : option Z; g_change_time : option Z }.
Definition ghost0 := mkGhost None None None.
Definition mode_changed (g : ghost) (m : mode) : bool :=
  match g_pass_mode g with None => true | Some m' => negb (String.eqb m' m) end.
Definition ghost_step (c : constraints) (g : ghost) (r : row) : ghost :=
  if passes c r then
    mkGhost (Some (d_mode (r_dec r)))
            (if recorded c r then Some (r_now r) else g_rec_time g)
            (if mode_changed g (d_mode (r_dec r)) then Some (r_now r) else g_change_time g)
  else g.
Definition ghost_of (c : constraints) (t : list row) : ghost := fold_left (ghost_step c) t ghost0.

(* stability for one more decision [r] after history [g]: if r passes the gates, a recorded
   decision exists (clock reading T) and now - T < MinStabilityPeriod, then r returns the mode of
   the previous gate-passing decision.  strict = false adds the exception the code as found needs:
   "... and T is not the zero instant". *)
Definition stability_ok_step (strict : bool) (c : constraints) (g : ghost) (r : row) : bool :=
  if passes c r then
    match g_rec_time g, g_pass_mode g with
    | Some T, Some m =>
        if (strict || negb (is_zero_time T)) && (sat_sub (r_now r) T <? min_stab c)
        then String.eqb (d_mode (r_dec r)) m else true
    | _, _ => true
    end
  else true.
(* dwell time: a gate-passing decision that changes the mode comes at least MinStabilityPeriod
   after the previous change *)
Definition dwell_ok_step (c : constraints) (g : ghost) (r : row) : bool :=
  if passes c r then
    match g_change_time g with
    | Some C => if mode_changed g (d_mode (r_dec r)) then min_stab c <=? sat_sub (r_now r) C else true
    | None => true
    end
  else true.
(* the literal pairwise reading: two consecutive gate-passing decisions less than the period
   apart return the same mode (g_prev_time: clock reading of the previous gate-passing decision) *)
Fixpoint pairwise_ok (c : constraints) (prev : option (Z * mode)) (t : list row) : bool :=
  match t with
  | [] => true
  | r :: t' =>
      if passes c r then
        (match prev with
         | Some (T, m) => if sat_sub (r_now r) T <? min_stab c then String.eqb (d_mode (r_dec r)) m else true
         | None => true
         end) && pairwise_ok c (Some (r_now r, d_mode (r_dec r))) t'
      else pairwise_ok c prev t'
  end.

Fixpoint trace_ok_from (step_ok : constraints -> ghost -> row -> bool) (c : constraints) (g : ghost) (t : list row) : bool :=
  match t with
  | [] => true
  | r :: t' => step_ok c g r && trace_ok_from step_ok c (ghost_step c g r) t'
  end.
Definition stability_ok (strict : bool) (c : constraints) (t : list row) : bool :=
  trace_ok_from (stability_ok_step strict) c ghost0 t.
Definition dwell_ok (c : constraints) (t : list row) : bool := trace_ok_from dwell_ok_step c ghost0 t.

(* clock readings never decrease (and, for the code as found, never equal the zero instant) *)
Fixpoint clock_mono (strict : bool) (prev : Z) (l : list obs) : bool :=
  match l with
  | [] => true
  | (_, _, now) :: r => (prev <=? now) && (strict || negb (is_zero_time now)) && clock_mono strict now r
  end.
