(* C13 unit tie (tools/props/c13unit.py): one case = one resizable dataset created through the public API and a list
   of Resize calls through the creating handle; the harness (cmd/verifharness/c13unit.go) records around every call the
   bytes of the file from the object header address on, the result class, and the handle fields afterwards.
   check_case replays the calls on the model (Model/Resize.v) starting from the handle new_handle builds and, at every
   step, from the header image the implementation had before the call (other operations - attribute writes, hard
   links, data writes - may have rewritten the header in between); it compares the result class, the image after the
   call byte for byte, and dims / dataSize / chunks per dimension of the handle. *)
From HV Require Import Base.Prelude Base.Outcome Base.Bytes Model.CodecMsg Model.CodecOhdr Model.Resize.

Record rstep := {
  rs_new : list N;            (* requested extents *)
  rs_before : string;         (* hex: file bytes from the header address on, before the call *)
  rs_after : string;          (* ... after the call *)
  rs_code : N;                (* 0 ok, 1 error, 2 panic *)
  rs_dims : list N;           (* dw.dims after the call *)
  rs_datasize : N;            (* dw.dataSize after the call *)
  rs_chunks : list N          (* dw.chunkCoordinator.NumChunks() after the call *)
}.

Record rcase := { rc_dims : list N; rc_maxd : list N; rc_chunk : list N; rc_esize : N; rc_steps : list rstep }.

Definition check_step (h : rhandle) (s : rstep) : rhandle * bool :=
  let '(h', f', r) := resize false h (unhex (rs_before s)) 0 (rs_new s) in
  (h', (rres_code r =? rs_code s) && bytes_eqb f' (unhex (rs_after s)) &&
       list_eqb N.eqb (rh_dims h') (rs_dims s) && (rh_datasize h' =? rs_datasize s) &&
       list_eqb N.eqb (rh_numchunks h') (rs_chunks s)).

Fixpoint check_steps (h : rhandle) (l : list rstep) : bool :=
  match l with
  | [] => true
  | s :: r => let '(h', ok) := check_step h s in ok && check_steps h' r
  end.

Definition check_case (c : rcase) : bool :=
  check_steps (new_handle (rc_dims c) (rc_maxd c) (rc_chunk c) (rc_esize c)) (rc_steps c).
