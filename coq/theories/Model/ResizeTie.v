(* C13 unit tie (tools/props/c13unit.py): one case = one resizable dataset created through the public API and a list
   of Resize calls through the creating handle; the harness (cmd/verifharness/c13unit.go) records around every call the
   bytes of the file from the object header address on, the result class, and the handle fields afterwards.
   check_case replays the calls on the model (Model/Resize.v) starting from the handle new_handle builds and, at every
   step, from the header image the implementation had before the call (other operations - attribute writes, hard
   links, data writes - may have rewritten the header in between); it compares the result class, the image after the
   call byte for byte, and dims / dataSize / chunks per dimension of the handle. *)
From HV Require Import Base.Prelude Base.Outcome Base.Bytes Model.CodecMsg Model.CodecOhdr Model.Resize.

Record rstep := {
  rs_new : list N;            (* requested extents *)
  rs_before : string;         (* hex: file bytes from the header address on, before the call *)
  rs_after : string;          (* ... after the call *)
  rs_code : N;                (* 0 ok, 1 error, 2 panic *)
  rs_dims : list N;           (* dw.dims after the call *)
  rs_datasize : N;            (* dw.dataSize after the call *)
  rs_chunks : list N          (* dw.chunkCoordinator.NumChunks() after the call *)
}.

Record rcase := { rc_dims : list N; rc_maxd : list N; rc_chunk : list N; rc_esize : N; rc_steps : list rstep }.

Definition check_step (h : rhandle) (s : rstep) : rhandle * bool :=
  let '(h', f', r) := resize false h (unhex (rs_before s)) 0 (rs_new s) in
  (h', (rres_code r =? rs_code s) && bytes_eqb f' (unhex (rs_after s)) &&
       list_eqb N.eqb (rh_dims h') (rs_dims s) && (rh_datasize h' =? rs_datasize s) &&
       list_eqb N.eqb (rh_numchunks h') (rs_chunks s)).

Fixpoint check_steps (h : rhandle) (l : list rstep) : bool :=
  match l with
  | [] => true
  | s :: r => let '(h', ok) := check_step h s in ok && check_steps h' r
  end.

Definition check_case (c : rcase) : bool :=
  check_steps (new_handle (rc_dims c) (rc_maxd c) (rc_chunk c) (rc_esize c)) (rc_steps c).

(* ---------------------------------------------------------------- the hypotheses of Props/C13Header.v, decided

   stored_ok img dims maxd: the image (file bytes from the header address on) satisfies the invariant [stored]
   of Proofs/Resize.v at address 0 for the handle's extents and maxima (Proofs/ResizeTie.v stored_ok_sound).
   The tie evaluates it on every image the implementation has in front of a Resize call, together with handle_ok. *)
Fixpoint split_ds (ms : list hmsg) : option (list hmsg * hmsg * list hmsg) :=
  match ms with
  | [] => None
  | m :: r => if hm_type m =? MSG_DATASPACE then Some ([], m, r)
              else match split_ds r with
                   | Some (b, d, a) => Some (m :: b, d, a)
                   | None => None
                   end
  end.

Definition stored_ok (img : bytes) (dims maxd : list N) : bool :=
  match dec_ohdr false img 0 with
  | Ok oh =>
      let ms := map to_hmsg (ohp_msgs oh) in
      let x := {| oh_version := 2; oh_flags := ohp_flags oh; oh_refcount := 1; oh_msgs := ms |} in
      let e := enc_ohdr_v2 x in
      match split_ds ms with
      | Some (b, d, a) =>
          wf_ohdr_v2 x && bytes_eqb (firstn (length e) img) e &&
          bytes_eqb (hm_data d) (enc_dataspace {| ds_dims := dims; ds_maxdims := maxd |}) &&
          wf_dataspace {| ds_dims := dims; ds_maxdims := maxd |} &&
          room ms (skipn (length e) img) && (size_ohdr_v2 x + 8 <? 9223372036854775808)
      | None => false
      end
  | _ => false
  end.

Definition hyp_step (h : rhandle) (s : rstep) : rhandle * bool :=
  let '(h', _, _) := resize false h (unhex (rs_before s)) 0 (rs_new s) in
  (h', handle_ok h && stored_ok (unhex (rs_before s)) (rh_dims h) (rh_maxdims h)).
Fixpoint hyp_steps (h : rhandle) (l : list rstep) : bool :=
  match l with
  | [] => true
  | s :: r => let '(h', ok) := hyp_step h s in ok && hyp_steps h' r
  end.
Definition hyp_case (c : rcase) : bool :=
  hyp_steps (new_handle (rc_dims c) (rc_maxd c) (rc_chunk c) (rc_esize c)) (rc_steps c).
