(* Executable predicates evaluated by the correspondence check of C12 (tools/props/c12.py) on the
   outputs of the Go code.  Transport: a string literal costs coqc about 0.1 ms per byte, so
   - elements are described by a pool of (pattern, length) pairs (the first [length] bytes of the
     pattern repeated) and a history of pool indices,
   - Go's collections are sent either exactly (literal bytes / pool element / zero run segments) for
     moderate object counts, or as (address, size, checksum) for the others. *)
From HV Require Import Base.Prelude Model.GHeap.

(* Adler-32 of the bytes and of the reversed bytes (zlib.adler32 in c12.py). N arithmetic under
   vm_compute is binary-positive arithmetic, so the per-byte work is kept to additions and one
   conditional subtraction of 16-bit numbers (about 2.5 us per byte per modulus). *)
Definition ad_step (m : N) (st : N * N) (x : N) : N * N :=
  let '(s1, s2) := st in
  let t := s1 + x in let s1' := if t <? m then t else t - m in
  let u := s2 + s1' in let s2' := if u <? m then u else u - m in (s1', s2').
Definition adler (m : N) (b : bytes) : N :=
  let '(s1, s2) := fold_left (ad_step m) b (1, 0) in s2 * 65536 + s1.
Definition hash_bytes (b : bytes) : N := adler 65521 b * 4294967296 + adler 65521 (rev_append b []).

(* [fuel] bytes cycling through pat *)
Fixpoint cyc (fuel : nat) (pat cur : bytes) : bytes :=
  match fuel with
  | O => []
  | S k => match cur with
           | c :: r => c :: cyc k pat r
           | [] => match pat with [] => [] | p :: r => p :: cyc k pat r end
           end
  end.
Definition expand (e : string * N) : bytes := let p := unhex (fst e) in cyc (N.to_nat (snd e)) p p.

(* history descriptor: HW i = write pool element i, HA n = foreign allocation of n bytes *)
Inductive hop := HW (i : N) | HA (n : N).
Definition mk_ops (pool : list (string * N)) (h : list hop) : list op :=
  let pl := map expand pool in
  map (fun o => match o with HW i => W (nth (N.to_nat i) pl []) | HA n => A n end) h.

Definition res_bytes_eqb (r : res bytes) (b : bytes) : bool :=
  match r with Ok x => bytes_eqb x b | Err _ => false end.

Fixpoint all_resolve (f : list (N * bytes)) (ids : list heapid) (ds : list bytes) : bool :=
  match ids, ds with
  | [], [] => true
  | id :: ir, d :: dr => res_bytes_eqb (resolve f (encode_reference id)) d && all_resolve f ir dr
  | _, _ => false
  end.

Definition extent_eqb (x y : N * bytes) : bool := (fst x =? fst y) && bytes_eqb (snd x) (snd y).
Definition triple_eqb (x y : N * N * N) : bool :=
  let '(a, b, c) := x in let '(a', b', c') := y in (a =? a') && (b =? b') && (c =? c').

(* collection sent exactly, as segments: literal bytes, a whole pool element, a run of zeros
   (c12.py checks that the segments expand to the bytes found in the file before sending them) *)
Inductive seg := SL (h : string) | SE (i : N) | SZ (n : N).
Definition expand_segs (pl : list bytes) (l : list seg) : bytes :=
  flat_map (fun s => match s with SL h => unhex h | SE i => nth (N.to_nat i) pl [] | SZ n => zeros n end) l.
Definition unpack_coll (pl : list bytes) (g : N * list seg) : N * bytes := (fst g, expand_segs pl (snd g)).

Definition bit (k : N) (ok : bool) : N := if ok then 0 else k.

(* the format predicate on Go's bytes, both free-space conventions: 2 = this library's (size
   excludes the 16-byte header), 1 = the HDF5 library's, 0 = malformed; minimum over the collections *)
Definition wf_class (b : bytes) : N := if wf_gcol 16 b then 2 else if wf_gcol 0 b then 1 else 0.
Definition min_class (l : list bytes) : N := fold_left (fun m b => N.min m (wf_class b)) l 2.

(* exact tie case: the model predicts Go's reference bytes (bit 1) and Go's collections byte for byte
   in address order (bit 2); the model's reader resolves every reference to the written element on
   the model's file (bit 4) and on Go's bytes (bit 8); the writer model ran (bit 16).
   Result: the failed bits + 32 * (format class of Go's collections). *)
Definition tie_exact (minsz blk e0 : N) (pool : list (string * N)) (h : list hop)
                     (go_refs : string) (go_colls : list (N * list seg)) (chk_resolve : bool) : N :=
  let ops := mk_ops pool h in
  let gc := map (unpack_coll (map expand pool)) go_colls in
  32 * min_class (map snd gc) +
  match run_close minsz blk e0 ops with
  | None => 16
  | Some (fin, ids) =>
      bit 1 (bytes_eqb (flat_map encode_reference ids) (unhex go_refs))
      + bit 2 (list_eqb extent_eqb (rev (disk fin)) gc)
      + bit 4 (if chk_resolve then all_resolve (disk fin) ids (writes ops) else true)
      + bit 8 (if chk_resolve then all_resolve (rev gc) ids (writes ops) else true)
  end.

(* checksummed tie case (any size): the same comparison through (address, length, checksum); the
   format predicate is evaluated on the model's bytes (bit 8), which the checksum identifies with Go's *)
Definition tie_hash (minsz blk e0 : N) (pool : list (string * N)) (h : list hop)
                    (nrefs refs_hash : N) (go_colls : list (N * N * N)) (chk_resolve : bool) : N :=
  let ops := mk_ops pool h in
  match run_close minsz blk e0 ops with
  | None => 16
  | Some (fin, ids) =>
      let refs := flat_map encode_reference ids in
      bit 1 ((blen refs =? 16 * nrefs) && (hash_bytes refs =? refs_hash))
      + bit 2 (list_eqb triple_eqb (map (fun e => (fst e, blen (snd e), hash_bytes (snd e))) (rev (disk fin))) go_colls)
      + bit 4 (if chk_resolve then all_resolve (disk fin) ids (writes ops) else true)
      + bit 8 (forallb (fun e => wf_gcol 16 (snd e)) (disk fin))
  end.

(* datatype message seen after reopen: recognised as vlen of base b? (b as index into vbases) *)
Definition dt_ok (c : N * string) : bool :=
  match nth_error vbases (N.to_nat (fst c)) with
  | None => false
  | Some b => vlen_recognised b (unhex (snd c))
  end.
(* does the model's encoder produce exactly this message? *)
Definition dt_model_eq (c : N * string) : bool :=
  match nth_error vbases (N.to_nat (fst c)) with
  | None => false
  | Some b => match enc_vlen b with Ok m => bytes_eqb m (unhex (snd c)) | Err _ => false end
  end.
