(* C19 part A: minimal record-list model of the delete entry points that the rebalancing
   configuration selects between.

   Go code transcribed:
     internal/structures/btreev2_write.go      InsertRecord / insertRecordSorted / SearchRecord /
                                               DeleteRecord (delegates to DeleteRecordWithRebalancing)
     internal/structures/btreev2_rebalance.go  DeleteRecordWithRebalancing
     internal/structures/btreev2_lazy.go       EnableLazyRebalancing / IsLazyRebalancingEnabled /
                                               DeleteRecordLazy / shouldTriggerBatchRebalancing / BatchRebalance
     internal/core/attribute_modify.go:356-395 DeleteDenseAttribute (the switch on the configuration)

   The name hash (lookup3, owned by C14) is a Section variable: the statement holds for every hash
   function.  The wall-clock part of shouldTriggerBatchRebalancing (time.Since >= MaxDelay) is an
   input bit of the lazy entry point.  No proofs in this file. *)
From HV Require Import Base.Prelude.

Open Scope N_scope.

Definition record := (N * N)%type.           (* NameHash uint32, HeapID (7 bytes) *)

(* LazyRebalancingState: Config.Enabled, UnderflowCount, PendingDeletes (ints) *)
Record lazy_state := mkLazy { lz_enabled : bool; lz_underflow : Z; lz_pending : Z }.

Record btree := mkBtree {
  bt_records : list record;
  bt_total : N;                (* header.TotalRecords   uint64 *)
  bt_nroot : N;                (* header.NumRecordsRoot uint16 *)
  bt_lazy : option lazy_state  (* lazyState, nil = None *)
}.

Definition btree0 : btree := mkBtree [] 0 0 None.

Inductive res := ROk | RErr.

(* the loop `for i, record := range bt.records { if record.NameHash == hash {...; break} }`
   followed by append(records[:i], records[i+1:]...) *)
Fixpoint remove_first (h : N) (l : list record) : option (list record) :=
  match l with
  | [] => None
  | r :: l' => if fst r =? h then Some l' else option_map (cons r) (remove_first h l')
  end.

Fixpoint search (h : N) (l : list record) : option N :=
  match l with
  | [] => None
  | r :: l' => if fst r =? h then Some (snd r) else search h l'
  end.

Fixpoint insert_sorted (r : record) (l : list record) : list record :=
  match l with
  | [] => [r]
  | x :: l' => if fst r <=? fst x then r :: x :: l' else x :: insert_sorted r l'
  end.

Definition sub16 (a b : N) : N := (a + 65536 - b mod 65536) mod 65536.

Section Hash.
  Variable hash : string -> N.
  Variable max_records : N.     (* calculateMaxRecords: (nodeSize - 10) / 11 *)

  Definition is_lazy_enabled (bt : btree) : bool :=
    match bt_lazy bt with Some s => lz_enabled s | None => false end.

  (* a key (name hash) that is already present is refused (ErrBTreeRecordExists), then the capacity check *)
  Definition insert_record (name : string) (id : N) (bt : btree) : res * btree :=
    if existsb (fun r => fst r =? hash name) (bt_records bt) then (RErr, bt)
    else if max_records <=? N.of_nat (length (bt_records bt)) then (RErr, bt)
    else (ROk, mkBtree (insert_sorted (hash name, id) (bt_records bt))
                       (wrap64 (bt_total bt + 1)) (wrap16 (bt_nroot bt + 1)) (bt_lazy bt)).

  Definition delete_with_rebalancing (name : string) (bt : btree) : res * btree :=
    match remove_first (hash name) (bt_records bt) with
    | None => (RErr, bt)
    | Some l => (ROk, mkBtree l (sub64 (bt_total bt) 1) (sub16 (bt_nroot bt) 1) (bt_lazy bt))
    end.

  Definition delete_record := delete_with_rebalancing.

  (* [min_records] = calculateMinRecords; [threshold_reached u] abstracts the float comparison
     underflowRatio >= Config.Threshold (TotalNodes = 1); [delay_exceeded] is the wall clock *)
  Definition delete_lazy (threshold_reached : Z -> bool) (delay_exceeded : bool)
             (name : string) (bt : btree) : res * btree :=
    if negb (is_lazy_enabled bt) then (RErr, bt)
    else match remove_first (hash name) (bt_records bt), bt_lazy bt with
         | Some l, Some s =>
             let pending := (lz_pending s + 1)%Z in
             let under := if N.of_nat (length l) <? max_records / 2 then 1%Z else lz_underflow s in
             let s' := if threshold_reached under || delay_exceeded
                       then mkLazy (lz_enabled s) 0 0            (* BatchRebalance *)
                       else mkLazy (lz_enabled s) under pending in
             (ROk, mkBtree l (sub64 (bt_total bt) 1) (sub16 (bt_nroot bt) 1) (Some s'))
         | _, _ => (RErr, bt)
         end.

  (* core.DeleteDenseAttribute as far as the B-tree is concerned *)
  Definition dense_delete (rebalance : bool) (threshold_reached : Z -> bool) (delay_exceeded : bool)
             (name : string) (bt : btree) : res * btree :=
    if String.eqb name "" then (RErr, bt)
    else match search (hash name) (bt_records bt) with
         | None => (RErr, bt)
         | Some _ =>
             if is_lazy_enabled bt then delete_lazy threshold_reached delay_exceeded name bt
             else if rebalance then delete_with_rebalancing name bt
             else delete_record name bt
         end.

  (* a configuration in force for one operation: the rebalance flag of the FileWriter and what the
     B-tree's lazy state is when the operation starts (toggled at any time = chosen per operation) *)
  Record config := mkConfig {
    cf_rebalance : bool;
    cf_lazy : option lazy_state;
    cf_threshold : Z -> bool;
    cf_delay : bool
  }.
  Definition default_config : config := mkConfig true None (fun _ => false) false.

  Inductive op := OIns (name : string) (id : N) | ODel (name : string).

  Definition step (cf : config) (o : op) (bt : btree) : res * btree :=
    let bt := mkBtree (bt_records bt) (bt_total bt) (bt_nroot bt) (cf_lazy cf) in
    match o with
    | OIns n id => insert_record n id bt
    | ODel n => dense_delete (cf_rebalance cf) (cf_threshold cf) (cf_delay cf) n bt
    end.

  (* run a history; the i-th operation runs under configuration [cfs i] *)
  Fixpoint run_hist (cfs : nat -> config) (i : nat) (ops : list op) (bt : btree) : list res * btree :=
    match ops with
    | [] => ([], bt)
    | o :: r =>
        let '(x, bt') := step (cfs i) o bt in
        let '(xs, bt'') := run_hist cfs (S i) r bt' in
        (x :: xs, bt'')
    end.

  (* what is visible: per-operation results, the records, the header counters *)
  Definition visible (x : list res * btree) := (fst x, bt_records (snd x), bt_total (snd x), bt_nroot (snd x)).
End Hash.
