(* Executable predicates evaluated by the tie `c03wire` (tools/props/c03wire.py) on the outputs of the real Go code
   (harness subcommand c03wire, harness/overlay/cmd/verifharness/c03wire.go): the local heap, the symbol table node and
   the group B-tree node of internal/structures, writers AND readers, against Model/GroupWire.v.
   Classes: 0 = returned normally, 1 = returned an error, 2 = panicked (Base/Outcome.v oclass).  No proofs here. *)
From Coq Require Import Uint63.
From HV Require Import Base.Prelude Base.Outcome Base.Bytes Model.RobustAlloc Model.RobustGroup Model.GroupWire.

(* transport of byte strings in the generated case files: length and 7-byte little-endian groups as primitive integer
   literals (a hex string literal costs about twenty times as much to elaborate); as Model/ChunkTie.v unpack *)
Definition upk (n : N) (l : list int) : bytes :=
  firstn (N.to_nat n) (flat_map (fun i => le 7 (Z.to_N (Uint63.to_Z i))) l).

(* model outcome against (class, value) observed on the implementation; the value only counts for class 0 *)
Definition out_eqb {A} (eq : A -> A -> bool) (o : outcome A) (c : N) (a : A) : bool :=
  match o with Ok x => (c =? 0) && eq x a | Err => c =? 1 | Panic => c =? 2 end.

Fixpoint list_eqb2 {A B} (f : A -> B -> bool) (a : list A) (b : list B) : bool :=
  match a, b with [], [] => true | x :: a', y :: b' => f x y && list_eqb2 f a' b' | _, _ => false end.

(* ---------------------------------------------------------------- kind "heap" / "heapread" *)
(* AddString per name; a refused name leaves the heap as it is (Go returns offset 0 with the error) *)
Fixpoint heap_adds (h : wheap) (names : list bytes) : list (bool * N) * wheap :=
  match names with
  | [] => ([], h)
  | s :: r =>
      match add_string h s with
      | Ok (off, h') => let '(l, hf) := heap_adds h' r in ((true, off) :: l, hf)
      | _ => let '(l, hf) := heap_adds h r in ((false, 0) :: l, hf)
      end
  end.
Definition add_eqb (a b : bool * N) : bool := Bool.eqb (fst a) (fst b) && (snd a =? snd b).

(* GetString per offset: (class, bytes) *)
Definition gets_ok (data : bytes) (gets : list N) (g_gets : list (N * bytes)) : bool :=
  list_eqb2 (fun off g => out_eqb bytes_eqb (get_string data off) (fst g) (snd g)) gets g_gets.

Definition load_ok (file : bytes) (addr : N) (g_lc : N) (g_data : bytes) (gets : list N) (g_gets : list (N * bytes)) : bool :=
  let r := load_local_heap file addr 8 8 in
  out_eqb bytes_eqb r g_lc g_data
  && match r with
     | Ok d => gets_ok d gets g_gets
     | _ => match g_gets with [] => true | _ => false end
     end.

(* g_adds: (ok, offset) per name; g_image: the bytes WriteTo left at [addr, addr+32+DataSegmentSize); g_size: Size();
   then LoadLocalHeap on the file WriteTo produced (zero fill below addr) and GetString per offset *)
Definition heap_ok (init : N) (names : list bytes) (addr : N) (g_adds : list (bool * N)) (g_image : bytes) (g_size : N)
           (g_lc : N) (g_data : bytes) (gets : list N) (g_gets : list (N * bytes)) : bool :=
  let '(adds, h) := heap_adds (new_local_heap init) names in
  let img := heap_image h addr in
  list_eqb add_eqb adds g_adds && bytes_eqb img g_image && (heap_size h =? g_size)
  && load_ok (zeros (N.to_nat addr) ++ img) addr g_lc g_data gets g_gets.

Definition heapread_ok (file : bytes) (addr : N) (g_lc : N) (g_data : bytes) (gets : list N) (g_gets : list (N * bytes)) : bool :=
  load_ok file addr g_lc g_data gets g_gets.

(* ---------------------------------------------------------------- kind "snod" / "snodread" *)
Definition mk_sym (x : N * N * N * N) : sym :=
  let '(a, b, c, d) := x in {| sy_name := a; sy_obj := b; sy_cache := c; sy_res := d; sy_bt := 0; sy_heap := 0 |}.
Fixpoint snod_adds (s : snode) (es : list sym) : list bool * snode :=
  match es with
  | [] => ([], s)
  | e :: r =>
      match add_entry s e with
      | Ok s' => let '(l, sf) := snod_adds s' r in (true :: l, sf)
      | _ => let '(l, sf) := snod_adds s r in (false :: l, sf)
      end
  end.

(* the parse result as Go reports it: class and VL [version; num; cap(Entries); entries] (VL [] unless class 0) *)
Definition parse_ok (file : bytes) (addr : N) (g_pc : N) (g_parse : val) : bool :=
  out_eqb val_eqb (omap snode_val (parse_snod file addr 8)) g_pc g_parse.

(* g_wc: class of WriteAt (a model Panic must be a Go panic); g_image: the bytes at [addr, addr+8+max*40) *)
Definition snod_ok (cap : N) (entries : list (N * N * N * N)) (max addr : N) (g_adds : list bool) (g_wc : N) (g_image : bytes)
           (g_pc : N) (g_parse : val) : bool :=
  let '(adds, s) := snod_adds (new_snode cap) (map mk_sym entries) in
  list_eqb Bool.eqb adds g_adds
  && match snod_write_at s 8 max with
     | Ok img => (g_wc =? 0) && bytes_eqb img g_image && parse_ok (zeros (N.to_nat addr) ++ img) addr g_pc g_parse
     | Err => false
     | Panic => g_wc =? 2
     end.

Definition snodread_ok (file : bytes) (addr : N) (g_pc : N) (g_parse : val) : bool := parse_ok file addr g_pc g_parse.

(* ---------------------------------------------------------------- kind "btree" / "btreeread" *)
Fixpoint bt_adds (b : btnode) (ks : list (N * N)) : list bool * btnode :=
  match ks with
  | [] => ([], b)
  | (key, child) :: r =>
      match add_key b key child with
      | Ok b' => let '(l, bf) := bt_adds b' r in (true :: l, bf)
      | _ => let '(l, bf) := bt_adds b r in (false :: l, bf)
      end
  end.

Definition btree_ok (k : N) (keys : list (N * N)) (g_adds : list bool) (g_image : bytes) : bool :=
  let '(adds, b) := bt_adds (new_btnode 0 k) keys in
  list_eqb Bool.eqb adds g_adds && bytes_eqb (bt_write_at b 8 k) g_image.

(* g_entries: VL [bentry_val ..] (VL [] unless class 0) *)
Definition btreeread_ok (file : bytes) (addr : N) (g_c : N) (g_entries : val) : bool :=
  out_eqb val_eqb (omap (fun l => VL (map bentry_val l)) (read_group_btree_entries file addr 8)) g_c g_entries.
