(* Model of internal/core/datatype_bfloat16.go and internal/core/datatype_fp8.go.

   All functions work on bit patterns (N): float32 as its 32-bit pattern, codes as 8/16-bit patterns.
   Floating-point helper calls of the Go code are replaced by their exact mathematical value:
     - floor(math.Log2(float64 f)) for a positive normal float32 f is its unbiased exponent field
       (validated exhaustively against the Go function by the thorough tier of check C20);
     - f / 2^k, (m - 1.0), m * 2^M are exact in float32 for the ranges reached (power-of-two scaling of
       a 24-bit significand whose result stays normal), float64() is exact, math.RoundToEven is
       round-half-even on the exact value.  So "uint8(RoundToEven(x * 2^M))" is rne_shift below.
   No proofs in this file. *)
From HV Require Import Base.Prelude.

(* ---- float32 fields ---- *)
Definition f32_sign (x : N) : N := x / 2147483648.            (* bit 31 *)
Definition f32_mag  (x : N) : N := x mod 2147483648.          (* bits 30..0 *)
Definition f32_exp  (x : N) : N := (x mod 2147483648) / 8388608.
Definition f32_frac (x : N) : N := x mod 8388608.
Definition f32_is_nan (x : N) : bool := 2139095040 <? f32_mag x.   (* 0x7F800000 *)
Definition f32_is_inf (x : N) : bool := f32_mag x =? 2139095040.
Definition f32_canon_nan : N := 2143289344.                     (* 0x7FC00000 = float32(math.NaN()) *)

(* round x / 2^k to nearest, ties to even *)
Definition rne_shift (x k : N) : N :=
  let q := x / 2 ^ k in
  let r := x mod 2 ^ k in
  let h := 2 ^ k / 2 in
  if k =? 0 then x
  else if r <? h then q else if h <? r then q + 1 else if N.even q then q else q + 1.

(* ---- bfloat16 (datatype_bfloat16.go) ---- *)
Definition bf16_dec (c : N) : N := (c * 65536) mod 4294967296.       (* uint32(b) << 16 *)

Definition bf16_enc (x : N) : N :=
  if 2139095040 <? N.land x 2147483647 then             (* bits&0x7FFFFFFF > 0x7F800000 *)
    wrap16 (N.lor (N.shiftr x 16) 64)                    (* BFloat16(bits>>16 | 0x0040) *)
  else
    let b :=
      if negb (N.land x 32768 =? 0) then                (* bits & 0x8000 *)
        if negb (N.land x 32767 =? 0) then wrap32 (x + 32768)
        else if negb (N.land x 65536 =? 0) then wrap32 (x + 32768) else x
      else x in
    wrap16 (N.shiftr b 16).

Definition bf16_bytes (c : N) : bytes := le 2 c.        (* Encode *)
Definition bf16_unbytes (b : bytes) : N := unle b.      (* DecodeBFloat16 *)

(* ---- FP8 (datatype_fp8.go), generic in mantissa width M and bias ---- *)
Record fp8fmt := { fM : N; fbias : N }.
Definition E4M3 := {| fM := 3; fbias := 7 |}.
Definition E5M2 := {| fM := 2; fbias := 15 |}.
Definition f_emax (F : fp8fmt) : N := 2 ^ (7 - fM F) - 1.           (* all-ones exponent field *)
Definition f_expmask (F : fp8fmt) : N := f_emax F * 2 ^ fM F.      (* 0x78 / 0x7C *)
Definition f_mantmask (F : fp8fmt) : N := 2 ^ fM F - 1.

(* ToFloat32 *)
Definition fp8_dec (F : fp8fmt) (c : N) : N :=
  let sign := c / 128 in
  let e := (c mod 128) / 2 ^ fM F in
  let m := c mod 2 ^ fM F in
  if e =? f_emax F then
    if m =? f_mantmask F then sign * 2147483648 + 2139095040 else f32_canon_nan
  else if e =? 0 then
    if m =? 0 then sign * 2147483648
    else
      (* subnormal m * 2^(1-bias-M): normalise *)
      let p := N.log2 m in
      sign * 2147483648 + (p + 128 - fbias F - fM F) * 8388608 + (m - 2 ^ p) * 2 ^ (23 - p)
  else
    sign * 2147483648 + (e + 127 - fbias F) * 8388608 + m * 2 ^ (23 - fM F).

(* magnitude part of Float32ToFP8*, for a non-NaN, non-zero-handled input magnitude *)
Definition fp8_enc_mag (F : fp8fmt) (mag : N) : N :=
  let e32 := mag / 8388608 in
  let frac := mag mod 8388608 in
  if 127 + f_emax F - fbias F <? e32 then 127                      (* exponentInt > emax-bias: Inf *)
  else if e32 <? 128 - fbias F then                                (* exponentInt < 1-bias *)
    if e32 <? 127 - fbias F - fM F then 0                          (* underflow to zero *)
    else rne_shift (8388608 + frac) (151 - fM F - fbias F - e32)   (* subnormal, may carry to 2^M *)
  else
    let be := e32 + fbias F - 127 in
    let code := be * 2 ^ fM F + rne_shift frac (23 - fM F) in
    if f_expmask F <=? code then 127 else code.

Definition fp8_enc (F : fp8fmt) (x : N) : N :=
  if f32_is_nan x then 127                                          (* NaN -> 0x7F (sic) *)
  else if f32_is_inf x then f32_sign x * 128 + 127
  else if f32_mag x =? 0 then f32_sign x * 128
  else f32_sign x * 128 + fp8_enc_mag F (f32_mag x).

(* ---- specification side: exact values, scaled by 2^149 so that everything is a natural ---- *)
Definition SC : N := 149.
(* value of a float32 magnitude (finite or the Inf pattern, read with the same formula) times 2^149 *)
Definition X32 (mag : N) : N :=
  let e32 := mag / 8388608 in
  let frac := mag mod 8388608 in
  if e32 =? 0 then frac else (8388608 + frac) * 2 ^ (e32 - 1).
(* value of an FP8 magnitude code (0 .. 2^7) times 2^149; for the first non-finite code the formula
   continues the grid (= max finite + ulp), which is what the IEEE overflow rule compares against *)
Definition V8 (F : fp8fmt) (c : N) : N :=
  let e := c / 2 ^ fM F in
  let m := c mod 2 ^ fM F in
  if e =? 0 then m * 2 ^ (SC + 1 - fbias F - fM F)
  else (2 ^ fM F + m) * 2 ^ (SC + e - fbias F - fM F).

Definition dist (a b : N) : N := if a <? b then b - a else a - b.
Definition codes_below (n : N) : list N := map N.of_nat (seq 0 (N.to_nat n)).

(* c is the correctly rounded magnitude code for the exact value X on the grid V:
   nearest among all finite codes [0,infc), ties to the even code, and the IEEE overflow rule
   (X at or beyond the midpoint between the largest finite value and the next grid point gives
   the infinity code). *)
Definition rne_spec (V : N -> N) (infc infcode X c : N) : bool :=
  if V (infc - 1) + V infc <=? 2 * X then c =? infcode
  else (c <? infc)
       && forallb (fun d => dist X (V c) <=? dist X (V d)) (codes_below infc)
       && forallb (fun d => (d =? c) || negb (dist X (V c) =? dist X (V d)) || N.even c) (codes_below infc).

Definition fp8_rne_ok (F : fp8fmt) (mag c : N) : bool :=
  rne_spec (V8 F) (f_expmask F) 127 (X32 mag) c.

(* bfloat16: the value of magnitude code d is the float32 value of d<<16; 0x7F80 is infinity *)
Definition bf16_rne_ok (mag c : N) : bool :=
  rne_spec (fun d => X32 (d * 65536)) 32640 32640 (X32 mag) c.

(* an FP8 code that the decoder reads as NaN: exponent field all ones, mantissa not all ones *)
Definition fp8_nan_code (F : fp8fmt) (c : N) : bool :=
  ((c mod 128) / 2 ^ fM F =? f_emax F) && negb (c mod 2 ^ fM F =? f_mantmask F).
