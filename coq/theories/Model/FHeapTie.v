(* Executable predicates evaluated by the correspondence check of C15 on implementation outputs.
   Byte strings returned by the implementation are transported as (length, CRC-32) digests; the model's own
   output is digested the same way and compared (the stored object data itself is an input and is literal
   or one of the two patterns below). *)
From HV Require Import Base.Prelude Base.Crc32 Model.FHeap.

(* input patterns for long objects *)
Definition rep (b n : N) : bytes := repeat b (N.to_nat n).
Definition ramp (b n : N) : bytes := obj b n.

Definition dg_eqb (x : bytes) (n c : N) : bool := (len x =? n) && (crc32 x =? c).

(* status vector the harness prints after every operation *)
Definition status (h : heap) : list N :=
  [h_nobj h; h_free h; h_manoff h; db_free (h_blk h); len (db_objs (h_blk h)); len (blocks_view h);
   (match h_ind h with Some _ => 1 | None => 0 end); h_lensz h].

Fixpoint dblock_list_eqb (a b : list (N * dblock)) : bool :=
  match a, b with
  | [], [] => true
  | (k, x) :: a', (k', y) :: b' =>
      (k =? k') && (db_hdraddr x =? db_hdraddr y) && (db_boff x =? db_boff y) && (db_size x =? db_size y)
      && bytes_eqb (db_objs x) (db_objs y) && (db_free x =? db_free y) && dblock_list_eqb a' b'
  | _, _ => false
  end.
Definition opt_eqb {A} (e : A -> A -> bool) (a b : option A) : bool :=
  match a, b with Some x, Some y => e x y | None, None => true | _, _ => false end.
Definition heap_eqb (a b : heap) : bool :=
  list_eqb N.eqb [h_free a; h_mansize a; h_alloc a; h_manoff a; h_nobj a; h_start a; h_maxdb a; h_root a;
                  h_rows a; h_lensz a; h_fhmax a]
                 [h_free b; h_mansize b; h_alloc b; h_manoff b; h_nobj b; h_start b; h_maxdb b; h_root b;
                  h_rows b; h_lensz b; h_fhmax b]
  && dblock_list_eqb [(0, h_blk a)] [(0, h_blk b)]
  && opt_eqb bytes_eqb (h_ind a) (h_ind b)
  && dblock_list_eqb (h_others a) (h_others b)
  && opt_eqb (fun x y => (fst x =? fst y) && (snd x =? snd y)) (h_loaded a) (h_loaded b).

(* one observed operation of the implementation: ok; digest of the returned id / data; same-state flag;
   status; CRC-32 of the header bytes and of the block bytes written by an sl *)
Record obs := mkObs { o_ok : bool; o_len : N; o_crc : N; o_same : bool; o_status : list N;
                      o_hdrcrc : N; o_blkcrc : N }.

Definition out_matches (x : out) (e : obs) : bool :=
  match x with
  | OId d | OData d => o_ok e && dg_eqb d (o_len e) (o_crc e)
  | OUnit => o_ok e
  | OErr => negb (o_ok e)
  end.

(* run the model along a history and compare every observable; also counts the inserts that had more than
   one candidate block (Go's choice is unspecified there) *)
Fixpoint trace_ok (cap : N -> N) (bs : N) (st : heap * fstate) (hist : list op) (es : list obs)
  : bool * N * (heap * fstate) :=
  match hist, es with
  | [], [] => (true, 0, st)
  | o :: r, e :: es' =>
      let '(h, fs) := st in
      let amb := match o with Ins d _ => if 1 <? insert_choices cap h d then 1 else 0 | _ => 0 end in
      let '(h1, fs1, x) := step cap bs st o in
      let ok_out := out_matches x e in
      let ok_same := match o with SL => true | _ => Bool.eqb (heap_eqb h h1) (o_same e) end in
      let ok_st := list_eqb N.eqb (status h1) (o_status e) in
      let ok_bytes :=
        match o with
        | SL =>
            match store h fs with
            | Err => bytes_eqb (f_bytes fs1) (f_bytes fs)     (* refused: the file is untouched *)
            | Ok _ =>
                let ha := match h_loaded h with Some (a, _) => a | None => f_next fs end in
                let ba := match h_loaded h with Some (_, b) => b | None => f_next fs + HDR_SIZE end in
                (crc32 (slice (f_bytes fs1) ha HDR_SIZE) =? o_hdrcrc e)
                && (crc32 (slice (f_bytes fs1) ba (db_size (h_blk h))) =? o_blkcrc e)
            end
        | _ => true
        end in
      let '(okr, ambr, stf) := trace_ok cap bs (h1, fs1) r es' in
      (ok_out && ok_same && ok_st && ok_bytes && okr, amb + ambr, stf)
  | _, _ => (false, 0, st)
  end.

(* the final store of the harness and the two read-only readers on the resulting file *)
Record robs := mkRObs { r_id : bytes; r_ro_ok : bool; r_ro_len : N; r_ro_crc : N;
                        r_core_ok : bool; r_core_len : N; r_core_crc : N }.

Definition res_matches (r : res bytes) (ok : bool) (n c : N) : bool :=
  match r with Ok x => ok && dg_eqb x n c | Err => negb ok end.

Definition final_ok (st : heap * fstate) (store_ok : bool) (hdrcrc : N) (blkcrc : N) (rs : list robs) : bool :=
  let '(h, fs) := st in
  match store h fs with
  | Err => negb store_ok
  | Ok (h1, fs1, ha) =>
      let f := f_bytes fs1 in
      store_ok
      && (crc32 (slice f ha HDR_SIZE) =? hdrcrc)
      && (crc32 (slice f (h_root h1) (db_size (h_blk h1))) =? blkcrc)
      && forallb (fun r => res_matches (ro_read f ha (r_id r)) (r_ro_ok r) (r_ro_len r) (r_ro_crc r)
                           && res_matches (core_read f ha (r_id r)) (r_core_ok r) (r_core_len r) (r_core_crc r)) rs
  end.

Record tcase := mkCase { c_bs : N; c_hist : list op; c_obs : list obs;
                         c_store_ok : bool; c_hdrcrc : N; c_blkcrc : N; c_readers : list robs }.

Definition out_eqb (a b : out) : bool :=
  match a, b with
  | OId x, OId y | OData x, OData y => bytes_eqb x y
  | OUnit, OUnit | OErr, OErr => true
  | _, _ => false
  end.

(* result per case = case + 8 * spec where
   case: 0 = everything agrees; 1 = an operation disagrees; 2 = final store / readers disagree;
         +4 when the history had an insert with more than one candidate block;
   spec: the Coq specification on the same history: 0 = outside its domain, 1 = model outputs equal the
         specification's, 2 = they differ *)
Definition case_code (cap : N -> N) (c : tcase) : N :=
  let st0 := (new_heap (c_bs c), fs0) in
  let '(ok, amb, st) := trace_ok cap (c_bs c) st0 (c_hist c) (c_obs c) in
  let fin := final_ok st (c_store_ok c) (c_hdrcrc c) (c_blkcrc c) (c_readers c) in
  let cc := (if ok then (if fin then 0 else 2) else 1) + (if 0 <? amb then 4 else 0) in
  let sc := match spec_run (c_bs c) spec0 (c_hist c) with
            | None => 0
            | Some (_, eouts) =>
                let '(_, outs) := run cap (c_bs c) st0 (c_hist c) in
                if list_eqb out_eqb outs eouts then 1 else 2
            end in
  cc + 8 * sc.
