(* C01: the byte image of the file that

     fw := CreateForWrite(file, CreateTruncate, WithSuperblockVersion(0))   (superblock version 0: dataset_write.go:674)
     ds := fw.CreateDataset("/"+name, dtype, dims)                          (contiguous layout: dataset_write.go:868)
     ds.Write(data)                                                         (dataset_write.go:1282)
     fw.Close()                                                             (dataset_write.go:2338)

   leaves behind.  For superblock version 0 the root group's structures are NOT allocated: createRootGroupStructureV0
   (dataset_write.go:2815) writes them at fixed offsets behind the 96-byte superblock, in ascending address order,

       0     superblock v0, 96 bytes: the root symbol table entry (object header 96, cache type 1, scratch pad = B-tree 136,
                                      heap 1480) is part of it; the end-of-file field is rewritten by Close
      96     root object header VERSION 1 with the symbol table message, 16 + 24 = 40 bytes (Model/CodecOhdr.v enc_ohdr_v1)
     136     group B-tree node: BTreeNodeV1.WriteAt writes the full 544-byte node (24 + 33*8 + 32*8), but only 56 bytes are
             set aside for it (btreeSize := 56, dataset_write.go:2831) and the symbol table node is written AFTERWARDS at 192
             on top of the rest: what stays of the node is its first 56 bytes (header, key 0, child 0, key 1, child 1)
     192     symbol table node, 8 + 32*40 bytes (after linkToParent: one entry)
    1480     local heap: 32-byte header + 256-byte segment (after linkToParent: name NUL)
    1768     = 1480 + 32 + 256: CreateForWrite (dataset_write.go:726, since /repo 3905a26) moves the allocator's end of file
             from 96 to here, so the dataset's raw data, |data| bytes, is allocated here
    1768+|data|  the dataset's object header, VERSION 2 also in a version 0 file, in a reserved block of 7+255 bytes
    end      = the allocator's end of file; Close extends the file to it and stores it in the superblock.

   The whole image is compared byte for byte with files written by the library on every run (tools/props/c01filev0.py).
   No proofs here (Proofs/FileImageV0*.v; theorems Props/C01FileV0.v). *)
From HV Require Import Base.Prelude Base.Outcome Base.Bytes.
From HV Require Import Model.CodecSuper Model.CodecOhdr Model.CodecMsg Model.CodecType Model.CodecLink Model.GroupWire.
From HV Require Import Model.FileImage.

(* ------------------------------------------------------------------ addresses (createRootGroupStructureV0) *)
Definition SBP0 : sbparams := {| sb_version := 0; sb_offsize := 8; sb_lensize := 8; sb_bigendian := false |}.
Definition ROOT0_ADDR : N := 96.                                   (* rootGroupAddr := uint64(96) *)
Definition ROOT0_SIZE : N := 16 + 20 + 4.                          (* objHeaderSize *)
Definition BTREE0_RESERVED : N := 56.                              (* btreeSize *)
Definition BTREE0_ADDR : N := ROOT0_ADDR + ROOT0_SIZE.             (* 136 *)
Definition SNOD0_ADDR : N := BTREE0_ADDR + BTREE0_RESERVED.        (* 192 *)
Definition HEAP0_ADDR : N := SNOD0_ADDR + snod_alloc_size 8.       (* 1480 *)
(* dataset_write.go:726  end := rootInfo.heapAddr + 32 + rootInfo.heapSize; fw.Allocate(end - fw.EndOfFile()) *)
Definition DATA0_ADDR : N := HEAP0_ADDR + 32 + HEAP_INIT.          (* 1768 *)

(* writeRootGroupHeaderAt (dataset_write.go:2964) with objectHeaderVersion = 1 *)
Definition root_ohdr_v0 : ohdr :=
  {| oh_version := 1; oh_flags := 0; oh_refcount := 1;
     oh_msgs := [ {| hm_type := 17; hm_data := enc_symtab 8 {| st_btree := BTREE0_ADDR; st_heap := HEAP0_ADDR |} |} ] |}.

Section Image.
Variable name : bytes.            (* the link name, without the leading "/" *)
Variables class size cbf : N.     (* the registry entry of dtype *)
Variable dims : list N.
Variable data : bytes.            (* what Write hands to WriteAtAddress: the little-endian element bytes *)

Definition dset_addr0 : N := DATA0_ADDR + blen data.                                   (* Allocate(dataSize); Allocate(262) *)
Definition eof_addr0 : N := dset_addr0 + OHDR_RESERVE.

(* CreateDataset: datatype, dataspace, layout (dataset_write.go:959); the header is a version 2 header *)
Definition dset_ohdr0 : ohdr :=
  {| oh_version := 2; oh_flags := 0; oh_refcount := 1;
     oh_msgs := [ {| hm_type := 3; hm_data := enc_datatype (dtype_msg class size cbf) |};
                  {| hm_type := 1; hm_data := enc_dataspace {| ds_dims := dims; ds_maxdims := [] |} |};
                  {| hm_type := 8; hm_data := enc_layout SBP0 (LContig (data_size size dims) DATA0_ADDR) |} ] |}.

(* the superblock as Close leaves it *)
Definition final_sb0 : superblock :=
  {| sp_version := 0; sp_offsize := 8; sp_lensize := 8; sp_base := 0; sp_root := ROOT0_ADDR; sp_superext := 0;
     sp_rootbtree := BTREE0_ADDR; sp_rootheap := HEAP0_ADDR; sp_eof := eof_addr0 |}.

(* the root group's structures after linkToParent (group_write.go:309): Model/FileImage.v final_heap (name NUL at 0) *)
Definition final_sym0 : sym := {| sy_name := 0; sy_obj := dset_addr0; sy_cache := 0; sy_res := 0; sy_bt := 0; sy_heap := 0 |}.
Definition final_snode0 : snode := {| stn_version := 1; stn_num := 1; stn_entries := [final_sym0]; stn_cap := SNOD_CAP |}.
(* writeBTreeNodeAt (dataset_write.go:2900): one key 0 / child 192; never rewritten *)
Definition final_btnode0 : btnode :=
  {| btn_type := 0; btn_level := 0; btn_used := 1; btn_left := UNDEF; btn_right := UNDEF;
     btn_keys := [0]; btn_children := [SNOD0_ADDR]; btn_cap := 2 * GROUP_K + 1 |}.

Definition snod_block0 : bytes := match snod_write_at final_snode0 8 SNOD_CAP with Ok b => b | _ => [] end.
(* the part of the 544-byte node image the symbol table node (written later, at 192) does not cover *)
Definition bt_block0 : bytes := firstn (N.to_nat BTREE0_RESERVED) (bt_write_at final_btnode0 8 GROUP_K).
Definition dset_block0 : bytes :=
  enc_ohdr_v2 dset_ohdr0 ++ zeros (N.to_nat (OHDR_RESERVE - size_ohdr_v2 dset_ohdr0)).

Definition blocks_v0 : list bytes :=
  [ enc_superblock final_sb0;
    enc_ohdr_v1 root_ohdr_v0;
    bt_block0;
    snod_block0;
    heap_image (final_heap name) HEAP0_ADDR;
    data;
    dset_block0 ].

Definition image_v0 : bytes := place_all blocks_v0.
End Image.

(* ------------------------------------------------------------------ tie (tools/props/c01filev0.py) *)
Definition image_v0_case_ok (c : list string * N * list N * list string * list string) : bool :=
  match c with
  | (name, code, dims, data, file) =>
      let '(class, size, cbf) := dtype_of_code code in
      bytes_eqb (image_v0 (unhex_parts name) class size cbf dims (unhex_parts data)) (unhex_parts file)
  end.
