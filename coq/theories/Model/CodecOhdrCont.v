(* C11 codec models, group 5b: object header version 2 WITH continuation chunks.
   Transcription of internal/core/objectheader.go parseV2Header as it is since /repo 57823d4 (the reader
   follows continuation messages, type 0x10, into "OCHK" chunks) and of
   internal/core/objectheader_v1.go parseContinuationMessage.
   Model/CodecOhdr.v (unchanged) stops with Err at a continuation message; here the `pending` queue of
   chunk ranges, the `visited` address set with its 1024 bound, the "OCHK" signature read and the
   end-of-continuation-chunk gap rule are modelled.  Version 1 headers and everything else delegate to
   Model/CodecOhdr.v.  The library's writer never emits continuation chunks
   (internal/core/objectheader_write.go): the encoder side below is a specification-side encoder.
   No proofs here (Proofs/CodecOhdrCont.v). *)
From HV Require Import Base.Prelude Base.Outcome Base.Bytes Model.CodecOhdr.

Definition OCHK : bytes := [79; 67; 72; 75].

(* `switch sb.OffsetSize { case 1, 2, 4, 8: ...; default: error }` *)
Definition size_ok (k : N) : bool := (k =? 1) || (k =? 2) || (k =? 4) || (k =? 8).

(* parseContinuationMessage(data, sb): os = sb.OffsetSize, ls = sb.LengthSize (uint8 values: their sum
   wraps at 256), byte order = sb.Endianness.  data[0:os] / data[os:os+ls] beyond len(data) panic. *)
Definition parse_cont (os ls : N) (sbBE : bool) (data : bytes) : outcome (N * N) :=
  if blen data <? wrap8 (os + ls) then Err else
  if negb (size_ok os) then Err else
  a <- rd_end data 0 os sbBE;;
  if negb (size_ok ls) then Err else
  s <- rd_end data os ls sbBE;;
  if s =? 0 then Err else Ok (a, s).

(* The two nested loops of parseV2Header
     for len(pending) > 0 { pop (current, end, isCont); for current < end { ... } }
   as one recursion: state = the chunk being read (isCont, current, end_), the queue of the chunks still
   to read (every queued chunk is a continuation chunk: cont = true) and the visited addresses.
   One unit of fuel per message header read and per chunk change. *)
Fixpoint v2_loop_c (fuel : nat) (file : bytes) (os ls : N) (isBE sbBE : bool) (hdr : N)
    (isCont : bool) (current end_ : N) (pending : list (N * N)) (visited : list N) : outcome (list hmsg') :=
  match fuel with
  | O => Err
  | S fuel' =>
      if (current <? end_) && negb (isCont && (end_ <? wrap64 (current + hdr))) then
        if negb (readable file current 6) then Err else
        ty <- index file current;;
        size <- (if isBE then rd_be file (current + 1) 2 else rd_le file (current + 1) 2);;
        if size =? 0 then v2_loop_c fuel' file os ls isBE sbBE hdr isCont (wrap64 (current + hdr)) end_ pending visited
        else
          let dstart := wrap64 (current + hdr) in
          if negb (readable file dstart size) then Err else
          data <- slice file dstart (dstart + size);;
          let m := {| hmp_type := ty; hmp_offset := current; hmp_data := data |} in
          let next := wrap64 (current + hdr + size) in
          if ty =? MSG_CONT then
            c <- parse_cont os ls sbBE data;;
            let a := fst c in let s := snd c in
            if (s <? 8) || existsb (N.eqb a) visited || (1024 <=? N.of_nat (length visited)) then Err else
            if negb (readable file a 4) then Err else
            sig <- slice file a (a + 4);;
            if negb (bytes_eqb sig OCHK) then Err else
            rest <- v2_loop_c fuel' file os ls isBE sbBE hdr isCont next end_
                      (pending ++ [(wrap64 (a + 4), sub64 (wrap64 (a + s)) 4)]) (a :: visited);;
            Ok (m :: rest)
          else
            rest <- v2_loop_c fuel' file os ls isBE sbBE hdr isCont next end_ pending visited;;
            Ok (m :: rest)
      else
        match pending with
        | [] => Ok []
        | (s, e) :: p => v2_loop_c fuel' file os ls isBE sbBE hdr true s e p visited
        end
  end.

(* enough for every terminating run: a chunk is left after at most (length file) message headers (each one
   advances by at least 4 bytes and must lie inside the file), and at most 1 + 1024 chunks are read *)
Definition fuel_c (file : bytes) : nat := (1026 * S (length file))%nat.

Definition parse_v2_c (os ls : N) (file : bytes) (addr flags : N) (isBE sbBE : bool) (version : N) : outcome ohdr' :=
  let current := wrap64 (addr + 6) in
  let current := if N.testbit flags 5 then wrap64 (current + 16) else current in
  let current := if N.testbit flags 4 then wrap64 (current + 4) else current in
  let csb := N.shiftl 1 (N.land flags 3) in
  if negb (readable file current csb) then Err else
  chunkSize <- (if isBE && negb (csb =? 1) then rd_be file current csb else rd_le file current csb);;
  let current := wrap64 (current + csb) in
  let end_ := sub64 (wrap64 (current + chunkSize)) 4 in
  let hdr := if N.testbit flags 2 then 6 else 4 in
  ms <- v2_loop_c (fuel_c file) file os ls isBE sbBE hdr false current end_ [] [];;
  Ok {| ohp_version := version; ohp_flags := flags; ohp_refcount := refcount_v2 ms sbBE;
        ohp_name := name_v2 ms; ohp_msgs := ms |}.

(* ReadObjectHeader with sb.OffsetSize = os, sb.LengthSize = ls, sb.Endianness = sbBE *)
Definition dec_ohdr_c (os ls : N) (sbBE : bool) (file : bytes) (addr : N) : outcome ohdr' :=
  if 9223372036854775808 <=? addr then Err else
  if negb (readable file addr 8) then Err else
  p <- slice file addr (addr + 8);;
  if bytes_eqb (firstn 4 p) OHDR then
    version <- index p 4;; flags <- index p 5;;
    if version =? 1 then parse_v1 file addr flags sbBE
    else if version =? 2 then parse_v2_c os ls file addr flags false sbBE version
    else Err
  else if bytes_eqb (rev (firstn 4 p)) OHDR then
    version <- index p 7;; flags <- index p 6;;
    if version =? 1 then parse_v1 file addr flags sbBE
    else if version =? 2 then parse_v2_c os ls file addr flags true sbBE version
    else Err
  else
    p0 <- index p 0;; p1 <- index p 1;;
    if (p0 =? 1) && (p1 =? 0) then parse_v1 file addr 0 sbBE else Err.

(* ------------------------------------------------------------------ specification-side encoder *)

Definition enc_uint (bigendian : bool) (k : N) (v : N) : bytes :=
  if bigendian then be (N.to_nat k) v else le (N.to_nat k) v.

(* the continuation message: address (os bytes) and size (ls bytes) of the next chunk *)
Definition cont_msg (os ls : N) (sbBE : bool) (addr size : N) : hmsg :=
  {| hm_type := MSG_CONT; hm_data := enc_uint sbBE os addr ++ enc_uint sbBE ls size |}.

(* first chunk: "OHDR", version 2, flags, 1-byte chunk size, messages (the shape the writer produces) *)
Definition enc_chunk0 (flags : N) (ms : list hmsg) : bytes :=
  enc_ohdr_v2 {| oh_version := 2; oh_flags := flags; oh_refcount := 1; oh_msgs := ms |}.

(* continuation chunk: "OCHK", messages, a gap too small for a message header, 4 checksum bytes
   (the reader never looks at gap or checksum) *)
Definition enc_ochk (ms : list hmsg) (gap ck : bytes) : bytes := OCHK ++ body_v2 ms ++ gap ++ ck.

(* one continuation chunk of a chain: the bytes between the previous chunk and this one, the messages
   before and after the linking message (the last chunk of a chain has no linking message), gap, checksum *)
Record ochk := { k_between : bytes; k_a : list hmsg; k_b : list hmsg; k_gap : bytes; k_ck : bytes }.

Definition link_size (os ls : N) : N := 4 + os + ls.

Definition is_nil {A} (l : list A) : bool := match l with [] => true | _ => false end.

(* size of the chunk in the file ("OCHK" and checksum included) *)
Definition ochk_size (os ls : N) (k : ochk) (last : bool) : N :=
  4 + chunk_size_v2 (k_a k) + (if last then 0 else link_size os ls) + chunk_size_v2 (k_b k) + blen (k_gap k) + 4.

(* address and size of the first chunk of [ks] when its k_between starts at file offset [pos] *)
Definition next_link (os ls : N) (pos : N) (ks : list ochk) : option (N * N) :=
  match ks with
  | [] => None
  | k :: r => Some (pos + blen (k_between k), ochk_size os ls k (is_nil r))
  end.

Definition chunk_msgs (os ls : N) (sbBE : bool) (a b : list hmsg) (link : option (N * N)) : list hmsg :=
  match link with
  | None => a ++ b
  | Some l => a ++ [cont_msg os ls sbBE (fst l) (snd l)] ++ b
  end.

(* the continuation chunks, laid out from file offset [pos] on *)
Fixpoint build_ochks (os ls : N) (sbBE : bool) (pos : N) (ks : list ochk) : bytes :=
  match ks with
  | [] => []
  | k :: r =>
      let pos' := pos + blen (k_between k) + ochk_size os ls k (is_nil r) in
      k_between k ++ enc_ochk (chunk_msgs os ls sbBE (k_a k) (k_b k) (next_link os ls pos' r)) (k_gap k) (k_ck k)
      ++ build_ochks os ls sbBE pos' r
  end.

Definition chunk0_size (os ls : N) (a0 b0 : list hmsg) (last : bool) : N :=
  7 + chunk_size_v2 a0 + (if last then 0 else link_size os ls) + chunk_size_v2 b0.

(* the whole file: pre, first chunk at address (blen pre), continuation chunks, suf *)
Definition build_chain (os ls : N) (sbBE : bool) (pre : bytes) (flags : N) (a0 b0 : list hmsg)
    (ks : list ochk) (suf : bytes) : bytes :=
  let pos := blen pre + chunk0_size os ls a0 b0 (is_nil ks) in
  pre ++ enc_chunk0 flags (chunk_msgs os ls sbBE a0 b0 (next_link os ls pos ks))
  ++ build_ochks os ls sbBE pos ks ++ suf.

(* what the reader returns *)
Fixpoint msgs_ochks (os ls : N) (sbBE : bool) (pos : N) (ks : list ochk) : list hmsg' :=
  match ks with
  | [] => []
  | k :: r =>
      let pos' := pos + blen (k_between k) + ochk_size os ls k (is_nil r) in
      msgs_at_v2 (chunk_msgs os ls sbBE (k_a k) (k_b k) (next_link os ls pos' r)) (pos + blen (k_between k) + 4)
      ++ msgs_ochks os ls sbBE pos' r
  end.

Definition msgs_chain (os ls : N) (sbBE : bool) (addr : N) (a0 b0 : list hmsg) (ks : list ochk) : list hmsg' :=
  let pos := addr + chunk0_size os ls a0 b0 (is_nil ks) in
  msgs_at_v2 (chunk_msgs os ls sbBE a0 b0 (next_link os ls pos ks)) (addr + 7)
  ++ msgs_ochks os ls sbBE pos ks.

Definition proj_chain (os ls : N) (sbBE : bool) (addr flags : N) (a0 b0 : list hmsg) (ks : list ochk) : ohdr' :=
  let ms := msgs_chain os ls sbBE addr a0 b0 ks in
  {| ohp_version := 2; ohp_flags := flags; ohp_refcount := refcount_v2 ms sbBE;
     ohp_name := name_v2 ms; ohp_msgs := ms |}.

(* ---- well-formed chains ---- *)

(* messages of a continuation chunk: as in the first chunk, each with less than 64 KiB of data *)
Definition wf_msgs_c (ms : list hmsg) : bool :=
  forallb (fun m => wf_msg_v2 m && (blen (hm_data m) <? 65536)) ms.

Definition wf_ochk (k : ochk) : bool :=
  wf_msgs_c (k_a k) && wf_msgs_c (k_b k) && (blen (k_gap k) <? 4) && (blen (k_ck k) =? 4).

(* flags as for wf_ohdr_v2; the messages of the first chunk (linking message included) fit the 1-byte chunk
   size; at most 1024 continuation chunks; offset / length sizes as the format allows *)
Definition wf_chain (os ls : N) (flags : N) (a0 b0 : list hmsg) (ks : list ochk) : bool :=
  size_ok os && size_ok ls && (flags <? 256) && (N.land flags 55 =? 0) &&
  wf_msgs_c a0 && wf_msgs_c b0 && (chunk0_size os ls a0 b0 (is_nil ks) <=? 7 + 255) &&
  forallb wf_ochk ks && (N.of_nat (length ks) <=? 1024).
