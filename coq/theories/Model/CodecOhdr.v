(* C11 codec models, group 5: object header, versions 2 and 1.
   Transcription of internal/core/objectheader_write.go writeToV2 / writeToV1 and of
   internal/core/objectheader.go ReadObjectHeader / parseV2Header and
   internal/core/objectheader_v1.go parseV1Header / parseV1MessagesInBlock (first block; continuation
   blocks / chunks are followed by the Go reader only when a message of type 0x10 is present: not modelled,
   the tie leaves such inputs out).
   The decoders read from a file image at an address (io.ReaderAt): a read that does not fit in the
   file is an error.  No proofs here (Proofs/CodecOhdr.v). *)
From HV Require Import Base.Prelude Base.Outcome Base.Bytes.

Record hmsg := { hm_type : N; hm_data : bytes }.
(* HeaderMessage as returned by the reader: type, absolute file offset of the message, data *)
Record hmsg' := { hmp_type : N; hmp_offset : N; hmp_data : bytes }.

Record ohdr := { oh_version : N; oh_flags : N; oh_refcount : N; oh_msgs : list hmsg }.
Record ohdr' := { ohp_version : N; ohp_flags : N; ohp_refcount : N; ohp_name : bytes; ohp_msgs : list hmsg' }.

Definition MSG_NAME := 13.
Definition MSG_CONT := 16.
Definition MSG_REFCOUNT := 22.

(* r.ReadAt(buf[0:len], off) succeeds iff the range lies inside the file *)
Definition readable (file : bytes) (off len : N) : bool := off + len <=? blen file.

(* ------------------------------------------------------------------ version 2 *)

Definition enc_msg_v2 (m : hmsg) : bytes :=
  [wrap8 (hm_type m)] ++ le 2 (wrap16 (blen (hm_data m))) ++ [0] ++ hm_data m.
Definition body_v2 (ms : list hmsg) : bytes := concat (map enc_msg_v2 ms).
Definition chunk_size_v2 (ms : list hmsg) : N := fold_right (fun m acc => 4 + blen (hm_data m) + acc) 0 ms.

Definition encok_ohdr_v2 (x : ohdr) : bool := chunk_size_v2 (oh_msgs x) <=? 255.

Definition enc_ohdr_v2 (x : ohdr) : bytes :=
  [79; 72; 68; 82] ++ [oh_version x; oh_flags x; wrap8 (chunk_size_v2 (oh_msgs x))] ++ body_v2 (oh_msgs x).

Definition size_ohdr_v2 (x : ohdr) : N := 7 + chunk_size_v2 (oh_msgs x).

(* the reader's message loop:  for current < end { read 6 bytes at current; ... } *)
Fixpoint v2_loop (fuel : nat) (file : bytes) (isBE : bool) (hdr : N) (current end_ : N) : outcome (list hmsg') :=
  match fuel with
  | O => Err
  | S fuel' =>
      if current <? end_ then
        if negb (readable file current 6) then Err else
        ty <- index file current;;
        size <- (if isBE then rd_be file (current + 1) 2 else rd_le file (current + 1) 2);;
        if size =? 0 then v2_loop fuel' file isBE hdr (wrap64 (current + hdr)) end_
        else
          let dstart := wrap64 (current + hdr) in
          if negb (readable file dstart size) then Err else
          data <- slice file dstart (dstart + size);;
          (* since /repo 57823d4 a continuation message (type 0x10) makes the reader parse it and queue the
             "OCHK" chunk it points to; continuation chunks are outside this model, which stops here *)
          if ty =? MSG_CONT then Err else
          rest <- v2_loop fuel' file isBE hdr (wrap64 (current + hdr + size)) end_;;
          Ok ({| hmp_type := ty; hmp_offset := current; hmp_data := data |} :: rest)
      else Ok []
  end.

(* name = data[1:] of the last Name message (type 13) longer than 1 byte *)
Definition name_v2 (ms : list hmsg') : bytes :=
  fold_left (fun nm m => if (hmp_type m =? MSG_NAME) && (1 <? blen (hmp_data m)) then skipn 1 (hmp_data m) else nm) ms [].

(* reference count: 1, or the first RefCount message (type 22) with at least 4 bytes *)
Fixpoint refcount_v2 (ms : list hmsg') (bigendian : bool) : N :=
  match ms with
  | [] => 1
  | m :: r => if (hmp_type m =? MSG_REFCOUNT) && (4 <=? blen (hmp_data m))
              then (let w := firstn 4 (hmp_data m) in if bigendian then unbe w else unle w)
              else refcount_v2 r bigendian
  end.

Definition parse_v2 (file : bytes) (addr flags : N) (isBE sbBE : bool) (version : N) : outcome ohdr' :=
  let current := wrap64 (addr + 6) in
  let current := if N.testbit flags 5 then wrap64 (current + 16) else current in
  let current := if N.testbit flags 4 then wrap64 (current + 4) else current in
  let csb := N.shiftl 1 (N.land flags 3) in
  if negb (readable file current csb) then Err else
  chunkSize <- (if isBE && negb (csb =? 1) then rd_be file current csb else rd_le file current csb);;
  let current := wrap64 (current + csb) in
  let end_ := sub64 (wrap64 (current + chunkSize)) 4 in
  let hdr := if N.testbit flags 2 then 6 else 4 in
  ms <- v2_loop (S (length file)) file isBE hdr current end_;;
  Ok {| ohp_version := version; ohp_flags := flags; ohp_refcount := refcount_v2 ms sbBE;
        ohp_name := name_v2 ms; ohp_msgs := ms |}.

(* ------------------------------------------------------------------ version 1 *)

Definition pad_to8 (n : N) : N := if n mod 8 =? 0 then n else n + (8 - n mod 8).

Definition enc_msg_v1 (m : hmsg) : bytes :=
  let len := blen (hm_data m) in
  le 2 (wrap16 (hm_type m)) ++ le 2 (wrap16 len) ++ [0; 0; 0; 0] ++ hm_data m
  ++ zeros (N.to_nat (pad_to8 (8 + len) - (8 + len))).
Definition body_v1 (ms : list hmsg) : bytes := concat (map enc_msg_v1 ms).

Definition nmsgs (ms : list hmsg) : N := N.of_nat (length ms).

Definition msgs_size_v1 (ms : list hmsg) : N :=
  fold_right (fun m acc => pad_to8 (8 + blen (hm_data m)) + acc) 0 ms.

(* Switch for the proposed repair notes/fixes/ohdr-v1-size-field.patch:
   [false] = the code as it is: the "object header size" field is uint32(16 + 8 * number of messages),
             NOT the number of message bytes that follow the prefix;
   [true]  = repaired: uint32(totalSize - 16) = the message bytes.
   The tie decides on a probe header which of the two the tree under test implements and compares with
   enc_ohdr_v1_gen of that variant; the unrepaired variant is reported as finding C11-ohdr-v1-size-field. *)
Definition v1_size_field_repaired : bool := true.

Definition v1_size_field (repaired : bool) (ms : list hmsg) : N :=
  if repaired then wrap32 (msgs_size_v1 ms) else wrap32 (16 + nmsgs ms * 8).

Definition enc_ohdr_v1_gen (repaired : bool) (x : ohdr) : bytes :=
  [1; 0] ++ le 2 (wrap16 (nmsgs (oh_msgs x))) ++ le 4 (wrap32 (oh_refcount x))
  ++ le 4 (v1_size_field repaired (oh_msgs x)) ++ zeros 4 ++ body_v1 (oh_msgs x).
Definition enc_ohdr_v1 (x : ohdr) : bytes := enc_ohdr_v1_gen v1_size_field_repaired x.

Definition size_ohdr_v1 (x : ohdr) : N := 16 + msgs_size_v1 (oh_msgs x).

Definition rd_end (file : bytes) (off k : N) (bigendian : bool) : outcome N :=
  if bigendian then rd_be file off k else rd_le file off k.

(* parseV1MessagesInBlock *)
Fixpoint v1_loop (fuel : nat) (file : bytes) (sbBE : bool) (current end_ count max : N) : outcome (list hmsg') :=
  match fuel with
  | O => Err
  | S fuel' =>
      if current <? end_ then
        if max <=? count then Ok [] else
        if end_ <? wrap64 (current + 8) then Ok [] else
        if negb (readable file current 8) then Err else            (* a short read is an error since /repo 2f75958 *)
        ty <- rd_end file current 2 sbBE;;
        size <- rd_end file (current + 2) 2 sbBE;;
        if size =? 0 then v1_loop fuel' file sbBE (wrap64 (current + 8)) end_ count max
        else
          if end_ <? wrap64 (current + 8 + size) then Ok [] else
          if negb (readable file (wrap64 (current + 8)) size) then Err else
          data <- slice file (current + 8) (current + 8 + size);;
          rest <- v1_loop fuel' file sbBE (wrap64 (current + pad_to8 (8 + size))) end_ (wrap16 (count + 1)) max;;
          Ok ({| hmp_type := ty; hmp_offset := current; hmp_data := data |} :: rest)
      else Ok []
  end.

(* name = bytes of the last non-empty Name message up to its first NUL *)
Definition name_v1 (ms : list hmsg') : bytes :=
  fold_left (fun nm m => if (hmp_type m =? MSG_NAME) && (0 <? blen (hmp_data m))
                         then firstn (N.to_nat (find0 (hmp_data m) 0)) (hmp_data m) else nm) ms [].

Definition parse_v1 (file : bytes) (addr flags : N) (sbBE : bool) : outcome ohdr' :=
  if negb (readable file addr 16) then Err else
  v <- index file addr;;
  if negb (v =? 1) then
    (* utils.WrapError("invalid v1 header version", nil) is nil: accepted as an empty header *)
    Ok {| ohp_version := 1; ohp_flags := flags; ohp_refcount := 0; ohp_name := []; ohp_msgs := [] |}
  else
  num <- rd_end file (addr + 2) 2 sbBE;;
  refc <- rd_end file (addr + 4) 4 sbBE;;
  hsize <- rd_end file (addr + 8) 4 sbBE;;
  let current := wrap64 (addr + 16) in
  let end_ := wrap64 (addr + 16 + hsize) in
  ms <- v1_loop (S (length file)) file sbBE current end_ 0 num;;
  Ok {| ohp_version := 1; ohp_flags := flags; ohp_refcount := refc; ohp_name := name_v1 ms; ohp_msgs := ms |}.

(* ------------------------------------------------------------------ ReadObjectHeader *)

Definition OHDR : bytes := [79; 72; 68; 82].

Definition dec_ohdr (sbBE : bool) (file : bytes) (addr : N) : outcome ohdr' :=
  if 9223372036854775808 <=? addr then Err else
  if negb (readable file addr 8) then Err else
  p <- slice file addr (addr + 8);;
  if bytes_eqb (firstn 4 p) OHDR then
    version <- index p 4;; flags <- index p 5;;
    if version =? 1 then parse_v1 file addr flags sbBE
    else if version =? 2 then parse_v2 file addr flags false sbBE version
    else Err
  else if bytes_eqb (rev (firstn 4 p)) OHDR then
    version <- index p 7;; flags <- index p 6;;
    if version =? 1 then parse_v1 file addr flags sbBE
    else if version =? 2 then parse_v2 file addr flags true sbBE version
    else Err
  else
    p0 <- index p 0;; p1 <- index p 1;;
    if (p0 =? 1) && (p1 =? 0) then parse_v1 file addr 0 sbBE else Err.

(* ---- well-formed values ---- *)

Definition wf_msg_v2 (m : hmsg) : bool :=
  (hm_type m <? 256) && negb (hm_type m =? MSG_CONT) && (1 <=? blen (hm_data m)) && bytes_ok (hm_data m).

(* flag bits 0-1 (chunk size width), 2 (6-byte message headers), 4 (phase change fields), 5 (times) make
   the reader expect fields the writer never writes; the other bits are carried through unchanged *)
Definition wf_ohdr_v2 (x : ohdr) : bool :=
  (oh_version x =? 2) && (oh_flags x <? 256) && (N.land (oh_flags x) 55 =? 0) &&
  encok_ohdr_v2 x && forallb wf_msg_v2 (oh_msgs x).

Fixpoint msgs_at_v2 (ms : list hmsg) (current : N) : list hmsg' :=
  match ms with
  | [] => []
  | m :: r => {| hmp_type := hm_type m; hmp_offset := current; hmp_data := hm_data m |}
              :: msgs_at_v2 r (current + 4 + blen (hm_data m))
  end.

Definition proj_ohdr_v2 (sbBE : bool) (x : ohdr) (addr : N) : ohdr' :=
  let ms := msgs_at_v2 (oh_msgs x) (addr + 7) in
  {| ohp_version := 2; ohp_flags := oh_flags x; ohp_refcount := refcount_v2 ms sbBE;
     ohp_name := name_v2 ms; ohp_msgs := ms |}.

Definition val_hmsg' (m : hmsg') : val := VL [VN (hmp_type m); VN (hmp_offset m); VB (hmp_data m)].
Definition val_ohdr' (o : ohdr') : val :=
  VL [VN (ohp_version o); VN (ohp_flags o); VN (ohp_refcount o); VB (ohp_name o); VL (map val_hmsg' (ohp_msgs o))].

(* version 1: the value round-trips only when the messages fit in the (wrong) size field *)
Fixpoint msgs_at_v1 (ms : list hmsg) (current : N) : list hmsg' :=
  match ms with
  | [] => []
  | m :: r => {| hmp_type := hm_type m; hmp_offset := current; hmp_data := hm_data m |}
              :: msgs_at_v1 r (current + pad_to8 (8 + blen (hm_data m)))
  end.
Definition proj_ohdr_v1 (x : ohdr) (addr : N) : ohdr' :=
  let ms := msgs_at_v1 (oh_msgs x) (addr + 16) in
  {| ohp_version := 1; ohp_flags := 0; ohp_refcount := oh_refcount x; ohp_name := name_v1 ms; ohp_msgs := ms |}.

(* witness for the v1 size-field defect: two 16-byte messages; the size field says 32, the messages take 48 *)
Definition ohdr_v1_witness : ohdr :=
  {| oh_version := 1; oh_flags := 0; oh_refcount := 1;
     oh_msgs := [ {| hm_type := 17; hm_data := le 8 1000 ++ le 8 2000 |};
                  {| hm_type := 1; hm_data := [1; 1; 0; 0; 0; 0; 0; 0] ++ le 8 5 |} ] |}.

(* well-formed version 1 headers: 16-bit message types, no continuation messages, non-empty data of less
   than 64 KiB per message, at most 65535 messages, a 32-bit reference count and message block *)
Definition wf_msg_v1 (m : hmsg) : bool :=
  (hm_type m <? 65536) && negb (hm_type m =? MSG_CONT) && (1 <=? blen (hm_data m)) && (blen (hm_data m) <? 65536).
Definition wf_ohdr_v1 (x : ohdr) : bool :=
  (oh_version x =? 1) && (oh_refcount x <? 4294967296) && (nmsgs (oh_msgs x) <=? 65535) &&
  (msgs_size_v1 (oh_msgs x) <? 4294967296) && forallb wf_msg_v1 (oh_msgs x).
