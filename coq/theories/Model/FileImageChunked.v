(* C01: the byte image of the file that

     fw := CreateForWrite(file, CreateTruncate)                              (superblock version 2)
     ds := fw.CreateDataset("/"+name, dtype, dims, WithChunkDims(cdims))     (createChunkedDataset: dataset_write_chunked.go:29)
     ds.Write(data)                                                          (writeChunkedData: dataset_write_chunked.go:237)
     fw.Close()

   leaves behind (no filters).  The first five blocks are those of Model/FileImage.v image_v2 (superblock, local heap, symbol
   table node, group B-tree node, root object header: 0 .. 2195).  Then, in the order of allocation:

    2195     the dataset's object header v2 (datatype, dataspace, CHUNKED layout) in its reserved block of 7+255 bytes
             (createChunkedDataset allocates the header first; the B-tree address in the layout message, 0 at creation, is
             patched in place by writeChunkedData, dataset_write_chunked.go:314: the header holds the final address)
    2457     the chunks, in the order of the linear chunk index, every one full size and zero padded
             (Model/Chunk.v write_chunks; Model/ChunkIndex.v write_chunk_loop_st)
    then     the chunk index: ONE version 1 B-tree leaf (Model/ChunkIndex.v serialize_leaf of the sorted entries,
             keys = element offsets, child = chunk address), allocated at its used size
    end      = the allocator's end of file = the superblock's end-of-file address.

   The whole image is compared byte for byte with files written by the library on every run (tools/props/c01file.py, kind
   "chunked").  Proofs/FileImageChunked.v shows that the part from 2457 on is exactly what the writer model
   write_chunked_file (Model/ChunkIndex.v) appends to the first 2457 bytes.  No proofs here. *)
From HV Require Import Base.Prelude Model.Chunk Base.Outcome Base.Bytes Model.RobustTerm Model.ChunkIndex.
From HV Require Import Model.CodecSuper Model.CodecOhdr Model.CodecMsg Model.CodecType Model.CodecLink Model.GroupWire.
From HV Require Import Model.FileImage.

Definition CHDR_ADDR : N := DATA_ADDR.                       (* 2195: Allocate(maxObjectHeaderV2Size) comes first *)
Definition CHUNKS_ADDR : N := DATA_ADDR + OHDR_RESERVE.      (* 2457 *)

(* the entries the chunk loop of writeChunkedData records: (GetChunkOffset coord, Allocate's address, uint32(len)) *)
Fixpoint loop_entries (cks : list (list N * bytes)) (eof : N) : list wentry :=
  match cks with
  | [] => []
  | (k, d) :: r => (k, eof, wrap32 (blen d)) :: loop_entries r (wrap64 (eof + blen d))
  end.

Section ImageC.
Variable name : bytes.
Variables class size cbf : N.
Variables dims cdims : list N.
Variable data : bytes.

Definition c_chunks : list (list N * bytes) := write_chunks dims cdims size data.
Definition c_chunk_bytes : bytes := concat (map snd c_chunks).
Definition c_btree_addr : N := CHUNKS_ADDR + blen c_chunk_bytes.
Definition c_entries : list wentry := loop_entries c_chunks CHUNKS_ADDR.
Definition c_leaf : bytes := serialize_leaf (length dims) (sort_entries c_entries).
Definition c_eof : N := c_btree_addr + blen c_leaf.

(* createChunkedDataset: datatype, dataspace, chunked layout (dataset_write_chunked.go:102) with the patched B-tree address *)
Definition c_dset_ohdr : ohdr :=
  {| oh_version := 2; oh_flags := 0; oh_refcount := 1;
     oh_msgs := [ {| hm_type := 3; hm_data := enc_datatype (dtype_msg class size cbf) |};
                  {| hm_type := 1; hm_data := enc_dataspace {| ds_dims := dims; ds_maxdims := [] |} |};
                  {| hm_type := 8; hm_data := enc_layout SBP (LChunked cdims c_btree_addr) |} ] |}.
Definition c_dset_block : bytes :=
  enc_ohdr_v2 c_dset_ohdr ++ zeros (N.to_nat (OHDR_RESERVE - size_ohdr_v2 c_dset_ohdr)).

Definition c_sb : superblock :=
  {| sp_version := 2; sp_offsize := 8; sp_lensize := 8; sp_base := 0; sp_root := ROOT_ADDR; sp_superext := 0;
     sp_rootbtree := BTREE_ADDR; sp_rootheap := HEAP_ADDR; sp_eof := c_eof |}.
Definition c_sym : sym := {| sy_name := 0; sy_obj := CHDR_ADDR; sy_cache := 0; sy_res := 0; sy_bt := 0; sy_heap := 0 |}.
Definition c_snode : snode := {| stn_version := 1; stn_num := 1; stn_entries := [c_sym]; stn_cap := SNOD_CAP |}.
Definition c_snod_block : bytes := match snod_write_at c_snode 8 SNOD_CAP with Ok b => b | _ => [] end.

(* the first 2457 bytes: everything createChunkedDataset has allocated *)
Definition c_prefix_blocks : list bytes :=
  [ enc_superblock c_sb;
    heap_image (final_heap name) HEAP_ADDR;
    c_snod_block;
    bt_write_at final_btnode 8 GROUP_K;
    enc_ohdr_v2 root_ohdr;
    c_dset_block ].
Definition c_prefix : bytes := place_all c_prefix_blocks.

Definition blocks_v2_chunked : list bytes := c_prefix_blocks ++ map snd c_chunks ++ [c_leaf].
Definition image_v2_chunked : bytes := place_all blocks_v2_chunked.
End ImageC.

(* ------------------------------------------------------------------ the hypotheses of the theorems *)

(* chunk extents createChunkedDataset accepts: same rank, 1 <= cdims[i] <= dims[i] *)
Fixpoint cdims_ok (dims cdims : list N) : bool :=
  match dims, cdims with
  | [], [] => true
  | d :: ds, c :: cs => (0 <? c) && (c <=? d) && cdims_ok ds cs
  | _, _ => false
  end.

(* rank 1..17: datatype, dataspace and chunked layout messages must fit the 255-byte header chunk
   (4+20 + 4+8+8r + 4+11+4r = 51 + 12r <= 255) *)
Definition dims_ok_chunked (dims : list N) : bool :=
  dims_ok dims && (length dims <=? 17)%nat.

(* what readChunkedData does with the chunks it has read (dataset_reader.go:296-306, no filter pipeline): every chunk is
   copied into the zero-initialised array at key / chunk extents; the keys are the element offsets stored in the index *)
Fixpoint scatter_chunks (dims cdims : list N) (esz : N) (cs : list (list N * bytes)) (raw : bytes) : cres bytes :=
  match cs with
  | [] => COk raw
  | (co, d) :: r =>
      let rank := length dims in
      match copy_chunk_to_array d raw (firstn rank (scaled_of_key cdims co)) (firstn rank cdims) dims esz with
      | Chunk.Ok raw' => scatter_chunks dims cdims esz r raw'
      | Chunk.Err code => if code =? E_RANK0 then CPanic else CErr
      end
  end.
Definition assemble_chunks (dims cdims : list N) (esz : N) (cs : list (list N * bytes)) : cres bytes :=
  scatter_chunks dims cdims esz cs (zerosN (total_elements dims * esz)).

(* ------------------------------------------------------------------ tie (tools/props/c01file.py, kind "chunked") *)
Definition image_chunked_case_ok (c : list string * N * list N * list N * list string * list string) : bool :=
  match c with
  | (name, code, dims, cdims, data, file) =>
      let '(class, size, cbf) := dtype_of_code code in
      bytes_eqb (image_v2_chunked (unhex_parts name) class size cbf dims cdims (unhex_parts data)) (unhex_parts file)
  end.
