(* C05: the Coq whole-file walker as the JUDGE of files the Python walker cannot decode (new-style groups written by
   CreateDenseGroup / CreateGroupWithLinks): what tools/props/c05.py evaluates through tools/props/c05walk.py (coq_judge).
   One case = the complete bytes of one closed file, transported as pieces (hex strings and runs of zero bytes, Model/RefWalkTie.v).
   [walkj_obs] runs the TOLERANT walk once and flattens the answer:
     accepted: [ code; version; eof; #extents; (start; end; kind)*; #tags; tag code*; #objects; object* ]
       code   = 1 + 4 (extents_ok flen eof extents: what [walk_ok] evaluates - Proofs/Walk.v walk_ok_of_result) +
                8 (the extents are in bounds and pairwise disjoint when the end-of-file address is left out)
       object = addr; kind; datatype class; datatype size; datatype bits; dataspace type; layout; #dims; dim*; |path|; path bytes;
                #attrs; (|name|; name bytes)*; #links; (link type; |name|; name bytes)*; #targets; target address*
     rejected: [ 0; reason code ] *)
From HV Require Import Base.Prelude Base.Outcome Base.Bytes Spec.Parse Spec.Walk Model.Wellformed Model.RefWalkTie.

Definition encj_obj (o : obj_sum) : list N := enc6_obj o ++ lenN (os_ltargets o) :: os_ltargets o.
Definition encj_ext (x : xext) : list N := [fst (fst x); snd (fst x); snd x].

Definition walkj_obs (fuel : nat) (f : bytes) : list N :=
  match walk wtolerant fuel f with
  | Ok r =>
      (1 + (if extents_ok (blen f) (wr_eof r) (plain (wr_extents r)) then 4 else 0)
         + (if extents_ok (blen f) (blen f) (plain (wr_extents r)) then 8 else 0)) :: wr_version r :: wr_eof r ::
      lenN (wr_extents r) :: concat (map encj_ext (wr_extents r)) ++
      lenN (wr_tags r) :: map wtag_code (wr_tags r) ++
      lenN (wr_tree r) :: concat (map encj_obj (wr_tree r))
  | _ => [0; walk_code wtolerant fuel f]
  end.

Definition walkj_pieces (l : list piece) : list N := walkj_obs default_fuel (pieces_bytes l).
