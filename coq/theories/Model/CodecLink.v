(* C11 codec models, group 6: link message, link-info message, attribute-info message, symbol-table message.
   Transcription of internal/core/link_message.go (EncodeLinkMessage / ParseLinkMessage),
   internal/core/linkinfo.go (EncodeLinkInfoMessage / ParseLinkInfoMessage),
   internal/core/attribute.go (EncodeAttributeInfoMessage / ParseAttributeInfoMessage, writeAddress,
   btree_v1.go readAddress), messages_write.go EncodeSymbolTableMessage and the inline reader in
   group.go:274-281.  No proofs here (Proofs/CodecLink.v). *)
From HV Require Import Base.Prelude Base.Outcome Base.Bytes Model.CodecMsg.

(* ------------------------------------------------------------------ link message *)

Record linkmsg := { lk_version : N; lk_flags : N; lk_type : N; lk_corder : N; lk_charset : N;
                    lk_name : bytes; lk_value : bytes }.

Definition lk_lensize (flags : N) : N := N.shiftl 1 (N.land flags 3).      (* 1, 2, 4, 8 *)
Definition lk_has_type (flags : N) : bool := N.testbit flags 3.
Definition lk_has_corder (flags : N) : bool := N.testbit flags 2.
Definition lk_has_charset (flags : N) : bool := N.testbit flags 4.

Definition encok_link (x : linkmsg) : bool :=
  (lk_version x =? 1) &&
  (let ls := lk_lensize (lk_flags x) in (ls =? 8) || (blen (lk_name x) <? 256 ^ ls)).

Definition enc_link (x : linkmsg) : bytes :=
  let f := lk_flags x in
  [lk_version x; f]
  ++ (if lk_has_type f then [lk_type x] else [])
  ++ (if lk_has_corder f then le 8 (lk_corder x) else [])
  ++ (if lk_has_charset f then [lk_charset x] else [])
  ++ le (N.to_nat (lk_lensize f)) (blen (lk_name x))
  ++ lk_name x ++ lk_value x.

Definition size_link (x : linkmsg) : N :=
  let f := lk_flags x in
  2 + (if lk_has_type f then 1 else 0) + (if lk_has_corder f then 8 else 0)
  + (if lk_has_charset f then 1 else 0) + lk_lensize f + blen (lk_name x) + blen (lk_value x).

(* parseLinkMessageHeader: version, flags, optional type / creation order / character set *)
Definition dec_link_header (data : bytes) : outcome (N * N * N * N * N) :=
  if blen data <? 2 then Err else
  version <- index data 0;;
  flags <- index data 1;;
  if negb (version =? 1) then Err else
  let offset := 2 in
  '(ty, offset) <- (if lk_has_type flags then
                      if blen data <? offset + 1 then Err else t <- index data offset;; Ok (t, offset + 1)
                    else Ok (0, offset));;
  '(co, offset) <- (if lk_has_corder flags then
                      if blen data <? offset + 8 then Err else c <- rd_le data offset 8;; Ok (c, offset + 8)
                    else Ok (0, offset));;
  '(cs, offset) <- (if lk_has_charset flags then
                      if blen data <? offset + 1 then Err else c <- index data offset;; Ok (c, offset + 1)
                    else Ok (0, offset));;
  Ok (flags, ty, co, cs, offset).

(* parseLinkNameLength *)
Definition dec_link_namelen (data : bytes) (offset flags : N) : outcome (N * N) :=
  let ls := lk_lensize flags in
  if blen data <? offset + ls then Err else
  nameLength <- rd_le data offset ls;;
  Ok (nameLength, offset + ls).

(* parseLinkName *)
Definition dec_link_name (data : bytes) (offset nameLength : N) : outcome (bytes * N) :=
  if 1048576 <? nameLength then Err else
  if blen data <? offset + nameLength then Err else
  name <- slice data offset (offset + nameLength);;
  Ok (name, offset + nameLength).

(* parseLinkValue: hard / soft / external *)
Definition dec_link_value (offsize : N) (data : bytes) (offset ty : N) : outcome bytes :=
  if ty =? 0 then
    if blen data <? offset + offsize then Err else slice data offset (offset + offsize)
  else if ty =? 1 then
    if blen data <? offset + 2 then Err else
    n <- rd_le data offset 2;;
    if blen data <? offset + 2 + n then Err else slice data (offset + 2) (offset + 2 + n)
  else if ty =? 64 then
    if blen data <? offset + 2 then Err else
    fl <- rd_le data offset 2;;
    if blen data <? offset + 2 + fl + 2 then Err else
    pl <- rd_le data (offset + 2 + fl) 2;;
    let total := 2 + fl + 2 + pl in
    if blen data <? offset + total then Err else slice data offset (offset + total)
  else Err.

Definition dec_link (offsize : N) (data : bytes) : outcome linkmsg :=
  '(flags, ty, co, cs, offset) <- dec_link_header data;;
  '(nameLength, offset) <- dec_link_namelen data offset flags;;
  '(name, offset) <- dec_link_name data offset nameLength;;
  value <- dec_link_value offsize data offset ty;;
  Ok {| lk_version := 1; lk_flags := flags; lk_type := ty; lk_corder := co; lk_charset := cs;
        lk_name := name; lk_value := value |}.

(* The LinkValue field has two conventions: the encoder copies it verbatim, the decoder returns for a soft
   link the path WITHOUT the 2-byte length that precedes it on disk (for external links it keeps both
   length fields).  So a soft link value given as  le 2 |path| ++ path  comes back as  path. *)
Definition proj_link (x : linkmsg) : linkmsg :=
  {| lk_version := lk_version x; lk_flags := lk_flags x; lk_type := lk_type x; lk_corder := lk_corder x;
     lk_charset := lk_charset x; lk_name := lk_name x;
     lk_value := if lk_type x =? 1 then skipn 2 (lk_value x) else lk_value x |}.

(* the on-disk shape of the value, per link type *)
Definition link_value_ok (offsize : N) (ty : N) (v : bytes) : bool :=
  if ty =? 0 then blen v =? offsize
  else if ty =? 1 then (2 <=? blen v) && (unle (firstn 2 v) =? blen v - 2)
  else if ty =? 64 then
    (4 <=? blen v) &&
    (let fl := unle (firstn 2 v) in
     (2 + fl + 2 <=? blen v) && (unle (firstn 2 (skipn (N.to_nat (2 + fl)) v)) =? blen v - (2 + fl + 2)))
  else false.

Definition wf_link (offsize : N) (x : linkmsg) : bool :=
  encok_link x && (lk_flags x <? 256) && (lk_type x <? 256) && (lk_charset x <? 256) &&
  (lk_corder x <? 18446744073709551616) && (blen (lk_name x) <=? 1048576) &&
  bytes_ok (lk_value x) &&
  (lk_has_type (lk_flags x) || (lk_type x =? 0)) &&
  (lk_has_corder (lk_flags x) || (lk_corder x =? 0)) &&
  (lk_has_charset (lk_flags x) || (lk_charset x =? 0)) &&
  link_value_ok offsize (lk_type x) (lk_value x).

Definition val_link (l : linkmsg) : val :=
  VL [VN (lk_version l); VN (lk_flags l); VN (lk_type l); VN (lk_corder l); VN (lk_charset l);
      VB (lk_name l); VB (lk_value l)].

(* ------------------------------------------------------------------ link info *)

Record linkinfo := { li_version : N; li_flags : N; li_maxcorder : N (* int64 as its uint64 bit pattern *);
                     li_heap : N; li_btname : N; li_btorder : N }.

Definition encok_linkinfo (x : linkinfo) : bool := li_version x =? 0.

Definition enc_linkinfo (sb : sbparams) (x : linkinfo) : bytes :=
  let f := li_flags x in
  [li_version x; f]
  ++ (if N.testbit f 0 then le 8 (li_maxcorder x) else [])
  ++ write_uint (li_heap x) (sb_offsize sb) (sb_bigendian sb)
  ++ write_uint (li_btname x) (sb_offsize sb) (sb_bigendian sb)
  ++ (if N.testbit f 1 then write_uint (li_btorder x) (sb_offsize sb) (sb_bigendian sb) else []).

Definition size_linkinfo (sb : sbparams) (x : linkinfo) : N :=
  2 + (if N.testbit (li_flags x) 0 then 8 else 0) + 2 * sb_offsize sb
  + (if N.testbit (li_flags x) 1 then sb_offsize sb else 0).

Definition dec_linkinfo (sb : sbparams) (data : bytes) : outcome linkinfo :=
  if blen data <? 2 then Err else
  version <- index data 0;;
  if negb (version =? 0) then Err else
  flags <- index data 1;;
  if negb (N.land flags 252 =? 0) then Err else
  let os := sb_offsize sb in
  '(mco, offset) <- (if N.testbit flags 0 then
                       if blen data <? 2 + 8 then Err else
                       m <- rd_le data 2 8;;
                       if 9223372036854775808 <=? m then Err else Ok (m, 10)
                     else Ok (0, 2));;
  if blen data <? offset + os then Err else
  d1 <- slice_from data offset;;
  heap <- read_uint d1 os (sb_bigendian sb);;
  let offset := offset + os in
  if blen data <? offset + os then Err else
  d2 <- slice_from data offset;;
  bt <- read_uint d2 os (sb_bigendian sb);;
  let offset := offset + os in
  if N.testbit flags 1 then
    if blen data <? offset + os then Err else
    d3 <- slice_from data offset;;
    bo <- read_uint d3 os (sb_bigendian sb);;
    Ok {| li_version := version; li_flags := flags; li_maxcorder := mco; li_heap := heap; li_btname := bt; li_btorder := bo |}
  else
    Ok {| li_version := version; li_flags := flags; li_maxcorder := mco; li_heap := heap; li_btname := bt; li_btorder := 0 |}.

Definition wf_linkinfo (sb : sbparams) (x : linkinfo) : bool :=
  sb_ok sb && encok_linkinfo x && (li_flags x <? 4) &&
  (li_maxcorder x <? 9223372036854775808) && (N.testbit (li_flags x) 0 || (li_maxcorder x =? 0)) &&
  (li_heap x <? 256 ^ sb_offsize sb) && (li_btname x <? 256 ^ sb_offsize sb) &&
  (li_btorder x <? 256 ^ sb_offsize sb) && (N.testbit (li_flags x) 1 || (li_btorder x =? 0)).

Definition val_linkinfo (l : linkinfo) : val :=
  VL [VN (li_version l); VN (li_flags l); VN (li_maxcorder l); VN (li_heap l); VN (li_btname l); VN (li_btorder l)].

(* ------------------------------------------------------------------ attribute info *)

Record attrinfo := { ai_version : N; ai_flags : N; ai_heap : N; ai_btname : N; ai_maxcidx : N; ai_btorder : N }.

(* writeAddress: sizes 1,2,4,8 in the superblock's byte order; any other size writes nothing *)
Definition write_addr (v size : N) (bigendian : bool) : bytes :=
  if (size =? 1) || (size =? 2) || (size =? 4) || (size =? 8) then
    if bigendian then be (N.to_nat size) v else le (N.to_nat size) v
  else zeros (N.to_nat size).

Definition wr16 (v : N) (bigendian : bool) : bytes := if bigendian then be 2 (wrap16 v) else le 2 (wrap16 v).

Definition enc_attrinfo (sb : sbparams) (x : attrinfo) : bytes :=
  let f := ai_flags x in
  [ai_version x; f]
  ++ (if N.testbit f 0 then wr16 (ai_maxcidx x) (sb_bigendian sb) ++ wr16 0 (sb_bigendian sb) else [])
  ++ write_addr (ai_heap x) (sb_offsize sb) (sb_bigendian sb)
  ++ write_addr (ai_btname x) (sb_offsize sb) (sb_bigendian sb)
  ++ (if N.testbit f 1 then write_addr (ai_btorder x) (sb_offsize sb) (sb_bigendian sb) else []).

Definition size_attrinfo (sb : sbparams) (x : attrinfo) : N :=
  2 + (if N.testbit (ai_flags x) 0 then 4 else 0) + 2 * sb_offsize sb
  + (if N.testbit (ai_flags x) 1 then sb_offsize sb else 0).

(* readAddress(data[offset:offset+os], os): always little-endian, whatever the superblock says *)
Definition read_addr (data : bytes) (offset os : N) : outcome N :=
  d <- slice data offset (offset + os);; read_uint d os false.

Definition dec_attrinfo (sb : sbparams) (data : bytes) : outcome attrinfo :=
  if blen data <? 2 then Err else
  version <- index data 0;;
  flags <- index data 1;;
  let os := sb_offsize sb in
  '(mci, offset) <- (if N.testbit flags 0 then
                       if blen data <? 2 + 4 then Err else
                       m <- (if sb_bigendian sb then rd_be data 2 2 else rd_le data 2 2);; Ok (m, 6)
                     else Ok (0, 2));;
  if blen data <? offset + os then Err else
  heap <- read_addr data offset os;;
  let offset := offset + os in
  if blen data <? offset + os then Err else
  bt <- read_addr data offset os;;
  let offset := offset + os in
  if N.testbit flags 1 then
    if blen data <? offset + os then Err else
    bo <- read_addr data offset os;;
    Ok {| ai_version := version; ai_flags := flags; ai_heap := heap; ai_btname := bt; ai_maxcidx := mci; ai_btorder := bo |}
  else
    Ok {| ai_version := version; ai_flags := flags; ai_heap := heap; ai_btname := bt; ai_maxcidx := mci; ai_btorder := 0 |}.

(* little-endian superblocks only: the encoder honours the byte order, the decoder does not *)
Definition wf_attrinfo (sb : sbparams) (x : attrinfo) : bool :=
  sb_ok sb && negb (sb_bigendian sb) && (ai_version x <? 256) && (ai_flags x <? 256) &&
  (ai_maxcidx x <? 65536) && (N.testbit (ai_flags x) 0 || (ai_maxcidx x =? 0)) &&
  (ai_heap x <? 256 ^ sb_offsize sb) && (ai_btname x <? 256 ^ sb_offsize sb) &&
  (ai_btorder x <? 256 ^ sb_offsize sb) && (N.testbit (ai_flags x) 1 || (ai_btorder x =? 0)).

Definition val_attrinfo (a : attrinfo) : val :=
  VL [VN (ai_version a); VN (ai_flags a); VN (ai_heap a); VN (ai_btname a); VN (ai_maxcidx a); VN (ai_btorder a)].

(* ------------------------------------------------------------------ symbol table message *)

Record symtab := { st_btree : N; st_heap : N }.

Definition enc_symtab (offsize : N) (x : symtab) : bytes :=
  write_uint (st_btree x) offsize false ++ write_uint (st_heap x) offsize false.

(* group.go: if len(msg.Data) >= 16 { btree = sb.Endianness.Uint64(Data[0:8]); heap = ...Uint64(Data[8:16]) } *)
Definition dec_symtab (bigendian : bool) (data : bytes) : outcome symtab :=
  if blen data <? 16 then Err else
  b <- (if bigendian then rd_be data 0 8 else rd_le data 0 8);;
  h <- (if bigendian then rd_be data 8 8 else rd_le data 8 8);;
  Ok {| st_btree := b; st_heap := h |}.

Definition wf_symtab (x : symtab) : bool :=
  (st_btree x <? 18446744073709551616) && (st_heap x <? 18446744073709551616).

Definition val_symtab (s : symtab) : val := VL [VN (st_btree s); VN (st_heap s)].
