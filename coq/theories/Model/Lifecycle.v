(* C18 - start/stop protocols of the two background workers as transition systems.

   Callers are symmetric, so the system is written with COUNTERS ("how many callers are at this program
   point"): any number of goroutines may call Start and Stop at any time, in any interleaving, for ever.
   Critical sections under the object's mutex are single steps (they contain no blocking operation;
   mutual exclusion of lock holders is the theorem `mutual_exclusion` of Proofs/Conc.v).
   `fixed = false` transcribes the code as found in the pinned tree, `fixed = true` the code after
   notes/fixes/c18-1-incremental-stop-once.patch resp. c18-3-smart-lifecycle.patch.

   No proofs in this file (Proofs/Lifecycle.v). *)
From Coq Require Import Arith Bool List.
Import ListNotations.

(* ================================================================ (a) IncrementalRebalancer
   internal/structures/btreev2_incremental.go: Start, Stop, rebalancingLoop *)
Record ist := mkI {
  i_running : bool;        (* ir.running (under ir.mu) *)
  i_stopping : bool;       (* ir.stopping (patched code only; stays false in the old code) *)
  i_stop_closed : bool;    (* close(ir.stopChan) has happened *)
  i_stopped_closed : bool; (* close(ir.stoppedChan) has happened *)
  i_panic : bool;          (* "close of closed channel" *)
  i_spawn : nat;           (* Start callers between `running = true` and `go ir.rebalancingLoop()` *)
  i_close : nat;           (* Stop callers past the check, before close(ir.stopChan) *)
  i_wait : nat;            (* Stop callers blocked in <-ir.stoppedChan *)
  i_loop : nat;            (* workers in the select loop *)
  i_got : nat;             (* workers in the stopChan branch, before `running = false` *)
  i_exit : nat;            (* workers returning: the deferred close(ir.stoppedChan) is next *)
  i_starts : nat;          (* Start calls issued so far *)
  i_stops : nat;           (* Stop calls issued so far *)
  i_returned : nat         (* Stop calls that returned after waiting *)
}.

Definition i_init : ist := mkI false false false false false 0 0 0 0 0 0 0 0 0.

Inductive ilabel :=
| IStartCall      (* a goroutine executes the critical section of Start *)
| ISpawn          (* ... and then `go ir.rebalancingLoop()` *)
| IStopCall       (* a goroutine executes the critical section of Stop *)
| IClose          (* close(ir.stopChan) *)
| IReturn         (* <-ir.stoppedChan succeeds, Stop returns *)
| ITick           (* worker: ticker branch, one rebalancing session *)
| ITakeStop       (* worker: stopChan branch chosen *)
| IClearRunning   (* worker: ir.running = false under ir.mu *)
| ICloseStopped.  (* worker: deferred close(ir.stoppedChan) *)

Definition istep (fixed : bool) (s : ist) (l : ilabel) : option ist :=
  if i_panic s then None else
  let '(mkI running stopping sc sdc pn nsp ncl nw wl wg we nst nsto nret) := s in
  match l with
  | IStartCall =>
      if running || (fixed && stopping)
      then Some (mkI running stopping sc sdc pn nsp ncl nw wl wg we (S nst) nsto nret)
      else Some (mkI true stopping sc sdc pn (S nsp) ncl nw wl wg we (S nst) nsto nret)
  | ISpawn =>
      match nsp with O => None | S n => Some (mkI running stopping sc sdc pn n ncl nw (S wl) wg we nst nsto nret) end
  | IStopCall =>
      if fixed && stopping
      then Some (mkI running stopping sc sdc pn nsp ncl (S nw) wl wg we nst (S nsto) nret)   (* wait as well *)
      else if negb running
      then Some (mkI running stopping sc sdc pn nsp ncl nw wl wg we nst (S nsto) nret)       (* return at once *)
      else Some (mkI running (fixed || stopping) sc sdc pn nsp (S ncl) nw wl wg we nst (S nsto) nret)
  | IClose =>
      match ncl with
      | O => None
      | S n => if sc then Some (mkI running stopping sc sdc true nsp n nw wl wg we nst nsto nret)
               else Some (mkI running stopping true sdc pn nsp n (S nw) wl wg we nst nsto nret)
      end
  | IReturn =>
      match nw with
      | O => None
      | S n => if sdc then Some (mkI running stopping sc sdc pn nsp ncl n wl wg we nst nsto (S nret)) else None
      end
  | ITick => match wl with O => None | S _ => Some s end
  | ITakeStop =>
      match wl with
      | O => None
      | S n => if sc then Some (mkI running stopping sc sdc pn nsp ncl nw n (S wg) we nst nsto nret) else None
      end
  | IClearRunning =>
      match wg with O => None | S n => Some (mkI false stopping sc sdc pn nsp ncl nw wl n (S we) nst nsto nret) end
  | ICloseStopped =>
      match we with
      | O => None
      | S n => if sdc then Some (mkI running stopping sc sdc true nsp ncl nw wl wg n nst nsto nret)
               else Some (mkI running stopping sc true pn nsp ncl nw wl wg n nst nsto nret)
      end
  end.

Inductive ireach (fixed : bool) : ist -> Prop :=
| IR0 : ireach fixed i_init
| IRS s l s' : ireach fixed s -> istep fixed s l = Some s' -> ireach fixed s'.

Fixpoint irun (fixed : bool) (s : ist) (ls : list ilabel) : option ist :=
  match ls with [] => Some s | l :: r => match istep fixed s l with Some s' => irun fixed s' r | None => None end end.

Definition i_workers (s : ist) : nat := i_loop s + i_got s + i_exit s.

(* steps of the system itself (not new API calls, not the ticker's idle branch) *)
Definition i_internal (l : ilabel) : bool :=
  match l with ISpawn | IClose | ITakeStop | IClearRunning | ICloseStopped => true | _ => false end.

(* distance to "stoppedChan closed": every internal step decreases it by one *)
Definition i_measure (s : ist) : nat := 4 * i_spawn s + 3 * i_loop s + 2 * i_got s + i_exit s + i_close s.

(* ================================================================ (b) SmartRebalancer
   internal/rebalancing/smart.go: Start, Stop, monitorLoop.
   Start's body is one critical section under sr.mu that includes `go sr.monitorLoop()`.
   Old code: the loop reads the FIELD sr.ctx each time it enters the select, so after a later Start it
   watches the new context; Stop releases sr.mu before wg.Wait().
   Patched code: lifecycleMu is held for the whole of Start and of Stop; the loop watches the context it
   was given. *)
Record sst := mkM {
  m_started : bool;
  m_cur_cancelled : bool;  (* the context currently stored in sr.ctx is cancelled *)
  m_busy : bool;           (* patched code: lifecycleMu is held by a Stop that is waiting *)
  m_misuse : bool;         (* wg.Add(1) with counter 0 while a Wait has not returned (documented misuse) *)
  m_wg : nat;              (* WaitGroup counter *)
  m_wait : nat;            (* Stop callers blocked in wg.Wait() *)
  m_cur : nat;             (* workers whose select watches the current sr.ctx / their own live ctx *)
  m_old : nat;             (* workers whose select watches a cancelled context *)
  m_starts : nat; m_stops : nat; m_returned : nat
}.

Definition m_init : sst := mkM false false false false 0 0 0 0 0 0 0.

Inductive mlabel :=
| MStartCall    (* whole body of Start *)
| MStopCall     (* Stop up to and including sr.mu.Unlock() *)
| MReturn       (* wg.Wait() returns, Stop finishes *)
| MReselect     (* old code: a worker re-enters the select and reads sr.ctx again *)
| MExit.        (* a worker sees its watched context cancelled: return, wg.Done() *)

Definition mstep (fixed : bool) (s : sst) (l : mlabel) : option sst :=
  let '(mkM started cc busy mis wg nw cur old nst nsto nret) := s in
  match l with
  | MStartCall =>
      if fixed && busy then None                      (* blocked on lifecycleMu *)
      else if started then Some (mkM started cc busy mis wg nw cur old (S nst) nsto nret)   (* ErrAlreadyStarted *)
      else (* new context, started = true, wg.Add(1), go monitorLoop *)
        Some (mkM true false busy (mis || (Nat.eqb wg 0 && negb (Nat.eqb nw 0)))
                  (S wg) nw 1 (if fixed then old else cur + old) (S nst) nsto nret)
  | MStopCall =>
      if fixed && busy then None
      else if negb started then Some (mkM started cc busy mis wg nw cur old nst (S nsto) nret)  (* no-op *)
      else (* cancel, started = false, unlock, then wait *)
        Some (mkM false true fixed mis wg (S nw) 0 (cur + old) nst (S nsto) nret)
  | MReturn =>
      match nw with
      | O => None
      | S n => if Nat.eqb wg 0 then Some (mkM started cc false mis wg n cur old nst nsto (S nret)) else None
      end
  | MReselect =>
      if fixed then None else
      match old with
      | O => None
      | S n => if cc then Some s    (* the current context is cancelled as well: still an old watcher *)
               else Some (mkM started cc busy mis wg nw (S cur) n nst nsto nret)
      end
  | MExit =>
      match old with
      | O => None
      | S n => Some (mkM started cc busy mis (pred wg) nw cur n nst nsto nret)
      end
  end.

Inductive mreach (fixed : bool) : sst -> Prop :=
| MR0 : mreach fixed m_init
| MRS s l s' : mreach fixed s -> mstep fixed s l = Some s' -> mreach fixed s'.

Fixpoint mrun (fixed : bool) (s : sst) (ls : list mlabel) : option sst :=
  match ls with [] => Some s | l :: r => match mstep fixed s l with Some s' => mrun fixed s' r | None => None end end.

Definition m_workers (s : sst) : nat := m_cur s + m_old s.

(* ================================================================ (c) tree-level wrappers
   internal/structures/btreev2_incremental.go:
     WritableBTreeV2.EnableIncrementalRebalancing       (135-170)
     WritableBTreeV2.StopIncrementalRebalancing         (189-218)
     WritableBTreeV2.IsIncrementalRebalancingEnabled    (221-226)
     WritableBTreeV2.GetIncrementalRebalancingProgress  (233-243)
   The shared state is the field bt.incrementalRebalancer (read and written only under bt.rebalMu) and the
   IncrementalRebalancer objects it has pointed to.  Every EnableIncrementalRebalancing that succeeds creates
   a NEW object (line 158), so the objects are numbered in installation order ("generation" k = index in
   `t_gens`) and the field is `None` (nil) or `Some k`.

   PRODUCT with system (a): every generation carries a full state `ist` of system (a) (patched, fixed = true)
   and moves only by `istep true`; on top of it the tree level counts, per generation, the callers of
   StopIncrementalRebalancing / GetIncrementalRebalancingProgress that hold that object in their local
   variable `rebalancer` at each program point.  Any number of goroutines may call the four wrappers at any
   time.  Critical sections under bt.rebalMu are single steps (they contain no blocking operation: Start()
   and isRunning() inside them take only ir.mu, whose critical sections are finite and never take rebalMu).

   Variants: `current` transcribes the code as it is; `early_detach` is the variant of seeded change C18-b:
   StopIncrementalRebalancing sets bt.incrementalRebalancer = nil in its FIRST critical section (before
   rebalancer.Stop()) and has no conditional clean-up in the second one.

   Not modelled (no effect on the protocol state): the final batchRebalanceLocked() of lines 206-210 except
   for its error return (label argument `ok`), the configuration defaults of lines 150-155, the values
   returned by the two queries. *)
Inductive tvariant := current | early_detach.

Record gen := mkG {
  g_in : ist;    (* the IncrementalRebalancer object: a state of system (a) *)
  g_pre : nat;   (* Stop callers with `rebalancer` = this object, past line 192, before the critical section of rebalancer.Stop() (200 -> 267) *)
  g_post : nat;  (* Stop callers for which rebalancer.Stop() has returned (200), before the second critical section (202) *)
  g_prog : nat   (* GetProgress callers with `rebalancer` = this object, past line 236, before rebalancer.GetProgress() returns (242) *)
}.

(* a fresh object after Start() (line 167; Start = 251-259): system (a) after [IStartCall; ISpawn] *)
Definition i_started : ist :=
  match irun true i_init [IStartCall; ISpawn] with Some s => s | None => i_init end.
Definition g_new : gen := mkG i_started 0 0 0.

(* goroutines that may still run a rebalancing session: not yet past `ir.running = false` (line 312) *)
Definition i_active (s : ist) : nat := i_spawn s + i_loop s + i_got s.

(* steps local to one generation *)
Inductive glabel :=
| GHoldStop           (* a Stop caller has read this object from the field (line 191) *)
| GStopInner          (* ... executes the critical section of rebalancer.Stop() (267-279) *)
| GInner (l : ilabel) (* a step of system (a) other than a new Start/Stop call *)
| GFinish             (* ... executes the second critical section of StopIncrementalRebalancing and returns *)
| GHoldProg           (* a GetProgress caller has read this object from the field (line 235) *)
| GProgDone.          (* rebalancer.GetProgress() (reads under rebalMu, then under ir.mu) returns *)

Definition gstep (g : gen) (l : glabel) : option gen :=
  let '(mkG i pre post prog) := g in
  match l with
  | GHoldStop => Some (mkG i (S pre) post prog)
  | GStopInner =>
      match pre with
      | O => None
      | S pre' =>
          match istep true i IStopCall with
          | Some i' => (* `return` at line 276 (never started): back in the wrapper at once *)
              Some (mkG i' pre' (if negb (i_stopping i) && negb (i_running i) then S post else post) prog)
          | None => None
          end
      end
  | GInner IStartCall => None   (* Start is called by EnableIncrementalRebalancing only *)
  | GInner IStopCall => None    (* Stop is called through GStopInner only *)
  | GInner l' =>
      match istep true i l' with
      | Some i' => Some (mkG i' pre (match l' with IReturn => S post | _ => post end) prog)
      | None => None
      end
  | GFinish => match post with O => None | S p => Some (mkG i pre p prog) end
  | GHoldProg => Some (mkG i pre post (S prog))
  | GProgDone => match prog with O => None | S p => Some (mkG i pre post p) end
  end.

Fixpoint upd (k : nat) (f : gen -> option gen) (l : list gen) : option (list gen) :=
  match l, k with
  | [], _ => None
  | x :: r, O => match f x with Some y => Some (y :: r) | None => None end
  | x :: r, S k' => match upd k' f r with Some r' => Some (x :: r') | None => None end
  end.

Definition at_gen (k : nat) (l : glabel) (gens : list gen) : option (list gen) := upd k (fun x => gstep x l) gens.

Record tst := mkT {
  t_field : option nat;  (* bt.incrementalRebalancer: None = nil, Some k = the k-th object installed *)
  t_gens : list gen;     (* every object ever installed, in installation order *)
  t_enables : nat;       (* successful EnableIncrementalRebalancing calls *)
  t_refused : nat;       (* ... that returned an error (141 / 146) *)
  t_stops : nat;         (* StopIncrementalRebalancing calls issued *)
  t_ret_nil : nat;       (* ... that returned at line 195 (the field was nil) *)
  t_ret : nat            (* ... that returned after rebalancer.Stop() (208 / 217) *)
}.

Definition t_init : tst := mkT None [] 0 0 0 0 0.

(* bt.incrementalRebalancer != nil && bt.incrementalRebalancer.isRunning()   (145, 225) *)
Definition field_running (fld : option nat) (gens : list gen) : bool :=
  match fld with
  | None => false
  | Some k => match nth_error gens k with Some g => i_running (g_in g) | None => false end
  end.

Inductive tlabel :=
| TEnable (lazy : bool)          (* whole body of EnableIncrementalRebalancing (one critical section incl. Start());
                                    lazy = result of bt.lazyEnabledLocked() *)
| TStopRead                      (* StopIncrementalRebalancing 190-196 *)
| TStopInner (g : nat)           (* ... critical section of rebalancer.Stop() on object g *)
| TInner (g : nat) (l : ilabel)  (* close(stopChan) / <-stoppedChan of a Stop caller, or a step of the worker of object g *)
| TStopFinish (g : nat) (ok : bool) (* StopIncrementalRebalancing 202-217; ok = false: batchRebalanceLocked failed, return at 208 *)
| TIsEnabled                     (* IsIncrementalRebalancingEnabled: reads only *)
| TProgRead                      (* GetIncrementalRebalancingProgress 234-240 *)
| TProgDone (g : nat).           (* ... line 242 *)

Definition tstep (v : tvariant) (s : tst) (l : tlabel) : option tst :=
  let '(mkT fld gens nen nref nst nnil nret) := s in
  match l with
  | TEnable lazy =>
      if negb lazy || field_running fld gens
      then Some (mkT fld gens nen (S nref) nst nnil nret)                                  (* 141 / 146 *)
      else Some (mkT (Some (length gens)) (gens ++ [g_new]) (S nen) nref nst nnil nret)    (* 158, 167 *)
  | TStopRead =>
      match fld with
      | None => Some (mkT fld gens nen nref (S nst) (S nnil) nret)                         (* 194-196 *)
      | Some k =>
          match at_gen k GHoldStop gens with
          | Some gens' =>
              Some (mkT (match v with current => fld | early_detach => None end) gens' nen nref (S nst) nnil nret)
          | None => None
          end
      end
  | TStopInner g =>
      match at_gen g GStopInner gens with Some gens' => Some (mkT fld gens' nen nref nst nnil nret) | None => None end
  | TInner g l' =>
      match at_gen g (GInner l') gens with Some gens' => Some (mkT fld gens' nen nref nst nnil nret) | None => None end
  | TStopFinish g ok =>
      match at_gen g GFinish gens with
      | Some gens' =>
          let fld' := match v with
                      | current =>                       (* 213-215: if bt.incrementalRebalancer == rebalancer { ... = nil } *)
                          if ok then match fld with
                                     | Some k => if Nat.eqb k g then None else fld
                                     | None => None
                                     end
                          else fld
                      | early_detach => fld
                      end in
          Some (mkT fld' gens' nen nref nst nnil (S nret))
      | None => None
      end
  | TIsEnabled => Some s
  | TProgRead =>
      match fld with
      | None => Some s                                                                     (* 238-240 *)
      | Some k => match at_gen k GHoldProg gens with Some gens' => Some (mkT fld gens' nen nref nst nnil nret) | None => None end
      end
  | TProgDone g =>
      match at_gen g GProgDone gens with Some gens' => Some (mkT fld gens' nen nref nst nnil nret) | None => None end
  end.

Inductive treach (v : tvariant) : tst -> Prop :=
| TR0 : treach v t_init
| TRS s l s' : treach v s -> tstep v s l = Some s' -> treach v s'.

Fixpoint trun (v : tvariant) (s : tst) (ls : list tlabel) : option tst :=
  match ls with [] => Some s | l :: r => match tstep v s l with Some s' => trun v s' r | None => None end end.
