(* C18 - start/stop protocols of the two background workers as transition systems.

   Callers are symmetric, so the system is written with COUNTERS ("how many callers are at this program
   point"): any number of goroutines may call Start and Stop at any time, in any interleaving, for ever.
   Critical sections under the object's mutex are single steps (they contain no blocking operation;
   mutual exclusion of lock holders is the theorem `mutual_exclusion` of Proofs/Conc.v).
   `fixed = false` transcribes the code as found in the pinned tree, `fixed = true` the code after
   notes/fixes/c18-1-incremental-stop-once.patch resp. c18-3-smart-lifecycle.patch.

   No proofs in this file (Proofs/Lifecycle.v). *)
From Coq Require Import Arith Bool List.
Import ListNotations.

(* ================================================================ (a) IncrementalRebalancer
   internal/structures/btreev2_incremental.go: Start, Stop, rebalancingLoop *)
Record ist := mkI {
  i_running : bool;        (* ir.running (under ir.mu) *)
  i_stopping : bool;       (* ir.stopping (patched code only; stays false in the old code) *)
  i_stop_closed : bool;    (* close(ir.stopChan) has happened *)
  i_stopped_closed : bool; (* close(ir.stoppedChan) has happened *)
  i_panic : bool;          (* "close of closed channel" *)
  i_spawn : nat;           (* Start callers between `running = true` and `go ir.rebalancingLoop()` *)
  i_close : nat;           (* Stop callers past the check, before close(ir.stopChan) *)
  i_wait : nat;            (* Stop callers blocked in <-ir.stoppedChan *)
  i_loop : nat;            (* workers in the select loop *)
  i_got : nat;             (* workers in the stopChan branch, before `running = false` *)
  i_exit : nat;            (* workers returning: the deferred close(ir.stoppedChan) is next *)
  i_starts : nat;          (* Start calls issued so far *)
  i_stops : nat;           (* Stop calls issued so far *)
  i_returned : nat         (* Stop calls that returned after waiting *)
}.

Definition i_init : ist := mkI false false false false false 0 0 0 0 0 0 0 0 0.

Inductive ilabel :=
| IStartCall      (* a goroutine executes the critical section of Start *)
| ISpawn          (* ... and then `go ir.rebalancingLoop()` *)
| IStopCall       (* a goroutine executes the critical section of Stop *)
| IClose          (* close(ir.stopChan) *)
| IReturn         (* <-ir.stoppedChan succeeds, Stop returns *)
| ITick           (* worker: ticker branch, one rebalancing session *)
| ITakeStop       (* worker: stopChan branch chosen *)
| IClearRunning   (* worker: ir.running = false under ir.mu *)
| ICloseStopped.  (* worker: deferred close(ir.stoppedChan) *)

Definition istep (fixed : bool) (s : ist) (l : ilabel) : option ist :=
  if i_panic s then None else
  let '(mkI running stopping sc sdc pn nsp ncl nw wl wg we nst nsto nret) := s in
  match l with
  | IStartCall =>
      if running || (fixed && stopping)
      then Some (mkI running stopping sc sdc pn nsp ncl nw wl wg we (S nst) nsto nret)
      else Some (mkI true stopping sc sdc pn (S nsp) ncl nw wl wg we (S nst) nsto nret)
  | ISpawn =>
      match nsp with O => None | S n => Some (mkI running stopping sc sdc pn n ncl nw (S wl) wg we nst nsto nret) end
  | IStopCall =>
      if fixed && stopping
      then Some (mkI running stopping sc sdc pn nsp ncl (S nw) wl wg we nst (S nsto) nret)   (* wait as well *)
      else if negb running
      then Some (mkI running stopping sc sdc pn nsp ncl nw wl wg we nst (S nsto) nret)       (* return at once *)
      else Some (mkI running (fixed || stopping) sc sdc pn nsp (S ncl) nw wl wg we nst (S nsto) nret)
  | IClose =>
      match ncl with
      | O => None
      | S n => if sc then Some (mkI running stopping sc sdc true nsp n nw wl wg we nst nsto nret)
               else Some (mkI running stopping true sdc pn nsp n (S nw) wl wg we nst nsto nret)
      end
  | IReturn =>
      match nw with
      | O => None
      | S n => if sdc then Some (mkI running stopping sc sdc pn nsp ncl n wl wg we nst nsto (S nret)) else None
      end
  | ITick => match wl with O => None | S _ => Some s end
  | ITakeStop =>
      match wl with
      | O => None
      | S n => if sc then Some (mkI running stopping sc sdc pn nsp ncl nw n (S wg) we nst nsto nret) else None
      end
  | IClearRunning =>
      match wg with O => None | S n => Some (mkI false stopping sc sdc pn nsp ncl nw wl n (S we) nst nsto nret) end
  | ICloseStopped =>
      match we with
      | O => None
      | S n => if sdc then Some (mkI running stopping sc sdc true nsp ncl nw wl wg n nst nsto nret)
               else Some (mkI running stopping sc true pn nsp ncl nw wl wg n nst nsto nret)
      end
  end.

Inductive ireach (fixed : bool) : ist -> Prop :=
| IR0 : ireach fixed i_init
| IRS s l s' : ireach fixed s -> istep fixed s l = Some s' -> ireach fixed s'.

Fixpoint irun (fixed : bool) (s : ist) (ls : list ilabel) : option ist :=
  match ls with [] => Some s | l :: r => match istep fixed s l with Some s' => irun fixed s' r | None => None end end.

Definition i_workers (s : ist) : nat := i_loop s + i_got s + i_exit s.

(* steps of the system itself (not new API calls, not the ticker's idle branch) *)
Definition i_internal (l : ilabel) : bool :=
  match l with ISpawn | IClose | ITakeStop | IClearRunning | ICloseStopped => true | _ => false end.

(* distance to "stoppedChan closed": every internal step decreases it by one *)
Definition i_measure (s : ist) : nat := 4 * i_spawn s + 3 * i_loop s + 2 * i_got s + i_exit s + i_close s.

(* ================================================================ (b) SmartRebalancer
   internal/rebalancing/smart.go: Start, Stop, monitorLoop.
   Start's body is one critical section under sr.mu that includes `go sr.monitorLoop()`.
   Old code: the loop reads the FIELD sr.ctx each time it enters the select, so after a later Start it
   watches the new context; Stop releases sr.mu before wg.Wait().
   Patched code: lifecycleMu is held for the whole of Start and of Stop; the loop watches the context it
   was given. *)
Record sst := mkM {
  m_started : bool;
  m_cur_cancelled : bool;  (* the context currently stored in sr.ctx is cancelled *)
  m_busy : bool;           (* patched code: lifecycleMu is held by a Stop that is waiting *)
  m_misuse : bool;         (* wg.Add(1) with counter 0 while a Wait has not returned (documented misuse) *)
  m_wg : nat;              (* WaitGroup counter *)
  m_wait : nat;            (* Stop callers blocked in wg.Wait() *)
  m_cur : nat;             (* workers whose select watches the current sr.ctx / their own live ctx *)
  m_old : nat;             (* workers whose select watches a cancelled context *)
  m_starts : nat; m_stops : nat; m_returned : nat
}.

Definition m_init : sst := mkM false false false false 0 0 0 0 0 0 0.

Inductive mlabel :=
| MStartCall    (* whole body of Start *)
| MStopCall     (* Stop up to and including sr.mu.Unlock() *)
| MReturn       (* wg.Wait() returns, Stop finishes *)
| MReselect     (* old code: a worker re-enters the select and reads sr.ctx again *)
| MExit.        (* a worker sees its watched context cancelled: return, wg.Done() *)

Definition mstep (fixed : bool) (s : sst) (l : mlabel) : option sst :=
  let '(mkM started cc busy mis wg nw cur old nst nsto nret) := s in
  match l with
  | MStartCall =>
      if fixed && busy then None                      (* blocked on lifecycleMu *)
      else if started then Some (mkM started cc busy mis wg nw cur old (S nst) nsto nret)   (* ErrAlreadyStarted *)
      else (* new context, started = true, wg.Add(1), go monitorLoop *)
        Some (mkM true false busy (mis || (Nat.eqb wg 0 && negb (Nat.eqb nw 0)))
                  (S wg) nw 1 (if fixed then old else cur + old) (S nst) nsto nret)
  | MStopCall =>
      if fixed && busy then None
      else if negb started then Some (mkM started cc busy mis wg nw cur old nst (S nsto) nret)  (* no-op *)
      else (* cancel, started = false, unlock, then wait *)
        Some (mkM false true fixed mis wg (S nw) 0 (cur + old) nst (S nsto) nret)
  | MReturn =>
      match nw with
      | O => None
      | S n => if Nat.eqb wg 0 then Some (mkM started cc false mis wg n cur old nst nsto (S nret)) else None
      end
  | MReselect =>
      if fixed then None else
      match old with
      | O => None
      | S n => if cc then Some s    (* the current context is cancelled as well: still an old watcher *)
               else Some (mkM started cc busy mis wg nw (S cur) n nst nsto nret)
      end
  | MExit =>
      match old with
      | O => None
      | S n => Some (mkM started cc busy mis (pred wg) nw cur n nst nsto nret)
      end
  end.

Inductive mreach (fixed : bool) : sst -> Prop :=
| MR0 : mreach fixed m_init
| MRS s l s' : mreach fixed s -> mstep fixed s l = Some s' -> mreach fixed s'.

Fixpoint mrun (fixed : bool) (s : sst) (ls : list mlabel) : option sst :=
  match ls with [] => Some s | l :: r => match mstep fixed s l with Some s' => mrun fixed s' r | None => None end end.

Definition m_workers (s : sst) : nat := m_cur s + m_old s.
