(* C11 codec models, group 1: dataspace message, data-layout message (v3 contiguous / chunked),
   symbol-table message.  Byte-by-byte transcriptions of
     internal/core/messages_write.go  EncodeDataspaceMessage, EncodeLayoutMessage, EncodeSymbolTableMessage
     internal/core/dataspace.go       ParseDataspaceMessage
     internal/core/datalayout.go      ParseDataLayoutMessage / parseLayoutV3
     internal/core/objectheader.go    (symbol table message is read by readUint64 pairs, see CodecMsg dec_symtab)
   No proofs here (Proofs/CodecMsg.v).  Encoding is a Gallina function, hence deterministic by
   definition; the Go side is checked by encoding twice (tools/props/c11.py). *)
From HV Require Import Base.Prelude Base.Outcome Base.Bytes.

(* ------------------------------------------------------------------ dataspace *)

(* arguments of EncodeDataspaceMessage(dims, maxDims); maxDims = [] means "absent" (Go: len == 0) *)
Record dataspace := { ds_dims : list N; ds_maxdims : list N }.

(* *DataspaceMessage returned by ParseDataspaceMessage; MaxDims nil = None *)
Record dataspace' := { dsp_version : N; dsp_type : N; dsp_dims : list N; dsp_maxdims : option (list N) }.

Definition u64_ok (l : list N) : bool := forallb (fun d => d <? 18446744073709551616) l.

(* the encoder's own argument checks (it returns an error otherwise) *)
Definition encok_dataspace (x : dataspace) : bool :=
  negb (length (ds_dims x) =? 0)%nat &&
  ((length (ds_maxdims x) =? 0)%nat || (length (ds_maxdims x) =? length (ds_dims x))%nat).

(* rank 1..255 (the dimensionality byte is uint8(len(dims)); rank 0 is refused by the encoder),
   every extent a uint64, maxDims absent or of the same rank *)
Definition wf_dataspace (x : dataspace) : bool :=
  encok_dataspace x && (length (ds_dims x) <=? 255)%nat && u64_ok (ds_dims x) && u64_ok (ds_maxdims x).

Definition enc_dims8 (l : list N) : bytes := concat (map (le 8) l).

Definition enc_dataspace (x : dataspace) : bytes :=
  let dimensionality := wrap8 (blen (ds_dims x)) in          (* uint8(len(dims)) *)
  let flags := match ds_maxdims x with [] => 0 | _ => 1 end in
  (* buf is make([]byte, 8 + int(dimensionality)*8 [+ same]); the PutUint64 loop runs over dims itself,
     so for len(dims) <= 255 the buffer is filled exactly (for >= 256 Go panics; outside wf) *)
  [1; dimensionality; flags] ++ zeros 5 ++ enc_dims8 (ds_dims x) ++ enc_dims8 (ds_maxdims x).

Definition size_dataspace (x : dataspace) : N :=
  8 + 8 * blen (ds_dims x) + 8 * blen (ds_maxdims x).

(* the loop  for i := 0; i < n; i++ { if offset+dimSize > len(data) {err}; read; offset += dimSize } *)
Fixpoint read_dims (data : bytes) (dimSize : N) (n : nat) (offset : N) : outcome (list N * N) :=
  match n with
  | O => Ok ([], offset)
  | S n' =>
      if blen data <? offset + dimSize then Err else
      d <- rd_le data offset dimSize;;
      '(r, off') <- read_dims data dimSize n' (offset + dimSize);;
      Ok (d :: r, off')
  end.

Definition dec_dataspace (data : bytes) : outcome dataspace' :=
  if blen data <? 3 then Err else               (* < 2 before /repo 1739724: a 2-byte message panicked *)
  version <- index data 0;;
  if negb (version =? 1) && negb (version =? 2) then Err else
  dimensionality <- index data 1;;
  flags <- index data 2;;
  let hasMax := N.testbit flags 0 in
  (* version 2 stores the type: a null dataspace (type 2) has no elements *)
  t3 <- (if (version =? 2) && (4 <=? blen data) then index data 3 else Ok 0);;
  if (version =? 2) && (4 <=? blen data) && (t3 =? 2) then
    Ok {| dsp_version := version; dsp_type := 2; dsp_dims := []; dsp_maxdims := None |}
  else
  if dimensionality =? 0 then
    Ok {| dsp_version := version; dsp_type := 0; dsp_dims := [1]; dsp_maxdims := None |}
  else
  let offset := if version =? 1 then 8 else 4 in
  let total := if hasMax then dimensionality * 2 else dimensionality in
  let expected4 := offset + total * 4 in
  let expected8 := offset + total * 8 in
  dimSize <- (if expected8 <=? blen data then Ok 8
              else if expected4 <=? blen data then Ok 4 else Err);;
  '(dims, off1) <- read_dims data dimSize (N.to_nat dimensionality) offset;;
  if hasMax then
    '(mx, _) <- read_dims data dimSize (N.to_nat dimensionality) off1;;
    Ok {| dsp_version := version; dsp_type := 1; dsp_dims := dims; dsp_maxdims := Some mx |}
  else
    Ok {| dsp_version := version; dsp_type := 1; dsp_dims := dims; dsp_maxdims := None |}.

(* what both sides have: version 1, type "simple", the extents, max extents iff given *)
Definition proj_dataspace (x : dataspace) : dataspace' :=
  {| dsp_version := 1; dsp_type := 1; dsp_dims := ds_dims x;
     dsp_maxdims := match ds_maxdims x with [] => None | m => Some m end |}.

(* the decoder picks 8-byte extents iff len >= off + total*8; the encoder's output has exactly that
   length, so it is never in the region where only the 4-byte reading fits *)
Definition ambiguous_dataspace_len (rank : N) (hasMax : bool) (len : N) : bool :=
  let total := if hasMax then rank * 2 else rank in
  (8 + total * 4 <=? len) && (len <? 8 + total * 8).

Definition val_dataspace' (d : dataspace') : val :=
  VL [VN (dsp_version d); VN (dsp_type d); vlistN (dsp_dims d); vopt vlistN (dsp_maxdims d)].

(* ------------------------------------------------------------------ data layout (version 3) *)

(* the superblock fields the layout / symbol-table codecs depend on *)
Record sbparams := { sb_version : N; sb_offsize : N; sb_lensize : N; sb_bigendian : bool }.

(* messages_write.go writeUint64(buf, value, size, endianness) into a fresh zeroed buffer region of
   [size] bytes: sizes 1,2,4,8 use the byte order; other sizes write min(size,8) low bytes LE *)
Definition write_uint (value size : N) (bigendian : bool) : bytes :=
  if (size =? 1) || (size =? 2) || (size =? 4) || (size =? 8) then
    if bigendian then be (N.to_nat size) value else le (N.to_nat size) value
  else le (N.to_nat (N.min size 8)) value ++ zeros (N.to_nat (size - N.min size 8)).

(* datalayout.go readUint64(data, size, endianness):
     if size > len(data) { size = len(data) }
     1,2,4,8 -> fixed readers; default: zero-pad the first min(size,8) bytes to 8 and read a Uint64 *)
Definition read_uint (data : bytes) (size : N) (bigendian : bool) : outcome N :=
  let size := if blen data <? size then blen data else size in
  if (size =? 1) || (size =? 2) || (size =? 4) || (size =? 8) then
    if bigendian then rd_be data 0 size else rd_le data 0 size
  else
    (* var buf [8]byte; copy(buf[:], data[:size]); endianness.Uint64(buf[:]) *)
    let buf := firstn 8 (firstn (N.to_nat size) data ++ zeros 8) in
    Ok (if bigendian then unbe buf else unle buf).

Inductive layout :=
| LContig (size addr : N)
| LChunked (chunkdims : list N) (addr : N).

Record layout' := { ly_version : N; ly_class : N; ly_addr : N; ly_size : N;
                    ly_compact : option bytes; ly_chunk : option (list N); ly_keysize : N }.

Definition u32_ok (l : list N) : bool := forallb (fun d => d <? 4294967296) l.

Definition encok_layout (x : layout) : bool :=
  match x with
  | LContig _ _ => true
  | LChunked cd _ => negb (length cd =? 0)%nat && (length cd <=? 255)%nat && u32_ok cd
  end.

Definition sb_ok (sb : sbparams) : bool :=
  ((sb_offsize sb =? 1) || (sb_offsize sb =? 2) || (sb_offsize sb =? 4) || (sb_offsize sb =? 8)) &&
  ((sb_lensize sb =? 1) || (sb_lensize sb =? 2) || (sb_lensize sb =? 4) || (sb_lensize sb =? 8)) &&
  (sb_version sb <? 4).

(* values must fit the superblock's field widths *)
Definition wf_layout (sb : sbparams) (x : layout) : bool :=
  sb_ok sb && encok_layout x &&
  match x with
  | LContig size addr => (addr <? 256 ^ sb_offsize sb) && (size <? 256 ^ sb_lensize sb)
  | LChunked cd addr => (addr <? 256 ^ sb_offsize sb)
  end.

Definition enc_layout (sb : sbparams) (x : layout) : bytes :=
  match x with
  | LContig size addr =>
      [3; 1] ++ write_uint addr (sb_offsize sb) (sb_bigendian sb)
             ++ write_uint size (sb_lensize sb) (sb_bigendian sb)
  | LChunked cd addr =>
      [3; 2; wrap8 (blen cd)] ++ write_uint addr (sb_offsize sb) (sb_bigendian sb)
             ++ concat (map (fun d => le 4 (wrap32 d)) cd)
  end.

Definition size_layout (sb : sbparams) (x : layout) : N :=
  match x with
  | LContig _ _ => 2 + sb_offsize sb + sb_lensize sb
  | LChunked cd _ => 3 + sb_offsize sb + 4 * blen cd
  end.

Definition chunk_key_size (sbversion : N) : N := if 4 <=? sbversion then 8 else 4.

Definition dec_layout (sb : sbparams) (data : bytes) : outcome layout' :=
  if blen data <? 1 then Err else
  version <- index data 0;;
  if (version <? 3) || (4 <? version) then Err else
  let keysize := chunk_key_size (sb_version sb) in
  (* parseLayoutV3 (v4 delegates to it) *)
  if blen data <? 2 then Err else
  class <- index data 1;;
  if class =? 0 then
    if blen data <? 4 then Err else
    size <- rd_le data 2 2;;
    if blen data <? 4 + size then Err else
    c <- slice data 4 (4 + size);;
    Ok {| ly_version := version; ly_class := class; ly_addr := 0; ly_size := size;
          ly_compact := Some c; ly_chunk := None; ly_keysize := keysize |}
  else if class =? 1 then
    if blen data <? 2 + sb_offsize sb + sb_lensize sb then Err else
    d1 <- slice_from data 2;;
    addr <- read_uint d1 (sb_offsize sb) (sb_bigendian sb);;
    d2 <- slice_from data (2 + sb_offsize sb);;
    size <- read_uint d2 (sb_lensize sb) (sb_bigendian sb);;
    Ok {| ly_version := version; ly_class := class; ly_addr := addr; ly_size := size;
          ly_compact := None; ly_chunk := None; ly_keysize := keysize |}
  else if class =? 2 then
    if blen data <? 3 then Err else
    dimensionality <- index data 2;;
    if blen data <? 3 + sb_offsize sb then Err else
    d1 <- slice_from data 3;;
    addr <- read_uint d1 (sb_offsize sb) (sb_bigendian sb);;
    '(cd, _) <- read_dims data keysize (N.to_nat dimensionality) (3 + sb_offsize sb);;
    Ok {| ly_version := version; ly_class := class; ly_addr := addr; ly_size := 0;
          ly_compact := None; ly_chunk := Some cd; ly_keysize := keysize |}
  else Err.

Definition proj_layout (sb : sbparams) (x : layout) : layout' :=
  match x with
  | LContig size addr =>
      {| ly_version := 3; ly_class := 1; ly_addr := addr; ly_size := size;
         ly_compact := None; ly_chunk := None; ly_keysize := chunk_key_size (sb_version sb) |}
  | LChunked cd addr =>
      {| ly_version := 3; ly_class := 2; ly_addr := addr; ly_size := 0;
         ly_compact := None; ly_chunk := Some cd; ly_keysize := chunk_key_size (sb_version sb) |}
  end.

Definition val_layout' (l : layout') : val :=
  VL [VN (ly_version l); VN (ly_class l); VN (ly_addr l); VN (ly_size l);
      vopt VB (ly_compact l); vopt vlistN (ly_chunk l); VN (ly_keysize l)].
