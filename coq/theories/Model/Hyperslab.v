(* C09 - partial reads (ReadSlice / ReadHyperslab / ChunkIterator) versus the full read.

   Part 1: specification (what a hyperslab selection denotes).
   Part 2: model = transcription of /repo/dataset_read_hyperslab.go,
           /repo/internal/utils/overflow.go (ValidateHyperslabBounds, SafeMultiply,
           CalculateHyperslabElements) and /repo/dataset_chunk_iterator.go, as REPAIRED by
           notes/fixes/c09-{validate-overflow,contiguous-guard,selection-run,chunk-order}.patch.
   Part 3: the algorithms as they were before the repairs (only used by the C09_refuted_*
           witnesses and by the tie when it classifies a disagreement).

   Conventions.  One dataset element = one N (the element size does not influence which
   element goes where).  `full` is the dataset in row-major order (what Dataset.Read returns).
   uint64 arithmetic is written out with wrap64/sub64 in the VALIDATION code, where the Go code
   can wrap for caller-chosen inputs.  The extraction paths run after validation, on
   coordinates below the dataset extents; they are modelled over unbounded N (assumption: the
   number of elements of the dataset times the element size is below 2^64, which holds for every
   dataset that exists in a file).  No proofs in this file. *)
From HV Require Import Base.Prelude.

(* ------------------------------------------------------------------------------------ *)
(** * Part 1: specification *)

(* start, start+1, ..., start+len-1 *)
Fixpoint nseq (start : N) (len : nat) : list N :=
  match len with O => [] | S k => start :: nseq (start + 1) k end.
Definition nrange (n : N) : list N := nseq 0 (N.to_nat n).

(* one dimension of a hyperslab: count blocks of block indices, stride apart *)
Record axis := mkAxis { a_start : N; a_count : N; a_stride : N; a_block : N }.

(* indices selected in one dimension, in the order HDF5 defines: block after block, and
   inside a block in increasing order *)
Definition axis_idx (a : axis) : list N :=
  flat_map (fun c => map (fun b => a_start a + c * a_stride a + b) (nrange (a_block a)))
           (nrange (a_count a)).

(* coordinates selected by one axis per dimension, row-major (last dimension fastest) *)
Fixpoint sel_coords (s : list axis) : list (list N) :=
  match s with
  | [] => [[]]
  | a :: r => flat_map (fun i => map (cons i) (sel_coords r)) (axis_idx a)
  end.

Fixpoint prodN (l : list N) : N := match l with [] => 1 | x :: r => x * prodN r end.

(* row-major index of coordinate x in an array of extents dims *)
Fixpoint lin (dims x : list N) : N :=
  match dims, x with
  | _ :: ds, xi :: xs => xi * prodN ds + lin ds xs
  | _, _ => 0
  end.

Definition nthN (l : list N) (i : N) : N := nth (N.to_nat i) l 0.

Definition select (full dims : list N) (s : list axis) : list N :=
  map (fun x => nthN full (lin dims x)) (sel_coords s).

(* validity over unbounded N *)
Definition axis_valid (a : axis) (d : N) : Prop :=
  0 < a_count a /\ 0 < a_stride a /\ 0 < a_block a /\
  a_start a + (a_count a - 1) * a_stride a + a_block a <= d.
Definition axes_valid (s : list axis) (dims : list N) : Prop := Forall2 axis_valid s dims.

(* a selection as the caller passes it: Stride and Block may be nil (= all ones) *)
Record hsel := mkSel { h_start : list N; h_count : list N;
                       h_stride : option (list N); h_block : option (list N) }.

Definition ones (n : nat) : list N := repeat 1 n.
Definition stride_of (h : hsel) (n : nat) := match h_stride h with Some l => l | None => ones n end.
Definition block_of (h : hsel) (n : nat) := match h_block h with Some l => l | None => ones n end.

Fixpoint zip4 (s c st b : list N) : list axis :=
  match s, c, st, b with
  | s0 :: s', c0 :: c', st0 :: st', b0 :: b' => mkAxis s0 c0 st0 b0 :: zip4 s' c' st' b'
  | _, _, _, _ => []
  end.
Definition axes_of (h : hsel) (n : nat) : list axis :=
  zip4 (h_start h) (h_count h) (stride_of h n) (block_of h n).

Definition lens_ok (h : hsel) (n : nat) : Prop :=
  length (h_start h) = n /\ length (h_count h) = n /\
  length (stride_of h n) = n /\ length (block_of h n) = n.

Definition valid (h : hsel) (dims : list N) : Prop :=
  lens_ok h (length dims) /\ axes_valid (axes_of h (length dims)) dims.

(* ReadSlice(start,count): count may be 0 (empty result) *)
Definition slice_axes (start count : list N) : list axis :=
  zip4 start count (ones (length start)) (ones (length start)).
Definition slice_valid (start count dims : list N) : Prop :=
  length start = length dims /\ length count = length dims /\
  Forall2 (fun sc d => fst sc + snd sc <= d) (combine start count) dims.

(* boolean versions, evaluated by the tie on implementation results *)
Definition axis_validb (a : axis) (d : N) : bool :=
  (0 <? a_count a) && (0 <? a_stride a) && (0 <? a_block a) &&
  (a_start a + (a_count a - 1) * a_stride a + a_block a <=? d).
Fixpoint forall2b {A B} (f : A -> B -> bool) (l : list A) (m : list B) : bool :=
  match l, m with
  | [], [] => true
  | x :: l', y :: m' => f x y && forall2b f l' m'
  | _, _ => false
  end.
Definition lens_okb (h : hsel) (n : nat) : bool :=
  Nat.eqb (length (h_start h)) n && Nat.eqb (length (h_count h)) n &&
  Nat.eqb (length (stride_of h n)) n && Nat.eqb (length (block_of h n)) n.
Definition validb (h : hsel) (dims : list N) : bool :=
  lens_okb h (length dims) && forall2b axis_validb (axes_of h (length dims)) dims.
Definition slice_validb (start count dims : list N) : bool :=
  Nat.eqb (length start) (length dims) && Nat.eqb (length count) (length dims) &&
  forall2b (fun sc d => fst sc + snd sc <=? d) (combine start count) dims.

(* ------------------------------------------------------------------------------------ *)
(** * Part 2: model of the (repaired) Go code *)

Definition u64max : N := 18446744073709551615.
Definition u64 (x : N) : Prop := x <= u64max.
Definition max_hyperslab_elements : N := 1000000000.   (* utils.MaxHyperslabElements *)

Inductive vres := Ok | Err.

(* utils.SafeMultiply *)
Definition safe_multiply (a b : N) : option N :=
  if (a =? 0) || (b =? 0) then Some (wrap64 (a * b))
  else if u64max / b <? a then None else Some (wrap64 (a * b)).

(* utils.ValidateHyperslabBounds, loop body for dimension i (after the length checks) *)
Definition vhb_dim (fixed : bool) (s c st d : N) : vres :=
  if c =? 0 then Err else
  match safe_multiply (sub64 c 1) st with
  | None => Err
  | Some maxIndex =>
      if fixed then
        if (d <=? s) || (sub64 d s <=? maxIndex) then Err else Ok
      else
        if d <=? wrap64 (s + maxIndex) then Err else Ok
  end.

Fixpoint vhb_loop (fixed : bool) (s c st d : list N) : vres :=
  match s, c, st, d with
  | s0 :: s', c0 :: c', st0 :: st', d0 :: d' =>
      match vhb_dim fixed s0 c0 st0 d0 with Err => Err | Ok => vhb_loop fixed s' c' st' d' end
  | _, _, _, _ => Ok
  end.

Definition validate_hyperslab_bounds (fixed : bool) (s c st d : list N) : vres :=
  if negb (Nat.eqb (length s) (length d) && Nat.eqb (length c) (length d) && Nat.eqb (length st) (length d))
  then Err else vhb_loop fixed s c st d.

(* utils.CalculateHyperslabElements: product of the counts with overflow check and limit *)
Fixpoint che_loop (total : N) (count : list N) : option N :=
  match count with
  | [] => Some total
  | c :: r =>
      if c =? 0 then None else
      match safe_multiply total c with None => None | Some t => che_loop t r end
  end.
Definition calculate_hyperslab_elements (count : list N) : vres :=
  match count with
  | [] => Err                                   (* "empty hyperslab count" *)
  | _ => match che_loop 1 count with
         | None => Err
         | Some total => if (total =? 0) || (max_hyperslab_elements <? total) then Err else Ok
         end
  end.

(* validateDimensionBounds *)
Definition vdb_dim (fixed : bool) (a : axis) (d : N) : vres :=
  if a_count a =? 0 then Err else
  if a_stride a =? 0 then Err else
  if a_block a =? 0 then Err else
  let lastBlockStart := wrap64 (a_start a + wrap64 (sub64 (a_count a) 1 * a_stride a)) in
  if fixed then
    if (d <=? lastBlockStart) || (sub64 d lastBlockStart <? a_block a) then Err else Ok
  else
    if d <? wrap64 (lastBlockStart + a_block a) then Err else Ok.

Fixpoint vdb_loop (fixed : bool) (s : list axis) (dims : list N) : vres :=
  match s, dims with
  | a :: s', d :: dims' => match vdb_dim fixed a d with Err => Err | Ok => vdb_loop fixed s' dims' end
  | _, _ => Ok
  end.

(* validateSelectionDimensions *)
Definition validate_selection_dimensions (h : hsel) (n : nat) : vres :=
  if negb (Nat.eqb (length (h_start h)) n) then Err else
  if negb (Nat.eqb (length (h_count h)) n) then Err else
  if match h_stride h with Some l => negb (Nat.eqb (length l) n) | None => false end then Err else
  if match h_block h with Some l => negb (Nat.eqb (length l) n) | None => false end then Err else Ok.

(* validateHyperslabSelection = validateSelectionDimensions; fillHyperslabDefaults;
   validateHyperslabBounds *)
Definition validate_gen (fixed : bool) (h : hsel) (dims : list N) : vres :=
  let n := length dims in
  match validate_selection_dimensions h n with Err => Err | Ok =>
  match validate_hyperslab_bounds fixed (h_start h) (h_count h) (stride_of h n) dims with Err => Err | Ok =>
  match calculate_hyperslab_elements (h_count h) with Err => Err | Ok =>
  vdb_loop fixed (axes_of h n) dims end end end.

Definition validate := validate_gen true.

(* the bounds loop at the top of ReadSlice *)
Definition slice_dim (fixed : bool) (s c d : N) : vres :=
  if fixed then if (d <? c) || (sub64 d c <? s) then Err else Ok
  else if d <? wrap64 (s + c) then Err else Ok.
Fixpoint slice_loop (fixed : bool) (s c d : list N) : vres :=
  match s, c, d with
  | s0 :: s', c0 :: c', d0 :: d' =>
      match slice_dim fixed s0 c0 d0 with Err => Err | Ok => slice_loop fixed s' c' d' end
  | _, _, _ => Ok
  end.
Definition slice_validate_gen (fixed : bool) (start count dims : list N) : vres :=
  if negb (Nat.eqb (length start) (length dims)) then Err else
  if negb (Nat.eqb (length count) (length dims)) then Err else
  slice_loop fixed start count dims.
Definition slice_validate := slice_validate_gen true.

(* ---- output buffer *)
Fixpoint upd_nat (l : list N) (i : nat) (v : N) : list N :=
  match l, i with
  | [], _ => []
  | _ :: r, O => v :: r
  | x :: r, S j => x :: upd_nat r j v
  end.
Definition upd (l : list N) (i v : N) : list N := upd_nat l (N.to_nat i) v.
Definition zeros (n : N) : list N := repeat 0 (N.to_nat n).
Definition lenN (l : list N) : N := N.of_nat (length l).

(* calculateHyperslabOutputSize: product of count*block (0 for rank 0) *)
Definition out_elems (s : list axis) : N :=
  match s with
  | [] => 0
  | _ => fold_left (fun t a => t * (a_count a * (if a_block a =? 0 then 1 else a_block a))) s 1
  end.

(* calculateLinearOffset: the loop runs from the last dimension to the first with a running
   stride; the recursion returns (offset, stride) of the loop state after the tail. *)
Fixpoint lin_go (coords dims : list N) : N * N :=
  match coords, dims with
  | c :: cs, d :: ds => let '(o, st) := lin_go cs ds in (o + c * st, st * d)
  | _, _ => (0, 1)
  end.
Definition calc_lin (coords dims : list N) : N := fst (lin_go coords dims).

(* for c := 0; c < count; c++ { for b := 0; b < block; b++ { body (start + c*stride + b) } } *)
Definition axis_loop {S} (a : axis) (body : N -> N -> N -> S -> S) (st : S) : S :=
  fold_left (fun st c =>
     fold_left (fun st b => body c b (a_start a + c * a_stride a + b) st) (nrange (a_block a)) st)
     (nrange (a_count a)) st.

(* extractHyperslabRecursive; state = (outputData, outputIdx); pre = coords[0..dimIdx) *)
Definition ext_leaf (raw dims coords : list N) (st : list N * N) : list N * N :=
  let off := calc_lin coords dims in
  if lenN raw <? off + 1 then st                     (* skip out-of-bounds reads *)
  else (upd (fst st) (snd st) (nthN raw off), snd st + 1).

Fixpoint ext_rec (raw dims : list N) (s : list axis) (rdims : list N) (pre : list N)
         (st : list N * N) : list N * N :=
  match s, rdims with
  | a :: s', d :: rd' =>
      axis_loop a (fun _ _ x st => if d <=? x then st (* continue *)
                                   else ext_rec raw dims s' rd' (pre ++ [x]) st) st
  | _, _ => ext_leaf raw dims pre st
  end.

(* extractHyperslabFromRawData (compact layout; raw = CompactData) *)
Definition extract_from_raw (raw dims : list N) (s : list axis) : list N :=
  let n := out_elems s in
  if n =? 0 then [] else fst (ext_rec raw dims s dims [] (zeros n, 0)).

(* file read: n elements starting at element offset off of the dataset's data block *)
(* (= firstn n (skipn off full); the two N.min only keep evaluation away from huge unary numbers) *)
Definition read_at (full : list N) (off n : N) : list N :=
  firstn (N.to_nat (N.min n (lenN full))) (skipn (N.to_nat (N.min off (lenN full))) full).

(* isContiguousSelection (repaired): loop from the last dimension with the flag `full`;
   the recursion returns (result so far, full) after the dimensions of the tail. *)
Fixpoint contig_go (s : list axis) (dims : list N) : bool * bool :=
  match s, dims with
  | a :: s', d :: ds =>
      let '(ok, full) := contig_go s' ds in
      if negb ok then (false, false) else
      if negb full then
        (if negb (a_count a =? 1) || negb (a_block a =? 1) then (false, false) else (true, false))
      else if negb (a_count a =? 1) && negb (a_stride a =? a_block a) then (false, false)
      else if negb (a_start a =? 0) || negb (a_count a * a_block a =? d) then (true, false)
      else (true, true)
  | _, _ => (true, true)
  end.
Definition is_contiguous_selection (s : list axis) (dims : list N) : bool := fst (contig_go s dims).

(* readContiguousOptimized: both branches (1-D and N-D) read outputElements elements starting
   at the linear offset of the start corner *)
Definition read_contiguous_optimized (full dims : list N) (s : list axis) : list N :=
  let n := out_elems s in
  if n =? 0 then [] else
  match dims with
  | [_] => read_at full (match s with a :: _ => a_start a | [] => 0 end) n
  | _ => read_at full (calc_lin (map a_start s) dims) n
  end.

(* readContiguous2DOptimized: one read per element *)
Definition read_contiguous_2d (full : list N) (d0 d1 : N) (a0 a1 : axis) : list N :=
  let n := out_elems [a0; a1] in
  fst (axis_loop a0 (fun _ _ row st =>
         if d0 <=? row then st else
         axis_loop a1 (fun _ _ col st =>
           if d1 <=? col then st else
           (upd (fst st) (snd st) (nthN full (row * d1 + col)), snd st + 1)) st)
       (zeros n, 0)).

(* readContiguousRowByRow (repaired): 2-D element-wise; otherwise read the run from the
   first to the last selected element and extract relative to the start corner *)
Definition zero_start (s : list axis) : list axis :=
  map (fun a => mkAxis 0 (a_count a) (a_stride a) (a_block a)) s.
Definition last_rel (s : list axis) : list N :=
  map (fun a => (a_count a - 1) * a_stride a + a_block a - 1) s.

Definition read_contiguous_row_by_row (full dims : list N) (s : list axis) : list N :=
  let n := out_elems s in
  if n =? 0 then [] else
  match dims, s with
  | [d0; d1], [a0; a1] => read_contiguous_2d full d0 d1 a0 a1
  | _, _ =>
      let run := read_at full (calc_lin (map a_start s) dims) (calc_lin (last_rel s) dims + 1) in
      fst (ext_rec run dims (zero_start s) dims [] (zeros n, 0))
  end.

(* readHyperslabContiguous (repaired) *)
Definition read_hyperslab_contiguous (full dims : list N) (s : list axis) : list N :=
  if is_contiguous_selection s dims then read_contiguous_optimized full dims s
  else read_contiguous_row_by_row full dims s.

(* ---- chunked layout *)

(* the stored chunk with scaled coordinates cc, as the format lays it out: a full
   cdims-shaped row-major block, fill value 0 outside the dataset *)
Fixpoint all_coords (ext : list N) : list (list N) :=
  match ext with
  | [] => [[]]
  | d :: r => flat_map (fun i => map (cons i) (all_coords r)) (nrange d)
  end.
Fixpoint vadd (a b : list N) : list N :=
  match a, b with x :: a', y :: b' => (x + y) :: vadd a' b' | _, _ => [] end.
Fixpoint vmul (a b : list N) : list N :=
  match a, b with x :: a', y :: b' => (x * y) :: vmul a' b' | _, _ => [] end.
Definition inb (x dims : list N) : bool := forall2b N.ltb x dims.
Definition chunk_of (full dims cdims cc : list N) : list N :=
  map (fun rel => let x := vadd (vmul cc cdims) rel in
                  if inb x dims then nthN full (lin dims x) else 0)
      (all_coords cdims).

(* findOverlappingChunks: first and last chunk index per dimension *)
Definition chunk_span (a : axis) (cd d : N) : N * N :=
  let endPos := a_start a + (a_count a - 1) * a_stride a + a_block a - 1 in
  let endPos := if d <=? endPos then d - 1 else endPos in
  (a_start a / cd, endPos / cd).
(* for i := first; i <= last; i++ *)
Definition span_idx (fl : N * N) : list N := nseq (fst fl) (N.to_nat (snd fl + 1 - fst fl)).
(* generateChunkCoordinates: row-major product of the spans *)
Fixpoint gen_chunk_coords (spans : list (N * N)) : list (list N) :=
  match spans with
  | [] => [[]]
  | fl :: r => flat_map (fun i => map (cons i) (gen_chunk_coords r)) (span_idx fl)
  end.
Fixpoint spans_of (s : list axis) (cdims dims : list N) : list (N * N) :=
  match s, cdims, dims with
  | a :: s', cd :: c', d :: d' => chunk_span a cd d :: spans_of s' c' d'
  | _, _, _ => []
  end.
Definition find_overlapping_chunks (s : list axis) (cdims dims : list N) : list (list N) :=
  match s with [] => [] | _ => gen_chunk_coords (spans_of s cdims dims) end.

(* extractChunkPortionRecursive (repaired).  cs/ce = chunkStart/chunkEnd; pre = coords[0..dim);
   pos = row-major position in the selection of the indices chosen so far.
   state = (outputData, outputIdx). *)
Fixpoint in_chunk (coords cs ce : list N) : bool :=
  match coords, cs, ce with
  | x :: c', s :: cs', e :: ce' => if (x <? s) || (e <=? x) then false else in_chunk c' cs' ce'
  | _, _, _ => true
  end.
Fixpoint vsub (a b : list N) : list N :=
  match a, b with x :: a', y :: b' => (x - y) :: vsub a' b' | _, _ => [] end.

Definition chunk_leaf (chunk cs ce cdims coords : list N) (pos : N) (st : list N * N) : list N * N :=
  if negb (in_chunk coords cs ce) then st else
  let off := calc_lin (vsub coords cs) cdims in
  if (off + 1 <=? lenN chunk) && (pos + 1 <=? lenN (fst st))
  then (upd (fst st) pos (nthN chunk off), snd st + 1) else st.

Fixpoint chunk_rec (chunk cs ce cdims : list N) (s : list axis) (rce : list N) (pre : list N)
         (pos : N) (st : list N * N) : list N * N :=
  match s, rce with
  | a :: s', e :: rce' =>
      axis_loop a (fun c b x st =>
          if e <=? x then st (* continue *)
          else chunk_rec chunk cs ce cdims s' rce' (pre ++ [x]) ((pos * a_count a + c) * a_block a + b) st) st
  | _, _ => chunk_leaf chunk cs ce cdims pre pos st
  end.

(* extractChunkPortion *)
Fixpoint chunk_end (cs cdims dims : list N) : list N :=
  match cs, cdims, dims with
  | s :: cs', c :: cd', d :: d' => (if d <? s + c then d else s + c) :: chunk_end cs' cd' d'
  | _, _, _ => []
  end.
Definition extract_chunk_portion (chunk cc cdims dims : list N) (s : list axis) (st : list N * N) :=
  let cs := vmul cc cdims in
  let ce := chunk_end cs cdims dims in
  chunk_rec chunk cs ce cdims s ce [] 0 st.

(* readHyperslabChunked; the chunk index maps every chunk coordinate to chunk_of *)
Definition read_hyperslab_chunked (full dims cdims : list N) (s : list axis) : list N :=
  let n := out_elems s in
  if n =? 0 then [] else
  let ccs := find_overlapping_chunks s cdims dims in
  match ccs with
  | [] => []
  | _ => fst (fold_left (fun st cc => extract_chunk_portion (chunk_of full dims cdims cc) cc cdims dims s st)
                        ccs (zeros n, 0))
  end.

(* ---- dispatcher *)
Inductive layout := Compact | Contiguous | Chunked (cdims : list N).

Definition dispatch (lay : layout) (full dims : list N) (s : list axis) : list N :=
  match lay with
  | Compact => extract_from_raw full dims s
  | Contiguous => read_hyperslab_contiguous full dims s
  | Chunked cdims => read_hyperslab_chunked full dims cdims s
  end.

(* Dataset.ReadHyperslab / Dataset.ReadSlice: None = error *)
Definition read_hyperslab (lay : layout) (full dims : list N) (h : hsel) : option (list N) :=
  match validate h dims with
  | Err => None
  | Ok => Some (dispatch lay full dims (axes_of h (length dims)))
  end.
(* ReadSlice: its own bounds loop, then readHyperslab: an empty selection (output size 0) is left to the readers;
   otherwise validateHyperslabSelection runs once more, on the filled selection (Stride = Block = all ones), which
   refuses more than MaxHyperslabElements elements (utils.CalculateHyperslabElements) *)
Definition read_slice (lay : layout) (full dims start count : list N) : option (list N) :=
  match slice_validate start count dims with
  | Err => None
  | Ok =>
      let s := slice_axes start count in
      if out_elems s =? 0 then Some (dispatch lay full dims s) else
      match validate (mkSel start count (Some (ones (length dims))) (Some (ones (length dims)))) dims with
      | Err => None
      | Ok => Some (dispatch lay full dims s)
      end
  end.

(* ---- chunk iterator.  The B-tree of a dataset written by the library holds one key per
   chunk of the grid, in row-major order (writer.ChunkCoordinator.GetChunkCoordinate). *)
Definition nchunks (d c : N) : N := (d + c - 1) / c.
Fixpoint map2 {A B C} (f : A -> B -> C) (l : list A) (m : list B) : list C :=
  match l, m with x :: l', y :: m' => f x y :: map2 f l' m' | _, _ => [] end.
Definition iter_coords (dims cdims : list N) : list (list N) := all_coords (map2 nchunks dims cdims).

(* ChunkIterator.Chunk: start = coords*chunkDims, count = chunkDims clamped to the dataset *)
Definition iter_box (dims cdims cc : list N) : list N * list N :=
  let start := vmul cc cdims in
  (start, map2 (fun sc d => if d <? fst sc + snd sc then d - fst sc else snd sc) (combine start cdims) dims).
Definition iter_piece (full dims cdims cc : list N) : option (list N) :=
  let '(start, count) := iter_box dims cdims cc in
  read_slice (Chunked cdims) full dims start count.
Definition chunk_iterator (full dims cdims : list N) : list (list N * option (list N)) :=
  map (fun cc => (cc, iter_piece full dims cdims cc)) (iter_coords dims cdims).

(* ------------------------------------------------------------------------------------ *)
(** * Part 3: the code before the repairs (D9) *)

Definition validate_orig := validate_gen false.
Definition slice_validate_orig := slice_validate_gen false.

(* isContiguousSelection as it was: only the last dimension is inspected *)
Definition is_contiguous_orig (s : list axis) (dims : list N) : bool :=
  match rev s, rev dims with
  | a :: _, d :: _ =>
      if negb (a_stride a =? 1) || negb (a_block a =? 1) then false
      else a_count a * a_block a =? d
  | _, _ => true
  end.

(* the bounding-box branch of readContiguousRowByRow as it was *)
Definition bbox_orig (full dims : list N) (s : list axis) : list N :=
  let n := out_elems s in
  let mx := map (fun a => a_start a + (a_count a - 1) * a_stride a + a_block a) s in
  let mn := map a_start s in
  let bounding := prodN (vsub mx mn) in
  let raw := read_at full (calc_lin mn dims) bounding in
  let out := fst (ext_rec raw dims s dims [] (zeros n, 0)) in
  out.

Definition read_hyperslab_contiguous_orig (full dims : list N) (s : list axis) : list N :=
  if Nat.eqb (length dims) 1 || is_contiguous_orig s dims then read_contiguous_optimized full dims s
  else let n := out_elems s in
       if n =? 0 then [] else
       match dims, s with
       | [d0; d1], [a0; a1] => read_contiguous_2d full d0 d1 a0 a1
       | _, _ => bbox_orig full dims s
       end.

(* extractChunkPortionRecursive as it was: running output index, `return` on the first index
   beyond the chunk (modelled by a stop flag that ends both loops of this level) *)
Definition chunk_leaf_orig (chunk cs ce cdims coords : list N) (st : list N * N) : list N * N :=
  if negb (in_chunk coords cs ce) then st else
  let off := calc_lin (vsub coords cs) cdims in
  if (off + 1 <=? lenN chunk) && (snd st + 1 <=? lenN (fst st))
  then (upd (fst st) (snd st) (nthN chunk off), snd st + 1) else st.

Fixpoint chunk_rec_orig (chunk cs ce cdims : list N) (s : list axis) (rce : list N) (pre : list N)
         (st : list N * N) : list N * N :=
  match s, rce with
  | a :: s', e :: rce' =>
      snd (axis_loop a (fun _ _ x (fs : bool * (list N * N)) =>
             if fst fs then fs else
             if e <=? x then (true, snd fs)
             else (false, chunk_rec_orig chunk cs ce cdims s' rce' (pre ++ [x]) (snd fs)))
           (false, st))
  | _, _ => chunk_leaf_orig chunk cs ce cdims pre st
  end.

Definition read_hyperslab_chunked_orig (full dims cdims : list N) (s : list axis) : list N :=
  let n := out_elems s in
  if n =? 0 then [] else
  let ccs := find_overlapping_chunks s cdims dims in
  match ccs with
  | [] => []
  | _ => fst (fold_left (fun st cc =>
                let cs := vmul cc cdims in
                let ce := chunk_end cs cdims dims in
                chunk_rec_orig (chunk_of full dims cdims cc) cs ce cdims s ce [] st)
              ccs (zeros n, 0))
  end.

Definition dispatch_orig (lay : layout) (full dims : list N) (s : list axis) : list N :=
  match lay with
  | Compact => extract_from_raw full dims s
  | Contiguous => read_hyperslab_contiguous_orig full dims s
  | Chunked cdims => read_hyperslab_chunked_orig full dims cdims s
  end.
Definition read_hyperslab_orig (lay : layout) (full dims : list N) (h : hsel) : option (list N) :=
  match validate_orig h dims with
  | Err => None
  | Ok => Some (dispatch_orig lay full dims (axes_of h (length dims)))
  end.
