(* Property C19 part A on the composed attribute-storage model: the FileWriter's rebalancing configuration as a
   parameter of every attribute call of Model/AttrCompose.v (attribute dispatch + byte-level B-tree v2 name index
   Model/BT2.v + byte-level fractal heap Model/FHeap.v).

   How a configuration reaches the dense-attribute code (read off /repo, tree of this session):

   (a) What a FileWriter stores.
         dataset_write.go  FileWriteConfig.BTreeRebalancing        bool, default true; set by the WriteOption
                           WithBTreeRebalancing(b) at CreateForWrite/OpenForWrite, and AT RUN TIME by
                           fw.DisableRebalancing() / fw.EnableRebalancing(); read by fw.RebalancingEnabled()
         rebalancing_options.go  WithLazyRebalancing(opts...)       stores fw.lazyRebalancingConfig (a copy of
                           DefaultLazyConfig() + LazyThreshold/LazyMaxDelay/LazyBatchSize) - the field is copied into the
                           FileWriter by CreateForWrite and is READ NOWHERE
                           WithIncrementalRebalancing(opts...)      stores fw.incrementalRebalancingConfig - read nowhere
                           WithSmartRebalancing(opts...)            `_ = opts; return nil`: stores nothing
         dataset_write.go  fw.EnableLazyRebalancing(cfg)            validates (0 < Threshold <= 1, MaxDelay > 0), stores nothing
                           fw.DisableLazyRebalancing(), fw.ForceBatchRebalance(), fw.RebalanceAllBTrees(),
                           fw.StopIncrementalRebalancing()          return nil
                           fw.EnableIncrementalRebalancing(cfg)     validates (Budget > 0, Interval > 0), stores nothing
                           fw.IsLazyRebalancingEnabled(), fw.IsIncrementalRebalancingEnabled()   false
         attribute_write.go ds.RebalanceAttributeBTree()            loads the index into a fresh object, RebalanceAll()
                           (a no-op on the single-leaf trees this code writes), writes NOTHING back
       OpenForWrite takes WriteOptions only (WithBTreeRebalancing, WithSuperblockVersion).

   (b) Which B-tree delete entry point runs.  All three public delete paths (deleteAttribute -> deleteDenseAttributeFromHeader,
       deleteAttributeWithCachedHeader with or without cached Attribute Info) end in
         attribute_write.go deleteDenseAttributeImpl:
            heap  := structures.NewWritableFractalHeap(64*1024); heap.LoadFromFile(...)
            btree := structures.NewWritableBTreeV2(4096);        btree.LoadFromFile(...)      <- a NEW object per call
            core.DeleteDenseAttribute(heap, btree, name, fw.RebalancingEnabled())
            heap.WriteAt(...); btree.WriteAt(...)
         internal/core/attribute_modify.go DeleteDenseAttribute:
            switch { case btree.IsLazyRebalancingEnabled(): DeleteRecordLazy
                     case rebalance:                         DeleteRecordWithRebalancing
                     default:                                DeleteRecord }              (DeleteRecord delegates to the second)
       NewWritableBTreeV2 gives lazyState = nil and LoadFromFile does not touch it, so on the tree as it is
       IsLazyRebalancingEnabled() is false at every call and the entry point is selected by BTreeRebalancing alone:
       [wire_go].  The write paths (writeDenseAttribute, writeDenseAttributeWithInfo, transitionToDenseAttributes via
       internal/writer/dense_attribute_writer.go) never look at the configuration.

   (c) Does lazy state survive between calls?  No: the tree object lives for one call; what the next call sees is what
       WriteAt put into the file, and encodeHeader / encodeLeafNode write records and counters only (lazyState is
       not serialised).

   The model below is parametrised by [wire : fwcfg -> BT2.mode], the mode that is set up on the freshly loaded index
   at every call (BT2.setup_mode: EnableLazyRebalancing on the new object for the lazy modes).  [wire_go] is the code
   as it is.  [wire_all] is the wiring the stored-but-unread fields announce (lazy configuration enabled on the loaded
   tree, incremental on top of it); seeded change C19-c is that wiring PLUS a per-writer cache of the loaded tree - the
   cache is outside this model (here every call loads), which is exactly why the cache and not the wiring is the defect.
   The theorems of Props/C19Compose.v are proved for EVERY wire, so they cover the code as it is and any such wiring.

   "Toggled at any time": a history is replayed with one configuration per call ([c_run_cfg], list aligned with the
   history; calls beyond the list run under [fw_default]); [c_run_ev] replays a history in which the run-time
   configuration calls of (a) occur between attribute calls.  No proofs in this file. *)
From HV Require Import Base.Prelude Model.Attr Model.AttrCompose.
From HV Require Model.BT2 Model.FHeap.

(* LazyRebalancingConfig as far as a record could depend on it: Threshold in thousandths (BT2.enable_lazy clamps it as
   EnableLazyRebalancing does) and the wall-clock oracle of shouldTriggerBatchRebalancing (time.Since(..) >= MaxDelay)
   for the call the configuration is in force for.  BatchSize is read by nothing that touches records. *)
Record lazy_cfg := mkLazyCfg { lc_thr : N; lc_delay : bool }.

Record fwcfg := mkFw {
  fw_rebalance : bool;              (* fw.config.BTreeRebalancing *)
  fw_lazy : option lazy_cfg;        (* fw.lazyRebalancingConfig (nil = None) *)
  fw_incr : bool;                   (* fw.incrementalRebalancingConfig != nil (budget/interval: background part, C18) *)
  fw_smart : bool                   (* WithSmartRebalancing was given (nothing is stored) *)
}.

(* CreateForWrite / OpenForWrite without options *)
Definition fw_default : fwcfg := mkFw true None false false.

(* ---- the run-time configuration calls of (a) ---- *)
Inductive cfgop :=
| KDisableRebalancing | KEnableRebalancing
| KEnableLazy (c : lazy_cfg) | KDisableLazy | KForceBatch
| KEnableIncr | KStopIncr | KRebalanceAll | KRebalanceAttr.

Definition cfg_apply (c : fwcfg) (k : cfgop) : fwcfg :=
  match k with
  | KDisableRebalancing => mkFw false (fw_lazy c) (fw_incr c) (fw_smart c)
  | KEnableRebalancing => mkFw true (fw_lazy c) (fw_incr c) (fw_smart c)
  | _ => c                          (* validate / return nil; RebalanceAttributeBTree reads the file only *)
  end.

(* ---- wirings: which mode is set up on the index object a call has just loaded ---- *)
Definition wire_go (c : fwcfg) : BT2.mode := if fw_rebalance c then BT2.MImmediate else BT2.MOff.

Definition wire_all (c : fwcfg) : BT2.mode :=
  match fw_lazy c with
  | Some l => if fw_incr c then BT2.MIncremental (lc_thr l) (lc_delay l) else BT2.MLazy (lc_thr l) (lc_delay l)
  | None => wire_go c
  end.

Definition mode_delay (m : BT2.mode) : bool :=
  match m with BT2.MLazy _ d | BT2.MIncremental _ d => d | _ => false end.

Section ComposeCfg.
Variable P : params.
Variable enc : attr -> bytes.
Variable pick : FHeap.heap -> bytes -> nat.
Variable wire : fwcfg -> BT2.mode.

(* ---- deleteDenseAttributeImpl + core.DeleteDenseAttribute under configuration cf (AttrCompose.c_delete_dense with
        the mode set up on the loaded index; the switch is DeleteDenseAttribute's) ---- *)
Definition c_delete_dense_cfg (cf : fwcfg) (bf : BT2.file) (bn ba : N) (hfs : FHeap.fstate) (ha : N) (n : bytes)
  : cstate * res :=
  let st := CDense bf bn ba hfs ha in
  match c_load bf ba hfs ha with
  | None => (st, RErr)
  | Some (bt0, hp) =>
    let bt := BT2.setup_mode (wire cf) bt0 in
    match n with
    | [] => (st, RErr)
    | _ =>
      match BT2.search_record bt n with
      | None => (st, RErr)
      | Some id =>
        let '(bt', ok) :=
          if BT2.is_lazy_enabled bt then BT2.delete_lazy bt n (mode_delay (wire cf))
          else if fw_rebalance cf then BT2.delete_with_rebalancing bt n
          else BT2.delete_record bt n in
        if ok then
          match FHeap.delete hp id with
          | (_, FHeap.Err) => (st, RErr)
          | (hp', FHeap.Ok _) => c_store bf bn ba hfs ha bt' hp'
          end
        else (st, RErr)
      end
    end
  end.

(* ---- writeDenseAttribute under configuration cf (AttrCompose.c_write_dense with the mode set up on the loaded
        index; the code as it is never does that on a write path - [wire_go] - a wiring might) ---- *)
Definition c_write_dense_cfg (cf : fwcfg) (bf : BT2.file) (bn ba : N) (hfs : FHeap.fstate) (ha : N) (a : attr)
  : cstate * res :=
  let st := CDense bf bn ba hfs ha in
  match c_load bf ba hfs ha with
  | None => (st, RErr)
  | Some (bt0, hp) =>
    let bt := BT2.setup_mode (wire cf) bt0 in
    match encode_attr a with
    | EncErr => (st, RErr)
    | EncOk _ =>
      match BT2.search_record bt (aname a) with
      | Some _ =>
        match c_modify enc pick bt hp a with
        | None => (st, RErr)
        | Some (bt', hp') => c_store bf bn ba hfs ha bt' hp'
        end
      | None =>
        match FHeap.insert FHeap.cap_new hp (enc a) (pick hp (enc a)) with
        | (_, FHeap.Err) => (st, RErr)
        | (hp', FHeap.Ok id) =>
          if negb (FHeap.len id =? 8) then (st, RErr)
          else match BT2.insert_record bt (aname a) (unle id) with
               | (_, false) => (st, RErr)
               | (bt', true) => c_store bf bn ba hfs ha bt' hp'
               end
        end
      end
    end
  end.

(* compact storage and the transition build their structures from scratch (NewDenseAttributeWriter: new objects, no
   configuration in sight) *)
Definition c_write_attr_cfg (cf : fwcfg) (st : cstate) (n : bytes) (ov : option value) : cstate * res :=
  match ov with
  | None => (st, RErr)
  | Some v =>
    let a := mkAttr n v in
    match st with
    | CDense bf bn ba hfs ha => c_write_dense_cfg cf bf bn ba hfs ha a
    | CCompact attrs =>
        if N.of_nat (List.length attrs) <? p_maxc P then c_write_compact P enc pick attrs a
        else c_transition P enc pick attrs a
    end
  end.

Definition c_delete_attr_cfg (cf : fwcfg) (st : cstate) (n : bytes) : cstate * res :=
  match st with
  | CCompact attrs =>
      match remove_name n attrs with Some attrs' => (CCompact attrs', ROk) | None => (st, RErr) end
  | CDense bf bn ba hfs ha => c_delete_dense_cfg cf bf bn ba hfs ha n
  end.

Definition c_step_cfg (cf : fwcfg) (st : cstate) (o : op) : cstate * res :=
  match o with OWrite n v => c_write_attr_cfg cf st n v | ODelete n => c_delete_attr_cfg cf st n end.

(* one configuration per call; calls beyond the list run under the default configuration *)
Fixpoint c_run_cfg (cfs : list fwcfg) (st : cstate) (h : list op) : cstate * list res :=
  match h with
  | [] => (st, [])
  | o :: r =>
    let cf := match cfs with [] => fw_default | c :: _ => c end in
    let '(st1, x) := c_step_cfg cf st o in
    let '(st2, xs) := c_run_cfg (tl cfs) st1 r in
    (st2, x :: xs)
  end.

(* a session: attribute calls and run-time configuration calls in any order, starting from configuration cf *)
Inductive ev := EOp (o : op) | ECfg (k : cfgop).

Fixpoint c_run_ev (cf : fwcfg) (st : cstate) (l : list ev) : cstate * list res :=
  match l with
  | [] => (st, [])
  | ECfg k :: r => c_run_ev (cfg_apply cf k) st r
  | EOp o :: r =>
    let '(st1, x) := c_step_cfg cf st o in
    let '(st2, xs) := c_run_ev cf st1 r in
    (st2, x :: xs)
  end.

End ComposeCfg.

Fixpoint ops_of (l : list ev) : list op :=
  match l with
  | [] => []
  | EOp o :: r => o :: ops_of r
  | ECfg _ :: r => ops_of r
  end.

(* the delete switch of DeleteDenseAttribute alone, on an index object on which mode m has been set up (used by the
   example that shows the lazy entry point and its bookkeeping are really reached under a lazy wiring) *)
Definition dense_delete_switch (m : BT2.mode) (rebalance : bool) (bt0 : BT2.bt2) (n : bytes) : BT2.bt2 * bool :=
  let bt := BT2.setup_mode m bt0 in
  if BT2.is_lazy_enabled bt then BT2.delete_lazy bt n (mode_delay m)
  else if rebalance then BT2.delete_with_rebalancing bt n
  else BT2.delete_record bt n.
