(* C11 codec models, group 7: compound datatype member lists (versions 3 and 1), array and enum datatype
   messages.  Transcription of internal/core/datatype_compound_write.go EncodeCompoundDatatypeV3/V1,
   internal/core/datatype_compound.go ParseCompoundType/parseCompoundV1/parseCompoundV3, and
   messages_write.go EncodeArrayDatatypeMessage / EncodeEnumDatatypeMessage (whose only decoder is
   ParseDatatypeMessage: the properties come back raw).  No proofs here (Proofs/CodecCompound.v). *)
From HV Require Import Base.Prelude Base.Outcome Base.Bytes Model.CodecType.

Record field := { fd_name : bytes; fd_offset : N; fd_type : datatype }.
Record compound := { cp_version : N; cp_size : N; cp_fields : list field }.
(* (dt.Version, dt.ClassBitField, CompoundType.Size, Members) *)
Record compound' := { cpp_version : N; cpp_cbf : N; cpp_size : N; cpp_members : list field }.

Definition member_hdr (t : datatype) : bytes :=
  le 4 (dt_word (dt_class t) (dt_version t) (dt_cbf t)) ++ le 4 (dt_size t) ++ dt_props t.

Definition enc_field_v3 (f : field) : bytes :=
  fd_name f ++ [0] ++ le 4 (fd_offset f) ++ member_hdr (fd_type f).

Definition pad_name_v1 (n : N) : N := ((n + 8) / 8) * 8.
Definition enc_field_v1 (f : field) : bytes :=
  fd_name f ++ zeros (N.to_nat (pad_name_v1 (blen (fd_name f)) - blen (fd_name f)))
  ++ le 4 (fd_offset f) ++ zeros 28 ++ member_hdr (fd_type f).

Definition nfields (x : compound) : N := N.of_nat (length (cp_fields x)).

Definition encok_compound (x : compound) : bool :=
  negb (length (cp_fields x) =? 0)%nat && negb (cp_size x =? 0) &&
  (if cp_version x =? 1 then nfields x <=? 65535 else true) &&
  forallb (fun f => negb (length (fd_name f) =? 0)%nat) (cp_fields x).

Definition enc_compound (x : compound) : bytes :=
  if cp_version x =? 1 then
    le 4 (dt_word DT_COMPOUND 1 (wrap16 (nfields x))) ++ le 4 (cp_size x)
    ++ concat (map enc_field_v1 (cp_fields x))
  else
    le 4 (dt_word DT_COMPOUND 3 0) ++ le 4 (cp_size x) ++ le 4 (wrap32 (nfields x))
    ++ concat (map enc_field_v3 (cp_fields x)).

(* GetEncodedSize *)
Definition encoded_size (t : datatype) : N :=
  let c := dt_class t in
  if c =? DT_FIXED then 12 else if c =? DT_FLOAT then 20 else if c =? DT_BITFIELD then 12
  else if c =? DT_TIME then 10 else 8 + blen (dt_props t).

(* parseCompoundV3's member loop; [remaining] = numMembers - i *)
Fixpoint v3_members (fuel : nat) (props : bytes) (remaining offset : N) : outcome (list field) :=
  if remaining =? 0 then Ok [] else
  match fuel with
  | O => Err
  | S fuel' =>
      let nameEnd := find0 props offset in
      if blen props <=? nameEnd then Err else
      name <- slice props offset nameEnd;;
      let offset := nameEnd + 1 in
      if blen props <? offset + 4 then Err else
      moff <- rd_le props offset 4;;
      let offset := offset + 4 in
      if blen props <? offset + 8 then Err else
      sub <- slice_from props offset;;
      mt <- dec_datatype sub;;
      rest <- v3_members fuel' props (remaining - 1) (offset + 8 + blen (dt_props mt));;
      Ok ({| fd_name := name; fd_offset := moff; fd_type := mt |} :: rest)
  end.

Fixpoint v1_members (fuel : nat) (props : bytes) (remaining offset : N) : outcome (list field) :=
  if remaining =? 0 then Ok [] else
  match fuel with
  | O => Err
  | S fuel' =>
      let nameStart := offset in
      let nameEnd := find0 props offset in
      if blen props <=? nameEnd then Err else
      name <- slice props nameStart nameEnd;;
      let offset := nameStart + pad_name_v1 (nameEnd - nameStart) in
      if blen props <? offset + 4 then Err else
      moff <- rd_le props offset 4;;
      let offset := offset + 4 in
      if blen props <? offset + 28 then Err else
      let offset := offset + 28 in
      if blen props <? offset + 8 then Err else
      sub <- slice_from props offset;;
      mt <- dec_datatype sub;;
      rest <- v1_members fuel' props (remaining - 1) (offset + encoded_size mt);;
      Ok ({| fd_name := name; fd_offset := moff; fd_type := mt |} :: rest)
  end.

(* ParseCompoundType *)
Definition parse_compound (dt : datatype) : outcome compound' :=
  if negb (dt_class dt =? DT_COMPOUND) then Err else
  let props := dt_props dt in
  if blen props <? 2 then Err else
  if dt_version dt =? 1 then
    ms <- v1_members (S (length props)) props (N.land (dt_cbf dt) 65535) 0;;
    Ok {| cpp_version := 1; cpp_cbf := dt_cbf dt; cpp_size := dt_size dt; cpp_members := ms |}
  else if dt_version dt =? 3 then
    if blen props <? 4 then Err else
    n <- rd_le props 0 4;;
    ms <- v3_members (S (length props)) props n 4;;
    Ok {| cpp_version := 3; cpp_cbf := dt_cbf dt; cpp_size := dt_size dt; cpp_members := ms |}
  else Err.

Definition dec_compound (data : bytes) : outcome compound' :=
  dt <- dec_datatype data;; parse_compound dt.

Definition val_field (f : field) : val := VL [VB (fd_name f); VN (fd_offset f); val_datatype (fd_type f)].
Definition val_compound' (c : compound') : val :=
  VL [VN (cpp_version c); VN (cpp_cbf c); VN (cpp_size c); VL (map val_field (cpp_members c))].

Definition field_eqb (a b : field) : bool :=
  bytes_eqb (fd_name a) (fd_name b) && (fd_offset a =? fd_offset b) && datatype_eqb (fd_type a) (fd_type b).

(* the decoder finds where a member type ends only for classes with a fixed property length (fixed-point,
   float, bitfield, time) and for nested version-3 compounds; for every other class it takes "all remaining
   bytes" as that member's properties.  A member of such a class that is not the last one swallows the
   members after it. *)
Definition greedy_class (c : N) : bool :=
  negb ((c =? DT_FIXED) || (c =? DT_FLOAT) || (c =? DT_BITFIELD) || (c =? DT_TIME) || (c =? DT_COMPOUND)).

(* witness: { string s[8]; int32 x } *)
Definition dt_int32 : datatype :=
  {| dt_class := DT_FIXED; dt_version := 1; dt_size := 4; dt_cbf := 8; dt_props := [0; 32; 0; 0] |}.
Definition dt_str8 : datatype :=
  {| dt_class := DT_STRING; dt_version := 1; dt_size := 8; dt_cbf := 0; dt_props := [0] |}.
Definition compound_witness : compound :=
  {| cp_version := 3; cp_size := 12;
     cp_fields := [ {| fd_name := [115]; fd_offset := 0; fd_type := dt_str8 |};
                    {| fd_name := [120]; fd_offset := 8; fd_type := dt_int32 |} ] |}.
Definition compound_ok_example : compound :=
  {| cp_version := 3; cp_size := 12;
     cp_fields := [ {| fd_name := [120]; fd_offset := 0; fd_type := dt_int32 |};
                    {| fd_name := [115]; fd_offset := 4; fd_type := dt_str8 |} ] |}.

(* ------------------------------------------------------------------ array / enum datatype messages *)

Record arraydt := { ar_base : bytes; ar_dims : list N; ar_size : N }.

Definition encok_array (x : arraydt) : bool :=
  negb (length (ar_dims x) =? 0)%nat && (length (ar_dims x) <=? 255)%nat &&
  negb (length (ar_base x) =? 0)%nat && forallb (fun d => d <=? 4294967295) (ar_dims x).

Definition enc_array (x : arraydt) : bytes :=
  dt_header DT_ARRAY 3 0 (ar_size x)
  ++ [wrap8 (blen (ar_dims x))] ++ concat (map (fun d => le 4 (wrap32 d)) (ar_dims x)) ++ ar_base x.

Definition proj_array (x : arraydt) : datatype :=
  {| dt_class := DT_ARRAY; dt_version := 3; dt_size := ar_size x; dt_cbf := 0;
     dt_props := [blen (ar_dims x)] ++ concat (map (le 4) (ar_dims x)) ++ ar_base x |}.

Definition wf_array (x : arraydt) : bool :=
  encok_array x && (ar_size x <? 4294967296) && forallb (fun d => d <? 18446744073709551616) (ar_dims x).

Record enumdt := { en_base : bytes; en_names : list bytes; en_values : bytes; en_size : N }.

Definition enum_count (x : enumdt) : N := N.of_nat (length (en_names x)).

Definition encok_enum (x : enumdt) : bool :=
  negb (length (en_names x) =? 0)%nat && (enum_count x <=? 65535) &&
  negb (length (en_base x) =? 0)%nat &&
  (enum_count x * en_size x <=? blen (en_values x)).

Fixpoint enc_enum_members (names : list bytes) (values : bytes) (es : nat) : bytes :=
  match names with
  | [] => []
  | nm :: r =>
      let nl := blen nm + 1 in
      nm ++ [0] ++ zeros (N.to_nat (pad8 nl - nl)) ++ firstn es values
      ++ enc_enum_members r (skipn es values) es
  end.

Definition enc_enum (x : enumdt) : bytes :=
  dt_header DT_ENUM 3 (enum_count x) (en_size x) ++ en_base x
  ++ enc_enum_members (en_names x) (en_values x) (N.to_nat (en_size x)).

Definition proj_enum (x : enumdt) : datatype :=
  {| dt_class := DT_ENUM; dt_version := 3; dt_size := en_size x; dt_cbf := enum_count x;
     dt_props := en_base x ++ enc_enum_members (en_names x) (en_values x) (N.to_nat (en_size x)) |}.

Definition wf_enum (x : enumdt) : bool := encok_enum x && (en_size x <? 4294967296).
