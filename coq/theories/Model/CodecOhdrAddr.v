(* C11, object headers at arbitrary file addresses.
   internal/core/objectheader_v1.go parseV1Header / parseV1MessagesInBlock and objectheader.go parseV2Header
   read at ABSOLUTE file addresses (io.ReaderAt) but step from message to message RELATIVELY
   (`current += roundup8(8 + msgSize)` resp. `current += hdr + size`): the address of the header enters the
   result only through the Offset field of the returned messages.  ObjectHeaderWriter.writeToV1 pads every
   message to a multiple of 8 bytes counted from the start of the message block (address + 16), whatever the
   address is.  Model/CodecOhdr.v already carries the address (dec_ohdr sbBE file addr); this file adds
     - the translation of a decoded header by d bytes (only the message offsets move), used to state that
       decoding is independent of the address,
     - a deliberately different reader, v1_loop_abs, that looks for the next message at the next ABSOLUTE
       multiple of 8 (`current = (current + 8 + msgSize + 7) &^ 7`).  It is NOT what /repo does; it is the
       reading of "messages are 8-byte aligned" that agrees with the writer only at addresses that are
       multiples of 8 (seeded change C11-e), kept here so that the difference is a theorem.
   No proofs here (Proofs/CodecOhdrAddr.v). *)
From HV Require Import Base.Prelude Base.Outcome Base.Bytes Model.CodecOhdr.

Definition shift_msg (d : N) (m : hmsg') : hmsg' :=
  {| hmp_type := hmp_type m; hmp_offset := hmp_offset m + d; hmp_data := hmp_data m |}.

Definition shift_ohdr (d : N) (o : ohdr') : ohdr' :=
  {| ohp_version := ohp_version o; ohp_flags := ohp_flags o; ohp_refcount := ohp_refcount o;
     ohp_name := ohp_name o; ohp_msgs := map (shift_msg d) (ohp_msgs o) |}.

(* the messages without their file offsets: what was encoded *)
Definition unplace (m : hmsg') : hmsg := {| hm_type := hmp_type m; hm_data := hmp_data m |}.

(* ---- the reader that aligns to absolute addresses (not /repo's) ---- *)
Definition align8_abs (n : N) : N := (n + 7) / 8 * 8.

Fixpoint v1_loop_abs (fuel : nat) (file : bytes) (sbBE : bool) (current end_ count max : N) : outcome (list hmsg') :=
  match fuel with
  | O => Err
  | S fuel' =>
      if current <? end_ then
        if max <=? count then Ok [] else
        if end_ <? wrap64 (current + 8) then Ok [] else
        if negb (readable file current 8) then Err else
        ty <- rd_end file current 2 sbBE;;
        size <- rd_end file (current + 2) 2 sbBE;;
        if size =? 0 then v1_loop_abs fuel' file sbBE (wrap64 (current + 8)) end_ count max
        else
          if end_ <? wrap64 (current + 8 + size) then Ok [] else
          if negb (readable file (wrap64 (current + 8)) size) then Err else
          data <- slice file (current + 8) (current + 8 + size);;
          rest <- v1_loop_abs fuel' file sbBE (wrap64 (align8_abs (current + 8 + size))) end_ (wrap16 (count + 1)) max;;
          Ok ({| hmp_type := ty; hmp_offset := current; hmp_data := data |} :: rest)
      else Ok []
  end.

Definition parse_v1_abs (file : bytes) (addr flags : N) (sbBE : bool) : outcome ohdr' :=
  if negb (readable file addr 16) then Err else
  v <- index file addr;;
  if negb (v =? 1) then
    Ok {| ohp_version := 1; ohp_flags := flags; ohp_refcount := 0; ohp_name := []; ohp_msgs := [] |}
  else
  num <- rd_end file (addr + 2) 2 sbBE;;
  refc <- rd_end file (addr + 4) 4 sbBE;;
  hsize <- rd_end file (addr + 8) 4 sbBE;;
  let current := wrap64 (addr + 16) in
  let end_ := wrap64 (addr + 16 + hsize) in
  ms <- v1_loop_abs (S (length file)) file sbBE current end_ 0 num;;
  Ok {| ohp_version := 1; ohp_flags := flags; ohp_refcount := refc; ohp_name := name_v1 ms; ohp_msgs := ms |}.

(* the dataset header of the seeded demonstration: datatype (12 bytes), dataspace (24), layout (18) *)
Definition ohdr_v1_dataset : ohdr :=
  {| oh_version := 1; oh_flags := 0; oh_refcount := 1;
     oh_msgs := [ {| hm_type := 3; hm_data := [16; 8; 0; 0; 4; 0; 0; 0; 0; 0; 32; 0] |};
                  {| hm_type := 1; hm_data := [1; 2; 0; 0; 0; 0; 0; 0] ++ le 8 10 ++ le 8 20 |};
                  {| hm_type := 8; hm_data := [3; 1] ++ le 8 8192 ++ le 8 800 |} ] |}.
