(* Property C02, composition: attribute storage on ONE object with the DETAILED models of the B-tree v2 name
   index (Model/BT2.v, property C14) and of the fractal heap (Model/FHeap.v, property C15) in the place of the
   "minimal interfaces" of Model/Attr.v.

   Transcribed from /repo (same tree as Model/Attr.v):
     attribute_write.go                        writeAttribute dispatch, writeDenseAttribute, deleteDenseAttributeImpl,
                                               transitionToDenseAttributes
     internal/core/attribute_modify.go         ModifyDenseAttribute, DeleteDenseAttribute
     internal/writer/dense_attribute_writer.go NewDenseAttributeWriter, AddAttribute, WriteToFile
     internal/core/attribute.go                readDenseAttributes (heap objects through the self-contained reader)

   Configuration the attribute code uses (the equations the theorems are instantiated with):
     B-tree:  structures.NewWritableBTreeV2(4096)            node size NODE = 4096, capacity max_records 4096 = 371
              lazy rebalancing is never enabled on these objects (NewWritableBTreeV2 gives lazyState = nil and
              LoadFromFile keeps the receiver's), so DeleteDenseAttribute takes DeleteRecordWithRebalancing
              (fw.RebalancingEnabled()) or DeleteRecord: modes MImmediate / MOff of Model/BT2.v.
     heap:    structures.NewWritableFractalHeap(64 * 1024)   block size BLOCK = 65536, rule cap_new (usable bytes
              65536 - 19 = 65517), heap ids 8 bytes = [0 | offset:2 | length:3 | 0 0]; the index keeps 7 of them.
     file:    8-byte offsets (OSZ = 8).

   Every call on the modelled path (DatasetWriter without cached header) loads both structures from the file,
   works on the loaded objects and writes both back in place (heap.WriteAt, then btree.WriteAt); the state
   between two calls is the file content.  The dense state therefore consists of BYTES only: the region of the
   index (leaf + header, as written by WriteToFile / WriteAt) and the region of the heap (header + direct
   block), together with the two addresses the Attribute Info message holds.

   What stays abstract here (and where it is treated):
     * the encoded attribute message: [enc a] are the bytes EncodeAttributeFromStruct produces and [dec] is
       ParseAttributeMessage; the theorems assume only len (enc a) = msg_size a and dec (enc a) = Some a for the
       attributes encode_attr accepts (byte level: property C11);
     * the object header (compact attribute messages, Attribute Info message): as in Model/Attr.v;
     * the two regions are kept in two byte arrays with the allocators of their own models (BT2.init: first free
       address 64; FHeap.fs0: 2048); that the real allocator hands out disjoint extents of one file is C05.
   No proofs in this file. *)
From HV Require Import Base.Prelude Model.Attr.
From HV Require Model.BT2 Model.FHeap.

Definition NODE : N := 4096.
Definition BLOCK : N := 65536.
Definition OSZ : nat := 8.

(* ------------------------------------------------------------------ abstraction of the index *)

(* the 7 bytes the index keeps of a heap id: flags, offset (2 bytes), length (3 bytes), one padding byte *)
Definition id7 (id : hid) : bytes := 0 :: le 2 (fst id) ++ le 3 (snd id) ++ [0].
(* the 8 bytes InsertObject returns / SearchRecord hands back *)
Definition id8 (id : hid) : bytes := FHeap.mkid (fst id) (snd id).

Definition abs_id (b : bytes) : hid := (unle (firstn 2 (skipn 1 b)), unle (firstn 3 (skipn 3 b))).
Definition abs_rec (r : BT2.rec) : N * hid := (fst r, abs_id (snd r)).
(* abs_idx : the records of a B-tree as the abstract index of Model/Attr.v *)
Definition abs_idx (s : BT2.bt2) : idx := map abs_rec (BT2.recs s).

Definition conc_rec (rc : N * hid) : BT2.rec := (fst rc, id7 (snd rc)).
Definition id_ok (id : hid) : Prop := fst id < 65536 /\ snd id < 16777216.

(* ------------------------------------------------------------------ abstraction of the heap *)

Section Compose.
Variable P : params.                          (* p_base, p_limit, p_maxc, p_info are used *)
Variable enc : attr -> bytes.                 (* EncodeAttributeFromStruct / EncodeAttributeMessage *)
Variable dec : bytes -> option attr.          (* ParseAttributeMessage *)
Variable rebalance : bool.                    (* fw.RebalancingEnabled() *)
Variable delay : bool.                        (* time-based trigger of DeleteRecordLazy (never reached) *)
Variable pick : FHeap.heap -> bytes -> nat.   (* Go map iteration order in insertViaIndirect (any) *)

(* A fractal heap forgets which byte ranges are live (DeleteObject zero-fills and keeps nothing), so the
   abstraction goes from the abstract heap to the reference state of Model/FHeap.v; the relation between a
   concrete heap and that reference state is FHeap's representation relation R. *)
Definition spec_obj (oa : N * attr) : bytes * bytes :=
  (FHeap.mkid (fst oa) (msg_size (snd oa)), enc (snd oa)).
Definition spec_of (hp : heap) : FHeap.spec := FHeap.mkSpec (map spec_obj (hobjs hp)) (hfree hp).

(* ------------------------------------------------------------------ storage state: bytes *)

Inductive cstate :=
| CCompact (attrs : list attr)
| CDense (bfile : BT2.file) (bnext : N) (baddr : N)      (* index region, its allocator, header address *)
         (hfs : FHeap.fstate) (haddr : N).               (* heap region (+ allocator), header address *)

Definition cinit : cstate := CCompact [].

(* ---- daw.AddAttribute ---- *)
Definition c_add (seen : list bytes) (bt : BT2.bt2) (hp : FHeap.heap) (a : attr)
  : option (list bytes * BT2.bt2 * FHeap.heap) :=
  match aname a with
  | [] => None
  | _ =>
    if existsb (bytes_eqb (aname a)) seen then None
    else match encode_attr a with
    | EncErr => None
    | EncOk _ =>
      match FHeap.insert FHeap.cap_new hp (enc a) (pick hp (enc a)) with
      | (_, FHeap.Err) => None
      | (hp', FHeap.Ok id) =>
        if negb (FHeap.len id =? 8) then None                       (* "unexpected heap ID length" *)
        else match BT2.insert_record bt (aname a) (unle id) with    (* binary.LittleEndian.Uint64(heapIDBytes) *)
             | (_, false) => None
             | (bt', true) => Some (aname a :: seen, bt', hp')
             end
      end
    end
  end.

Fixpoint c_add_all (seen : list bytes) (bt : BT2.bt2) (hp : FHeap.heap) (l : list attr)
  : option (BT2.bt2 * FHeap.heap) :=
  match l with
  | [] => Some (bt, hp)
  | a :: r => match c_add seen bt hp a with
              | None => None
              | Some (seen', bt', hp') => c_add_all seen' bt' hp' r
              end
  end.

(* ---- transitionToDenseAttributes: all AddAttribute calls, the Attribute Info fit check, daw.WriteToFile
        (heap first, then index, both at fresh addresses), header rewrite ---- *)
Definition c_transition (attrs : list attr) (a : attr) : cstate * res :=
  match c_add_all [] (BT2.new_bt NODE) (FHeap.new_heap BLOCK) (attrs ++ [a]) with
  | None => (CCompact attrs, RErr)
  | Some (bt, hp) =>
    if p_limit P <? p_base P + (4 + p_info P) then (CCompact attrs, RErr)
    else match FHeap.store hp FHeap.fs0 with
         | FHeap.Err => (CCompact attrs, RErr)                       (* ErrHeapFull: nothing written *)
         | FHeap.Ok (_, hfs, ha) =>
           let '(w, ba) := BT2.write_to_file OSZ (BT2.mkW bt [] 64) in
           (CDense (BT2.fil w) (BT2.next w) ba hfs ha, ROk)
         end
  end.

(* ---- writeCompactAttribute + upsertAttributeMessage (as Model/Attr.v) ---- *)
Definition c_write_compact (attrs : list attr) (a : attr) : cstate * res :=
  match encode_attr a with
  | EncErr => (CCompact attrs, RErr)
  | EncOk sz =>
    match replace_name (aname a) a attrs with
    | Some attrs' =>
        if p_limit P <? hdr_size P attrs' then (CCompact attrs, RErr) else (CCompact attrs', ROk)
    | None =>
        if p_limit P <? hdr_size P attrs + (4 + sz) then c_transition attrs a
        else (CCompact (attrs ++ [a]), ROk)
    end
  end.

(* ---- heap.LoadFromFile, btree.LoadFromFile into fresh objects ---- *)
Definition c_load (bf : BT2.file) (ba : N) (hfs : FHeap.fstate) (ha : N) : option (BT2.bt2 * FHeap.heap) :=
  match FHeap.load BLOCK (FHeap.f_bytes hfs) ha with
  | FHeap.Err => None
  | FHeap.Ok hp =>
    match BT2.load_from OSZ (BT2.new_bt NODE) bf ba with
    | BT2.LErr _ => None
    | BT2.LOk bt => Some (bt, hp)
    end
  end.

(* ---- heap.WriteAt, then btree.WriteAt ---- *)
Definition c_store (bf : BT2.file) (bn ba : N) (hfs : FHeap.fstate) (ha : N)
                   (bt : BT2.bt2) (hp : FHeap.heap) : cstate * res :=
  match FHeap.store hp hfs with
  | FHeap.Err => (CDense bf bn ba hfs ha, RErr)                      (* ErrHeapFull before anything is written *)
  | FHeap.Ok (_, hfs', _) =>
    match BT2.write_in_place OSZ (BT2.mkW bt bf bn) with
    | None => (CDense bf bn ba hfs' ha, RErr)
    | Some w => (CDense (BT2.fil w) (BT2.next w) ba hfs' ha, ROk)
    end
  end.

(* ---- core.ModifyDenseAttribute (newAttr.Data = the encoded message) ---- *)
Definition c_modify (bt : BT2.bt2) (hp : FHeap.heap) (a : attr) : option (BT2.bt2 * FHeap.heap) :=
  match aname a with
  | [] => None
  | _ =>
    match BT2.search_record bt (aname a) with
    | None => None
    | Some id =>
      match FHeap.get hp id with
      | FHeap.Err => None
      | FHeap.Ok old =>
        let msg := enc a in
        if FHeap.len msg =? 0 then None
        else if FHeap.len msg =? FHeap.len old then
          match FHeap.overwrite hp id msg with
          | (hp', FHeap.Ok _) => Some (bt, hp')
          | (_, FHeap.Err) => None
          end
        else
          match FHeap.delete hp id with
          | (_, FHeap.Err) => None
          | (hp1, FHeap.Ok _) =>
            match FHeap.insert FHeap.cap_new hp1 msg (pick hp1 msg) with
            | (_, FHeap.Err) => None
            | (hp2, FHeap.Ok id2) =>
              if negb (FHeap.len id2 =? 8) then None
              else match BT2.update_record bt (aname a) (unle id2) with
                   | (bt', true) => Some (bt', hp2)
                   | (_, false) => None
                   end
            end
          end
      end
    end
  end.

(* ---- writeDenseAttribute ---- *)
Definition c_write_dense (bf : BT2.file) (bn ba : N) (hfs : FHeap.fstate) (ha : N) (a : attr) : cstate * res :=
  let st := CDense bf bn ba hfs ha in
  match c_load bf ba hfs ha with
  | None => (st, RErr)
  | Some (bt, hp) =>
    match encode_attr a with
    | EncErr => (st, RErr)
    | EncOk _ =>
      match BT2.search_record bt (aname a) with
      | Some _ =>
        match c_modify bt hp a with
        | None => (st, RErr)
        | Some (bt', hp') => c_store bf bn ba hfs ha bt' hp'
        end
      | None =>
        match FHeap.insert FHeap.cap_new hp (enc a) (pick hp (enc a)) with
        | (_, FHeap.Err) => (st, RErr)
        | (hp', FHeap.Ok id) =>
          if negb (FHeap.len id =? 8) then (st, RErr)
          else match BT2.insert_record bt (aname a) (unle id) with
               | (_, false) => (st, RErr)
               | (bt', true) => c_store bf bn ba hfs ha bt' hp'
               end
        end
      end
    end
  end.

(* ---- deleteDenseAttributeImpl + core.DeleteDenseAttribute ---- *)
Definition c_delete_dense (bf : BT2.file) (bn ba : N) (hfs : FHeap.fstate) (ha : N) (n : bytes) : cstate * res :=
  let st := CDense bf bn ba hfs ha in
  match c_load bf ba hfs ha with
  | None => (st, RErr)
  | Some (bt, hp) =>
    match n with
    | [] => (st, RErr)
    | _ =>
      match BT2.search_record bt n with
      | None => (st, RErr)
      | Some id =>
        let '(bt', ok) :=
          if BT2.is_lazy_enabled bt then BT2.delete_lazy bt n delay
          else if rebalance then BT2.delete_with_rebalancing bt n
          else BT2.delete_record bt n in
        if ok then
          match FHeap.delete hp id with
          | (_, FHeap.Err) => (st, RErr)
          | (hp', FHeap.Ok _) => c_store bf bn ba hfs ha bt' hp'
          end
        else (st, RErr)
      end
    end
  end.

Definition c_write_attr (st : cstate) (n : bytes) (ov : option value) : cstate * res :=
  match ov with
  | None => (st, RErr)
  | Some v =>
    let a := mkAttr n v in
    match st with
    | CDense bf bn ba hfs ha => c_write_dense bf bn ba hfs ha a
    | CCompact attrs =>
        if N.of_nat (List.length attrs) <? p_maxc P then c_write_compact attrs a
        else c_transition attrs a
    end
  end.

Definition c_delete_attr (st : cstate) (n : bytes) : cstate * res :=
  match st with
  | CCompact attrs =>
      match remove_name n attrs with Some attrs' => (CCompact attrs', ROk) | None => (st, RErr) end
  | CDense bf bn ba hfs ha => c_delete_dense bf bn ba hfs ha n
  end.

(* ---- what Attributes() returns after reopen: the records of the index in order, every heap object through
        core's reader (FHeap.core_read), ParseAttributeMessage; any failure fails the listing ---- *)
Fixpoint c_read_recs (f : bytes) (ha : N) (rs : list BT2.rec) : option (list attr) :=
  match rs with
  | [] => Some []
  | r :: t =>
    match FHeap.core_read f ha (snd r), c_read_recs f ha t with
    | FHeap.Ok d, Some l => match dec d with Some a => Some (a :: l) | None => None end
    | _, _ => None
    end
  end.

Definition c_read_attrs (st : cstate) : option (list attr) :=
  match st with
  | CCompact attrs => Some attrs
  | CDense bf _ ba hfs ha =>
    match BT2.load_from OSZ (BT2.new_bt NODE) bf ba with
    | BT2.LErr _ => None
    | BT2.LOk bt => c_read_recs (FHeap.f_bytes hfs) ha (BT2.recs bt)
    end
  end.

(* the same listing before ParseAttributeMessage: the attribute MESSAGES (compact: the messages of the header,
   dense: the heap objects the records address, in index order) *)
Fixpoint c_read_msgs_recs (f : bytes) (ha : N) (rs : list BT2.rec) : option (list bytes) :=
  match rs with
  | [] => Some []
  | r :: t =>
    match FHeap.core_read f ha (snd r), c_read_msgs_recs f ha t with
    | FHeap.Ok d, Some l => Some (d :: l)
    | _, _ => None
    end
  end.

Definition c_read_msgs (st : cstate) : option (list bytes) :=
  match st with
  | CCompact attrs => Some (map enc attrs)
  | CDense bf _ ba hfs ha =>
    match BT2.load_from OSZ (BT2.new_bt NODE) bf ba with
    | BT2.LErr _ => None
    | BT2.LOk bt => c_read_msgs_recs (FHeap.f_bytes hfs) ha (BT2.recs bt)
    end
  end.

Definition c_step (st : cstate) (o : op) : cstate * res :=
  match o with OWrite n v => c_write_attr st n v | ODelete n => c_delete_attr st n end.

Fixpoint c_run (st : cstate) (h : list op) : cstate * list res :=
  match h with
  | [] => (st, [])
  | o :: r => let '(st1, x) := c_step st o in let '(st2, xs) := c_run st1 r in (st2, x :: xs)
  end.

End Compose.

(* the parameter equations under which Model/Attr.v's interfaces stand for the detailed models *)
Definition params_match (P : params) : Prop :=
  p_idxcap P = BT2.max_records NODE /\ p_hcap P = FHeap.cap_new BLOCK /\ p_maxobj P = FHeap.MAX_OBJ /\
  p_ovf_err P = true.
