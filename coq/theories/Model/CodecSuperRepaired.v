(* ReadSuperblock with the two repairs of notes/fixes/c06-superblock-sizes.patch as a parameter.
   [repaired = false] : internal/core/superblock.go as it is (Model/CodecSuper.v dec_superblock; dec_superblock_gen_current);
   [repaired = true]  : versions 2/3 - when bytes 9 and 10 both hold a size the format allows (2, 4, 8) they are the size of
                        offsets and the size of lengths and the byte order is little-endian (otherwise the previous
                        interpretation); version 0 - the root symbol table entry is located from the size of offsets:
                        object header address at 24 + 4*O + O, scratch-pad at 24 + 4*O + 2*O + 8.
   Everything else is the text of Model/CodecSuper.v dec_superblock. *)
From HV Require Import Base.Prelude Base.Outcome Base.Bytes Model.CodecSuper.

Definition spec_size (s : N) : bool := (s =? 2) || (s =? 4) || (s =? 8).

Definition dec_superblock_gen (repaired : bool) (file : bytes) : outcome superblock' :=
  let n := N.min (blen file) 128 in
  if n <? 48 then Err else
  let buf := firstn 128 file ++ zeros (N.to_nat (128 - n)) in
  sig <- slice buf 0 8;;
  if negb (bytes_eqb sig signature) then Err else
  version <- index buf 8;;
  if negb ((version =? 0) || (version =? 2) || (version =? 3)) then Err else
  if (version =? 0) && (n <? 96) then Err else
  '(bigendian, offsetSize, lengthSize) <-
    (if version =? 0 then
       o <- index buf 13;; l <- index buf 14;; Ok (false, o, l)
     else
       b9 <- index buf 9;;
       sizesByte <- index buf 10;;
       if repaired && spec_size b9 && spec_size sizesByte then Ok (false, b9, sizesByte) else
       let be := N.testbit b9 0 in
       if valid_size sizesByte then Ok (be, sizesByte, 8)
       else
         match size_code (N.land sizesByte 15) with
         | None => Err
         | Some o =>
             match size_code (N.land (N.shiftr sizesByte 4) 15) with
             | None => Err
             | Some l => Ok (be, o, l)
             end
         end);;
  let offsetSize := if offsetSize =? 0 then 8 else offsetSize in
  let lengthSize := if lengthSize =? 0 then 8 else lengthSize in
  if negb (valid_size offsetSize && valid_size lengthSize) then Err else
  if version =? 0 then
    root <- read_value buf (if repaired then 24 + 4 * offsetSize + offsetSize else 64) offsetSize bigendian;;
    bt <- read_value buf (if repaired then 24 + 4 * offsetSize + 2 * offsetSize + 8 else 80) offsetSize bigendian;;
    hp <- read_value buf (if repaired then 24 + 4 * offsetSize + 2 * offsetSize + 8 + offsetSize else 88) offsetSize bigendian;;
    Ok {| spp_version := version; spp_offsize := offsetSize; spp_lensize := lengthSize;
          spp_bigendian := bigendian; spp_base := 0; spp_root := root; spp_superext := 0;
          spp_driverinfo := 0; spp_rootbtree := bt; spp_rootheap := hp |}
  else
    base <- read_value buf 12 offsetSize bigendian;;
    ext <- read_value buf (12 + offsetSize) offsetSize bigendian;;
    root <- read_value buf (12 + 3 * offsetSize) offsetSize bigendian;;
    Ok {| spp_version := version; spp_offsize := offsetSize; spp_lensize := lengthSize;
          spp_bigendian := bigendian; spp_base := base; spp_root := root; spp_superext := ext;
          spp_driverinfo := 0; spp_rootbtree := 0; spp_rootheap := 0 |}.

(* the parameter set to the code as it is gives the tied model, definitionally *)
Lemma dec_superblock_gen_current (file : bytes) : dec_superblock_gen false file = dec_superblock file.
Proof. reflexivity. Qed.
