(* C11 codec models, group 4: superblock versions 0 and 2/3.
   Transcription of internal/core/superblock.go  WriteTo/writeV0/writeV2 and ReadSuperblock.
   The v2/v3 writer appends crc32.ChecksumIEEE(buf[0:44]) (IEEE CRC-32, NOT the Jenkins lookup3 hash the
   HDF5 format prescribes for this field: a C05 matter); the reader never looks at the checksum.
   No proofs here (Proofs/CodecSuper.v). *)
From HV Require Import Base.Prelude Base.Outcome Base.Bytes.

(* ---- hash/crc32 ChecksumIEEE, bit by bit (reflected polynomial 0xEDB88320) ---- *)
Fixpoint crc_bits (n : nat) (crc : N) : N :=
  match n with
  | O => crc
  | S n' => crc_bits n' (if N.testbit crc 0 then N.lxor (N.shiftr crc 1) 3988292384 else N.shiftr crc 1)
  end.
Definition crc32_update (crc : N) (bs : bytes) : N :=
  fold_left (fun c b => crc_bits 8 (N.lxor c b)) bs crc.
Definition crc32_ieee (bs : bytes) : N := N.lxor (crc32_update 4294967295 bs) 4294967295.

Definition signature : bytes := [137; 72; 68; 70; 13; 10; 26; 10].
Definition UNDEF : N := 18446744073709551615.

(* the fields of core.Superblock the writers use, plus the end-of-file address argument *)
Record superblock := { sp_version : N; sp_offsize : N; sp_lensize : N; sp_base : N; sp_root : N;
                       sp_superext : N; sp_rootbtree : N; sp_rootheap : N; sp_eof : N }.
(* *Superblock returned by ReadSuperblock *)
Record superblock' := { spp_version : N; spp_offsize : N; spp_lensize : N; spp_bigendian : bool;
                        spp_base : N; spp_root : N; spp_superext : N; spp_driverinfo : N;
                        spp_rootbtree : N; spp_rootheap : N }.

Definition encok_superblock (x : superblock) : bool :=
  ((sp_version x =? 0) || (sp_version x =? 2) || (sp_version x =? 3)) &&
  (sp_offsize x =? 8) && (sp_lensize x =? 8).

Definition u64 (v : N) : bool := v <? 18446744073709551616.

Definition wf_superblock (x : superblock) : bool :=
  encok_superblock x && u64 (sp_base x) && u64 (sp_root x) && u64 (sp_superext x) &&
  u64 (sp_rootbtree x) && u64 (sp_rootheap x) && u64 (sp_eof x).

Definition enc_superblock (x : superblock) : bytes :=
  if sp_version x =? 0 then
    signature ++ [0; 0; 0; 0; 0; 8; 8; 0] ++ le 2 4 ++ le 2 16 ++ le 4 0
    ++ le 8 (sp_base x) ++ le 8 UNDEF ++ le 8 (sp_eof x) ++ le 8 UNDEF
    ++ le 8 0 ++ le 8 (sp_root x) ++ le 4 1 ++ le 4 0
    ++ le 8 (sp_rootbtree x) ++ le 8 (sp_rootheap x)
  else
    let body := signature ++ [sp_version x; 8; 8; 0] ++ le 8 (sp_base x)
                ++ le 8 (if sp_superext x =? 0 then UNDEF else sp_superext x)
                ++ le 8 (sp_eof x) ++ le 8 (sp_root x) in
    body ++ le 4 (crc32_ieee body).

Definition size_superblock (x : superblock) : N := if sp_version x =? 0 then 96 else 48.

Definition valid_size (s : N) : bool := (s =? 1) || (s =? 2) || (s =? 4) || (s =? 8).
Definition size_code (c : N) : option N :=
  if c =? 0 then Some 1 else if c =? 1 then Some 2 else if c =? 2 then Some 4 else if c =? 3 then Some 8 else None.

(* readValue(offset, size) on the 128-byte buffer *)
Definition read_value (buf : bytes) (offset size : N) (bigendian : bool) : outcome N :=
  if blen buf <? offset + size then Err else
  if valid_size size then (if bigendian then rd_be buf offset size else rd_le buf offset size)
  else Err.

(* [file] is the whole file image.  ReadAt fills a 128-byte pooled buffer; the part beyond the end of a
   short file keeps whatever the pool buffer held before (utils.GetBuffer does not clear it); the model
   takes zeros there.  No decoded field lies beyond the bytes read: version 0 needs n >= 96 (checked since
   /repo 07228cc; before it a 48..95-byte image took its root addresses from the stale buffer), versions 2/3
   need 12 + 4*8 = 44 <= 48 <= n. *)
(* Switch for the repair notes/fixes/c06-superblock-sizes.patch (property C06, Props/C06Reader.v):
   [false] = the code before it: in a version 2/3 superblock byte 9 (the format's size of offsets) is read as a flags byte,
             byte 10 (the format's size of lengths) as the size of offsets and the size of lengths is 8; in a version 0
             superblock the root addresses are read at the fixed positions 64, 80, 88 (right for 8-byte offsets only);
   [true]  = the repaired code: versions 2/3 - when bytes 9 and 10 both hold a size the format allows (2, 4, 8) they are the
             two sizes and the byte order is little-endian (otherwise the previous interpretation); version 0 - object
             header address at 24 + 4*O + O, scratch-pad at 24 + 4*O + 2*O + 8.
   [dec_superblock] is the variant of [superblock_sizes_repaired]; the ties of C11 / C07 read from the source tree under test
   which variant it implements (tools/props/c06switch.py) and compare with dec_superblock_gen of that variant. *)
Definition superblock_sizes_repaired : bool := true.

Definition spec_size (s : N) : bool := (s =? 2) || (s =? 4) || (s =? 8).

Definition dec_superblock_gen (repaired : bool) (file : bytes) : outcome superblock' :=
  let n := N.min (blen file) 128 in
  if n <? 48 then Err else
  let buf := firstn 128 file ++ zeros (N.to_nat (128 - n)) in
  sig <- slice buf 0 8;;
  if negb (bytes_eqb sig signature) then Err else
  version <- index buf 8;;
  if negb ((version =? 0) || (version =? 2) || (version =? 3)) then Err else
  if (version =? 0) && (n <? 96) then Err else
  '(bigendian, offsetSize, lengthSize) <-
    (if version =? 0 then
       o <- index buf 13;; l <- index buf 14;; Ok (false, o, l)
     else
       b9 <- index buf 9;;
       sizesByte <- index buf 10;;
       if repaired && spec_size b9 && spec_size sizesByte then Ok (false, b9, sizesByte) else
       let be := N.testbit b9 0 in
       if valid_size sizesByte then Ok (be, sizesByte, 8)
       else
         match size_code (N.land sizesByte 15) with
         | None => Err
         | Some o =>
             match size_code (N.land (N.shiftr sizesByte 4) 15) with
             | None => Err
             | Some l => Ok (be, o, l)
             end
         end);;
  let offsetSize := if offsetSize =? 0 then 8 else offsetSize in
  let lengthSize := if lengthSize =? 0 then 8 else lengthSize in
  if negb (valid_size offsetSize && valid_size lengthSize) then Err else
  if version =? 0 then
    root <- read_value buf (if repaired then 24 + 4 * offsetSize + offsetSize else 64) offsetSize bigendian;;
    bt <- read_value buf (if repaired then 24 + 4 * offsetSize + 2 * offsetSize + 8 else 80) offsetSize bigendian;;
    hp <- read_value buf (if repaired then 24 + 4 * offsetSize + 2 * offsetSize + 8 + offsetSize else 88) offsetSize bigendian;;
    Ok {| spp_version := version; spp_offsize := offsetSize; spp_lensize := lengthSize;
          spp_bigendian := bigendian; spp_base := 0; spp_root := root; spp_superext := 0;
          spp_driverinfo := 0; spp_rootbtree := bt; spp_rootheap := hp |}
  else
    base <- read_value buf 12 offsetSize bigendian;;
    ext <- read_value buf (12 + offsetSize) offsetSize bigendian;;
    root <- read_value buf (12 + 3 * offsetSize) offsetSize bigendian;;
    Ok {| spp_version := version; spp_offsize := offsetSize; spp_lensize := lengthSize;
          spp_bigendian := bigendian; spp_base := base; spp_root := root; spp_superext := ext;
          spp_driverinfo := 0; spp_rootbtree := 0; spp_rootheap := 0 |}.

Definition dec_superblock (file : bytes) : outcome superblock' := dec_superblock_gen superblock_sizes_repaired file.

(* What comes back.  Not the identity on three fields:
   - v0: the base address is written but the reader sets BaseAddress = 0; SuperExtension is not stored;
   - v2/v3: SuperExtension 0 ("none" in memory) is stored as UNDEF and read back as UNDEF;
            the cached root B-tree / heap addresses are not stored;
   - the end-of-file address is written and never read. *)
Definition proj_superblock (x : superblock) : superblock' :=
  if sp_version x =? 0 then
    {| spp_version := 0; spp_offsize := 8; spp_lensize := 8; spp_bigendian := false;
       spp_base := 0; spp_root := sp_root x; spp_superext := 0; spp_driverinfo := 0;
       spp_rootbtree := sp_rootbtree x; spp_rootheap := sp_rootheap x |}
  else
    {| spp_version := sp_version x; spp_offsize := 8; spp_lensize := 8; spp_bigendian := false;
       spp_base := sp_base x; spp_root := sp_root x;
       spp_superext := (if sp_superext x =? 0 then UNDEF else sp_superext x); spp_driverinfo := 0;
       spp_rootbtree := 0; spp_rootheap := 0 |}.

Definition val_superblock' (s : superblock') : val :=
  VL [VN (spp_version s); VN (spp_offsize s); VN (spp_lensize s); vbool (spp_bigendian s);
      VN (spp_base s); VN (spp_root s); VN (spp_superext s); VN (spp_driverinfo s);
      VN (spp_rootbtree s); VN (spp_rootheap s)].
