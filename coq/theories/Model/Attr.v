(* Model of attribute write/delete on ONE object (property C02).

   Transcribed from /repo (tree at e289eb2; includes the repairs 6c2e9ef B-tree duplicate key, e934eea heap usable
   size, 3452d53 compact replacement size check, df71171 name length, 5ec600b heap overflow refused, 8199862 attribute
   info fit checked before the dense structures are written):
     attribute_write.go              writeAttribute, writeCompactAttribute, upsertAttributeMessage,
                                     transitionToDenseAttributes, writeDenseAttribute, deleteAttribute,
                                     deleteCompactAttributeFromHeader, deleteDenseAttributeImpl
     internal/core/attribute_modify.go   ModifyDenseAttribute, DeleteDenseAttribute
     internal/core/objectheader_write.go AddMessageToObjectHeader (limit 255), writeToV2 (same limit)
     internal/core/messages_write.go     EncodeAttributeMessage (size of the encoded message)
     internal/core/attribute.go          ParseAttributesFromMessages, readDenseAttributes
     internal/writer/dense_attribute_writer.go  AddAttribute (duplicate-name map), WriteToFile
     internal/structures/btreev2_write.go    InsertRecord / SearchRecord / UpdateRecord / DeleteRecord*
     internal/structures/fractalheap_write.go InsertObject / GetObject / OverwriteObject / DeleteObject

   Level of abstraction (DESIGN.md section 3, "structured store"): an encoded attribute message is
   represented by the attribute it decodes to (name, datatype class/size/bit field, dims, data) together
   with its encoded LENGTH [msg_size]; byte-level encode/parse round trip is property C11.  What is
   transcribed exactly is everything that decides WHERE an attribute is stored and WHICH stored
   attribute a call touches: the dispatch, the comparison by parsed name (compact) versus by name hash
   (dense), every size/capacity check, and the order of the checks.

   The path modelled is the one taken by a DatasetWriter without a cached object header
   (ds.objectHeader == nil: dataset created in this session, no Resize / chunked write before): every
   call re-reads the header, the heap and the index from the file and writes them back at the end, so
   the state between two calls is exactly the file content, and a call that returns an error before its
   final write-back leaves the file as it was.

   The B-tree v2 name index and the fractal heap are represented by the minimal interfaces the code
   relies on (detailed models: properties C14 and C15):
     index = list of (name hash, heap id) kept sorted by hash, capacity [p_idxcap], all look-ups by
             hash only, first match;
     heap  = list of (offset, object) + next free offset; ids are (offset, length); offsets only grow
             (deleted space is never reused), capacity [p_hcap].
   No proofs in this file. *)
From HV Require Import Base.Prelude.

(* ------------------------------------------------------------------ values and attributes *)

Record value := mkValue {
  vclass : N;          (* datatype class: 0 fixed-point, 1 floating-point, 3 string *)
  vsize  : N;          (* datatype size in bytes *)
  vbits  : N;          (* class bit field (0x08 = signed) *)
  vdims  : list N;     (* dataspace dimensions; the API writes [1] for scalars and strings *)
  vdata  : bytes }.
Record attr := mkAttr { aname : bytes; aval : value }.

Inductive res := ROk | RErr.

Record params := mkParams {
  p_base   : N;   (* sum of (4 + len data) over the non-attribute messages of the object header *)
  p_limit  : N;   (* 255: AddMessageToObjectHeader / upsertAttributeMessage / writeToV2 chunk limit *)
  p_maxc   : N;   (* MaxCompactAttributes = 8 *)
  p_info   : N;   (* length of the Attribute Info message: 2 + 2*offsetSize = 18 *)
  p_idxcap : N;   (* calculateMaxRecords: (4096 - 10) / 11 = 371 *)
  p_maxobj : N;   (* MaxManagedObjectSize = 65536 *)
  p_hcap   : N;   (* object bytes a direct block holds on disk: 65536 - (5 + 8 + 2) - 4 = 65517 *)
  p_ovf_err : bool (* what a heap overflow ([HFull]) does.
                      true  = the current tree (since 5ec600b "refuse to write a fractal heap that outgrew its
                              single direct block"): WriteAt / WriteToFile return ErrHeapFull before anything is
                              written, the call returns an error and nothing changes.
                      false = the tree before that repair: the call returned success and the dense storage
                              was damaged ([Broken]); kept so that the finding stays stated and checkable. *)
}.

(* ------------------------------------------------------------------ encoded message length *)

(* EncodeDatatypeMessage: length of the datatype part, None = "encode datatype" error.
   Only the classes inferDatatypeFromValue can produce (0, 1, 3) are modelled; any other class is
   outside the domain of WriteAttribute and is answered with an error here. *)
Definition dt_len (v : value) : option N :=
  if vsize v =? 0 then None                                   (* "datatype size cannot be 0" *)
  else match vclass v with
       | 0 => if (vsize v =? 1) || (vsize v =? 2) || (vsize v =? 4) || (vsize v =? 8)
              then Some 12 else None                          (* 8 + 4 property bytes *)
       | 1 => if (vsize v =? 4) || (vsize v =? 8) then Some 20 else None     (* 8 + 12 *)
       | 3 => Some 9                                          (* 8 + 1 *)
       | _ => None
       end.

(* EncodeDataspaceMessage(dims, nil): version 1, 8 + 8*rank bytes; empty dims is an error *)
Definition ds_len (v : value) : option N :=
  match vdims v with [] => None | d => Some (8 + 8 * N.of_nat (List.length d)) end.

Definition blen (b : bytes) : N := N.of_nat (List.length b).

Inductive enc := EncOk (size : N) | EncErr.

(* EncodeAttributeFromStruct / EncodeAttributeMessage:
     name == ""                          -> error
     len(name) >= 0xFFFF                 -> error  ("attribute name too long": the name size field holds
                                                    len(name)+1 in 16 bits; since df71171, before that a panic)
     datatype / dataspace encode error   -> error
     messageSize := 9 + (len(name)+1) + len(datatype) + len(dataspace) + len(data) *)
Definition encode_attr (a : attr) : enc :=
  match aname a with
  | [] => EncErr
  | _ =>
    if 65535 <=? blen (aname a) then EncErr
    else match dt_len (aval a), ds_len (aval a) with
         | Some t, Some s => EncOk (9 + (blen (aname a) + 1) + t + s + blen (vdata (aval a)))
         | _, _ => EncErr
         end
  end.

Definition msg_size (a : attr) : N :=
  match encode_attr a with EncOk s => s | _ => 0 end.

(* ------------------------------------------------------------------ object header (compact form) *)

(* sum over all header messages of (4 + len data): what AddMessageToObjectHeader calls
   currentMessagesSize and writeToV2 calls chunkSize *)
Fixpoint attrs_size (l : list attr) : N :=
  match l with [] => 0 | a :: r => (4 + msg_size a) + attrs_size r end.
Definition hdr_size (P : params) (l : list attr) : N := p_base P + attrs_size l.

(* for i, msg := range oh.Messages { if parsed.Name == name { existingIndex = i; break } };
   oh.Messages[existingIndex].Data = attrMsg *)
Fixpoint replace_name (n : bytes) (a : attr) (l : list attr) : option (list attr) :=
  match l with
  | [] => None
  | x :: r => if bytes_eqb (aname x) n then Some (a :: r)
              else match replace_name n a r with Some r' => Some (x :: r') | None => None end
  end.

(* same search, then oh.Messages = append(oh.Messages[:i], oh.Messages[i+1:]...) *)
Fixpoint remove_name (n : bytes) (l : list attr) : option (list attr) :=
  match l with
  | [] => None
  | x :: r => if bytes_eqb (aname x) n then Some r
              else match remove_name n r with Some r' => Some (x :: r') | None => None end
  end.

(* ------------------------------------------------------------------ name index (B-tree v2, one leaf) *)

Definition hid := (N * N)%type.            (* heap id: offset (2 bytes), length (3 bytes) *)
Definition idx := list (N * hid).          (* records (name hash, heap id), sorted by hash *)

(* SearchRecord: first record whose hash matches *)
Fixpoint idx_search (h : N) (ix : idx) : option hid :=
  match ix with
  | [] => None
  | (h', id) :: r => if h' =? h then Some id else idx_search h r
  end.

(* insertRecordSorted: before the first record with records[i].NameHash >= new hash *)
Fixpoint idx_insert_sorted (rc : N * hid) (ix : idx) : idx :=
  match ix with
  | [] => [rc]
  | x :: r => if fst rc <=? fst x then rc :: x :: r else x :: idx_insert_sorted rc r
  end.

(* InsertRecord: a record with the same hash present -> ErrBTreeRecordExists;
   len(records) >= maxRecords -> ErrBTreeNodeFull *)
Definition idx_insert (P : params) (rc : N * hid) (ix : idx) : option idx :=
  match idx_search (fst rc) ix with
  | Some _ => None
  | None => if p_idxcap P <=? N.of_nat (List.length ix) then None else Some (idx_insert_sorted rc ix)
  end.

(* UpdateRecord: first record with that hash gets the new heap id; error when none *)
Fixpoint idx_update (h : N) (id : hid) (ix : idx) : option idx :=
  match ix with
  | [] => None
  | (h', id') :: r => if h' =? h then Some ((h', id) :: r)
                      else match idx_update h id r with Some r' => Some ((h', id') :: r') | None => None end
  end.

(* DeleteRecordWithRebalancing (single leaf): first record with that hash is removed; error when none *)
Fixpoint idx_delete (h : N) (ix : idx) : option idx :=
  match ix with
  | [] => None
  | (h', id') :: r => if h' =? h then Some r
                      else match idx_delete h r with Some r' => Some ((h', id') :: r') | None => None end
  end.

(* ------------------------------------------------------------------ fractal heap (one direct block) *)

Record heap := mkHeap { hobjs : list (N * attr); hfree : N }.
Definition heap_empty : heap := mkHeap [] 0.

Inductive hins := HOk (hp : heap) (id : hid) | HErr | HFull.

(* InsertObject / insertViaDirect.
     len(data) == 0            -> ErrEmptyObject
     len > MaxManagedObjectSize -> ErrObjectTooLarge
     fits                      -> object at FreeOffset; id = [0 | offset:2 bytes | length:3 bytes | 0 0]
   [HFull]: the object does not fit into what the direct block can hold on disk.  InsertObject itself does NOT
   return an error then (before 5ec600b neither did the attribute call, see p_ovf_err): between p_hcap and the raw block size the object is accepted and its tail is
   cut off when the block is serialised (prefix 15 + checksum 4 bytes are not accounted for); beyond the
   raw block size InsertObject switches the in-memory heap to an indirect root, puts the object into a
   second block that WriteAt / WriteToFile never writes, and encodes offset 65536+x into two bytes.
   In both cases the call returns success and the stored attribute is damaged (see [Broken]).
   (Since "fix: count the block prefix and checksum when checking fractal heap capacity" the first
   window is gone: the Go check uses the usable size, i.e. [p_hcap], and everything beyond it takes the
   indirect-root path.) *)
Definition heap_insert (P : params) (hp : heap) (a : attr) : hins :=
  let sz := msg_size a in
  if sz =? 0 then HErr
  else if p_maxobj P <? sz then HErr
  else if hfree hp + sz <=? p_hcap P
       then HOk (mkHeap (hobjs hp ++ [(hfree hp, a)]) (hfree hp + sz)) (wrap16 (hfree hp), sz mod 16777216)
       else HFull.

Fixpoint assoc_get {A} (k : N) (l : list (N * A)) : option A :=
  match l with [] => None | (k', x) :: r => if k' =? k then Some x else assoc_get k r end.
Fixpoint assoc_set {A} (k : N) (x : A) (l : list (N * A)) : option (list (N * A)) :=
  match l with
  | [] => None
  | (k', y) :: r => if k' =? k then Some ((k', x) :: r)
                    else match assoc_set k x r with Some r' => Some ((k', y) :: r') | None => None end
  end.
Fixpoint assoc_del {A} (k : N) (l : list (N * A)) : option (list (N * A)) :=
  match l with
  | [] => None
  | (k', y) :: r => if k' =? k then Some r
                    else match assoc_del k r with Some r' => Some ((k', y) :: r') | None => None end
  end.

(* GetObject: the bytes at [offset, offset+length) of the block = the object stored at that offset *)
Definition heap_get (hp : heap) (id : hid) : option attr := assoc_get (fst id) (hobjs hp).
(* OverwriteObject (same length, in place) *)
Definition heap_overwrite (hp : heap) (id : hid) (a : attr) : option heap :=
  match assoc_set (fst id) a (hobjs hp) with Some l => Some (mkHeap l (hfree hp)) | None => None end.
(* DeleteObject: the bytes are zeroed, the space is not reclaimed (FreeOffset unchanged) *)
Definition heap_delete (hp : heap) (id : hid) : option heap :=
  match assoc_del (fst id) (hobjs hp) with Some l => Some (mkHeap l (hfree hp)) | None => None end.

(* ------------------------------------------------------------------ storage state of one object *)

Inductive state :=
| Compact (attrs : list attr)          (* attribute messages in header order *)
| Dense (ix : idx) (hp : heap)         (* header holds the Attribute Info message only *)
| Broken.                              (* dense storage after a heap overflow: outside the model *)

Definition init : state := Compact [].

Section WithHash.
Variable name_hash : bytes -> N.       (* jenkinsHash: lookup3 hashlittle(name, 0), a uint32 *)
Variable P : params.

(* ---- transitionToDenseAttributes ---- *)

Inductive tres := TOk (ix : idx) (hp : heap) | TErr | TFull.

(* daw.AddAttribute for the parsed compact attributes, then for the new one:
     name == ""             -> error
     name already in daw.attributes -> "already exists"  (comparison by NAME)
     EncodeAttributeFromStruct, fractalHeap.InsertObject, btree.InsertRecord(name, heapID) *)
Fixpoint daw_add_all (seen : list bytes) (ix : idx) (hp : heap) (l : list attr) : tres :=
  match l with
  | [] => TOk ix hp
  | a :: r =>
    match aname a with
    | [] => TErr
    | _ =>
      if existsb (bytes_eqb (aname a)) seen then TErr
      else match encode_attr a with
           | EncErr => TErr
           | EncOk _ =>
             match heap_insert P hp a with
             | HErr => TErr
             | HFull => TFull      (* only the last (new) attribute can overflow when p_limit <= p_hcap *)
             | HOk hp' id =>
               match idx_insert P (name_hash (aname a), id) ix with
               | None => TErr
               | Some ix' => daw_add_all (aname a :: seen) ix' hp' r
               end
             end
           end
    end
  end.

(* steps 6-11: drop the compact messages, write heap + index, AddMessageToObjectHeader(AttrInfo)
   ("object header full" when the non-attribute messages leave no room), WriteObjectHeader.
   Every error return happens before the header is rewritten: the object is unchanged. *)
Definition transition (attrs : list attr) (a : attr) : state * res :=
  match daw_add_all [] [] heap_empty (attrs ++ [a]) with
  | TErr => (Compact attrs, RErr)
  | TFull => if p_ovf_err P then (Compact attrs, RErr)          (* info check or daw.WriteToFile refuses *)
             else if p_limit P <? p_base P + (4 + p_info P) then (Compact attrs, RErr) else (Broken, ROk)
  | TOk ix hp => if p_limit P <? p_base P + (4 + p_info P) then (Compact attrs, RErr) else (Dense ix hp, ROk)
  end.

(* ---- writeCompactAttribute + upsertAttributeMessage ---- *)
Definition write_compact (attrs : list attr) (a : attr) : state * res :=
  match encode_attr a with
  | EncErr => (Compact attrs, RErr)
  | EncOk sz =>
    match replace_name (aname a) a attrs with
    | Some attrs' =>
        (* existingIndex >= 0: size check, then replace in place *)
        if p_limit P <? hdr_size P attrs' then (Compact attrs, RErr) else (Compact attrs', ROk)
    | None =>
        (* AddMessageToObjectHeader; "object header full" => transitionToDenseAttributes *)
        if p_limit P <? hdr_size P attrs + (4 + sz) then transition attrs a
        else (Compact (attrs ++ [a]), ROk)
    end
  end.

(* ---- writeDenseAttribute + ModifyDenseAttribute ---- *)
Definition write_dense (ix : idx) (hp : heap) (a : attr) : state * res :=
  let st := Dense ix hp in
  match encode_attr a with
  | EncErr => (st, RErr)
  | EncOk sz =>
    let h := name_hash (aname a) in
    match idx_search h ix with
    | Some id =>                                   (* "exists": decided by the hash alone *)
      match heap_get hp id with
      | None => (st, RErr)
      | Some _ =>
        if sz =? snd id then                       (* len(newAttrData) == len(oldAttrData) *)
          match heap_overwrite hp id a with Some hp' => (Dense ix hp', ROk) | None => (st, RErr) end
        else
          match heap_delete hp id with
          | None => (st, RErr)
          | Some hp1 =>
            match heap_insert P hp1 a with
            | HErr => (st, RErr)                   (* nothing was written back: old value kept *)
            | HFull => if p_ovf_err P then (st, RErr) else (Broken, ROk)
            | HOk hp2 id2 =>
              match idx_update h id2 ix with Some ix' => (Dense ix' hp2, ROk) | None => (st, RErr) end
            end
          end
      end
    | None =>
      match heap_insert P hp a with
      | HErr => (st, RErr)
      | HFull => if p_ovf_err P then (st, RErr) else (Broken, ROk)
      | HOk hp' id =>
        match idx_insert P (h, id) ix with Some ix' => (Dense ix' hp', ROk) | None => (st, RErr) end
      end
    end
  end.

(* ---- WriteAttribute; [None] = a Go value inferDatatypeFromValue rejects (nil, bool, []uint8, empty slice) ---- *)
Definition write_attr (st : state) (n : bytes) (ov : option value) : state * res :=
  match ov with
  | None => (st, RErr)
  | Some v =>
    let a := mkAttr n v in
    match st with
    | Broken => (Broken, RErr)          (* LoadFromFile: "cannot modify heap with indirect blocks" *)
    | Dense ix hp => write_dense ix hp a                            (* hasDenseStorage *)
    | Compact attrs =>
        if N.of_nat (List.length attrs) <? p_maxc P then write_compact attrs a   (* compactCount < Max *)
        else transition attrs a
    end
  end.

(* ---- DeleteAttribute ---- *)
Definition delete_attr (st : state) (n : bytes) : state * res :=
  match st with
  | Broken => (Broken, RErr)
  | Compact attrs =>
      match remove_name n attrs with Some attrs' => (Compact attrs', ROk) | None => (st, RErr) end
  | Dense ix hp =>
      match n with
      | [] => (st, RErr)                                  (* DeleteDenseAttribute: name == "" *)
      | _ =>
        match idx_search (name_hash n) ix with
        | None => (st, RErr)
        | Some id =>
          match idx_delete (name_hash n) ix with
          | None => (st, RErr)
          | Some ix' =>
            match heap_delete hp id with Some hp' => (Dense ix' hp', ROk) | None => (st, RErr) end
          end
        end
      end
  end.

(* ---- what Attributes() returns after reopen: ParseAttributesFromMessages ---- *)
Fixpoint read_dense (hp : heap) (ix : idx) : option (list attr) :=
  match ix with
  | [] => Some []
  | (_, id) :: r =>
    match heap_get hp id, read_dense hp r with
    | Some a, Some l => Some (a :: l)
    | _, _ => None                                  (* "failed to read dense attributes" *)
    end
  end.

Definition read_attrs (st : state) : option (list attr) :=
  match st with
  | Compact attrs => Some attrs
  | Dense ix hp => read_dense hp ix
  | Broken => None
  end.

(* ---- histories ---- *)
Inductive op := OWrite (n : bytes) (v : option value) | ODelete (n : bytes).

Definition step (st : state) (o : op) : state * res :=
  match o with OWrite n v => write_attr st n v | ODelete n => delete_attr st n end.

Fixpoint run (st : state) (h : list op) : state * list res :=
  match h with
  | [] => (st, [])
  | o :: r => let '(st1, x) := step st o in let '(st2, xs) := run st1 r in (st2, x :: xs)
  end.

End WithHash.

(* ------------------------------------------------------------------ specification: a map *)

Definition smap := list (bytes * value).       (* association list with unique keys *)

Fixpoint sp_get (m : smap) (n : bytes) : option value :=
  match m with [] => None | (k, v) :: r => if bytes_eqb k n then Some v else sp_get r n end.
Definition sp_del (m : smap) (n : bytes) : smap := filter (fun kv => negb (bytes_eqb (fst kv) n)) m.
Definition sp_set (m : smap) (n : bytes) (v : value) : smap := (n, v) :: sp_del m n.
Definition bindings (m : smap) : smap := m.

Definition spec_write (m : smap) (n : bytes) (v : value) : smap * res := (sp_set m n v, ROk).
Definition spec_delete (m : smap) (n : bytes) : smap * res :=
  match sp_get m n with Some _ => (sp_del m n, ROk) | None => (m, RErr) end.

(* The map semantics of one call given the answer [r] the implementation gave: only a successful
   call changes the map. *)
Definition spec_step (m : smap) (o : op) (r : res) : smap :=
  match o, r with
  | OWrite n (Some v), ROk => sp_set m n v
  | ODelete n, ROk => sp_del m n
  | _, _ => m
  end.

Fixpoint run_spec (m : smap) (h : list op) (rs : list res) : smap :=
  match h, rs with
  | o :: h', r :: rs' => run_spec (spec_step m o r) h' rs'
  | _, _ => m
  end.

Fixpoint attr_get (l : list attr) (n : bytes) : option value :=
  match l with [] => None | a :: r => if bytes_eqb (aname a) n then Some (aval a) else attr_get r n end.

Definition op_name (o : op) : bytes := match o with OWrite n _ => n | ODelete n => n end.
Definition names (h : list op) : list bytes := map op_name h.

Definition NoHashCollision (name_hash : bytes -> N) (ns : list bytes) : Prop :=
  forall a b, In a ns -> In b ns -> name_hash a = name_hash b -> a = b.

(* the parameter values of the current source tree for a dataset whose non-attribute messages take
   [base] bytes (datatype + dataspace + layout of a contiguous int32 rank-1 dataset: 58) *)
Definition go_params (base : N) : params := mkParams base 255 8 18 371 65536 65517 true.
(* the tree before 5ec600b (heap overflow not refused) *)
Definition go_params_before_5ec600b (base : N) : params := mkParams base 255 8 18 371 65536 65517 false.
