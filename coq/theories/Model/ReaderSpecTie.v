(* C06, reader against specification, executable form for the tie (tools/props/c06reader.py): the agreement relations of
   Proofs/ReaderSpec*.v as boolean functions, and [rs_code]: what happens on one structure of a reference file -
     0  the strict specification decoder rejects the bytes (outside the theorems' domain)
     1  accepted, the reader model returns an error
     2  accepted, the reader model returns a value that agrees
     3  accepted, the reader model returns a value that DISAGREES
     4  accepted, the reader model panics.
   Kinds and contexts are those of Model/SpecTie.v (tools/props/c05spec.py KINDS). *)
From HV Require Import Base.Prelude Base.Outcome Base.Bytes Spec.Parse Spec.Format Spec.FormatMsg
  Model.CodecMsg Model.CodecType Model.CodecLink Model.CodecAttr Model.CodecSuper Model.CodecFilter Model.SpecTie.

Definition listN_eqb : list N -> list N -> bool := list_eqb N.eqb.
Definition optl_eqb (a b : option (list N)) : bool :=
  match a, b with None, None => true | Some x, Some y => listN_eqb x y | _, _ => false end.
Definition bool_eqb (a b : bool) : bool := if a then b else negb b.

Definition rs_outcome {A B} (s : outcome A) (r : outcome B) (agree : A -> B -> bool) : N :=
  match s with
  | Ok a => match r with Ok v => if agree a v then 2 else 3 | Err => 1 | Panic => 4 end
  | _ => 0
  end.

(* ReaderSpecDataspace.ds_agree *)
Definition ds_agreeb (s : dataspace_spec) (v : dataspace') : bool :=
  (dsp_version v =? dss_version s) && (dsp_type v =? dss_type s) &&
  (if dss_type s =? 1 then listN_eqb (dsp_dims v) (dss_dims s) && optl_eqb (dsp_maxdims v) (dss_maxdims s)
   else if dss_type s =? 0 then listN_eqb (dsp_dims v) [1] && optl_eqb (dsp_maxdims v) None
   else listN_eqb (dsp_dims v) [] && optl_eqb (dsp_maxdims v) None).

(* ReaderSpecLayout.ly_agree / st_agree *)
Definition ly_agreeb (L : layout_spec) (v : layout') : bool :=
  (ly_version v =? 3) &&
  match L with
  | LyCompact d => (ly_class v =? 0) && (match ly_compact v with Some c => bytes_eqb c d | None => false end) &&
                   (ly_size v =? blen d)
  | LyContiguous a s => (ly_class v =? 1) && (ly_addr v =? a) && (ly_size v =? s)
  | LyChunked a dims => (ly_class v =? 2) && (ly_addr v =? a) &&
                        (match ly_chunk v with Some c => listN_eqb c dims | None => false end)
  end.
Definition st_agreeb (s : N * N) (v : symtab) : bool := (st_btree v =? fst s) && (st_heap v =? snd s).

(* ReaderSpecLink.lk_agree *)
Definition lk_agreeb (l : link_spec) (v : linkmsg) : bool :=
  match ls_value l with
  | LExternal _ _ => lk_type v =? 64
  | val =>
      (lk_version v =? 1) && (lk_flags v =? ls_flags l) && bytes_eqb (lk_name v) (ls_name l) &&
      (lk_charset v =? ls_cset l) && (lk_corder v =? match ls_corder l with Some c => c | None => 0 end) &&
      match val with
      | LHard a => (lk_type v =? 0) && (unle (lk_value v) =? a)
      | LSoft t => (lk_type v =? 1) && bytes_eqb (lk_value v) t
      | LExternal _ _ => true
      end
  end.

(* ReaderSpecType.dt_agree (classes 0, 1, 3: the flag fields; every class: class, size, version) *)
Definition dtype_ver (t : dtype) : N :=
  match t with
  | DFixed v _ _ _ _ _ _ _ | DFloat v _ _ _ _ _ _ _ _ _ _ _ _ | DTime v _ _ _ | DString v _ _ _
  | DBitfield v _ _ _ _ _ _ | DOpaque v _ _ | DCompound v _ _ | DReference v _ _ | DEnum v _ _ _
  | DVlen v _ _ _ _ _ | DArray v _ _ _ => v
  end.
Definition dt_agreeb (t : dtype) (v : datatype) : bool :=
  (dt_class v =? dtype_class t) && (dt_size v =? dtype_size t) && (dt_version v =? dtype_ver t) &&
  let c := dt_cbf v in
  match t with
  | DFixed _ _ order lopad hipad signed _ _ =>
      (bit c 0 =? order) && (bit c 1 =? lopad) && (bit c 2 =? hipad) && bool_eqb (N.testbit c 3) signed
  | DFloat _ _ order pads norm sign _ _ _ _ _ _ _ =>
      (bit c 0 + 2 * bit c 6 =? order) && (bits_of c 1 3 =? pads) && (bits_of c 4 2 =? norm) && (bits_of c 8 8 =? sign)
  | DString _ _ pad cset => (bits_of c 0 4 =? pad) && (bits_of c 4 4 =? cset)
  | _ => true
  end.

(* ReaderSpecAttrFrame.at_agree *)
Definition at_agreeb (a : attribute_spec) (v : attribute') : bool :=
  bytes_eqb (atp_name v) (as_name a) && ds_agreeb (as_space a) (atp_ds v) && dt_agreeb (as_dtype a) (atp_dt v) &&
  match atp_data v with
  | Some d => bytes_eqb (firstn (length (as_data a)) d) (as_data a)
  | None => (length (as_data a) =? 0)%nat
  end.

(* ReaderSpecSuperOk.sb_agree, plus the version 0 base address (refuted: the reader reports 0) *)
Definition sb_agreeb (s : superblock_spec) (v : superblock') : bool :=
  (spp_version v =? sbs_version s) && (spp_offsize v =? sbs_O s) && (spp_lensize v =? sbs_L s) &&
  negb (spp_bigendian v) && (spp_root v =? sbs_root s) &&
  match sbs_root_entry s with
  | Some e => if se_cache e =? 1 then (spp_rootbtree v =? se_btree e) && (spp_rootheap v =? se_heap e) else true
  | None => (spp_base v =? sbs_base s) && (spp_superext v =? sbs_ext s)
  end.

(* ReaderSpecInfo.ai_agree *)
Definition ai_agreeb (s : attrinfo_spec) (v : attrinfo) : bool :=
  (ai_version v =? 0) && (ai_flags v =? ais_flags s) &&
  (ai_maxcidx v =? match ais_maxcidx s with Some m => m | None => 0 end) &&
  (ai_heap v =? ais_heap s) && (ai_btname v =? ais_btname s) &&
  (ai_btorder v =? match ais_btorder s with Some b => b | None => 0 end).

(* filter pipeline: identifiers, flags and client data of every filter (the reader hands the name back cut at its first NUL) *)
Definition fl_agreeb (f : filter_spec) (r : rfilter) : bool :=
  (rf_id r =? fl_id f) && (rf_flags r =? fl_flags f) &&
  listN_eqb (match rf_cd r with Some c => c | None => [] end) (fl_cd f).
Definition pl_agreeb (fs : list filter_spec) (p : pipeline') : bool :=
  (pl_nfilters p =? N.of_nat (length fs)) &&
  (fix go (a : list filter_spec) (b : list rfilter) : bool :=
     match a, b with
     | [], [] => true
     | x :: a', y :: b' => fl_agreeb x y && go a' b'
     | _, _ => false
     end) fs (pl_filters p).

(* [sbr], [atr], [plr]: the variants of the three C06 repair switches (Model/CodecSuper.v superblock_sizes_repaired,
   Model/CodecAttr.v attribute_v2_unpadded, Model/CodecFilter.v pipeline_v2_names) that the source tree under test implements *)
Definition rs_code_gen (sbr atr plr : bool) (kind : N) (ctx : list N) (bs : bytes) : N :=
  match kind with
  | 1 => rs_outcome (spec_dec_superblock strict bs) (dec_superblock_gen sbr bs) (fun x v => sb_agreeb (fst (fst x)) v)
  | 5 => rs_outcome (spec_dec_dataspace (cn ctx 0) (cb ctx 1) bs) (dec_dataspace bs) ds_agreeb
  | 6 => rs_outcome (spec_dec_datatype strict (cb ctx 0) bs) (dec_datatype bs) (fun x v => dt_agreeb (fst x) v)
  | 7 => rs_outcome (spec_dec_layout (cn ctx 0) (cn ctx 1) true bs)
           (dec_layout {| sb_version := 0; sb_offsize := cx ctx 0; sb_lensize := cx ctx 1; sb_bigendian := false |} bs)
           ly_agreeb
  | 8 => rs_outcome (spec_dec_pipeline strict true bs) (dec_pipeline_gen plr bs) (fun x v => pl_agreeb (fst x) v)
  | 9 => rs_outcome (spec_dec_attribute strict (cn ctx 0) (cb ctx 1) bs) (dec_attribute_gen atr false bs)
           (fun x v => at_agreeb (fst x) v)
  | 10 => rs_outcome (spec_dec_attrinfo (cn ctx 0) false bs)
            (dec_attrinfo {| sb_version := 0; sb_offsize := cx ctx 0; sb_lensize := 8; sb_bigendian := false |} bs) ai_agreeb
  | 11 => rs_outcome (spec_dec_link strict (cn ctx 0) true bs) (dec_link (cx ctx 0) bs) (fun x v => lk_agreeb (fst x) v)
  | 12 => rs_outcome (spec_dec_symtab (cn ctx 0) (cb ctx 1) bs) (dec_symtab false bs) st_agreeb
  | _ => 0
  end.
Definition rs_code : N -> list N -> bytes -> N :=
  rs_code_gen superblock_sizes_repaired attribute_v2_unpadded pipeline_v2_names.

Definition rs_case := (N * list N * string)%type.
Definition rs_case_code_gen (sbr atr plr : bool) (c : rs_case) : N :=
  match c with (kind, ctx, hex) => rs_code_gen sbr atr plr kind ctx (unhex hex) end.
Definition rs_case_code (c : rs_case) : N := match c with (kind, ctx, hex) => rs_code kind ctx (unhex hex) end.
