(* C01: the byte image of the file that

     fw := CreateForWrite(file, CreateTruncate)            (superblock version 2: dataset_write.go:674)
     ds := fw.CreateDataset("/"+name, dtype, dims)         (contiguous layout: dataset_write.go:868)
     ds.Write(data)                                        (dataset_write.go:1282)
     fw.Close()                                            (dataset_write.go:2338)

   leaves behind, assembled from the byte-level encoder models of C11 at the addresses the writer's allocator hands out
   (internal/writer/allocator.go:118: a bump allocator without alignment, so the blocks are adjacent and the image is their
   concatenation).  Order of allocation (createRootGroupStructureV2, dataset_write.go:2766, then CreateDataset):

       0     superblock v2, 48 bytes                      (Model/CodecSuper.v enc_superblock; the end-of-file field and the
                                                           checksum are rewritten by Close: superblock.go:468 UpdateEndOfFile)
      48     local heap: 32-byte header + 256-byte segment (Model/GroupWire.v heap_image; after linkToParent: name NUL)
     336     symbol table node, 8 + 32*40 bytes            (snod_write_at; after linkToParent: one entry)
    1624     group B-tree node, 24 + 33*8 + 32*8 bytes     (bt_write_at; one key 0 / child 336)
    2168     root object header v2 with the symbol table message, 27 bytes (Model/CodecOhdr.v enc_ohdr_v2)
    2195     the dataset's raw data, |data| bytes
    2195+|data|  the dataset's object header v2 (datatype, dataspace, layout) in a reserved block of 7+255 bytes
    end      = the allocator's end of file; Close extends the file to it (dataset_write.go:2368), the reserve reads as zeros.

   The whole image is compared byte for byte with files written by the library on every run (tools/props/c01file.py).
   No proofs here (Proofs/FileImage*.v; theorems Props/C01File.v). *)
From HV Require Import Base.Prelude Base.Outcome Base.Bytes.
From HV Require Import Model.CodecSuper Model.CodecOhdr Model.CodecMsg Model.CodecType Model.CodecLink Model.GroupWire.

(* ------------------------------------------------------------------ generic: blocks placed one after the other *)

(* a file given as consecutive blocks; the address of a block is the total length of the blocks before it *)
Definition place_all (blocks : list bytes) : bytes := concat blocks.
Fixpoint block_addr (blocks : list bytes) (i : nat) : N :=
  match i, blocks with
  | S i', b :: r => blen b + block_addr r i'
  | _, _ => 0
  end.

(* ------------------------------------------------------------------ the datatypes of the basic registry entries *)

(* datasetRegistry (dataset_write.go:466): Int8..Int64 = (fixed, size, 0x08), Uint8..Uint64 = (fixed, size, 0), Float32/64 *)
Definition basic_dtype (class size cbf : N) : bool :=
  ((class =? DT_FIXED) && ((size =? 1) || (size =? 2) || (size =? 4) || (size =? 8)) && ((cbf =? 0) || (cbf =? 8)))
  || ((class =? DT_FLOAT) && ((size =? 4) || (size =? 8)) && (cbf =? 0)).
(* basicTypeHandler.EncodeDatatypeMessage (dataset_write.go:183) *)
Definition dtype_msg (class size cbf : N) : datatype :=
  {| dt_class := class; dt_version := 1; dt_size := size; dt_cbf := cbf; dt_props := [] |}.
(* the tie's names *)
Definition dtype_of_code (c : N) : N * N * N :=
  match c with
  | 0 => (DT_FIXED, 1, 8) | 1 => (DT_FIXED, 2, 8) | 2 => (DT_FIXED, 4, 8) | 3 => (DT_FIXED, 8, 8)
  | 4 => (DT_FIXED, 1, 0) | 5 => (DT_FIXED, 2, 0) | 6 => (DT_FIXED, 4, 0) | 7 => (DT_FIXED, 8, 0)
  | 8 => (DT_FLOAT, 4, 0) | _ => (DT_FLOAT, 8, 0)
  end.

(* calculateTotalElements (dataset_write.go:827): uint64 product *)
Definition total_elems (dims : list N) : N := fold_left (fun a d => wrap64 (a * d)) dims 1.

(* ------------------------------------------------------------------ addresses *)
Definition SBP : sbparams := {| sb_version := 2; sb_offsize := 8; sb_lensize := 8; sb_bigendian := false |}.
Definition HEAP_ADDR : N := 48.                                                        (* NewFileWriter(…, 48) *)
Definition SNOD_ADDR : N := HEAP_ADDR + heap_size (new_local_heap HEAP_INIT).          (* 336 *)
Definition BTREE_ADDR : N := SNOD_ADDR + snod_alloc_size 8.                            (* 1624 *)
Definition ROOT_ADDR : N := BTREE_ADDR + btree_alloc_size 8.                           (* 2168 *)

(* writeRootGroupHeader (dataset_write.go:2994) *)
Definition root_ohdr : ohdr :=
  {| oh_version := 2; oh_flags := 0; oh_refcount := 1;
     oh_msgs := [ {| hm_type := 17; hm_data := enc_symtab 8 {| st_btree := BTREE_ADDR; st_heap := HEAP_ADDR |} |} ] |}.
Definition DATA_ADDR : N := ROOT_ADDR + size_ohdr_v2 root_ohdr.                        (* 2195 *)
Definition OHDR_RESERVE : N := 7 + 255.                                               (* maxObjectHeaderV2Size *)

Section Image.
Variable name : bytes.            (* the link name, without the leading "/" *)
Variables class size cbf : N.     (* the registry entry of dtype *)
Variable dims : list N.
Variable data : bytes.            (* what Write hands to WriteAtAddress: the little-endian element bytes *)

Definition data_size : N := wrap64 (total_elems dims * size).                          (* dataset_write.go:917 *)
Definition dset_addr : N := DATA_ADDR + blen data.                                     (* Allocate(dataSize); Allocate(262) *)
Definition eof_addr : N := dset_addr + OHDR_RESERVE.

(* CreateDataset: datatype, dataspace, layout (dataset_write.go:959) *)
Definition dset_ohdr : ohdr :=
  {| oh_version := 2; oh_flags := 0; oh_refcount := 1;
     oh_msgs := [ {| hm_type := 3; hm_data := enc_datatype (dtype_msg class size cbf) |};
                  {| hm_type := 1; hm_data := enc_dataspace {| ds_dims := dims; ds_maxdims := [] |} |};
                  {| hm_type := 8; hm_data := enc_layout SBP (LContig data_size DATA_ADDR) |} ] |}.

(* the superblock as Close leaves it *)
Definition final_sb : superblock :=
  {| sp_version := 2; sp_offsize := 8; sp_lensize := 8; sp_base := 0; sp_root := ROOT_ADDR; sp_superext := 0;
     sp_rootbtree := BTREE_ADDR; sp_rootheap := HEAP_ADDR; sp_eof := eof_addr |}.

(* the root group's structures after linkToParent (group_write.go:309): the heap holds name NUL at offset 0, the node one entry *)
Definition final_heap : wheap := {| hw_strings := name ++ [0]; hw_dss := HEAP_INIT; hw_free := 1; hw_daddr := 0 |}.
Definition final_sym : sym := {| sy_name := 0; sy_obj := dset_addr; sy_cache := 0; sy_res := 0; sy_bt := 0; sy_heap := 0 |}.
Definition final_snode : snode := {| stn_version := 1; stn_num := 1; stn_entries := [final_sym]; stn_cap := SNOD_CAP |}.
Definition final_btnode : btnode :=
  {| btn_type := 0; btn_level := 0; btn_used := 1; btn_left := UNDEF; btn_right := UNDEF;
     btn_keys := [0]; btn_children := [SNOD_ADDR]; btn_cap := 2 * GROUP_K + 1 |}.

Definition snod_block : bytes := match snod_write_at final_snode 8 SNOD_CAP with Ok b => b | _ => [] end.
Definition dset_block : bytes :=
  enc_ohdr_v2 dset_ohdr ++ zeros (N.to_nat (OHDR_RESERVE - size_ohdr_v2 dset_ohdr)).

Definition blocks_v2 : list bytes :=
  [ enc_superblock final_sb;
    heap_image final_heap HEAP_ADDR;
    snod_block;
    bt_write_at final_btnode 8 GROUP_K;
    enc_ohdr_v2 root_ohdr;
    data;
    dset_block ].

Definition image_v2 : bytes := place_all blocks_v2.
End Image.

(* ------------------------------------------------------------------ the hypotheses of the theorems *)

(* a link name the writer accepts for the root group of a fresh file: non-empty, no NUL, no '/', bytes, fits the 256-byte heap *)
Definition link_name_ok (name : bytes) : bool :=
  negb (length name =? 0)%nat && forallb (fun b => negb (b =? 0) && negb (b =? 47)) name && bytes_ok name && (blen name <? 256).

(* rank 1..24 (the three messages must fit the 255-byte header chunk: 58 + 8*rank <= 255), extents > 0, uint64 *)
Definition dims_ok (dims : list N) : bool :=
  negb (length dims =? 0)%nat && (length dims <=? 24)%nat && forallb (fun d => (0 <? d) && (d <? 18446744073709551616)) dims.

(* ------------------------------------------------------------------ tie (tools/props/c01file.py) *)
Definition unhex_parts (l : list string) : bytes := concat (map unhex l).
Definition image_case_ok (c : list string * N * list N * list string * list string) : bool :=
  match c with
  | (name, code, dims, data, file) =>
      let '(class, size, cbf) := dtype_of_code code in
      bytes_eqb (image_v2 (unhex_parts name) class size cbf dims (unhex_parts data)) (unhex_parts file)
  end.
