(* C02 at byte level, DENSE attribute storage: the byte image of the file that

     fw := CreateForWrite(file, CreateTruncate, WithSuperblockVersion(2))
     ds := fw.CreateDataset("/"+name, dtype, dims)
     ds.Write(data)
     ds.WriteAttribute(a_1, v_1); ...; ds.WriteAttribute(a_n, v_n)       (pairwise distinct names, no deletes)
     fw.Close()

   leaves behind when the library has moved the attributes of the dataset to dense storage.

   What the writer does (attribute_write.go:211 writeAttribute, read back from the file on every call):
     * while fewer than MaxCompactAttributes = 8 attribute messages are in the header AND the next attribute message still fits
       the 255-byte header chunk (AddMessageToObjectHeader, objectheader_write.go:394), the attribute is appended to the header,
       which is rewritten in place (Model/FileImageAttr.v is the case of one such attribute): [compact_count] replays these
       decisions and gives the number k of leading attributes stored compactly;
     * the attribute number k+1 takes transitionToDenseAttributes (attribute_write.go:804; either from the dispatch at 8 compact
       attributes or from upsertAttributeMessage when the header is full): the k compact attributes are parsed back, re-encoded
       and inserted, followed by the new one, into a fresh fractal heap (NewWritableFractalHeap(65536)) and a fresh B-tree v2
       (NewWritableBTreeV2(4096)); DenseAttributeWriter.WriteToFile allocates, IN THIS ORDER (bump allocator, no alignment),
             fractal heap header  146 bytes      at the old end of file (= end of the dataset header's 262-byte reserve)
             direct block       65536 bytes
             B-tree v2 leaf      4096 bytes      (btreev2_write.go WriteToFile: the leaf first ...)
             B-tree v2 header      38 bytes      (... then the header)
       the header loses its attribute messages and gains the Attribute Info message (type 0x15, version 0, flags 0, the two
       addresses) and is rewritten in place: it is now SHORTER than the header with k attribute messages, whose tail stays
       behind in the reserve (WriteObjectHeader writes only the bytes of the new header);
     * every later attribute takes writeDenseAttribute (attribute_write.go:679): heap and index are loaded from the file, the
       message is appended to the direct block (heap id = [0 | offset:2 | length:3 | 0 0], of which the index keeps 7 bytes),
       a record (Jenkins lookup3 hash of the name, id) is inserted at its sorted position, and heap header + direct block and
       leaf + index header are rewritten in place (WriteAt); nothing is allocated any more.
   The final state of the four structures therefore depends on the attribute list only (objects in write order, records by
   insert_sorted in write order); k matters for the stale bytes behind the dataset header alone.

   The image is assembled from the encoder models of C11 / C14 / C15 (enc_ohdr_v2, enc_attribute, enc_attrinfo,
   FHeap.encode_header / encode_dblock, BT2.encode_header / encode_leaf) and compared byte for byte with files written by the
   library on every run (tools/props/c02file.py, kind "dense").  Faithfulness needs what the writer needs to succeed: pairwise
   distinct names and pairwise distinct name hashes (InsertRecord refuses a hash that is present: the colliding class is the
   known finding of C02), all messages fit the direct block (65517 usable bytes) and the leaf (371 records).
   No proofs here (Proofs/FileImageDense*.v; theorems Props/C02FileDense.v). *)
From HV Require Import Base.Prelude Base.Outcome Base.Bytes.
From HV Require Import Model.CodecSuper Model.CodecOhdr Model.CodecMsg Model.CodecType Model.CodecLink Model.GroupWire
  Model.CodecAttr Model.FileImage Model.FileImageAttr.
From HV Require Model.BT2 Model.FHeap.

(* one attribute: name, datatype message, dataspace extents, value bytes (the parameters of Model/FileImageAttr.v) *)
Definition dattr := (bytes * datatype * list N * bytes)%type.
Definition dattr_name (a : dattr) : bytes := fst (fst (fst a)).
Definition dattr_data (a : dattr) : bytes := snd a.
Definition dattr_msg (a : dattr) : attribute :=
  let '(aname, adt, adims, adata) := a in attr_msg aname adt adims adata.
(* EncodeAttributeFromStruct of the attribute *)
Definition dattr_bytes (a : dattr) : bytes := enc_attribute (dattr_msg a).

Definition HEAP_BLOCK : N := 65536.          (* NewWritableFractalHeap(64 * 1024) *)
Definition BT2_NODE : N := 4096.             (* NewWritableBTreeV2(4096) *)
Definition MAX_COMPACT : nat := 8.           (* MaxCompactAttributes, attribute_write.go:21 *)

(* heap ids in write order: the object at offset off of length n gets encodeHeapID(off, n), 8 bytes *)
Fixpoint heap_ids (off : N) (objs : list bytes) : list bytes :=
  match objs with
  | [] => []
  | m :: r => FHeap.encode_id 3 off (blen m) :: heap_ids (off + blen m) r
  end.

(* InsertRecord per attribute in write order: (jenkinsHash(name), first 7 bytes of the id) at the sorted position *)
Definition dense_rec (a : dattr) (id : bytes) : BT2.rec := (BT2.jenkins (dattr_name a), firstn 7 id).
Definition dense_recs (attrs : list dattr) : list BT2.rec :=
  fold_left BT2.insert_sorted (map (fun ai => dense_rec (fst ai) (snd ai)) (combine attrs (heap_ids 0 (map dattr_bytes attrs)))) [].

(* the listing order: the same insertion on (attribute, heap id) pairs - position of the first entry whose name hash is >= the new
   one (insertRecordSorted), written recursively.  dense_recs = the records of these pairs (Proofs/FileImageDense.v recs_of_pairs) *)
Definition pair_hash (p : dattr * bytes) : N := BT2.jenkins (dattr_name (fst p)).
Fixpoint ins_hash (l : list (dattr * bytes)) (x : dattr * bytes) : list (dattr * bytes) :=
  match l with
  | [] => [x]
  | y :: t => if pair_hash x <=? pair_hash y then x :: y :: t else y :: ins_hash t x
  end.
Definition dense_pairs (attrs : list dattr) : list (dattr * bytes) :=
  fold_left ins_hash (combine attrs (heap_ids 0 (map dattr_bytes attrs))) [].
(* the attributes in the order of the leaf records = the order in which the reader lists them: ascending name hash *)
Definition dense_order (attrs : list dattr) : list dattr := map fst (dense_pairs attrs).
(* an attribute as Dataset.Attributes lists it (Model/IOProgReader.v attr): name and value bytes *)
Definition listed (a : dattr) : bytes * bytes := (dattr_name a, dattr_data a).

Section ImageDense.
Variable name : bytes.            (* the link name, without the leading "/" *)
Variables class size cbf : N.     (* the registry entry of the dataset's dtype *)
Variable dims : list N.
Variable data : bytes.
Variable attrs : list dattr.      (* the attributes in the order of the WriteAttribute calls *)

(* ------------------------------------------------------------------ the compact phase *)
Definition base_msgs : list hmsg := oh_msgs (dset_ohdr class size cbf dims).
Definition amsg (a : dattr) : hmsg := {| hm_type := 12; hm_data := dattr_bytes a |}.

(* writeAttribute's dispatch replayed on the header's message list: the number of leading attributes that stay compact *)
Fixpoint compact_count (ms : list hmsg) (count : nat) (l : list dattr) : nat :=
  match l with
  | [] => count
  | a :: r => if (count <? MAX_COMPACT)%nat && (chunk_size_v2 (ms ++ [amsg a]) <=? 255)
              then compact_count (ms ++ [amsg a]) (S count) r else count
  end.
Definition n_compact : nat := compact_count base_msgs 0 attrs.
(* the transition has happened: not all attributes stayed compact *)
Definition dense_taken : bool := (n_compact <? length attrs)%nat.

(* the header as it was before the transition (k compact attribute messages), in its 262-byte reserve *)
Definition compact_ohdr : ohdr :=
  {| oh_version := 2; oh_flags := 0; oh_refcount := 1; oh_msgs := base_msgs ++ map amsg (firstn n_compact attrs) |}.
Definition compact_block : bytes :=
  enc_ohdr_v2 compact_ohdr ++ zeros (N.to_nat (OHDR_RESERVE - size_ohdr_v2 compact_ohdr)).

(* ------------------------------------------------------------------ addresses of the dense structures *)
Definition FH_ADDR : N := eof_addr data.                     (* the allocator's end of file before the transition *)
Definition DB_ADDR : N := FH_ADDR + FHeap.HDR_SIZE.
Definition LEAF_ADDR : N := DB_ADDR + HEAP_BLOCK.
Definition BTH_ADDR : N := LEAF_ADDR + BT2_NODE.
Definition eof_dense : N := BTH_ADDR + 38.

(* ------------------------------------------------------------------ the header after the transition *)
Definition dense_info : attrinfo :=
  {| ai_version := 0; ai_flags := 0; ai_heap := FH_ADDR; ai_btname := BTH_ADDR; ai_maxcidx := 0; ai_btorder := 0 |}.
Definition dense_ohdr : ohdr :=
  {| oh_version := 2; oh_flags := 0; oh_refcount := 1;
     oh_msgs := base_msgs ++ [ {| hm_type := 21; hm_data := enc_attrinfo SBP dense_info |} ] |}.
(* transitionToDenseAttributes refuses (before anything is allocated) a header that would not fit its chunk *)
Definition dense_fits : bool := chunk_size_v2 (oh_msgs dense_ohdr) <=? 255.
(* WriteObjectHeader over the old block: the new header, then what is left of the old one, then the untouched zeros *)
Definition dset_block_dense : bytes :=
  enc_ohdr_v2 dense_ohdr ++ skipn (length (enc_ohdr_v2 dense_ohdr)) compact_block.

(* ------------------------------------------------------------------ fractal heap: final state *)
Definition objs : list bytes := map dattr_bytes attrs.
Definition objs_total : N := blen (concat objs).
Definition final_dblock : FHeap.dblock := FHeap.mkDB FH_ADDR 0 HEAP_BLOCK (concat objs) objs_total.
Definition final_fheap : FHeap.heap :=
  FHeap.mkHeap (HEAP_BLOCK - objs_total) HEAP_BLOCK HEAP_BLOCK objs_total (N.of_nat (length attrs)) HEAP_BLOCK HEAP_BLOCK
               DB_ADDR 0 3 final_dblock None HEAP_BLOCK [] (Some (FH_ADDR, DB_ADDR)).
(* every insertion was accepted: the objects fit the usable part of the direct block (cap_new: 65536 - 19) *)
Definition heap_fits : bool :=
  (objs_total <=? FHeap.cap_new HEAP_BLOCK) && forallb (fun m => (0 <? blen m) && (blen m <=? FHeap.MAX_OBJ)) objs.

(* ------------------------------------------------------------------ B-tree v2 name index: final state *)
Definition final_recs : list BT2.rec := dense_recs attrs.
Definition final_bt2 : BT2.bt2 :=
  let n := N.of_nat (length attrs) in
  BT2.mkBT BT2_NODE (BT2.mkHdr 5 BT2_NODE 11 0 100 40 LEAF_ADDR n n) 5 final_recs final_recs BTH_ADDR LEAF_ADDR None.
Definition leaf_fits : bool := N.of_nat (length attrs) <=? BT2.max_records BT2_NODE.      (* 371 *)
(* the leaf node is allocated with the node size and written with its used length *)
Definition leaf_block : bytes :=
  let b := BT2.encode_leaf final_bt2 in b ++ zeros (N.to_nat (BT2_NODE - blen b)).

(* ------------------------------------------------------------------ the file *)
(* the superblock as Close leaves it: the end-of-file address is behind the B-tree v2 header *)
Definition final_sb_dense : superblock :=
  {| sp_version := 2; sp_offsize := 8; sp_lensize := 8; sp_base := 0; sp_root := ROOT_ADDR; sp_superext := 0;
     sp_rootbtree := BTREE_ADDR; sp_rootheap := HEAP_ADDR; sp_eof := eof_dense |}.
Definition blocks_v2_dense : list bytes :=
  [ enc_superblock final_sb_dense;
    heap_image (final_heap name) HEAP_ADDR;
    snod_block data;
    bt_write_at final_btnode 8 GROUP_K;
    enc_ohdr_v2 root_ohdr;
    data;
    dset_block_dense;
    FHeap.encode_header final_fheap;
    FHeap.encode_dblock final_dblock;
    leaf_block;
    BT2.encode_header 8 final_bt2 ].

Definition image_v2_dense : bytes := place_all blocks_v2_dense.
End ImageDense.

(* the names of the attributes, their hashes *)
Definition dattr_names (attrs : list dattr) : list bytes := map dattr_name attrs.
Definition dattr_hashes (attrs : list dattr) : list N := map (fun a => BT2.jenkins (dattr_name a)) attrs.

(* ------------------------------------------------------------------ tie (tools/props/c02file.py, kind "dense") *)
(* an attribute of the tie: (name, kind, raw value bytes) -> attr_of_kind *)
Definition dattr_of_case (a : list string * N * list string) : dattr :=
  let '(aname, akind, aval) := a in
  let '(adt, adims, adata) := attr_of_kind akind (unhex_parts aval) in (unhex_parts aname, adt, adims, adata).
(* the file travels as pieces: hex strings and runs of zero bytes (as in Model/RefWalkTie.v) *)
Inductive piece : Type := PH (s : string) | PZ (n : N).
Definition piece_bytes (p : piece) : bytes := match p with PH s => unhex s | PZ n => repeat 0 (N.to_nat n) end.
Definition pieces_bytes (l : list piece) : bytes := concat (map piece_bytes l).
Definition image_dense_case_ok
  (c : list string * N * list N * list string * list (list string * N * list string) * list piece) : bool :=
  match c with
  | (name, code, dims, data, attrs, file) =>
      let '(class, size, cbf) := dtype_of_code code in
      bytes_eqb (image_v2_dense (unhex_parts name) class size cbf dims (unhex_parts data) (map dattr_of_case attrs))
                (pieces_bytes file)
  end.
