(* C11 codec models, group 3: attribute message (version 3 writer, versions 1-3 reader).
   Transcription of internal/core/messages_write.go EncodeAttributeMessage and
   internal/core/attribute.go ParseAttributeMessage.  No proofs here (Proofs/CodecAttr.v). *)
From HV Require Import Base.Prelude Base.Outcome Base.Bytes Model.CodecMsg Model.CodecType.

(* arguments of EncodeAttributeMessage(name, datatype, dataspace, data) *)
Record attribute := { at_name : bytes; at_dt : datatype; at_ds : dataspace; at_data : bytes }.
(* *Attribute returned by the parser; Data nil = None *)
Record attribute' := { atp_name : bytes; atp_dt : datatype; atp_ds : dataspace'; atp_data : option bytes }.

Definition MaxAttributeSize : N := 67108864.

(* the name must leave room for the terminator in the 16-bit size field (checked since /repo df71171;
   before it a 65535-byte name made the encoder index out of range) *)
Definition encok_attribute (x : attribute) : bool :=
  negb (length (at_name x) =? 0)%nat && (blen (at_name x) <? 65535) &&
  encok_datatype (at_dt x) && encok_dataspace (at_ds x).

(* The three size fields are uint16(len(..)); the buffer is sized with the truncated name size, so the
   model is faithful for len(name)+1 < 65536 (beyond that the Go encoder indexes out of range). *)
Definition enc_attribute (x : attribute) : bytes :=
  let dtb := enc_datatype (at_dt x) in
  let dsb := enc_dataspace (at_ds x) in
  [3; 0] ++ le 2 (wrap16 (blen (at_name x) + 1)) ++ le 2 (wrap16 (blen dtb)) ++ le 2 (wrap16 (blen dsb))
  ++ [0] ++ at_name x ++ [0] ++ dtb ++ dsb ++ at_data x.

Definition size_attribute (x : attribute) : N :=
  9 + (blen (at_name x) + 1) + size_datatype (at_dt x) + size_dataspace (at_ds x) + blen (at_data x).

Definition wf_attribute (x : attribute) : bool :=
  encok_attribute x && (blen (at_name x) <=? 65534) &&
  wf_datatype (at_dt x) && (size_datatype (at_dt x) <? 65536) &&
  wf_dataspace (at_ds x) && (blen (at_data x) <=? MaxAttributeSize).

Definition rd16 (data : bytes) (off : N) (bigendian : bool) : outcome N :=
  if bigendian then rd_be data off 2 else rd_le data off 2.

(* alignTo8 := func(size uint16) int { return int((size + 7) & ^uint16(7)) } *)
Definition align8_u16 (s : N) : N := N.land (wrap16 (s + 7)) 65528.

(* Switch for the repair notes/fixes/c06-attribute-v2-padding.patch (property C06, Props/C06Reader.v):
   [false] = the code before it: name / datatype / dataspace are padded to multiples of 8 bytes in attribute message
             versions 1 AND 2 (`if version < 3`);
   [true]  = the repaired code: version 1 only (`if version < 2`), as the format specification and H5Oattr.c have it; and an
             attribute of version 2 / 3 whose flags announce a shared datatype or dataspace is an error (with the correct
             framing such a message would otherwise be decoded, its shared message reference taken for a description).
   [dec_attribute] is the variant of [attribute_v2_unpadded]; the ties of C11 / C07 read from the source tree under test which
   variant it implements (tools/props/c06switch.py) and compare with dec_attribute_gen of that variant. *)
Definition attribute_v2_unpadded : bool := true.

Definition dec_attribute_gen (repaired : bool) (bigendian : bool) (data : bytes) : outcome attribute' :=
  if blen data <? 8 then Err else
  version <- index data 0;;
  flags <- index data 1;;
  (* repaired code: versions 2 and 3 with a shared datatype (flag bit 0) or dataspace (bit 1) are refused - the field holds a
     shared message reference, not a description *)
  if repaired && (2 <=? version) && negb (N.land flags 3 =? 0) then Err else
  nameSize <- rd16 data 2 bigendian;;
  dtSize <- rd16 data 4 bigendian;;
  dsSize <- rd16 data 6 bigendian;;
  let offset := if 3 <=? version then 9 else 8 in
  if blen data <? offset + nameSize then Err else
  name <- (if 0 <? nameSize then slice data offset (offset + nameSize - 1) else Ok []);;
  let adv (s : N) := if (if repaired then version <? 2 else version <? 3) then align8_u16 s else s in
  let offset := offset + adv nameSize in
  if blen data <? offset + dtSize then Err else
  dtd <- slice data offset (offset + dtSize);;
  dt <- dec_datatype dtd;;
  let offset := offset + adv dtSize in
  if blen data <? offset + dsSize then Err else
  dsd <- slice data offset (offset + dsSize);;
  ds <- dec_dataspace dsd;;
  let offset := offset + adv dsSize in
  if offset <? blen data then
    if MaxAttributeSize <? blen data - offset then Err else
    d <- slice_from data offset;;
    Ok {| atp_name := name; atp_dt := dt; atp_ds := ds; atp_data := Some d |}
  else
    Ok {| atp_name := name; atp_dt := dt; atp_ds := ds; atp_data := None |}.

Definition dec_attribute (bigendian : bool) (data : bytes) : outcome attribute' :=
  dec_attribute_gen attribute_v2_unpadded bigendian data.

Definition proj_attribute (x : attribute) : attribute' :=
  {| atp_name := at_name x; atp_dt := proj_datatype (at_dt x); atp_ds := proj_dataspace (at_ds x);
     atp_data := match at_data x with [] => None | d => Some d end |}.

Definition val_attribute' (a : attribute') : val :=
  VL [VB (atp_name a); val_datatype (atp_dt a); val_dataspace' (atp_ds a); vopt VB (atp_data a)].
