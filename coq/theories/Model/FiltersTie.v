(* Executable predicates evaluated by the correspondence check of C08 on implementation outputs.
   deflate is outside the model: these predicates are only applied to deflate-free stages. *)
From HV Require Import Base.Prelude Model.Filters.

Definition id_deflate (l : N) (x : bytes) : bytes := x.
Definition id_inflate (x : bytes) : option bytes := Some x.

(* (kind, parameter): 2 = shuffle esz, 3 = fletcher32, 4 = lzf *)
Definition mkf (p : N * N) : filter :=
  if fst p =? 1 then FDeflate (snd p) else if fst p =? 2 then FShuffle (snd p)
  else if fst p =? 3 then FFletcher else FLzf.

(* implementation result classes: 0 error, 1 value, 2 panic *)
Definition out_eq (o : outcome bytes) (code : N) (b : bytes) : bool :=
  match o with
  | Ok y => (code =? 1) && bytes_eqb y b
  | Err => code =? 0
  | Panic => code =? 2
  | OutOfFuel => false
  end.

(* case = (filter, input hex, result class, result hex) *)
Definition case := (N * N * string * N * string)%type.
Definition stage_ok (c : case) : bool :=
  let '(k, p, i, code, o) := c in out_eq (apply1 id_deflate (mkf (k, p)) (unhex i)) code (unhex o).
Definition wremove_ok (c : case) : bool :=
  let '(k, p, i, code, o) := c in out_eq (remove1 id_inflate (mkf (k, p)) (unhex i)) code (unhex o).
Definition rstep_ok (c : case) : bool :=
  let '(k, p, i, code, o) := c in out_eq (reader_step id_inflate (descr1 (mkf (k, p))) (unhex i)) code (unhex o).

(* one accepted stage checked in all three directions on the same strings:
   Apply in = out, writer Remove out = in, reader step out = in;  a refused stage: Apply in = Err *)
Definition stage3_ok (c : case) : bool :=
  let '(k, p, i, code, o) := c in
  stage_ok c && ((negb (code =? 1)) || (wremove_ok (k, p, o, 1, i) && rstep_ok (k, p, o, 1, i))).
(* a stored chunk through both decoders *)
Definition decode2_ok (c : case) : bool := wremove_ok c && rstep_ok c.

(* description message: writer's bytes for a filter list *)
Definition msg_ok (c : list (N * N) * string) : bool :=
  match encode_msg (descr (map mkf (fst c))) with
  | Ok m => bytes_eqb m (unhex (snd c))
  | _ => false
  end.

(* parsed filter as reported by the implementation: id, name length, flags, count, name hex, values *)
Definition gdesc := (N * N * N * N * string * list N)%type.
Definition desc_eqb (d : fdesc) (g : gdesc) : bool :=
  let '(id, nl, fl, ncd, nm, cd) := g in
  (fid d =? id) && (fnamelen d =? nl) && (fflags d =? fl) && (fncd d =? ncd)
  && bytes_eqb (fname d) (unhex nm) && list_eqb N.eqb (fcd d) cd.

Fixpoint list_eqb2 {A B} (eqb : A -> B -> bool) (a : list A) (b : list B) : bool :=
  match a, b with
  | [], [] => true
  | x :: a', y :: b' => eqb x y && list_eqb2 eqb a' b'
  | _, _ => false
  end.

(* case = (message hex, result class, version, count, filters) *)
Definition parse_ok_gen (rep : bool) (c : string * N * N * N * list gdesc) : bool :=
  let '(m, code, ver, nf, gs) := c in
  match parse_msg_gen rep (unhex m) with
  | Ok (v, n, ds) => (code =? 1) && (v =? ver) && (n =? nf) && list_eqb2 desc_eqb ds gs
  | Err => code =? 0
  | _ => false
  end.

Definition parse_ok := parse_ok_gen filters_v2_names.

(* reader on arbitrary message + chunk (deflate-free): (message hex, chunk hex, class, result hex) *)
Definition read_ok_gen (rep : bool) (c : string * string * N * string) : bool :=
  let '(m, d, code, o) := c in
  match parse_msg_gen rep (unhex m) with
  | Ok (_, _, ds) => out_eq (reader_apply id_inflate ds (unhex d)) code (unhex o)
  | _ => false
  end.
Definition read_ok := read_ok_gen filters_v2_names.
