(* Executable predicates evaluated by the C03 unit tie (tools/props/c03unit.py) on the outputs of the
   real Go code (harness subcommand c03unit).  No proofs here. *)
From HV Require Import Base.Prelude Model.GroupNS.

(* ---------------------------------------------------------------- mode "struct" *)
(* one write/load cycle: heap.WriteTo + node.WriteAt(..,32,..); with reload LoadLocalHeap (reads
   DataSegmentSize bytes) + PrepareForModification + ParseSymbolTableNode *)
Definition struct_cycle (reload : bool) (h : wheap) (n : wsnod) : wheap * wsnod * bytes * list entry :=
  let '(h1, seg) := write_to h in
  let data := firstn (N.to_nat (wh_dss h)) seg in
  let ents := snod_write_at n 32 in
  if reload then (prepare_for_modification data, parse_snod 32 ents, data, ents)
  else (h1, n, data, ents).

Fixpoint struct_run (k : N) (reload : bool) (i : N) (names : list bytes) (h : wheap) (n : wsnod)
  : list (N * bool * bool) * wheap * wsnod :=
  match names with
  | [] => ([], h, n)
  | nm :: r =>
    let '(st, h1, n1) :=
      match add_string h nm with
      | None => ((0, true, false), h, n)
      | Some (off, h') =>
        match add_entry n {| e_off := off; e_obj := i + 1 |} with
        | None => ((off, false, true), h', n)
        | Some n' => ((off, false, false), h', n')
        end
      end in
    let '(h2, n2) :=
      if (0 <? k) && ((i + 1) mod k =? 0)
      then let '(h', n', _, _) := struct_cycle reload h1 n1 in (h', n') else (h1, n1) in
    let '(sts, h3, n3) := struct_run k reload (i + 1) r h2 n2 in
    (st :: sts, h3, n3)
  end.

Definition opt_bytes_eqb (a b : option bytes) : bool :=
  match a, b with Some x, Some y => bytes_eqb x y | None, None => true | _, _ => false end.
Definition step_eqb (a b : N * bool * bool) : bool :=
  let '(o1, h1, s1) := a in let '(o2, h2, s2) := b in (o1 =? o2) && Bool.eqb h1 h2 && Bool.eqb s1 s2.
Definition entry_eqb (e : entry) (x : N * N) : bool := (e_off e =? fst x) && (e_obj e =? snd x).
Fixpoint list_eqb2 {A B} (f : A -> B -> bool) (a : list A) (b : list B) : bool :=
  match a, b with [] , [] => true | x :: a', y :: b' => f x y && list_eqb2 f a' b' | _, _ => false end.

(* the implementation's answers: dss after NewLocalHeap, per-name (offset, heap error, node error),
   final data segment, final entries, GetString per entry *)
Definition struct_ok (cap scap k : N) (reload : bool) (names : list bytes)
           (g_dss : N) (g_steps : list (N * bool * bool)) (g_data : bytes) (g_entries : list (N * N))
           (g_names : list (option bytes)) : bool :=
  let h0 := new_local_heap cap in
  let '(sts, h, n) := struct_run k reload 0 names h0 (new_snod scap) in
  let '(_, _, data, ents) := struct_cycle true h n in
  (wh_dss h0 =? g_dss) && list_eqb step_eqb sts g_steps && bytes_eqb data g_data
  && list_eqb2 entry_eqb ents g_entries
  && list_eqb2 opt_bytes_eqb (map (name_of data) ents) g_names.

(* ---------------------------------------------------------------- mode "link" *)
Inductive uop := UOp (o : op) | ULink (parent : path) (nm : name) (child : N).
Definition ustep (c : cfg) (w : wstate) (u : uop) : wstate * result :=
  match u with
  | UOp o => step c w o
  | ULink p n ch => let '(w', r) := link_to_parent c w p n ch in (tick w', r)
  end.

Definition group_eqb (w : wstate) (x : N * bytes * list (N * N)) : bool :=
  let '(g, data, ents) := x in
  match alookup g (heaps w), alookup g (snods w) with
  | Some seg, Some es => bytes_eqb seg data && list_eqb2 entry_eqb es ents
  | _, _ => false
  end.
Definition rc_eqb (w : wstate) (x : N * N) : bool :=
  match alookup (fst x) (objects w) with Some o => refcount o =? snd x | None => false end.

(* g_ok: ok/err per call; g_groups: every registered group (model id, data segment, entries with
   addresses renamed to model ids by the Python side); g_rc: reference counts as re-read *)
Definition link_ok (c : cfg) (ops : list uop) (g_ok : list bool) (g_groups : list (N * bytes * list (N * N)))
           (g_rc : list (N * N)) : bool :=
  let '(w, rs) := run (ustep c) (init c) ops in
  list_eqb Bool.eqb (map is_ok rs) g_ok && forallb (group_eqb w) g_groups && forallb (rc_eqb w) g_rc.

(* what the model itself says about the persistent namespace structures across a failing call *)
Definition same_structs (w w' : wstate) : bool :=
  forallb (fun x => match alookup (fst x) (heaps w') with Some s => bytes_eqb s (snd x) | None => false end) (heaps w)
  && forallb (fun x => match alookup (fst x) (snods w') with
                       | Some s => list_eqb2 entry_eqb s (map (fun e => (e_off e, e_obj e)) (snd x)) | None => false end) (snods w).

(* ---------------------------------------------------------------- the reader (link mode with "reopen") *)
(* File.Walk: path of a child = path of its group + name (+ "/" when the child is a group) *)
Definition kind_code (k : kind) : N := match k with KGroup => 0 | KData => 1 | KSoft => 2 end.
Definition tree_is_group (t : tree) : bool := match t with TNode _ KGroup _ => true | _ => false end.
Fixpoint flatten (p : bytes) (t : tree) : list (bytes * N * N) :=
  match t with
  | TNode id k ch =>
      (p, kind_code k, id) ::
      (fix go (l : list (name * tree)) : list (bytes * N * N) :=
         match l with
         | [] => []
         | (n, c1) :: r => flatten (p ++ n ++ (if tree_is_group c1 then [SL] else [])) c1 ++ go r
         end) ch
  end.
Definition walk_eqb (a b : bytes * N * N) : bool :=
  let '(p1, k1, i1) := a in let '(p2, k2, i2) := b in bytes_eqb p1 p2 && (k1 =? k2) && (i1 =? i2).
(* g_walk = None: Open failed *)
Definition read_ok (c : cfg) (ops : list uop) (g_walk : option (list (bytes * N * N))) : bool :=
  let '(w, _) := run (ustep c) (init c) ops in
  match read_tree c w, g_walk with
  | Some t, Some l => list_eqb walk_eqb (flatten [SL] t) l
  | None, None => true
  | _, _ => false
  end.
